import KG.Model.Identity
import KG.Spec.Identity
import KG.Lemmas.Identity
/-!
# C02 — identity propagation: the upstream acts as exactly the authenticated user

The model `KG.Model.Identity.serve` is one request through the gateway (server-side header parsing, authentication
filter, impersonation filter, gateway credential, `WrapRequest`, transport validation, the wire, the upstream's parser).
The specification `KG.Spec.Identity` is written on the RAW client header lines with case-insensitive names.

* `c02_escape_roundtrip`, `c02_escape_legal`, `c02_legal_table_is_token_table`: `headerKeyEscape`.
* `c02_extra_key_decoded`: a kube-apiserver decodes exactly the key from an extra's header name, for every byte string.
* `c02_answered_not_forwarded`: a header line the server refuses, an unauthenticated client, a malformed or a denied
  impersonation is answered by the gateway (400 / 401 / 500 / 403) and not forwarded.
* `c02_forwarded_only_as_expected`: whatever is forwarded is forwarded for the identity the specification names:
  the authenticated user when no impersonation is requested, the requested identity when every derived check is allowed.
* `c02_no_client_identity_header`: under every identity bearing name, the upstream receives exactly what the gateway
  generates from that identity and its own token — for every client header set.
* `c02_identity_decoded` (what the wire does to values), `c02_forwarded_values_survive`, `c02_identity_exact` /
  `c02_full_exactness` (FULL strength, no hypothesis: forwarded ⇒ the upstream reconstructs exactly the identity),
  `c02_not_carried_refused`, `c02_not_carried_never_reaches_upstream` (an identity a header cannot carry is answered 502
  by the gateway and not forwarded).
* `c02_judge_model`: the judge the harness applies to the implementation accepts the model, for every request.
-/
namespace KG.Props.C02
open KG KG.Model.Identity KG.Spec.Identity KG.Lemmas.Identity

/-! ## headerKeyEscape -/

/-- `url.PathUnescape(headerKeyEscape(k)) = k` for every byte string -/
theorem c02_escape_roundtrip (k : Str) : pathUnescape (headerKeyEscape k) = some k := escape_roundtrip k

/-- the table of dynamic_impersonate.go (regenerated from the source) is exactly net/http's token table -/
theorem c02_legal_table_is_token_table (b : UInt8) : legalHeaderByte b = isTokenByte b := legal_eq_token b

/-- every byte of an escaped key is a legal header-name byte, and the header it travels under is a name net/http accepts -/
theorem c02_escape_legal (k : Str) :
    (headerKeyEscape k).all legalHeaderByte = true ∧ validName (hImpExtraPrefix ++ headerKeyEscape k) = true := by
  have h := escape_token k
  constructor
  · simp only [List.all_eq_true] at h ⊢
    intro b hb; rw [legal_eq_token]; exact h b hb
  · have h1 : hImpExtraPrefix.all isTokenByte = true := by decide
    have h2 : (hImpExtraPrefix ++ headerKeyEscape k).isEmpty = false := by simp [hImpExtraPrefix]
    simp [validName, List.all_append, h1, h, h2]

/-- A kube-apiserver decodes `unescapeExtraKey(ToLower(name[len(prefix):]))` from the (canonicalised) name an extra key
    travels under: exactly the key, for EVERY byte string (upper-case letters travel %-escaped, so `ToLower` only touches
    hexadecimal digits and letters that were lower-case already). -/
theorem c02_extra_key_decoded (k : Str) :
    unescapeExtraKey (toLower ((canonicalKey (hImpExtraPrefix ++ headerKeyEscape k)).drop hImpExtraPrefix.length)) = k :=
  extra_key_decoded k

/-! ## answered by the gateway, not forwarded -/

/-- When the specification says "answered with status s" (a header line the server refuses: 400; not authenticated:
    401; groups or extras without a user: 500; some derived impersonation request not allowed — denied, no opinion or
    authorizer error: 403), the gateway answers exactly that and nothing is forwarded. -/
theorem c02_answered_not_forwarded (token : Str) (raw : List (Str × Str)) (auth : Option Identity)
    (az : Attrs → Decision) (up : Bool) (s : Nat) (h : expectedFor raw auth az = .answered s) :
    (s = 400 ∧ serveWith token raw auth az up = .badRequest) ∨ (s = 401 ∧ serveWith token raw auth az up = .unauthorized) ∨
    (s = 500 ∧ serveWith token raw auth az up = .internalError) ∨ (s = 403 ∧ serveWith token raw auth az up = .forbidden) := by
  simp only [expectedFor] at h
  by_cases hv : rawValid raw = true
  · have hv' : raw.all (fun l => validName l.1 && validValue l.2) = true := hv
    simp only [hv', Bool.not_true, Bool.false_eq_true, if_false] at h
    cases auth with
    | none =>
      simp only [Expect.answered.injEq] at h
      exact Or.inr (Or.inl ⟨h.symm, by simp [serveWith, parse_eq, hv]⟩)
    | some u =>
      simp only [expected] at h
      by_cases hr : impersonationRequested raw = true
      · by_cases hm : malformed raw = true
        · simp only [hr, hm, Bool.not_true, Bool.false_eq_true, if_false, if_true, Expect.answered.injEq] at h
          exact Or.inr (Or.inr (Or.inl ⟨h.symm, by simp [serveWith, parse_eq, hv, impersonate_spec raw hv, hr, hm]⟩))
        · by_cases ha : allAllowed az raw = true
          · simp [hr, hm, ha] at h
          · simp only [hr, hm, ha, Bool.not_true, Bool.false_eq_true, if_false, Expect.answered.injEq] at h
            exact Or.inr (Or.inr (Or.inr ⟨h.symm, by simp [serveWith, parse_eq, hv, impersonate_spec raw hv, hr, hm, ha]⟩))
      · simp [hr] at h
  · have hv' : raw.all (fun l => validName l.1 && validValue l.2) = false := by simpa [rawValid] using hv
    simp only [hv', Bool.not_false, if_true, Expect.answered.injEq] at h
    exact Or.inl ⟨h.symm, by simp [serveWith, parse_eq, hv]⟩

/-- corollary in the form of the property statement -/
theorem c02_denied_or_malformed_never_reaches_upstream (token : Str) (raw : List (Str × Str)) (auth : Option Identity)
    (az : Attrs → Decision) (up : Bool) (s : Nat) (h : expectedFor raw auth az = .answered s) :
    ∀ recv ctx, serveWith token raw auth az up ≠ .forwarded recv ctx := by
  intro recv ctx hf
  rcases c02_answered_not_forwarded token raw auth az up s h with ⟨_, h'⟩ | ⟨_, h'⟩ | ⟨_, h'⟩ | ⟨_, h'⟩ <;>
    rw [h'] at hf <;> cases hf

/-! ## forwarded: for whom, with which headers, decoded as what -/

/-- A request is forwarded only for the identity the specification names: the authenticated user when the client's
    lines (in any casing) ask for no impersonation, the requested identity when every derived check was allowed. -/
theorem c02_forwarded_only_as_expected (token : Str) (raw : List (Str × Str)) (auth : Option Identity)
    (az : Attrs → Decision) (up : Bool) (recv : Headers) (ctx : Identity)
    (h : serveWith token raw auth az up = .forwarded recv ctx) : expectedFor raw auth az = .forward ctx := by
  obtain ⟨u, h1, hv, rfl, he, _⟩ := serve_forwarded token raw auth az up recv ctx h
  have hv' : raw.all (fun l => validName l.1 && validValue l.2) = true := hv
  simp [expectedFor, hv', he]

/-- the two readings spelled out -/
theorem c02_forwarded_identity (token : Str) (raw : List (Str × Str)) (u : Identity)
    (az : Attrs → Decision) (up : Bool) (recv : Headers) (ctx : Identity)
    (h : serveWith token raw (some u) az up = .forwarded recv ctx) :
    (impersonationRequested raw = false ∧ ctx = u) ∨
    (impersonationRequested raw = true ∧ malformed raw = false ∧ allAllowed az raw = true ∧ ctx = requestedIdentity raw) := by
  obtain ⟨u', h1, hv, hu, he, _⟩ := serve_forwarded token raw (some u) az up recv ctx h
  cases hu
  simp only [expected] at he
  by_cases hr : impersonationRequested raw = true
  · by_cases hm : malformed raw = true
    · simp [hr, hm] at he
    · by_cases ha : allAllowed az raw = true
      · simp only [hr, hm, ha, Bool.not_true, Bool.false_eq_true, if_false, if_true, Expect.forward.injEq] at he
        exact Or.inr ⟨hr, by simpa using hm, ha, he.symm⟩
      · simp [hr, hm, ha] at he
  · simp only [hr, Bool.not_false, if_true, Expect.forward.injEq] at he
    exact Or.inl ⟨by simpa using hr, he.symm⟩

/-- **Forwarded ⇒ the cluster's policy allows exactly the required records.** The records are computed from the client's
    header lines alone (`requiredRecords`: users and groups cluster-scoped, a service account in its own namespace, an extra
    as `userextras/<key>` in `authentication.k8s.io`); an impersonation is forwarded only if the policy allows every one of
    THOSE records, whatever the policy says about records with another namespace, group or subresource. -/
theorem c02_forwarded_requires_policy (token : Str) (raw : List (Str × Str)) (u : Identity)
    (az : Attrs → Decision) (up : Bool) (recv : Headers) (ctx : Identity)
    (h : serveWith token raw (some u) az up = .forwarded recv ctx) (hr : impersonationRequested raw = true) :
    ∀ a ∈ requiredRecords raw, (az a).allowed = true := by
  rcases c02_forwarded_identity token raw u az up recv ctx h with ⟨h', _⟩ | ⟨_, _, ha, _⟩
  · rw [hr] at h'; cases h'
  · simpa [allAllowed] using ha

/-- **No client identity header is forwarded.** For every client header set (any names, casings, duplicates, values),
    every authenticated identity and every authorizer: under every identity bearing name (`Authorization`, anything
    starting with `Impersonate-`) the upstream receives exactly the values the gateway itself generates from the
    context user and its own token (`gatewayHeaders`, which does not depend on the client's headers). -/
theorem c02_no_client_identity_header (token : Str) (raw : List (Str × Str)) (auth : Option Identity)
    (az : Attrs → Decision) (up : Bool) (recv : Headers) (ctx : Identity)
    (h : serveWith token raw auth az up = .forwarded recv ctx) (n : Str) (hn : isIdentityName n = true) :
    values recv n = values (sendOver up (gatewayHeaders token up ctx)) n := by
  obtain ⟨u, h1, _, _, _, I1, I2, I3, _, rfl⟩ := serve_forwarded token raw auth az up recv ctx h
  exact wrap_values token up h1 ctx I1 I2 I3 n hn

/-- in particular the client's `Authorization` never arrives: only the gateway's bearer token (nothing on the upgrade path) -/
theorem c02_authorization (token : Str) (raw : List (Str × Str)) (auth : Option Identity)
    (az : Attrs → Decision) (up : Bool) (recv : Headers) (ctx : Identity)
    (h : serveWith token raw auth az up = .forwarded recv ctx) :
    values recv hAuthorization = if up then [] else [carried up (bearerPrefix ++ token)] := by
  rw [c02_no_client_identity_header token raw auth az up recv ctx h hAuthorization (by decide), gatewayHeaders_eq,
    sendOver_append, values_append, ← send_gwEntries, values_send_gw_authorization]
  cases up <;> simp [sendOver_eq, values, canonicalKey_hAuthorization]

/-- What arrives, as a function of the wire alone (kept because it does not depend on `WrapRequest`'s value check): the
    context user with every value as the wire carries it (`carried`); names of extra keys (arbitrary bytes) untouched.
    `c02_identity_exact` removes `carried`. -/
theorem c02_identity_decoded (token : Str) (raw : List (Str × Str)) (auth : Option Identity)
    (az : Attrs → Decision) (up : Bool) (recv : Headers) (ctx : Identity)
    (h : serveWith token raw auth az up = .forwarded recv ctx) :
    (decodeIdentity recv).name = carried up ctx.name ∧
    (decodeIdentity recv).groups = ctx.groups.map (carried up) ∧
    ∀ k, values (decodeIdentity recv).extra k = values (ctx.extra.map (fun e => (e.1, e.2.map (carried up)))) k := by
  obtain ⟨u, h1, _, _, _, I1, I2, I3, _, rfl⟩ := serve_forwarded token raw auth az up recv ctx h
  obtain ⟨hn, hg, he⟩ := decode_wrapped token up h1 ctx I1 I2 I3
  refine ⟨?_, hg, he⟩
  simp only [decodeIdentity, hget]
  rw [hn]; rfl

/-- `WrapRequest` forwards only identities whose every value survives a header field (`checkImpersonationValues`) -/
theorem c02_forwarded_values_survive (token : Str) (raw : List (Str × Str)) (auth : Option Identity)
    (az : Attrs → Decision) (up : Bool) (recv : Headers) (ctx : Identity)
    (h : serveWith token raw auth az up = .forwarded recv ctx) : checkImpersonationValues ctx = true := by
  obtain ⟨_, _, _, _, _, _, _, _, hk, _⟩ := serve_forwarded token raw auth az up recv ctx h
  exact hk

/-- **Identity exactness, full strength.** Whatever is forwarded — for every authenticated identity (arbitrary bytes in
    names, groups, extra keys and values), every client header set, every policy, both paths — the upstream reconstructs
    EXACTLY the identity to act as: the name, the groups in order, and for every extra key the values in order. -/
theorem c02_identity_exact (token : Str) (raw : List (Str × Str)) (auth : Option Identity)
    (az : Attrs → Decision) (up : Bool) (recv : Headers) (ctx : Identity)
    (h : serveWith token raw auth az up = .forwarded recv ctx) :
    (decodeIdentity recv).name = ctx.name ∧ (decodeIdentity recv).groups = ctx.groups ∧
    ∀ k, values (decodeIdentity recv).extra k = values ctx.extra k := by
  obtain ⟨hn, hg, he⟩ := c02_identity_decoded token raw auth az up recv ctx h
  have hc := check_valuesCarried up ctx (c02_forwarded_values_survive token raw auth az up recv ctx h)
  have h1 := carryIdentity_id up ctx hc
  have h1n : carried up ctx.name = ctx.name := by have := congrArg Identity.name h1; simpa [carryIdentity] using this
  have h1g : ctx.groups.map (carried up) = ctx.groups := by have := congrArg Identity.groups h1; simpa [carryIdentity] using this
  have h1e : ctx.extra.map (fun e => (e.1, e.2.map (carried up))) = ctx.extra := by
    have := congrArg Identity.extra h1; simpa [carryIdentity] using this
  refine ⟨by rw [hn, h1n], by rw [hg, h1g], ?_⟩
  intro k
  rw [he k, h1e]

/-- **Not carried ⇒ terminated by the gateway.** When the specification says "forward as `id`" but `id` has a name, group
    or extra value a header field cannot carry (white space at an end, control byte), the gateway answers itself (502 on
    both paths: `RoundTrip` / `DialForUpgrade` return `WrapRequest`'s error) and nothing reaches the upstream. -/
theorem c02_not_carried_refused (token : Str) (raw : List (Str × Str)) (auth : Option Identity)
    (az : Attrs → Decision) (up : Bool) (id : Identity) (he : expectedFor raw auth az = .forward id)
    (hc : checkImpersonationValues id = false) : serveWith token raw auth az up = .valueRefused := by
  simp only [expectedFor] at he
  by_cases hv : rawValid raw = true
  · have hv' : raw.all (fun l => validName l.1 && validValue l.2) = true := hv
    simp only [hv', Bool.not_true, Bool.false_eq_true, if_false] at he
    cases auth with
    | none => simp at he
    | some u =>
      simp only at he
      rcases serve_spec token raw u az up hv with ⟨s, hs, _⟩ | ⟨ctx, h1, hx, _, I2, I3, hs⟩
      · rw [hs] at he; cases he
      · rw [hx] at he
        cases he
        rw [hs, deliver_eq token up h1 _ I2 I3, hc]
        simp
  · have hv' : raw.all (fun l => validName l.1 && validValue l.2) = false := by simpa [rawValid] using hv
    simp [hv'] at he

/-- … in the words of the wire: an identity with a value that would not arrive as it is (`valuesCarried` false) is never forwarded -/
theorem c02_not_carried_never_reaches_upstream (token : Str) (raw : List (Str × Str)) (auth : Option Identity)
    (az : Attrs → Decision) (up : Bool) (recv : Headers) (ctx : Identity) (hc : valuesCarried up ctx = false) :
    serveWith token raw auth az up ≠ .forwarded recv ctx := by
  intro h
  have := check_valuesCarried up ctx (c02_forwarded_values_survive token raw auth az up recv ctx h)
  rw [hc] at this
  cases this

/-! ## the judge accepts the model -/

/-- For EVERY request the judge the harness applies to the implementation accepts the model's output: no forwarded denial,
    no foreign `Authorization`, no client `Impersonate-*` header, no other identity, no lost extra-key case, no altered value. -/
theorem c02_judge_model (token : Str) (raw : List (Str × Str)) (auth : Option Identity)
    (az : Attrs → Decision) (up : Bool) :
    judge token up (expectedFor raw auth az) (upstreamOf (serveWith token raw auth az up)) = [] := by
  cases hs : serveWith token raw auth az up with
  | forwarded recv ctx =>
    have he := c02_forwarded_only_as_expected token raw auth az up recv ctx hs
    simp only [upstreamOf, he, judge, List.flatMap_cons, List.flatMap_nil, List.append_nil]
    have hA := c02_no_client_identity_header token raw auth az up recv ctx hs hAuthorization (by decide)
    have hN : namesAgree (recv.filter (fun e => hasPrefix e.1 hImpPrefix))
        ((sendOver up (gatewayHeaders token up ctx)).filter (fun e => hasPrefix e.1 hImpPrefix)) = true := by
      simp only [namesAgree, List.all_eq_true, List.mem_append, List.mem_filter]
      intro e he'
      have hp : hasPrefix e.1 hImpPrefix = true := by rcases he' with h | h <;> exact h.2
      have hid : isIdentityName e.1 = true := by simp [isIdentityName, hp]
      have hv := c02_no_client_identity_header token raw auth az up recv ctx hs e.1 hid
      have k1 := values_filter_keep recv (fun e => hasPrefix e.1 hImpPrefix) e.1 (fun x _ hx => by simpa [hx] using hp)
      have k2 := values_filter_keep (sendOver up (gatewayHeaders token up ctx)) (fun e => hasPrefix e.1 hImpPrefix) e.1
        (fun x _ hx => by simpa [hx] using hp)
      rw [k1, k2, hv]
      simp
    obtain ⟨hn, hg, hxx⟩ := c02_identity_exact token raw auth az up recv ctx hs
    have hI : identityAgree (decodeIdentity recv) ctx = true := by
      simp only [identityAgree, Bool.and_eq_true, beq_iff_eq]
      exact ⟨⟨hn, hg⟩, multimapAgree_of_values _ _ hxx⟩
    simp [judgeForward, hA, hN, hI]
  | badRequest | unauthorized | internalError | forbidden | transportRefused | valueRefused | upstreamRefused =>
    simp only [upstreamOf, judge]
    split <;> simp

/-- **Non-interference.** Two requests forwarded for the same identity deliver the same values under every identity
    bearing name, whatever else the two clients sent. -/
theorem c02_client_headers_do_not_matter (token : Str) (raw₁ raw₂ : List (Str × Str)) (auth₁ auth₂ : Option Identity)
    (az₁ az₂ : Attrs → Decision) (up : Bool) (recv₁ recv₂ : Headers) (ctx : Identity)
    (h₁ : serveWith token raw₁ auth₁ az₁ up = .forwarded recv₁ ctx) (h₂ : serveWith token raw₂ auth₂ az₂ up = .forwarded recv₂ ctx)
    (n : Str) (hn : isIdentityName n = true) : values recv₁ n = values recv₂ n := by
  rw [c02_no_client_identity_header token raw₁ auth₁ az₁ up recv₁ ctx h₁ n hn,
    c02_no_client_identity_header token raw₂ auth₂ az₂ up recv₂ ctx h₂ n hn]

/-! ## the judge only looks at identity bearing headers (the harness records only those) -/

/-- judging the identity bearing part of what was received = judging everything that was received -/
theorem c02_judge_identity_part (token : Str) (up : Bool) (id : Identity) (recv : Headers) :
    judgeForward token up id (recv.filter (fun e => isIdentityName e.1)) = judgeForward token up id recv := by
  have h1 : (recv.filter (fun e => isIdentityName e.1)).filter (fun e => hasPrefix e.1 hImpPrefix) =
      recv.filter (fun e => hasPrefix e.1 hImpPrefix) := by
    rw [List.filter_filter]
    congr 1
    funext e
    by_cases hp : hasPrefix e.1 hImpPrefix = true
    · simp [hp, imp_isIdentityName hp]
    · simp [hp]
  have h2 : ∀ (q : Str × List Str → Bool),
      (recv.filter (fun e => isIdentityName e.1)).any (fun e => hasPrefix e.1 hImpPrefix && q e) =
      recv.any (fun e => hasPrefix e.1 hImpPrefix && q e) := by
    intro q
    rw [List.any_filter]
    congr 1
    funext e
    by_cases hp : hasPrefix e.1 hImpPrefix = true
    · simp [hp, imp_isIdentityName hp]
    · simp [hp]
  have h3 : decodeIdentity (recv.filter (fun e => isIdentityName e.1)) = decodeIdentity recv := by
    simp only [decodeIdentity, hget, values_identityPart recv hImpUser (by decide),
      values_identityPart recv hImpGroup (by decide), decodeExtras_identityPart]
  simp only [judgeForward, values_identityPart recv hAuthorization (by decide), h1, h2, h3]

/-! ## constants of the examples -/

/-- alice, [system:authenticated] -/
def exAlice : Identity := ⟨[97, 108, 105, 99, 101], [[115, 121, 115, 116, 101, 109, 58, 97, 117, 116, 104, 101, 110, 116, 105, 99, 97, 116, 101, 100]], []⟩
/-- "gateway-token" -/
def exToken : Str := [103, 97, 116, 101, 119, 97, 121, 45, 116, 111, 107, 101, 110]
def recvOf (o : Outcome) : Headers := match o with | .forwarded r _ => r | _ => []

/-! ## the shipped wiring: the decision used is the TARGET CLUSTER's, for every requestor

`serve` is `serveWith` with the authorizer `AuthorizerConfig.New` builds (`wiredFor`): every theorem above holds for it (they
hold for any authorizer function). What follows is about WHOSE decision lets an impersonation through. `policy` is what the
target cluster answers to a SubjectAccessReview about a record. -/

/-- **No requestor-dependent bypass.** For EVERY requestor `u` (any user name — `system:admin`, `kube-apiserver` … —, any
    groups — `system:masters`, `system:authenticated`, `system:unauthenticated` … —, any extras) and every record: the wired
    authorizer allows only what the target cluster's policy allows (about the record as the SubjectAccessReview carries it);
    and unless the review cannot even be sent for this requestor (then: error, refused) it IS the cluster's answer. -/
theorem c02_wired_decision_is_the_clusters (u : Identity) (policy : Attrs → Decision) (a : Attrs) :
    ((wiredAuthorizer u policy a).allowed = true → (policy (jsonAttrs a)).allowed = true) ∧
    ((wrapRequest [] u).isSome = true → wiredAuthorizer u policy a = policy (jsonAttrs a)) := by
  refine ⟨wired_allowed, ?_⟩
  intro h
  simp only [wiredAuthorizer]
  cases hw : wrapRequest [] u with
  | none => rw [hw] at h; cases h
  | some x => simp

/-- Forwarded impersonation ⇒ the TARGET CLUSTER allowed every required record (as JSON carries it), whoever asks. -/
theorem c02_forwarded_requires_cluster (token : Str) (raw : List (Str × Str)) (u : Identity)
    (policy : Attrs → Decision) (up : Bool) (recv : Headers) (ctx : Identity)
    (h : serve token raw (some u) policy up = .forwarded recv ctx) (hr : impersonationRequested raw = true) :
    ∀ a ∈ requiredRecords raw, (policy (jsonAttrs a)).allowed = true := by
  intro a ha
  exact wired_allowed (c02_forwarded_requires_policy token raw u (wiredAuthorizer u policy) up recv ctx h hr a ha)

/-- The property at full strength: forwarded impersonation ⇒ the cluster's policy allows every EXACT required record. -/
def C02ClusterPolicyRespected : Prop :=
  ∀ (token : Str) (raw : List (Str × Str)) (u : Identity) (policy : Attrs → Decision) (up : Bool) (recv : Headers)
    (ctx : Identity), serve token raw (some u) policy up = .forwarded recv ctx → impersonationRequested raw = true →
    ∀ a ∈ requiredRecords raw, (policy a).allowed = true

/-- … proved since /repo 4b75a77 (an impersonation with a name that is not valid UTF-8 is malformed: 500, not forwarded; the
    records of a well-formed one are exactly what the SubjectAccessReview carries), for EVERY requestor and every policy -/
theorem c02_cluster_policy_respected : C02ClusterPolicyRespected := by
  intro token raw u policy up recv ctx h hr a ha
  have := c02_forwarded_requires_cluster token raw u policy up recv ctx h hr a ha
  rcases c02_forwarded_identity token raw u (wiredAuthorizer u policy) up recv ctx h with ⟨h', _⟩ | ⟨_, hm, _, _⟩
  · rw [hr] at h'; cases h'
  · have hc := wellformed_recordsCarried raw hr hm
    simp only [recordsCarried, List.all_eq_true, beq_iff_eq] at hc
    rwa [hc a ha] at this

/-- What the cluster's policy refuses (asked about the exact required records) is answered by the gateway and never
    forwarded — for every requestor; so is every malformed impersonation (incl. names that are not valid UTF-8). -/
theorem c02_cluster_refusal_not_forwarded (token : Str) (raw : List (Str × Str)) (auth : Option Identity)
    (policy : Attrs → Decision) (up : Bool) (s : Nat) (h : expectedFor raw auth policy = .answered s) :
    ∀ recv ctx, serve token raw auth policy up ≠ .forwarded recv ctx := by
  rcases expectedFor_cases raw auth with ⟨e, he⟩ | ⟨u, rfl, _, hr, hm, he⟩
  · have : expectedFor raw auth (wiredFor auth policy) = .answered s := by rw [he, ← he policy, h]
    exact c02_denied_or_malformed_never_reaches_upstream token raw auth (wiredFor auth policy) up s this
  · have hc := wellformed_recordsCarried raw hr hm
    rw [he policy] at h
    have hp : allAllowed policy raw = false := by
      cases hx : allAllowed policy raw with
      | false => rfl
      | true => rw [hx] at h; cases h
    have hw : allAllowed (wiredAuthorizer u policy) raw = false := by
      cases hx : allAllowed (wiredAuthorizer u policy) raw with
      | false => rfl
      | true => rw [← allAllowed_carried hc, allAllowed_wired hx] at hp; cases hp
    have : expectedFor raw (some u) (wiredFor (some u) policy) = .answered 403 := by
      rw [he]; simp [wiredFor, hw]
    exact c02_denied_or_malformed_never_reaches_upstream token raw (some u) (wiredFor (some u) policy) up 403 this

/-- For EVERY request the judge the harness applies (against the cluster's own answers on the exact records, whoever the
    requestor is) accepts the model's output. -/
theorem c02_judge_cluster_model (token : Str) (raw : List (Str × Str)) (auth : Option Identity)
    (policy : Attrs → Decision) (up : Bool) :
    judgeCluster token up raw auth policy (upstreamOf (serve token raw auth policy up)) = [] := by
  cases hs : serve token raw auth policy up with
  | forwarded recv ctx =>
    have he := c02_forwarded_only_as_expected token raw auth (wiredFor auth policy) up recv ctx hs
    have hj : judgeForward token up ctx recv = [] := by
      have := c02_judge_model token raw auth (wiredFor auth policy) up
      have hs' : serveWith token raw auth (wiredFor auth policy) up = .forwarded recv ctx := hs
      simpa [hs', upstreamOf, he, judge] using this
    cases hp : expectedFor raw auth policy with
    | answered s => exact absurd hs (c02_cluster_refusal_not_forwarded token raw auth policy up s hp recv ctx)
    | forward id =>
      have hid : id = ctx := by
        rcases expectedFor_cases raw auth with ⟨e, hE⟩ | ⟨u, rfl, _, _, _, hE⟩
        · rw [hE] at he hp; rw [he] at hp; cases hp; rfl
        · rw [hE] at he hp
          split at he <;> split at hp <;> simp_all
      subst hid
      simp [judgeCluster, hp, upstreamOf, hj]
  | badRequest | unauthorized | internalError | forbidden | transportRefused | valueRefused | upstreamRefused =>
    simp only [judgeCluster, upstreamOf]
    split <;> simp

/-- the witness of the repaired defect C02-record-not-utf8 is malformed now: `Impersonate-User: \xff\xfe` is answered 500 -/
example : serve exToken [([73, 109, 112, 101, 114, 115, 111, 110, 97, 116, 101, 45, 85, 115, 101, 114], [255, 254])] (some exAlice)
      (fun a => if a.name = [255, 254] then .deny else .allow) false = .internalError ∧
    expectedFor [([73, 109, 112, 101, 114, 115, 111, 110, 97, 116, 101, 45, 85, 115, 101, 114], [255, 254])] (some exAlice) (fun _ => .allow) = .answered 500 := by decide +kernel

/-- a requestor in `system:masters` named `system:admin` is treated like everybody else: the cluster denies acting as
    `bob`, the gateway answers 403 -/
example : serve exToken [([73, 109, 112, 101, 114, 115, 111, 110, 97, 116, 101, 45, 85, 115, 101, 114], [98, 111, 98])]
    (some ⟨[115, 121, 115, 116, 101, 109, 58, 97, 100, 109, 105, 110], [[115, 121, 115, 116, 101, 109, 58, 109, 97, 115, 116, 101, 114, 115], [115, 121, 115, 116, 101, 109, 58, 97, 117, 116, 104, 101, 110, 116, 105, 99, 97, 116, 101, 100]], []⟩)
    (fun a => if a.name = [98, 111, 98] then .deny else .allow) false = .forbidden := by decide +kernel

/-! ## regenerated facts -/

/-- `impersonateHeaderPrefix` (regenerated) is the family prefix of the three header names the filter knows -/
theorem c02_prefix_covers_family :
    hasPrefix hImpUser hImpPrefix = true ∧ hasPrefix hImpGroup hImpPrefix = true ∧ hasPrefix hImpExtraPrefix hImpPrefix = true := by
  decide

/-- order of the filters in `buildProxyHandlerChainFunc` (regenerated; first = innermost): the dispatcher is wrapped by
    the impersonation filter, which is wrapped by authentication — the order `serve` composes them in -/
theorem c02_chain_order :
    KG.Gen.C02.proxyChain.idxOf "WithDispatcher" < KG.Gen.C02.proxyChain.idxOf "WithNoLoggingImpersonation" ∧
    KG.Gen.C02.proxyChain.idxOf "WithNoLoggingImpersonation" < KG.Gen.C02.proxyChain.idxOf "WithAuthentication" ∧
    KG.Gen.C02.proxyChain.idxOf "WithAuthentication" < KG.Gen.C02.proxyChain.length := by
  decide

/-- the authorizer wiring (regenerated shape facts; what `wiredAuthorizer` takes for granted): `AuthorizerConfig.New` builds the
    authorizer from the multi-cluster SubjectAccessReview constructor and NOTHING else (no union, no privileged group, no
    always-allow); `ApplyTo` stores exactly that in `genericConfig.Authorization.Authorizer`; the impersonation filter is handed
    exactly that; `CreateProxyConfig` wires it with the cluster manager the handler chain routes with -/
theorem c02_authorizer_wiring :
    KG.Gen.C02.authorizerConstructors = ["authrizationwebhook.NewMultiClusterSubjectAccessReviewAuthorizer"] ∧
    KG.Gen.C02.authorizationApplyTo = ["cfg := o.ToAuthorizationConfig(clientProvider)", "authorizer, _, err := cfg.New()",
      "genericConfig.Authorization.Authorizer = authorizer"] ∧
    KG.Gen.C02.filterAuthorizer = "c.Authorization.Authorizer" ∧
    KG.Gen.C02.proxyAuthorizationApply = "o.Authorization.ApplyTo(&recommendedConfig.Config, clusterController)" ∧
    KG.Gen.C02.chainClusterManager = "clusterController" := by
  decide

/-- `buildImpersonationRequests` requires exactly the three string fields of every reference to be valid UTF-8 (regenerated):
    what `refUTF8` checks (`Namespace` and `Name` of a service account, `Name` of a user or group, `FieldPath` = key and `Name` =
    value of an extra) -/
theorem c02_utf8_fields : KG.Gen.C02.impersonationUTF8Fields = ["FieldPath", "Name", "Namespace"] := by decide

/-! ## non-vacuity (byte strings spelled out; evaluated by the kernel) -/

/-- `authorization: Bearer client`, `IMPERSONATE-user: bob`, `impersonate-GROUP: dev`, `Impersonate-Extra-a%2fb: v`,
    `impersonate-uid: 0` -/
def exRaw : List (Str × Str) := [([97, 117, 116, 104, 111, 114, 105, 122, 97, 116, 105, 111, 110], [66, 101, 97, 114, 101, 114, 32, 99, 108, 105, 101, 110, 116]), ([73, 77, 80, 69, 82, 83, 79, 78, 65, 84, 69, 45, 117, 115, 101, 114], [98, 111, 98]),
  ([105, 109, 112, 101, 114, 115, 111, 110, 97, 116, 101, 45, 71, 82, 79, 85, 80], [100, 101, 118]), ([73, 109, 112, 101, 114, 115, 111, 110, 97, 116, 101, 45, 69, 120, 116, 114, 97, 45, 97, 37, 50, 102, 98], [118]), ([105, 109, 112, 101, 114, 115, 111, 110, 97, 116, 101, 45, 117, 105, 100], [48])]
/-- bob, [dev, system:authenticated], a/b = [v] -/
def exBob : Identity := ⟨[98, 111, 98], [[100, 101, 118], [115, 121, 115, 116, 101, 109, 58, 97, 117, 116, 104, 101, 110, 116, 105, 99, 97, 116, 101, 100]], [([97, 47, 98], [[118]])]⟩
/-- a policy that denies the record `groups/dev` (cluster-scoped) and allows everything else -/
def exDenyDev : Attrs → Decision := fun a => if a = recordOf (.group [100, 101, 118]) then .deny else .allow

/-- an allowed impersonation sent with mixed casings, the client's own `Authorization` and a stray `impersonate-uid`:
    forwarded as bob, with the gateway's token only, without `Impersonate-Uid`, decoded exactly -/
example : (match serveWith exToken exRaw (some exAlice) (fun _ => .allow) false with
    | .forwarded recv ctx => decide (ctx = exBob ∧ values recv hAuthorization = [[66, 101, 97, 114, 101, 114, 32, 103, 97, 116, 101, 119, 97, 121, 45, 116, 111, 107, 101, 110]] ∧
        values recv [73, 109, 112, 101, 114, 115, 111, 110, 97, 116, 101, 45, 85, 105, 100] = [] ∧ decodeIdentity recv = exBob)
    | _ => false) = true := by decide +kernel

/-- the hypotheses of `c02_identity_exact` / `c02_judge_model_exact` hold for it -/
example : expectedFor exRaw (some exAlice) (fun _ => .allow) = .forward exBob ∧
    checkImpersonationValues exBob = true := by decide +kernel

/-- the same request with the group check denied: the specification says 403, the gateway answers 403 -/
example : serveWith exToken exRaw (some exAlice) exDenyDev false = .forbidden ∧
    expectedFor exRaw (some exAlice) exDenyDev = .answered 403 := by decide +kernel

/-- a policy like a namespaced RoleBinding: `impersonate` on groups allowed only INSIDE namespace `ns1`, everything about
    service accounts allowed -/
def exNamespacedPolicy : Attrs → Decision := fun a =>
  if a.resource = resServiceAccounts then .allow
  else if a.resource = resGroups ∧ a.ns = [110, 115, 49] then .allow else .deny

/-- service account `ns1:sa1` plus group `system:masters` under that policy: the required record `groups/system:masters`
    is cluster-scoped (namespace ""), the policy does not allow it: 403, not forwarded -/
example :
    let raw := [([73, 109, 112, 101, 114, 115, 111, 110, 97, 116, 101, 45, 85, 115, 101, 114], [115, 121, 115, 116, 101, 109, 58, 115, 101, 114, 118, 105, 99, 101, 97, 99, 99, 111, 117, 110, 116, 58, 110, 115, 49, 58, 115, 97, 49]), ([73, 109, 112, 101, 114, 115, 111, 110, 97, 116, 101, 45, 71, 114, 111, 117, 112], [115, 121, 115, 116, 101, 109, 58, 109, 97, 115, 116, 101, 114, 115])]
    requiredRecords raw = [⟨[], resServiceAccounts, [], [110, 115, 49], [115, 97, 49]⟩, ⟨[], resGroups, [], [], [115, 121, 115, 116, 101, 109, 58, 109, 97, 115, 116, 101, 114, 115]⟩] ∧
    expectedFor raw (some exAlice) exNamespacedPolicy = .answered 403 ∧
    serveWith exToken raw (some exAlice) exNamespacedPolicy false = .forbidden := by decide +kernel

/-- groups without a user: 500 -/
example : serveWith exToken [([105, 109, 112, 101, 114, 115, 111, 110, 97, 116, 101, 45, 103, 114, 111, 117, 112], [100, 101, 118])] (some exAlice) (fun _ => .allow) false = .internalError ∧
    expectedFor [([105, 109, 112, 101, 114, 115, 111, 110, 97, 116, 101, 45, 103, 114, 111, 117, 112], [100, 101, 118])] (some exAlice) (fun _ => .allow) = .answered 500 := by decide +kernel

/-- no impersonation requested (only a stray `IMPERSONATE-FOO` and the client's token): forwarded as alice -/
example : (match serveWith exToken [([73, 77, 80, 69, 82, 83, 79, 78, 65, 84, 69, 45, 70, 79, 79], [120]), ([65, 117, 116, 104, 111, 114, 105, 122, 97, 116, 105, 111, 110], [66, 101, 97, 114, 101, 114, 32, 99, 108, 105, 101, 110, 116])] (some exAlice) (fun _ => .deny) true with
    | .forwarded recv ctx => decide (ctx = exAlice ∧ values recv hAuthorization = [] ∧
        values recv [73, 109, 112, 101, 114, 115, 111, 110, 97, 116, 101, 45, 70, 111, 111] = [] ∧ decodeIdentity recv = exAlice)
    | _ => false) = true := by decide +kernel

/-- an authenticated extra key `Scopes` is decoded as `Scopes` (repaired defect C02-extra-key-case) -/
example : (match serveWith exToken [] (some ⟨[97, 108, 105, 99, 101], [[103]], [([83, 99, 111, 112, 101, 115], [[118, 105, 101, 119]])]⟩) (fun _ => .allow) false with
    | .forwarded recv _ => decide (decodeIdentity recv = ⟨[97, 108, 105, 99, 101], [[103]], [([83, 99, 111, 112, 101, 115], [[118, 105, 101, 119]])]⟩)
    | _ => false) = true := by decide +kernel

/-- the witnesses of the repaired defect C02-value-not-carried are refused on both paths: group `" g"`, name `"alice "`,
    group `"dev\nops"` on the upgrade path; the specification says "forward", the hypothesis of `c02_not_carried_refused` holds -/
example : serveWith exToken [] (some ⟨[97, 108, 105, 99, 101], [[32, 103]], []⟩) (fun _ => .allow) false = .valueRefused ∧
    serveWith exToken [] (some ⟨[97, 108, 105, 99, 101, 32], [], []⟩) (fun _ => .allow) false = .valueRefused ∧
    serveWith exToken [] (some ⟨[97, 108, 105, 99, 101], [[100, 101, 118, 10, 111, 112, 115]], []⟩) (fun _ => .allow) true = .valueRefused ∧
    expectedFor [] (some ⟨[97, 108, 105, 99, 101], [[32, 103]], []⟩) (fun _ => .allow) = .forward ⟨[97, 108, 105, 99, 101], [[32, 103]], []⟩ ∧
    checkImpersonationValues ⟨[97, 108, 105, 99, 101], [[32, 103]], []⟩ = false := by decide +kernel

/-- a client's `Impersonate-Extra-%41bc` is authorised as `Abc`, travels as `%41bc` again and is decoded as `Abc` -/
example : (match serveWith exToken [([73, 109, 112, 101, 114, 115, 111, 110, 97, 116, 101, 45, 85, 115, 101, 114], [98, 111, 98]), ([73, 109, 112, 101, 114, 115, 111, 110, 97, 116, 101, 45, 69, 120, 116, 114, 97, 45, 37, 52, 49, 98, 99], [118])] (some exAlice) (fun _ => .allow) false with
    | .forwarded recv ctx => decide (ctx.extra = [([65, 98, 99], [[118]])] ∧ (decodeIdentity recv).extra = [([65, 98, 99], [[118]])] ∧
        values recv [73, 109, 112, 101, 114, 115, 111, 110, 97, 116, 101, 45, 69, 120, 116, 114, 97, 45, 37, 52, 49, 98, 99] = [[118]])
    | _ => false) = true := by decide +kernel

/-! ## the full statement (AGENT_GUIDE §6): proved since /repo 68497bd

Both recorded deviations were repaired (`findings/C02-extra-key-case` by 0231ee3, `findings/C02-value-not-carried` by
68497bd); the refutations and the partial theorem are gone, the full statement is a theorem. -/

/-- The property at full strength: whatever is forwarded, the upstream reconstructs EXACTLY the identity to act as,
    for every identity (arbitrary bytes in names, groups, extra keys and values). -/
def C02FullExactness : Prop :=
  ∀ (token : Str) (raw : List (Str × Str)) (auth : Option Identity) (az : Attrs → Decision) (up : Bool)
    (recv : Headers) (ctx : Identity), serveWith token raw auth az up = .forwarded recv ctx →
    (decodeIdentity recv).name = ctx.name ∧ (decodeIdentity recv).groups = ctx.groups ∧
    ∀ k, values (decodeIdentity recv).extra k = values ctx.extra k

theorem c02_full_exactness : C02FullExactness :=
  fun token raw auth az up recv ctx h => c02_identity_exact token raw auth az up recv ctx h

end KG.Props.C02
