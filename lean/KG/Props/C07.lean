import KG.Model.Alloc
/-!
# C07 — Global allocation: quotas never exceed the global limit and are never < 1

All theorems are about `KG.Model.Alloc` in exact (`Rat`) arithmetic. The quota answered to a report is
`next = ⌈tailPre x m c r T⌉` where `c` is the reporter's current quota, `r = T − A` the remaining capacity
(`A` the recorded sum, `T` the global limit) and `x`, `m` are ARBITRARY rationals standing for whatever the
strategy arithmetic and the percent floor computed — so every statement holds independently of that arithmetic
(and of its float rounding; the tail itself only compares, adds two integers and takes a ceiling).
-/
namespace KG.Props.C07
open KG.Model.Alloc

theorem tailPre_ge_one (x m c r T : Rat) : 1 ≤ tailPre x m c r T := by
  simp only [tailPre, QArith.lt, QArith.sub, QArith.add, QArith.ofInt]
  split <;> split <;> split <;> split <;> simp_all <;> grind

theorem tailPre_upper (x m c r T : Rat) :
    tailPre x m c r T = 1 ∨ (tailPre x m c r T ≤ c + r ∧ tailPre x m c r T ≤ T) := by
  simp only [tailPre, QArith.lt, QArith.sub, QArith.add, QArith.ofInt]
  split <;> split <;> split <;> split <;> simp_all <;> grind

/-- the answered quota, as the integer written into the reply -/
def next (x m : Rat) (c r T : Int) : Int := (tailPre x m (c : Rat) (r : Rat) (T : Rat)).ceil

/-- every quota answered is at least 1 -/
theorem c07_min_one (x m : Rat) (c r T : Int) : 1 ≤ next x m c r T := by
  unfold next
  have h := tailPre_ge_one x m c r T
  have h2 : ((1 : Int) : Rat) ≤ ((tailPre x m (c : Rat) (r : Rat) (T : Rat)).ceil : Rat) :=
    Rat.le_trans (by simpa using h) Rat.le_ceil
  exact Rat.intCast_le_intCast.1 h2

/-- **tail lemma**: the answer is the minimum 1, or it is within both `c + r` and `T` -/
theorem c07_tail (x m : Rat) (c r T : Int) :
    next x m c r T = 1 ∨ (next x m c r T ≤ c + r ∧ next x m c r T ≤ T) := by
  unfold next
  rcases tailPre_upper x m c r T with h | ⟨h1, h2⟩
  · left; rw [h]; exact Rat.ceil_intCast 1
  · right
    constructor
    · rw [Rat.ceil_le_iff]; simpa using h1
    · rw [Rat.ceil_le_iff]; exact h2

/-- **range**: every quota answered is at least 1 and at most the global limit (`T ≥ 1`) -/
theorem c07_range (x m : Rat) (c r T : Int) (hT : 1 ≤ T) :
    1 ≤ next x m c r T ∧ next x m c r T ≤ T := by
  refine ⟨c07_min_one x m c r T, ?_⟩
  rcases c07_tail x m c r T with h | ⟨_, h⟩
  · omega
  · exact h

/-- **sum safety**: if the recorded sum `A` is at most the limit, then after replacing the reporter's quota `c`
    by the answer the recorded sum is still at most the limit — an instance held at the minimum 1 aside -/
theorem c07_sum_safe (x m : Rat) (c A T : Int) (_hA : A ≤ T) :
    next x m c (T - A) T = 1 ∨ A - c + next x m c (T - A) T ≤ T := by
  rcases c07_tail x m c (T - A) T with h | ⟨h, _⟩
  · exact Or.inl h
  · right; omega

/-- **no growth when over-committed**: if the recorded sum exceeds the limit (e.g. the limit was lowered), the
    answer is below the reporter's quota, or is the minimum 1 -/
theorem c07_no_growth (x m : Rat) (c A T : Int) (hA : T < A) :
    next x m c (T - A) T = 1 ∨ next x m c (T - A) T < c := by
  rcases c07_tail x m c (T - A) T with h | ⟨h, _⟩
  · exact Or.inl h
  · right; omega

/-- when over-committed the reporter gives back at least the whole over-commitment, or drops to 1 -/
theorem c07_gives_back (x m : Rat) (c A T : Int) :
    next x m c (T - A) T = 1 ∨ next x m c (T - A) T ≤ c - (A - T) := by
  rcases c07_tail x m c (T - A) T with h | ⟨h, _⟩
  · exact Or.inl h
  · right; omega

/-! ## token-bucket burst: scaled with the quota, never above the global burst -/

/-- `burst' = ⌈next / T · B⌉` -/
def burst (n T B : Int) : Int := (((n : Rat) / (T : Rat)) * (B : Rat)).ceil

private theorem div_le_div_right {a b t : Rat} (h : a ≤ b) (ht : 0 < t) : a / t ≤ b / t := by
  rw [Rat.div_def, Rat.div_def]
  exact Rat.mul_le_mul_of_nonneg_right h (Rat.le_of_lt (Rat.inv_pos.2 ht))

private theorem div_self_pos {t : Rat} (ht : 0 < t) : t / t = 1 := by
  rw [Rat.div_def]; exact Rat.mul_inv_cancel t (Rat.ne_of_gt ht)

theorem c07_burst_le (n T B : Int) (hn0 : 0 ≤ n) (hn : n ≤ T) (hT : 1 ≤ T) (hB : 0 ≤ B) : burst n T B ≤ B := by
  unfold burst
  rw [Rat.ceil_le_iff]
  have hTpos : (0 : Rat) < (T : Rat) := by
    have : ((0 : Int) : Rat) < (T : Rat) := Rat.intCast_lt_intCast.2 (by omega)
    simpa using this
  have hnT : (n : Rat) ≤ (T : Rat) := Rat.intCast_le_intCast.2 hn
  have hB' : (0 : Rat) ≤ (B : Rat) := by
    have : ((0 : Int) : Rat) ≤ (B : Rat) := Rat.intCast_le_intCast.2 hB
    simpa using this
  have h1 : (n : Rat) / (T : Rat) ≤ 1 := by
    rw [← div_self_pos hTpos]; exact div_le_div_right hnT hTpos
  calc (n : Rat) / (T : Rat) * (B : Rat) ≤ 1 * (B : Rat) := Rat.mul_le_mul_of_nonneg_right h1 hB'
    _ = (B : Rat) := by simp

theorem c07_burst_mono (n n' T B : Int) (h : n ≤ n') (hT : 1 ≤ T) (hB : 0 ≤ B) : burst n T B ≤ burst n' T B := by
  unfold burst
  rw [Rat.ceil_le_iff]
  have hTpos : (0 : Rat) < (T : Rat) := by
    have : ((0 : Int) : Rat) < (T : Rat) := Rat.intCast_lt_intCast.2 (by omega)
    simpa using this
  have hB' : (0 : Rat) ≤ (B : Rat) := by
    have : ((0 : Int) : Rat) ≤ (B : Rat) := Rat.intCast_le_intCast.2 hB
    simpa using this
  have hnn : (n : Rat) ≤ (n' : Rat) := Rat.intCast_le_intCast.2 h
  have h1 : (n : Rat) / (T : Rat) ≤ (n' : Rat) / (T : Rat) := div_le_div_right hnn hTpos
  exact Rat.le_trans (Rat.mul_le_mul_of_nonneg_right h1 hB') Rat.le_ceil

/-! ## histories: the recorded sum over any sequence of honest reports, deletions and limit raises

Invariant: every recorded quota is at least 1, and the recorded sum exceeds the limit by at most the number of
instances held at the minimum quota 1 (`sum ≤ total + ones`): the only over-commitment ever on record is the
minimum-quota allowance the property names. -/

def one? (l : List (Nat × Int)) (i : Nat) : Int := if l.lookup i = some 1 then 1 else 0
def isOne (q : Int) : Int := if q = 1 then 1 else 0

theorem sumQ_cons (p : Nat × Int) (l) : sumQ (p :: l) = p.2 + sumQ l := by simp [sumQ]
theorem onesQ_cons (p : Nat × Int) (l) : onesQ (p :: l) = isOne p.2 + onesQ l := by
  unfold onesQ isOne
  by_cases h : p.2 = 1
  · simp [List.filter_cons, h]; omega
  · simp [List.filter_cons, h]

theorem onesQ_nonneg (l) : 0 ≤ onesQ l := by unfold onesQ; omega

theorem setQuota_sum (l : List (Nat × Int)) (i : Nat) (q : Int) :
    sumQ (setQuota l i q) = sumQ l - lookupD l i + q := by
  induction l with
  | nil => simp [setQuota, sumQ, lookupD]
  | cons p rest ih =>
    obtain ⟨j, v⟩ := p
    unfold setQuota
    by_cases h : j = i
    · subst h
      simp [sumQ_cons, lookupD, List.lookup]; omega
    · have h' : (i == j) = false := by simp; exact fun e => h e.symm
      simp only [h, if_false, sumQ_cons, ih]
      simp [lookupD, List.lookup, h']; omega

theorem setQuota_ones (l : List (Nat × Int)) (i : Nat) (q : Int) :
    onesQ (setQuota l i q) = onesQ l - one? l i + isOne q := by
  induction l with
  | nil => rw [setQuota, onesQ_cons]; simp [onesQ, one?]
  | cons p rest ih =>
    obtain ⟨j, v⟩ := p
    unfold setQuota
    by_cases h : j = i
    · subst h
      simp only [if_true, onesQ_cons, one?, List.lookup, beq_self_eq_true]
      simp only [isOne]
      by_cases hv : v = 1 <;> simp [hv] <;> omega
    · have h' : (i == j) = false := by simp; exact fun e => h e.symm
      simp only [h, if_false, onesQ_cons, ih]
      simp [one?, List.lookup, h']; omega

theorem setQuota_ge_one (l : List (Nat × Int)) (i : Nat) (q : Int)
    (hl : ∀ p ∈ l, 1 ≤ p.2) (hq : 1 ≤ q) : ∀ p ∈ setQuota l i q, 1 ≤ p.2 := by
  induction l with
  | nil => intro p hp; simp [setQuota] at hp; subst hp; exact hq
  | cons a rest ih =>
    obtain ⟨j, v⟩ := a
    unfold setQuota
    by_cases h : j = i
    · simp only [h, if_true]
      intro p hp
      rcases List.mem_cons.1 hp with e | e
      · subst e; exact hq
      · exact hl p (List.mem_cons_of_mem _ e)
    · simp only [h, if_false]
      intro p hp
      rcases List.mem_cons.1 hp with e | e
      · subst e; exact hl _ (List.mem_cons_self)
      · exact ih (fun p hp => hl p (List.mem_cons_of_mem _ hp)) p e

theorem lookupD_nonneg (l : List (Nat × Int)) (i : Nat) (hl : ∀ p ∈ l, 1 ≤ p.2) : 0 ≤ lookupD l i := by
  induction l with
  | nil => simp [lookupD]
  | cons a rest ih =>
    obtain ⟨j, v⟩ := a
    by_cases h : i = j
    · subst h
      have := hl (i, v) List.mem_cons_self
      simp [lookupD, List.lookup]; omega
    · have h' : (i == j) = false := by simpa using h
      have := ih (fun p hp => hl p (List.mem_cons_of_mem _ hp))
      simpa [lookupD, List.lookup, h'] using this

theorem one?_spec (l : List (Nat × Int)) (i : Nat) : one? l i = 1 ∧ lookupD l i = 1 ∨ one? l i = 0 := by
  unfold one? lookupD
  by_cases h : l.lookup i = some 1
  · left; simp [h]
  · right; simp [h]

theorem one?_le_ones (l : List (Nat × Int)) (i : Nat) : one? l i ≤ onesQ l := by
  induction l with
  | nil => simp [one?, onesQ]
  | cons a rest ih =>
    obtain ⟨j, v⟩ := a
    rw [onesQ_cons]
    have hon := onesQ_nonneg rest
    by_cases h : i = j
    · subst h
      simp only [one?, List.lookup, beq_self_eq_true, isOne]
      by_cases hv : v = 1 <;> simp [hv] <;> omega
    · have h' : (i == j) = false := by simpa using h
      have : one? ((j, v) :: rest) i = one? rest i := by simp [one?, List.lookup, h']
      rw [this]
      have : 0 ≤ isOne v := by unfold isOne; split <;> omega
      show one? rest i ≤ isOne v + onesQ rest
      omega

/-- removing entries cannot increase `sum − ones` when every quota is at least 1 -/
theorem filter_slack (l : List (Nat × Int)) (f : Nat × Int → Bool) (hl : ∀ p ∈ l, 1 ≤ p.2) :
    sumQ (l.filter f) - onesQ (l.filter f) ≤ sumQ l - onesQ l := by
  induction l with
  | nil => simp
  | cons a rest ih =>
    have ha := hl a List.mem_cons_self
    have ih' := ih (fun p hp => hl p (List.mem_cons_of_mem _ hp))
    by_cases hf : f a = true
    · simp only [List.filter_cons, hf, if_true, sumQ_cons, onesQ_cons]; omega
    · simp only [List.filter_cons, hf, sumQ_cons, onesQ_cons]
      have : isOne a.2 ≤ a.2 := by unfold isOne; split <;> omega
      simp; omega

structure Inv (s : Srv) : Prop where
  limit : 1 ≤ s.total
  ge_one : ∀ p ∈ s.quotas, 1 ≤ p.2
  bound : sumQ s.quotas ≤ s.total + onesQ s.quotas
  recorded : sumQ s.quotas ≤ s.recSum

/-- a limit change is covered by the invariant when it does not lower the limit (lowering is covered by
    `c07_no_growth` / `c07_over_report`) -/
def legal (s : Srv) : Op → Prop
  | .setLimit t => s.total ≤ t
  | _ => True

def Legal : Srv → List Op → Prop
  | _, [] => True
  | s, op :: ops => legal s op ∧ Legal (step s op) ops

theorem answer_eq (s : Srv) (i : Nat) (x m : Rat) :
    answer s i x m = next x m (lookupD s.quotas i) (s.total - s.recSum) s.total := by
  simp [answer, next]

theorem filter_sum_le (l : List (Nat × Int)) (f : Nat × Int → Bool) (hl : ∀ p ∈ l, 1 ≤ p.2) :
    sumQ (l.filter f) ≤ sumQ l := by
  induction l with
  | nil => simp
  | cons a rest ih =>
    have ha := hl a List.mem_cons_self
    have ih' := ih (fun p hp => hl p (List.mem_cons_of_mem _ hp))
    by_cases hf : f a = true
    · simp only [List.filter_cons, hf, if_true, sumQ_cons]; omega
    · simp only [List.filter_cons, hf, sumQ_cons]; simp; omega

theorem inv_step (s : Srv) (op : Op) (h : Inv s) (hl : legal s op) : Inv (step s op) := by
  cases op with
  | report i x m =>
    have hq1 := c07_min_one x m (lookupD s.quotas i) (s.total - s.recSum) s.total
    have ht := c07_tail x m (lookupD s.quotas i) (s.total - s.recSum) s.total
    have hc := lookupD_nonneg s.quotas i h.ge_one
    refine ⟨h.limit, ?_, ?_, ?_⟩
    · simp only [step, answer_eq]; exact setQuota_ge_one _ _ _ h.ge_one hq1
    · simp only [step, answer_eq, setQuota_sum, setQuota_ones]
      have hb := h.bound
      have hr := h.recorded
      have hon := onesQ_nonneg s.quotas
      have hle := one?_le_ones s.quotas i
      generalize next x m (lookupD s.quotas i) (s.total - s.recSum) s.total = n at *
      rcases one?_spec s.quotas i with ⟨ho, hl1⟩ | ho
      · rcases ht with hn | ⟨hn, _⟩
        · simp only [isOne, hn, if_true, ho, hl1]; omega
        · unfold isOne; split <;> omega
      · rcases ht with hn | ⟨hn, _⟩
        · simp only [isOne, hn, if_true, ho]; omega
        · unfold isOne; split <;> omega
    · simp only [step]; omega
  | delete i =>
    refine ⟨h.limit, ?_, ?_, ?_⟩
    · intro p hp; exact h.ge_one p (List.mem_filter.1 hp).1
    · have := filter_slack s.quotas (fun p => p.1 != i) h.ge_one
      have hb := h.bound
      simp only [step]; omega
    · have := filter_sum_le s.quotas (fun p => p.1 != i) h.ge_one
      have hr := h.recorded
      simp only [step]; omega
  | setLimit t =>
    have : s.total ≤ t := hl
    refine ⟨by have := h.limit; simp only [step]; omega, h.ge_one, ?_, h.recorded⟩
    have hb := h.bound
    simp only [step]; omega

/-- **history theorem**: for EVERY sequence of honest reports (with arbitrary strategy outputs), deletions of
    instances and limit raises, starting from any state satisfying the invariant (e.g. the empty one), every
    recorded quota stays ≥ 1 and the recorded sum exceeds the limit by at most the number of instances held at
    the minimum quota of 1. -/
theorem c07_history (s : Srv) (ops : List Op) (h : Inv s) (hl : Legal s ops) : Inv (run s ops) := by
  induction ops generalizing s with
  | nil => simpa [run] using h
  | cons op ops ih =>
    simp only [run, List.foldl_cons]
    exact ih (step s op) (inv_step s op h hl.1) hl.2

theorem c07_history_init (T : Int) (hT : 1 ≤ T) (ops : List Op) (hl : Legal ⟨T, 0, []⟩ ops) :
    Inv (run ⟨T, 0, []⟩ ops) :=
  c07_history _ ops ⟨hT, by simp, by simp [sumQ, onesQ]; omega, by simp [sumQ]⟩ hl

/-- the decidable judge applied to implementation states by the harness is exactly the invariant -/
theorem invB_iff (s : Srv) : invB s = true ↔ Inv s := by
  unfold invB
  simp only [Bool.and_eq_true, decide_eq_true_eq, List.all_eq_true]
  constructor
  · rintro ⟨⟨⟨h1, h2⟩, h3⟩, h4⟩; exact ⟨h1, h2, h3, h4⟩
  · rintro ⟨h1, h2, h3, h4⟩; exact ⟨⟨⟨h1, h2⟩, h3⟩, h4⟩

/-- in ANY state (also over-committed after the limit was lowered), a report never makes the reporter's recorded
    quota grow while the recorded sum exceeds the limit — unless it is set to the minimum 1 -/
theorem c07_over_report (s : Srv) (i : Nat) (x m : Rat) (hover : s.total < s.recSum) :
    answer s i x m = 1 ∨ answer s i x m < lookupD s.quotas i := by
  rw [answer_eq]; exact c07_no_growth x m _ _ _ hover

/-- and whenever the recorded sum is within the limit, the sum after the report is within the limit, the
    minimum-quota case aside (state-level form of `c07_sum_safe`) -/
theorem c07_report_sum_safe (s : Srv) (i : Nat) (x m : Rat) (hA : s.recSum ≤ s.total)
    (hr : sumQ s.quotas ≤ s.recSum) :
    answer s i x m = 1 ∨ (step s (.report i x m)).recSum ≤ s.total := by
  have := c07_sum_safe x m (lookupD s.quotas i) s.recSum s.total hA
  rw [← answer_eq] at this
  rcases this with h | h
  · exact Or.inl h
  · right; simp only [step, setQuota_sum]; omega

/-! ## non-vacuity: the hypotheses are met by concrete, non-trivial states -/

example : Inv ⟨10, 11, [(1, 4), (2, 1), (3, 6)]⟩ := ⟨by decide, by decide, by decide, by decide⟩
example : Legal ⟨10, 4, [(1, 4)]⟩ [.report 2 7 1, .setLimit 12, .delete 1] := by
  simp [Legal, legal, step]
example : next 50 1 4 (10 - 11) 10 = 3 := by decide +kernel
example : next (-300) (1/5) 400 (100 - 800) 100 = 1 := by decide +kernel

end KG.Props.C07
