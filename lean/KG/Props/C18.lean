import KG.Lemmas.Reclaim
/-!
# C18 — Quota of dead gateway instances is reclaimed; live instances are left alone

Model: `KG.Model.Reclaim` (the limiter server's heartbeat table, stores and global max-in-flight counters, as fixed by
f47898e). Predicates: `KG.Spec.Reclaim` (the judge the harness evaluates on the real code after every op).
Every theorem is for an arbitrary shard function and — unless it talks about a history — an arbitrary state.
-/
namespace KG.Props.C18
open KG KG.Model.Reclaim KG.Spec.Reclaim KG.Lemmas.Reclaim

variable (shardOf : Ups → Nat)

/-! ## The two passes, one step -/

/-- **Reclaim, time-out pass**: an instance whose heartbeats are all older than `ClientHeartBeatTimeout` loses its
    heartbeat entry, all in-flight states counted for it (in every store) and its labelled conditions in led shards. -/
theorem c18_timeout_pass_reclaims (s : State) (now : Nat) :
    ReclaimTimeout shardOf now s (cleanupTimeout shardOf s now) := by
  intro q hq hdead
  have hqd : q.1 ∈ (s.hb.filter (timedOut now)).map (·.1) :=
    List.mem_map.2 ⟨q, List.mem_filter.2 ⟨hq, hdead.2 q hq rfl⟩, rfl⟩
  refine ⟨?_, ?_, ?_⟩
  · intro p hp he
    have hp' := List.mem_filter.1 hp
    have := hdead.2 p hp'.1 he
    simp [this] at hp'
  · intro r hr hm p hp
    simp only [cleanupTimeout, List.mem_map] at hr
    obtain ⟨r0, hr0, rfl⟩ := hr
    have hm0 : r0.2.2.isMif = true := by rw [← dropAll_isMif]; exact hm
    exact dropAll_removes _ _ hm0 _ hqd p hp
  · intro hne r hr hinst hlabel
    simp only [cleanupTimeout, List.mem_filter] at hr
    have hsel : selects q.1 r.2 = true := by simp [selects, hinst, hlabel]
    have hany : ((s.hb.filter (timedOut now)).map (·.1)).any (fun d => selects d r.2) = true :=
      List.any_eq_true.2 ⟨q.1, hqd, hsel⟩
    have h2 := hr.2
    simp only [hany, Bool.true_and, Bool.not_eq_true', deletable, Bool.and_eq_false_iff] at h2
    cases h2 with
    | inl h => exact h
    | inr h => simp [hinst, hne] at h

/-- **Reclaim, unknown pass**: afterwards every condition in a led shard is instance-less or owned by an instance of
    the heartbeat table; the in-flight states of the unknown owners found are dropped in every store. -/
theorem c18_unknown_pass_reclaims (s : State) : ReclaimUnknown shardOf s (cleanupUnknown shardOf s) := by
  refine ⟨?_, ?_⟩
  · intro r hr hl
    simp only [cleanupUnknown, List.mem_filter] at hr
    have h2 := hr.1.2
    have hl' : isLeader s (shardOf r.2.upstream) = true := hl
    simp only [deletable, hl', Bool.true_and, unknown] at h2
    have hh : hbHas (cleanupUnknown shardOf s) r.2.inst = hbHas s r.2.inst := rfl
    rw [hh]
    by_cases hi : r.2.inst = []
    · exact Or.inl hi
    · right
      cases hb : hbHas s r.2.inst
      · simp [hb, hi] at h2
      · rfl
  · intro r hr hne hun i' hi' hm p hp
    simp only [cleanupUnknown, List.mem_filter, List.mem_map] at hi'
    obtain ⟨⟨r0, hr0, rfl⟩, _⟩ := hi'
    have hm0 : r0.2.2.isMif = true := by rw [← dropAll_isMif]; exact hm
    refine dropAll_removes _ _ hm0 _ ?_ p hp
    refine List.mem_map.2 ⟨r, List.mem_filter.2 ⟨hr, ?_⟩, rfl⟩
    simp [unknown, hun, hne]

/-- **Live instances are left alone, time-out pass**: an instance none of whose heartbeats is older than the
    time-out at `now` keeps its entry, every condition and every in-flight state. No hypothesis on identities. -/
theorem c18_live_safe_timeout_pass (s : State) (now : Nat) :
    LiveSafeTimeout now s (cleanupTimeout shardOf s now) := by
  intro q hq hlive
  have hnd : q.1 ∉ (s.hb.filter (timedOut now)).map (·.1) := by
    intro h
    obtain ⟨p, hp, he⟩ := List.mem_map.1 h
    have hp' := List.mem_filter.1 hp
    have := hlive.2 p hp'.1 he
    simp [this] at hp'
  refine ⟨?_, ?_, ?_⟩
  · exact List.mem_filter.2 ⟨hq, by simp [hlive.2 q hq rfl]⟩
  · intro r hr hinst
    refine List.mem_filter.2 ⟨hr, ?_⟩
    have hany : ((s.hb.filter (timedOut now)).map (·.1)).any (fun d => selects d r.2) = false := by
      rw [List.any_eq_false]
      intro d hd hsel
      simp only [selects, Bool.and_eq_true, beq_iff_eq] at hsel
      exact hnd (by rw [← hinst, hsel.2]; exact hd)
    simp [hany]
  · intro r hr _
    refine ⟨(r.1, r.2.1, dropAll ((s.hb.filter (timedOut now)).map (·.1)) r.2.2), ?_, rfl, rfl, ?_, ?_⟩
    · exact List.mem_map.2 ⟨r, hr, rfl⟩
    · exact dropAll_name _ _
    · exact dropAll_getState _ _ _ hnd

/-- **Live instances are left alone, unknown pass**: an instance of the heartbeat table keeps its entry and, for every
    upstream still listed, its conditions and in-flight states. -/
theorem c18_live_safe_unknown_pass (s : State) : LiveSafeUnknown s (cleanupUnknown shardOf s) := by
  intro q hq
  have hk : hbHas s q.1 = true := List.any_eq_true.2 ⟨q, hq, by simp⟩
  have hlisted : ∀ u, isListed s u = true →
      ((s.conds.filter fun r => unknown s r.2 && !isListed s r.2.upstream).map (·.2.upstream)).contains u = false := by
    intro u hu
    cases hc : ((s.conds.filter fun r => unknown s r.2 && !isListed s r.2.upstream).map (·.2.upstream)).contains u
    · rfl
    · exfalso
      rw [List.contains_iff_mem] at hc
      obtain ⟨r, hr, he⟩ := List.mem_map.1 hc
      have := (List.mem_filter.1 hr).2
      simp [he, hu] at this
  have hnc : q.1 ∉ (s.conds.filter fun r => unknown s r.2 && r.2.inst != []).map (·.2.inst) := by
    intro h
    obtain ⟨r, hr, he⟩ := List.mem_map.1 h
    have := (List.mem_filter.1 hr).2
    simp [unknown, he, hk] at this
  refine ⟨hq, ?_, ?_⟩
  · intro r hr hinst hl
    simp only [cleanupUnknown, List.mem_filter]
    refine ⟨⟨hr, ?_⟩, ?_⟩
    · simp [unknown, hinst, hk]
    · rw [hlisted _ hl]; rfl
  · intro r hr hl _
    refine ⟨(r.1, r.2.1, dropAll _ r.2.2), ?_, rfl, rfl, dropAll_name _ _, dropAll_getState _ _ _ hnc⟩
    simp only [cleanupUnknown, List.mem_filter]
    exact ⟨List.mem_map.2 ⟨r, hr, rfl⟩, by rw [hlisted _ hl]; rfl⟩

end KG.Props.C18
