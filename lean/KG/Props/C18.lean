import KG.Lemmas.Reclaim
/-!
# C18 — Quota of dead gateway instances is reclaimed; live instances are left alone

Model: `KG.Model.Reclaim` (the limiter server's heartbeat table, stores and global max-in-flight counters, as fixed by
f47898e). Predicates: `KG.Spec.Reclaim` (the judge the harness evaluates on the real code after every op).
Every theorem is for an arbitrary shard function and — unless it talks about a history — an arbitrary state.
-/
namespace KG.Props.C18
open KG KG.Model.Reclaim KG.Spec.Reclaim KG.Lemmas.Reclaim

variable (shardOf : Ups → Nat)

/-! ## The two passes, one step -/

/-- **Reclaim, time-out pass**: an instance whose heartbeats are all older than `ClientHeartBeatTimeout` loses its
    heartbeat entry, all in-flight states counted for it (in every store) and its labelled conditions in led shards. -/
theorem c18_timeout_pass_reclaims (s : State) (now : Nat) :
    ReclaimTimeout shardOf now s (cleanupTimeout shardOf s now) := by
  intro q hq hdead
  have hqd : q.1 ∈ (s.hb.filter (timedOut now)).map (·.1) :=
    List.mem_map.2 ⟨q, List.mem_filter.2 ⟨hq, hdead.2 q hq rfl⟩, rfl⟩
  refine ⟨?_, ?_, ?_⟩
  · intro p hp he
    have hp' := List.mem_filter.1 hp
    have := hdead.2 p hp'.1 he
    simp [this] at hp'
  · intro r hr hm p hp
    simp only [cleanupTimeout, List.mem_map] at hr
    obtain ⟨r0, hr0, rfl⟩ := hr
    have hm0 : r0.2.2.isMif = true := by rw [← dropAll_isMif]; exact hm
    exact dropAll_removes _ _ hm0 _ hqd p hp
  · intro hne r hr hinst hlabel
    simp only [cleanupTimeout, List.mem_filter] at hr
    have hsel : selects q.1 r.2 = true := by simp [selects, hinst, hlabel]
    have hany : ((s.hb.filter (timedOut now)).map (·.1)).any (fun d => selects d r.2) = true :=
      List.any_eq_true.2 ⟨q.1, hqd, hsel⟩
    have hd : deletable shardOf s r.2 = false := by simpa [hany] using hr.2
    have hI : (r.2.inst != []) = true := by simp [hinst, hne]
    show isLeader s (shardOf r.2.upstream) = false ∨ s.failing.contains r.2.name = true
    unfold deletable at hd
    rw [hI] at hd
    cases hL : isLeader s (shardOf r.2.upstream) <;> cases hF : s.failing.contains r.2.name <;> simp_all

/-- **Reclaim, unknown pass**: afterwards every condition in a led shard is instance-less or owned by an instance of
    the heartbeat table; the in-flight states of the unknown owners found are dropped in every store. -/
theorem c18_unknown_pass_reclaims (s : State) : ReclaimUnknown shardOf s (cleanupUnknown shardOf s) := by
  refine ⟨?_, ?_⟩
  · intro r hr hl
    simp only [cleanupUnknown, List.mem_filter] at hr
    have h2 := hr.1.2
    have hl' : isLeader s (shardOf r.2.upstream) = true := hl
    show r.2.inst = [] ∨ hbHas s r.2.inst = true ∨ s.failing.contains r.2.name = true
    unfold deletable unknown at h2
    rw [hl'] at h2
    by_cases hi : r.2.inst = []
    · exact Or.inl hi
    · have hI : (r.2.inst != []) = true := by simp [hi]
      rw [hI] at h2
      cases hb : hbHas s r.2.inst <;> cases hF : s.failing.contains r.2.name <;> simp_all
  · intro r hr hne hun i' hi' hm p hp
    simp only [cleanupUnknown, List.mem_filter, List.mem_map] at hi'
    obtain ⟨⟨r0, hr0, rfl⟩, _⟩ := hi'
    have hm0 : r0.2.2.isMif = true := by rw [← dropAll_isMif]; exact hm
    refine dropAll_removes _ _ hm0 _ ?_ p hp
    refine List.mem_map.2 ⟨r, List.mem_filter.2 ⟨hr, ?_⟩, rfl⟩
    simp [unknown, hun, hne]

/-- **Live instances are left alone, time-out pass**: an instance none of whose heartbeats is older than the
    time-out at `now` keeps its entry, every condition and every in-flight state. No hypothesis on identities. -/
theorem c18_live_safe_timeout_pass (s : State) (now : Nat) :
    LiveSafeTimeout now s (cleanupTimeout shardOf s now) := by
  intro q hq hlive
  have hnd : q.1 ∉ (s.hb.filter (timedOut now)).map (·.1) := by
    intro h
    obtain ⟨p, hp, he⟩ := List.mem_map.1 h
    have hp' := List.mem_filter.1 hp
    have := hlive.2 p hp'.1 he
    simp [this] at hp'
  refine ⟨?_, ?_, ?_⟩
  · exact List.mem_filter.2 ⟨hq, by simp [hlive.2 q hq rfl]⟩
  · intro r hr hinst
    refine List.mem_filter.2 ⟨hr, ?_⟩
    have hany : ((s.hb.filter (timedOut now)).map (·.1)).any (fun d => selects d r.2) = false := by
      rw [List.any_eq_false]
      intro d hd hsel
      simp only [selects, Bool.and_eq_true, beq_iff_eq] at hsel
      exact hnd (by rw [← hinst, hsel.2]; exact hd)
    simp [hany]
  · intro r hr _
    refine ⟨(r.1, r.2.1, dropAll ((s.hb.filter (timedOut now)).map (·.1)) r.2.2), ?_, rfl, rfl, ?_, ?_⟩
    · exact List.mem_map.2 ⟨r, hr, rfl⟩
    · exact dropAll_name _ _
    · exact dropAll_getState _ _ _ hnd

/-- **Live instances are left alone, unknown pass**: an instance of the heartbeat table keeps its entry and, for every
    upstream still listed, its conditions and in-flight states. -/
theorem c18_live_safe_unknown_pass (s : State) : LiveSafeUnknown s (cleanupUnknown shardOf s) := by
  intro q hq
  have hk : hbHas s q.1 = true := List.any_eq_true.2 ⟨q, hq, by simp⟩
  have hlisted : ∀ u, isListed s u = true →
      ((s.conds.filter fun r => unknown s r.2 && !isListed s r.2.upstream).map (·.2.upstream)).contains u = false := by
    intro u hu
    cases hc : ((s.conds.filter fun r => unknown s r.2 && !isListed s r.2.upstream).map (·.2.upstream)).contains u
    · rfl
    · exfalso
      rw [List.contains_iff_mem] at hc
      obtain ⟨r, hr, he⟩ := List.mem_map.1 hc
      have := (List.mem_filter.1 hr).2
      simp [he, hu] at this
  have hnc : q.1 ∉ (s.conds.filter fun r => unknown s r.2 && r.2.inst != []).map (·.2.inst) := by
    intro h
    obtain ⟨r, hr, he⟩ := List.mem_map.1 h
    have := (List.mem_filter.1 hr).2
    simp [unknown, he, hk] at this
  refine ⟨hq, ?_, ?_⟩
  · intro r hr hinst hl
    simp only [cleanupUnknown, List.mem_filter]
    refine ⟨⟨hr, ?_⟩, ?_⟩
    · simp [unknown, hinst, hk]
    · rw [hlisted _ hl]; rfl
  · intro r hr hl _
    refine ⟨(r.1, r.2.1, dropAll _ r.2.2), ?_, rfl, rfl, dropAll_name _ _, dropAll_getState _ _ _ hnc⟩
    simp only [cleanupUnknown, List.mem_filter]
    exact ⟨List.mem_map.2 ⟨r, hr, rfl⟩, by rw [hlisted _ hl]; rfl⟩


/-- **Foreign shards are not touched** by the time-out pass: a condition whose shard this server does not lead
    stays (whatever happened to its owner's heartbeats). -/
theorem c18_timeout_pass_respects_leadership (s : State) (now : Nat) :
    ∀ r ∈ s.conds, isLeader s (shardOf r.2.upstream) = false → r ∈ (cleanupTimeout shardOf s now).conds := by
  intro r hr hl
  exact List.mem_filter.2 ⟨hr, by simp [deletable, hl]⟩

/-- … and by the unknown pass, as long as the upstream is listed (the deletion of an upstream is not guarded). -/
theorem c18_unknown_pass_respects_leadership (s : State) :
    ∀ r ∈ s.conds, isLeader s (shardOf r.2.upstream) = false → isListed s r.2.upstream = true →
      r ∈ (cleanupUnknown shardOf s).conds := by
  intro r hr hl hlisted
  simp only [cleanupUnknown, List.mem_filter]
  refine ⟨⟨hr, by simp [deletable, hl]⟩, ?_⟩
  cases hc : ((s.conds.filter fun r => unknown s r.2 && !isListed s r.2.upstream).map (·.2.upstream)).contains r.2.upstream
  · rfl
  · exfalso
    rw [List.contains_iff_mem] at hc
    obtain ⟨r', hr', he⟩ := List.mem_map.1 hc
    have := (List.mem_filter.1 hr').2
    simp [he, hlisted] at this

theorem c18_passes_respect_leadership (s : State) (now : Nat) :
    ForeignKept shardOf false s (cleanupTimeout shardOf s now) ∧ ForeignKept shardOf true s (cleanupUnknown shardOf s) :=
  ⟨fun r hr hl _ => c18_timeout_pass_respects_leadership shardOf s now r hr hl,
   fun r hr hl hli => c18_unknown_pass_respects_leadership shardOf s r hr hl (hli rfl)⟩

/-! ## Reports, acquires and heartbeats -/

/-- **The recorded sum is recomputed**: a report that is answered leaves, in the upstream state condition, exactly the
    sums of the quotas of the conditions now stored for that upstream. -/
theorem c18_report_records_sum (s : State) (u : Ups) (j : Inst) (ri : List (Str × Kind)) (q : List Item) (l : Str)
    (h : (report shardOf s u j ri q).2 = .reported l) :
    SumRecorded shardOf u (report shardOf s u j ri q).1 := by
  obtain ⟨_, upc, hupc, e⟩ := report_ok shardOf s u j ri q l h
  obtain ⟨_, hu, hn⟩ := getCond_some s _ _ _ _ hupc
  rw [e]
  have hs := state_saved s (saveCond s.conds (shardOf u) ⟨condName u j, u, j, some l, q, []⟩) (shardOf u) u
    ({ upc with status := calcSums (summed (saveCond s.conds (shardOf u) ⟨condName u j, u, j, some l, q, []⟩)
        (shardOf u) u) } : Cond) hu hn
  unfold SumRecorded
  rw [hs.1]
  simp only
  rw [hs.2]
  exact ⟨fun _ h => h, fun _ h => h⟩

/-- **The freed quota is available** (`c18_reclaim`, second half): once no condition of `i` is left in the led shards,
    the next answered report of any other instance `j` for `u` leaves a recorded sum that is the sum over conditions
    none of which belongs to `i`. -/
theorem c18_survivor_report_excludes_dead (s : State) (i j : Inst) (u : Ups) (ri : List (Str × Kind)) (q : List Item)
    (l : Str) (hij : j ≠ i) (hgone : NoCondLed shardOf i s)
    (h : (report shardOf s u j ri q).2 = .reported l) :
    SumRecorded shardOf u (report shardOf s u j ri q).1 ∧
    ∀ c ∈ summed (report shardOf s u j ri q).1.conds (shardOf u) u, c.inst ≠ i := by
  refine ⟨c18_report_records_sum shardOf s u j ri q l h, ?_⟩
  obtain ⟨hl, upc, hupc, e⟩ := report_ok shardOf s u j ri q l h
  have hupcn : upc.name = stateName u := (getCond_some s _ _ _ _ hupc).2.2
  rw [e]
  intro c hc
  obtain ⟨hmem, hcu, hcn⟩ := mem_summed _ _ _ _ hc
  rcases mem_saveCond _ _ _ _ hmem with h1 | h1
  · rcases mem_saveCond _ _ _ _ h1 with h2 | h2
    · intro hci
      have := hgone _ h2 hci
      simp only at this
      rw [hcu, hl] at this
      cases this
    · simp only [Prod.mk.injEq] at h2
      rw [h2.2]; exact hij
  · simp only [Prod.mk.injEq] at h1
    exact absurd (by rw [h1.2]; exact hupcn) hcn

/-- **Heartbeats are recorded**, and nobody else's entry changes. -/
theorem c18_heartbeat_recorded (s : State) (i : Inst) (t : Nat) : HeartbeatRecorded i t s (heartbeat s i t) := by
  refine ⟨by simp [heartbeat], ?_, ?_, ?_⟩
  · intro p hp hi
    simp only [heartbeat, List.mem_append, List.mem_filter, List.mem_singleton] at hp
    cases hp with
    | inl h => simp [hi] at h
    | inr h => rw [h]
  · intro p hp hne
    simp only [heartbeat, List.mem_append, List.mem_filter, List.mem_singleton]
    exact Or.inl ⟨hp, by simp [hne]⟩
  · intro p hp hne
    simp only [heartbeat, List.mem_append, List.mem_filter, List.mem_singleton] at hp
    cases hp with
    | inl h => exact h.1
    | inr h => rw [h] at hne; exact absurd rfl hne

/-- **A report is recorded under the reporting id**: an answered report of `i` for `u` leaves a condition owned by `i`
    under `i`'s condition name. With `c18_heartbeat_recorded` and `c18_acquire_recorded`: all three entry points key
    what they record by the id the client sent, so the passes compare like with like whatever the id looks like. -/
theorem c18_report_recorded (s : State) (u : Ups) (i : Inst) (ri : List (Str × Kind)) (q : List Item) (l : Str)
    (h : (report shardOf s u i ri q).2 = .reported l) : ReportRecorded shardOf u i (report shardOf s u i ri q).1 := by
  intro hne
  obtain ⟨_, upc, hupc, e⟩ := report_ok shardOf s u i ri q l h
  obtain ⟨_, hu, hn⟩ := getCond_some s _ _ _ _ hupc
  rw [e]
  refine ⟨(shardOf u, ⟨condName u i, u, i, some l, q, []⟩), ?_, rfl, rfl, rfl, rfl⟩
  apply mem_saveCond_of_ne
  · simp [saveCond]
  · intro hk
    exact hne (by rw [← hn]; exact hk.2.2)

/-- **An acquire is recorded under the acquiring id**: every request served by a max-in-flight flow control leaves an
    in-flight state of `i` there. -/
theorem c18_acquire_recorded (s : State) (u : Ups) (i : Inst) (rid : Int) (reqs : List (Str × Int))
    (rs : List (Str × Bool × Int × String)) (h : (acquire shardOf s u i rid reqs).2 = .acquired rs) :
    AcquireRecorded shardOf u i rs (acquire shardOf s u i rid reqs).1 := by
  unfold acquire at h ⊢
  simp only [] at h ⊢
  split at h
  · cases h
  · split at h
    · cases h
    · rename_i h1 h2
      simp only [h1, h2, if_false, Bool.false_eq_true]
      simp only [Out.acquired.injEq] at h
      intro r hr he
      have := acquireLoop_recorded i rid (shardOf u) u reqs s [] (fun r hr => by cases hr) r (by rw [h]; exact hr) he
      exact this

/-- **A report of `j` removes nothing recorded for another instance**, except what is stored under `j`'s own
    condition name and the upstream state condition, which it rewrites. -/
theorem c18_report_keeps_others (s : State) (u : Ups) (j : Inst) (ri : List (Str × Kind)) (q : List Item) :
    OthersKept (some u) j s (report shardOf s u j ri q).1 := by
  intro p hp hne
  refine ⟨by rw [(report_frame shardOf s u j ri q).1]; exact hp, ?_, ?_⟩
  · intro r hr _
    exact ⟨r, by rw [(report_frame shardOf s u j ri q).2.1]; exact hr, rfl, rfl, rfl, rfl⟩
  · intro r hr _ hnk
    have hnk' := hnk u rfl
    cases hout : (report shardOf s u j ri q).2 with
    | reported l =>
      obtain ⟨_, upc, hupc, e⟩ := report_ok shardOf s u j ri q l hout
      rw [e]
      simp only
      obtain ⟨_, hu, hn⟩ := getCond_some s _ _ _ _ hupc
      apply mem_saveCond_of_ne
      · apply mem_saveCond_of_ne _ _ _ _ hr
        intro hk; exact hnk' ⟨hk.2.1, Or.inl hk.2.2⟩
      · intro hk
        exact hnk' ⟨by rw [hk.2.1]; exact hu, Or.inr (by rw [hk.2.2]; exact hn)⟩
    | unit => exact report_unchanged_conds shardOf s u j ri q (by rw [hout]; intro l; simp) ▸ hr
    | err e => exact report_unchanged_conds shardOf s u j ri q (by rw [hout]; intro l; simp) ▸ hr
    | acquired rs => exact report_unchanged_conds shardOf s u j ri q (by rw [hout]; intro l; simp) ▸ hr

/-- **An acquire of `j` removes nothing recorded for another instance.** -/
theorem c18_acquire_keeps_others (s : State) (u : Ups) (j : Inst) (rid : Int) (reqs : List (Str × Int)) :
    OthersKept none j s (acquire shardOf s u j rid reqs).1 := by
  intro p hp hne
  refine ⟨by rw [acquire_hb]; exact hp, ?_, ?_⟩
  · intro r hr _
    exact acquire_kept shardOf hne s u rid reqs r hr
  · intro r hr _ _
    rw [acquire_conds]; exact hr

/-- **A burst of parallel acquires of `j` removes nothing recorded for another instance.** -/
theorem c18_burst_keeps_others (s : State) (u : Ups) (j : Inst) (n : Str) (st : Option IState) :
    OthersKept none j s (burst shardOf s u j n st) := by
  intro p hp hne
  refine ⟨by rw [(burst_frame shardOf s u j n st).1]; exact hp, ?_, ?_⟩
  · intro r hr _
    exact burst_kept shardOf hne s u n st r hr
  · intro r hr _ _
    rw [(burst_frame shardOf s u j n st).2]; exact hr

/-! ## Upstream events and leadership changes -/

/-- **An upstream event** (`UpstreamConditionHandler`) for a listed upstream rewrites the upstream state condition and
    nothing else: every condition of every instance stays. -/
theorem c18_upstream_event_keeps_conditions (s : State) (u : Ups) (hl : isListed s u = true) :
    ∀ r ∈ s.conds, ¬(r.1 = shardOf u ∧ r.2.upstream = u ∧ r.2.name = stateName u) →
      r ∈ (handle shardOf s u).conds := by
  intro r hr hne
  apply handle_keeps_conds shardOf s u r hr
  intro h
  rcases h.2.2 with h1 | h1
  · rw [hl] at h1; cases h1
  · exact hne ⟨h.1, h.2.1, h1⟩

/-- **`leaderCheck`** takes nothing from the store of a shard this server still leads. -/
theorem c18_leaderCheck_keeps_led_stores (s : State) :
    ∀ r ∈ s.conds, s.leaders.contains r.1 = true → s.shards.contains r.1 = true →
      r ∈ (leaderCheck shardOf s).conds := by
  intro r hr hlead hstore
  unfold leaderCheck
  simp only
  apply foldl_dropStore_keeps
  · intro sh hsh e
    have := (List.mem_filter.1 hsh).2
    rw [e, hlead] at this; cases this
  · apply foldl_handle_keeps
    · intro p hp e
      have := (List.mem_filter.1 hp).2
      rw [List.contains_iff_mem] at this
      have h2 := (List.mem_filter.1 this).2
      rw [e, hstore] at h2; cases h2
    · exact hr

/-- the remaining ops (elector and lister changes) touch nothing that is recorded. -/
theorem c18_environment_ops_touch_nothing (s : State) (sh : Nat) (b : Bool) (u : Ups) (sc : List Schema) :
    ((setLeader s sh b).hb = s.hb ∧ (setLeader s sh b).conds = s.conds ∧ (setLeader s sh b).fcs = s.fcs) ∧
    ((list s u sc).hb = s.hb ∧ (list s u sc).conds = s.conds ∧ (list s u sc).fcs = s.fcs) ∧
    ((unlist s u).hb = s.hb ∧ (unlist s u).conds = s.conds ∧ (unlist s u).fcs = s.fcs) :=
  ⟨⟨rfl, rfl, rfl⟩, ⟨rfl, rfl, rfl⟩, ⟨rfl, rfl, rfl⟩⟩

/-! ## Histories -/

/-- **Reclaim (`c18_reclaim`)**. Take ANY state `s0` (so: after any history), let `i` send its last heartbeat at `t0`,
    then let anything happen in which `i` takes no part (`ops2`), run a time-out pass at some `now > t0 + timeout`,
    let anything happen again without `i` (`ops3`, other instances may join, report, acquire, leadership may move,
    further passes may run at any time), run an unknown pass. Then
    * right after the time-out pass `i` has no heartbeat entry and no in-flight state in any store, and
    * after the unknown pass, additionally, no condition of `i` is left in any shard this server leads. -/
theorem c18_reclaim (s0 : State) (i : Inst) (t0 now : Nat) (ops2 ops3 : List Op)
    (hi : i ≠ []) (hq2 : Quiet i ops2) (hq3 : Quiet i ops3) (hnow : now > t0 + timeout) :
    let s3 := cleanupTimeout shardOf (run shardOf (heartbeat s0 i t0) ops2) now
    let s5 := cleanupUnknown shardOf (run shardOf s3 ops3)
    (NoHb i s3 ∧ NoState i s3) ∧
    (NoHb i s5 ∧ NoState i s5 ∧ ((run shardOf s3 ops3).failing = [] → NoCondLed shardOf i s5)) := by
  intro s3 s5
  have hls := lastSeen_run shardOf ops2 hq2 _ (lastSeen_heartbeat s0 i t0)
  have hstep := lastSeen_step shardOf _ (.cleanupTimeout now) (by simp [Op.isBy]) hls
  have hno3 : NoHb i s3 := by
    intro p hp hpi
    have hp' := List.mem_filter.1 hp
    have ht : p.2 = t0 := hls.1 p hp'.1 hpi
    have : timedOut now p = true := by simp [timedOut, ht, hnow]
    simp [this] at hp'
  have hgone3 : NoHb i s3 ∧ NoState i s3 := ⟨hno3, hstep.2 hno3⟩
  have hgone4 := gone_run shardOf ops3 hq3 s3 hgone3
  have hno5 : NoHb i s5 := hgone4.1
  refine ⟨hgone3, hno5, cleanupUnknown_noState shardOf _ hgone4.2, ?_⟩
  intro hfail r hr hri
  cases hl : isLeader s5 (shardOf r.2.upstream)
  · rfl
  · exfalso
    rcases (c18_unknown_pass_reclaims shardOf (run shardOf s3 ops3)).1 r hr hl with h | h | h
    · exact hi (hri ▸ h)
    · obtain ⟨p, hp, hpe⟩ := List.any_eq_true.1 h
      exact hno5 p hp (by rw [hri] at hpe; simpa using hpe)
    · have : s5.failing = [] := hfail
      rw [this] at h; cases h

/-- The same, spelled as one history from the initial state, for a server whose store never refuses a delete
    (no `faults` op: every history with the local store). -/
theorem c18_reclaim_history (ops1 ops2 ops3 : List Op) (i : Inst) (t0 now : Nat)
    (hi : i ≠ []) (hq2 : Quiet i ops2) (hq3 : Quiet i ops3) (hnow : now > t0 + timeout)
    (hnf : ∀ op ∈ ops1 ++ [Op.heartbeat i t0] ++ ops2 ++ [Op.cleanupTimeout now] ++ ops3, ∀ l, op ≠ .faults l) :
    let s := run shardOf init
      (ops1 ++ [Op.heartbeat i t0] ++ ops2 ++ [Op.cleanupTimeout now] ++ ops3 ++ [Op.cleanupUnknown])
    NoHb i s ∧ NoState i s ∧ NoCondLed shardOf i s := by
  intro s
  have h := (c18_reclaim shardOf (run shardOf init ops1) i t0 now ops2 ops3 hi hq2 hq3 hnow).2
  have e : s = cleanupUnknown shardOf (run shardOf (cleanupTimeout shardOf
      (run shardOf (heartbeat (run shardOf init ops1) i t0) ops2) now) ops3) := by
    simp only [s, run_append, run_cons]
    rfl
  have hf : (run shardOf (cleanupTimeout shardOf
      (run shardOf (heartbeat (run shardOf init ops1) i t0) ops2) now) ops3).failing = [] := by
    have := run_failing shardOf _ hnf init
    simp only [run_append, run_cons] at this
    exact this
  rw [e]; exact ⟨h.1, h.2.1, h.2.2 hf⟩

/-- **Live instances are left alone (`c18_live_safe`)**: in EVERY history, at every clean-up pass, whatever its timing:
    the time-out pass at `now` takes nothing from an instance none of whose heartbeats is older than the time-out at
    `now`; the unknown pass takes nothing (in listed upstreams) from an instance that has a heartbeat entry. -/
theorem c18_live_safe (ops : List Op) (now : Nat) :
    LiveSafeTimeout now (run shardOf init ops) (run shardOf init (ops ++ [Op.cleanupTimeout now])) ∧
    LiveSafeUnknown (run shardOf init ops) (run shardOf init (ops ++ [Op.cleanupUnknown])) := by
  rw [run_append, run_append]
  exact ⟨c18_live_safe_timeout_pass shardOf _ now, c18_live_safe_unknown_pass shardOf _⟩

/-- **Return with a new identity (`c18_return`, first half)**: the old identity `i` goes silent and is timed out,
    the gateway comes back as `i' ≠ i` (heartbeats, reports, acquires of `i'` are part of `ops3`, like anything else
    that is not an action of `i`): after the next unknown pass nothing of the old identity is left, and that pass took
    nothing from `i'` if `i'` has a heartbeat entry. -/
theorem c18_return_new_identity (s0 : State) (i i' : Inst) (t0 now t1 : Nat) (ops2 opsA opsB : List Op)
    (hi : i ≠ []) (hne : i' ≠ i) (hq2 : Quiet i ops2) (hqA : Quiet i opsA) (hqB : Quiet i opsB)
    (hnow : now > t0 + timeout) :
    let s3 := cleanupTimeout shardOf (run shardOf (heartbeat s0 i t0) ops2) now
    let s4 := run shardOf s3 (opsA ++ [Op.heartbeat i' t1] ++ opsB)
    let s5 := cleanupUnknown shardOf s4
    (NoHb i s5 ∧ NoState i s5 ∧ (s4.failing = [] → NoCondLed shardOf i s5)) ∧ LiveSafeUnknown s4 s5 := by
  intro s3 s4 s5
  have hq3 : Quiet i (opsA ++ [Op.heartbeat i' t1] ++ opsB) := by
    intro op hop
    simp only [List.mem_append, List.mem_singleton] at hop
    rcases hop with (h | h) | h
    · exact hqA op h
    · subst h; simp [Op.isBy, hne]
    · exact hqB op h
  exact ⟨(c18_reclaim shardOf s0 i t0 now ops2 _ hi hq2 hq3 hnow).2, c18_live_safe_unknown_pass shardOf s4⟩

/-- **Return with the old identity (`c18_return`, second half)**: once the time-out pass has forgotten `i`
    (`NoState i s`: see `c18_reclaim`; it stays so while `i` is silent), the first acquire of the returning `i` on a flow
    control is never refused as `RequestIDTooOld`, whatever request id it restarts from: no stale request id and no
    stale in-flight count of the old incarnation is left to compare with. -/
theorem c18_return_old_identity (s : State) (i : Inst) (rid : Int) (sh : Nat) (u : Ups) (rq : Str × Int)
    (hgone : NoState i s) : (acquireOne i rid sh u s rq).2.2.2.2 ≠ "tooOld" := by
  unfold acquireOne
  split
  · simp
  · rename_i f hf
    split
    · simp
    · split
      · simp
      · rename_i hneg hm
        have hmem : ∃ r ∈ s.fcs, r.2.2 = f := by
          unfold getFlowControl at hf
          obtain ⟨r, hr, hr2⟩ := Option.map_eq_some_iff.1 hf
          exact ⟨r, List.mem_of_find?_eq_some hr, hr2⟩
        obtain ⟨r, hr, hrf⟩ := hmem
        have hmif : f.isMif = true := by simpa using hm
        have hnone : f.getState i = none := by
          rw [getState_none_iff]; rw [← hrf]; exact hgone r hr (by rw [hrf]; exact hmif)
        have hold : (setState f i rid rq.2).2.2.2 = false := by
          unfold setState
          have hnn : ¬ rq.2 < 0 := hneg
          simp only [hmif, hnone, Option.getD_none, hnn]
          simp only [Bool.not_true, Bool.false_eq_true, if_false]
          have : ¬ (rid > 0 ∧ rid ≤ 0) := by omega
          simp only [this, if_false]
          repeat' split
          all_goals rfl
        simp only []
        generalize hres : setState f i rid rq.2 = res at hold
        obtain ⟨f', acc, latest, old⟩ := res
        simp only at hold
        subst hold
        simp only [Bool.false_eq_true, if_false]
        split <;> simp

/-! ## What is forgotten is given back -/

/-- **In every history** the total of every global max-in-flight flow control is the int32 sum of the counts it records
    per instance. Together with `c18_reclaim` (no state of the dead instance is recorded any more) this is
    "the in-flight requests it had counted for it are forgotten, the freed capacity is available to the others". -/
theorem c18_counts_consistent (ops : List Op) : CountsConsistent (run shardOf init ops) := by
  intro r hr hm
  exact ((run_allFC shardOf closed_good ops init (fun r hr => by cases hr)) r hr hm).2

/-- dropping an instance's state gives exactly its count back. -/
theorem c18_drop_gives_back (f : FC) (i : Inst) (st : IState) (hm : f.isMif = true) (h : f.getState i = some st) :
    (f.drop i).count = toI32 (f.count - st.count) ∧ (f.drop i).getState i = none := by
  refine ⟨?_, (getState_none_iff _ _).2 (drop_removes f i hm)⟩
  unfold FC.drop
  simp only [hm, Bool.not_true, Bool.false_eq_true, if_false, h]
  unfold toI32; omega

theorem c18_judgeState_sound (ops : List Op) : judgeState (run shardOf init ops) = [] := by
  simp [judgeState, c18_counts_consistent]

/-! ## "Within the cleanup period"

The passes are ops of the model; WHEN they run is the tick schedule of `wait.Until` in `Run` (runtime, not modelled).
What is pinned here, from the regenerated source facts (found by role, not by spelling): a periodic timer started by
`Run` reaches the time-out pass with a period no longer than the time-out, another reaches the unknown pass.
If the ticks fire as scheduled, the time-out pass that reclaims the heartbeat entry,
the in-flight states and the labelled conditions runs at most `ClientHeartBeatTimeout + timeoutPassPeriod` after the last
heartbeat, and the unknown pass that reclaims the remaining (once-reported, unlabelled) conditions at most
`unknownPassPeriod` later. -/

theorem c18_passes_are_scheduled :
    0 < KG.Gen.C18.timeoutPassPeriodMs ∧ KG.Gen.C18.timeoutPassPeriodMs ≤ timeout ∧
    0 < KG.Gen.C18.unknownPassPeriodMs ∧ 0 < timeout := by decide

/-- any time-out pass in the window `(t0 + timeout, ∞)` reclaims: in particular the first scheduled one, which is at
    most one `timeoutPassPeriod` after `t0 + timeout`. -/
theorem c18_first_tick_after_timeout_reclaims (s0 : State) (i : Inst) (t0 tick : Nat) (ops2 : List Op)
    (hq2 : Quiet i ops2) (htick : t0 + timeout < tick) (_hsoon : tick ≤ t0 + timeout + KG.Gen.C18.timeoutPassPeriodMs) :
    let s3 := cleanupTimeout shardOf (run shardOf (heartbeat s0 i t0) ops2) tick
    NoHb i s3 ∧ NoState i s3 := by
  intro s3
  have hls := lastSeen_run shardOf ops2 hq2 _ (lastSeen_heartbeat s0 i t0)
  have hstep := lastSeen_step shardOf _ (.cleanupTimeout tick) (by simp [Op.isBy]) hls
  have hno3 : NoHb i s3 := by
    intro p hp hpi
    have hp' := List.mem_filter.1 hp
    have ht : p.2 = t0 := hls.1 p hp'.1 hpi
    have : timedOut tick p = true := by simp [timedOut, ht, htick]
    simp [this] at hp'
  exact ⟨hno3, hstep.2 hno3⟩

/-! ## The judge never fires on the model -/

/-- `judgeStep` — the function the harness evaluates on the states observed on the real code — answers "no violation"
    for every step of the model from every state. -/
theorem c18_judge_sound (s : State) (op : Op) :
    judgeStep shardOf s op (step shardOf s op).2 (step shardOf s op).1 = [] := by
  cases op with
  | heartbeat i t => simp [judgeStep, step, c18_heartbeat_recorded]
  | report u j ri q =>
    have h2 := c18_report_keeps_others shardOf s u j ri q
    rcases report_out_cases shardOf s u j ri q with ⟨e, he⟩ | ⟨l, hl⟩
    · simp [judgeStep, step, he, Out.isOk, h2]
    · have h1 := c18_report_records_sum shardOf s u j ri q l hl
      have h3 := c18_report_recorded shardOf s u j ri q l hl
      simp [judgeStep, step, hl, Out.isOk, h1, h2, h3]
  | acquire u j rid reqs =>
    have h2 := c18_acquire_keeps_others shardOf s u j rid reqs
    cases hout : (acquire shardOf s u j rid reqs).2 with
    | acquired rs =>
      have h3 := c18_acquire_recorded shardOf s u j rid reqs rs hout
      simp [judgeStep, step, hout, h2, h3]
    | unit => simp [judgeStep, step, hout, h2]
    | err e => simp [judgeStep, step, hout, h2]
    | reported l => simp [judgeStep, step, hout, h2]
  | cleanupTimeout now =>
    simp [judgeStep, step, c18_timeout_pass_reclaims, c18_live_safe_timeout_pass,
      (c18_passes_respect_leadership shardOf s now).1]
  | cleanupUnknown =>
    simp [judgeStep, step, c18_unknown_pass_reclaims, c18_live_safe_unknown_pass,
      (c18_passes_respect_leadership shardOf s 0).2]
  | setLeader sh b => rfl
  | leaderCheck =>
    have h : LedStoresKept s (leaderCheck shardOf s) := c18_leaderCheck_keeps_led_stores shardOf s
    simp [judgeStep, step, h]
  | list u sc => rfl
  | unlist u => rfl
  | handle u =>
    have h : EventKeeps shardOf u s (handle shardOf s u) := c18_upstream_event_keeps_conditions shardOf s u
    simp [judgeStep, step, h]
  | burst u j n st => simp [judgeStep, step, c18_burst_keeps_others]
  | faults names => rfl
  | apiDelete name => rfl
  | wireRejected => rfl


/-! ## Non-vacuity: a concrete history in which something IS recorded, reclaimed and kept

One shard, upstream `u` with the global max-in-flight schema `f` (max 10), the instance `d` ("dies") and `l` ("lives").
-/
section nonvacuous

private def u : Ups := [117]
private def fcN : Str := [102]
private def d : Inst := [100]
private def l : Inst := [108]
private def sh0 : Ups → Nat := fun _ => 0

private def setup : List Op :=
  [.setLeader 0 true, .list u [⟨fcN, some 10, none⟩], .leaderCheck,
   .heartbeat l 1000, .heartbeat d 1000,
   .report u d [(fcN, .mif)] [⟨fcN, some 3, none⟩], .report u d [(fcN, .mif)] [⟨fcN, some 3, none⟩],
   .report u l [(fcN, .mif)] [⟨fcN, some 4, none⟩],
   .acquire u d 1 [(fcN, 2)], .acquire u l 1 [(fcN, 5)]]

/-- `d`'s last heartbeat at 2000, then only `l` acts -/
private def quiet2 : List Op := [.heartbeat l 4000, .heartbeat l 5500, .acquire u l 2 [(fcN, 6)]]
private def quiet3 : List Op := [.heartbeat l 6000, .report u l [(fcN, .mif)] [⟨fcN, some 5, none⟩]]

private def sA : State := run sh0 (heartbeat (run sh0 init setup) d 2000) quiet2
private def sB : State := cleanupTimeout sh0 sA 5600
private def sC : State := cleanupUnknown sh0 (run sh0 sB quiet3)

-- the hypotheses of `c18_reclaim` hold …
example : d ≠ [] ∧ Quiet d quiet2 ∧ Quiet d quiet3 ∧ 5600 > 2000 + timeout := by decide
-- … before the pass `d` has a heartbeat entry, a labelled condition and an in-flight state (count 2 of a total 8) …
example : ¬ NoHb d sA ∧ ¬ NoState d sA ∧ ¬ NoCondLed sh0 d sA ∧ DeadAt 5600 sA d ∧ LiveAt 5600 sA l := by decide
example : (sA.fcs.map fun r => (r.2.2.count, r.2.2.states.map fun p => (p.1, p.2.count))) = [(8, [(d, 2), (l, 6)])] := by
  decide
-- … afterwards nothing of `d` is left, `l` kept its entry, its condition and its in-flight state, total = 6 …
example : NoHb d sB ∧ NoState d sB ∧ NoCondLed sh0 d sB := by decide
example : (sB.fcs.map fun r => (r.2.2.count, r.2.2.states.map fun p => (p.1, p.2.count))) = [(6, [(l, 6)])] := by decide
example : (sB.conds.map fun r => r.2.inst) = [l, []] ∧ (sB.hb.map (·.1)) = [l] := by decide
-- … and after `l`'s next report the recorded sum is `l`'s quota alone (it was 3 + 4 before).
example : (sA.conds.filter (fun r => r.2.name == stateName u)).map (fun r => r.2.status) = [[⟨fcN, some 7, none⟩]] := by
  decide
example : (sC.conds.filter (fun r => r.2.name == stateName u)).map (fun r => r.2.status) = [[⟨fcN, some 5, none⟩]] := by
  decide

/-- a once-reported condition carries the empty label: it is reclaimed by the unknown pass, not by the time-out pass. -/
example :
    let s := run sh0 init [.setLeader 0 true, .list u [⟨fcN, some 10, none⟩], .leaderCheck, .heartbeat d 0,
      .report u d [(fcN, .mif)] [⟨fcN, some 3, none⟩]]
    (s.conds.filter (fun r => r.2.inst == d)).map (fun r => r.2.label) = [some []] ∧
    ¬ NoCondLed sh0 d (cleanupTimeout sh0 s 9000) ∧ NoCondLed sh0 d (cleanupUnknown sh0 (cleanupTimeout sh0 s 9000)) := by
  decide

/-- the scenario of the repaired defect (findings/C18-invalid-label-selects-everything), in the model: the dead
    instance's id holds ':' — the live instance's condition is kept. -/
example :
    let dc : Inst := [49, 58, 50]   -- "1:2"
    let s := run sh0 init [.setLeader 0 true, .list u [⟨fcN, some 10, none⟩], .leaderCheck, .heartbeat dc 0, .heartbeat l 0,
      .report u dc [(fcN, .mif)] [⟨fcN, some 3, none⟩], .report u dc [(fcN, .mif)] [⟨fcN, some 3, none⟩],
      .report u l [(fcN, .mif)] [⟨fcN, some 4, none⟩], .report u l [(fcN, .mif)] [⟨fcN, some 4, none⟩],
      .heartbeat l 3500]
    ((cleanupTimeout sh0 s 4000).conds.map fun r => r.2.inst) = [l, []] := by
  decide

/-- API-backed store: a refused delete only postpones. `d` reported twice (labelled condition), dies; while the API
    refuses the delete of its condition both passes leave it (and say so: `failing`), the first answered pass removes it. -/
example :
    let nm := condName u d
    let s := run sh0 init [.setLeader 0 true, .list u [⟨fcN, some 10, none⟩], .leaderCheck, .heartbeat d 0,
      .report u d [(fcN, .mif)] [⟨fcN, some 3, none⟩], .report u d [(fcN, .mif)] [⟨fcN, some 3, none⟩],
      .faults [nm], .cleanupTimeout 9000, .cleanupUnknown]
    ¬ NoCondLed sh0 d s ∧ NoHb d s ∧ NoCondLed sh0 d (run sh0 s [.faults [], .cleanupUnknown]) := by
  decide

/-- a burst of parallel first acquires that ended with count 3 / request id 8 for `d`, then `d` dies: the total goes
    back to what the others hold. -/
example :
    let s := run sh0 init [.setLeader 0 true, .list u [⟨fcN, some 10, none⟩], .leaderCheck, .heartbeat d 0, .heartbeat l 0,
      .acquire u l 1 [(fcN, 2)], .burst u d fcN (some ⟨3, 8⟩)]
    (s.fcs.map fun r => (r.2.2.count, r.2.2.states.map fun p => (p.1, p.2.count))) = [(5, [(l, 2), (d, 3)])] ∧
    ((run sh0 s [.heartbeat l 3500, .cleanupTimeout 4000]).fcs.map fun r => (r.2.2.count, r.2.2.states.map fun p => (p.1, p.2.count)))
      = [(2, [(l, 2)])] := by
  decide

end nonvacuous

end KG.Props.C18
