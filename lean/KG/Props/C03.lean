import KG.Lemmas.Endpoints
import KG.Gen.C03
/-!
# C03 — Endpoint selection: only enabled, healthy endpoints of the policy get traffic

All theorems are about `KG.Model.Endpoints` (mirror of clusterinfo.go / endpoint.go) and quantify over **every op list**
from the initial state: spec updates (`sync`), health reports (`updateStatus`, `probeFire`), `TriggerHealthCheck`,
`EnsureGatewayHealthCheck`, and requests split into `matchAttrs` and `pop` so that anything can happen in between.
The property itself is `KG.Spec.Endpoints.judgeTrace`, a judge over the observable trace that knows nothing of the
model's machinery; the same judge is evaluated by the harness on the trace of the real code.
-/
namespace KG.Props.C03
open KG KG.Model.Endpoints KG.Spec.Endpoints KG.Lemmas.Endpoints

/-! every theorem holds whether or not `MatchAttributes` gives each dispatch policy its own cursor scope (`ps`): the cursors
    decide WHICH eligible endpoint is picked, never whether an ineligible one can be -/
variable (ps : Bool)

/-- the state the model reaches on a history -/
def stateOf (ops : List Op) : State := (run (initScoped ps) ops).1
/-- the abstract (spec-level) state the same history leads to -/
def absOf (ops : List Op) : Abs := absRun Abs.init (modelTrace (initScoped ps) ops)

/-- **C03, trace form**: for every history, every observable output of the model passes the judge: a request is
    answered with an endpoint only if it is in its policy's upstream list, in the current server list, enabled, and
    healthy by the last report; "no ready endpoints" only if no such endpoint exists; a probe is sent only to a
    current, enabled server. -/
theorem c03_trace_judged (ops : List Op) : judgeTrace Abs.init (modelTrace (initScoped ps) ops) = true :=
  judge_run (sim_initScoped ps) ops

private theorem sim_run {s : State} {a : Abs} (h : Sim s a) (ops : List Op) :
    Sim (run s ops).1 (absRun a (modelTrace s ops)) := by
  induction ops generalizing s a with
  | nil => simpa [run, modelTrace, absRun] using h
  | cons op ops ih =>
    have := ih (sim_step h op).2
    simpa [run, modelTrace, absRun] using this

/-- every reachable state is in simulation with the abstract state of its history -/
theorem c03_reachable_sim (ops : List Op) : Sim (stateOf ps ops) (absOf ps ops) := sim_run (sim_initScoped ps) ops

/-- the endpoint map has one object per distinct server of the last spec -/
theorem c03_endpoints_are_servers (ops : List Op) (n : Name) :
    (load (stateOf ps ops).eps n).isSome = (serverNames (absOf ps ops).servers).contains n :=
  (c03_reachable_sim ps ops).dom n

/-- **pick soundness** in every reachable state, for every request in flight (also one matched before later Syncs):
    the endpoint handed out is in the upstream list its policy gave the request, in the cluster's current server list,
    not marked disabled there, healthy by the last report since it entered the list, and is the current object. -/
theorem c03_pick_sound (ops : List Op) (j : Nat) (n : Name) (g : Nat)
    (h : (step (stateOf ps ops) (.pop j)).2 = .popped (.picked n g)) :
    ∃ us, (absOf ps ops).pickers[j]? = some (some us) ∧ n ∈ us ∧
      n ∈ serverNames (absOf ps ops).servers ∧ specDisabled (absOf ps ops).servers n = false ∧
      (absOf ps ops).healthy n = true ∧ g = (absOf ps ops).bornAt n := by
  have hs := c03_reachable_sim ps ops
  have hj := (sim_step hs (.pop j)).1
  rw [h] at hj
  simp only [judgeStep] at hj
  cases hp : (absOf ps ops).pickers[j]? with
  | none => simp [hp] at hj
  | some pk =>
    cases pk with
    | none => simp [hp] at hj
    | some us =>
      simp only [hp, Bool.and_eq_true, Abs.eligible, Abs.enabled, Abs.inServers, Bool.not_eq_true', beq_iff_eq,
        List.contains_eq_mem, decide_eq_true_eq] at hj
      exact ⟨us, rfl, hj.1.1, hj.1.2.1.1, hj.1.2.1.2, hj.1.2.2, hj.2⟩

/-- in model terms: what `Pop` returns is present in the map and `IsReady()` at that moment -/
theorem c03_pick_ready (eps : List EP) (lb : List (Key × Nat)) (us : List Name) (n : Name) (g : Nat)
    (h : (pop eps lb us).1 = .picked n g) :
    ∃ e, load eps n = some e ∧ e.gen = g ∧ n ∈ us ∧ e.disabled = false ∧ e.healthy = true := by
  obtain ⟨e, h1, h2, h3, h4⟩ := pop_sound h
  simp only [EP.isReady, Bool.and_eq_true, Bool.not_eq_true'] at h4
  exact ⟨e, h1, h2, h3, h4.1, h4.2⟩

/-- **completeness**: the request gets an endpoint iff an eligible one exists in its upstream list; otherwise the
    answer is exactly "no ready endpoints" (`ErrNoReadyEndpoints`), which the dispatcher maps to 503. -/
theorem c03_pick_complete (ops : List Op) (j : Nat) (us : List Name)
    (hp : (absOf ps ops).pickers[j]? = some (some us)) :
    ((∃ n, n ∈ us ∧ (absOf ps ops).eligible n = true) → ∃ n g, (step (stateOf ps ops) (.pop j)).2 = .popped (.picked n g)) ∧
    ((∀ n, n ∈ us → (absOf ps ops).eligible n = false) → (step (stateOf ps ops) (.pop j)).2 = .popped .noReady) := by
  have hs := c03_reachable_sim ps ops
  have hj := (sim_step hs (.pop j)).1
  have hpk : (stateOf ps ops).pickers[j]? = some (some us) := by rw [hs.pickers]; exact hp
  have hout : (step (stateOf ps ops) (.pop j)).2
      = .popped (popScoped (pickerTag (stateOf ps ops) j) (stateOf ps ops).eps (stateOf ps ops).lb us).1 := by
    simp [step, hpk]
  rw [hout] at hj ⊢
  simp only [judgeStep, hp] at hj
  cases hr : (popScoped (pickerTag (stateOf ps ops) j) (stateOf ps ops).eps (stateOf ps ops).lb us).1 with
  | picked n g =>
    refine ⟨fun _ => ⟨n, g, rfl⟩, fun hall => ?_⟩
    rw [hr] at hj
    simp only [Bool.and_eq_true, List.contains_eq_mem, decide_eq_true_eq] at hj
    have := hall n hj.1.1
    rw [hj.1.2] at this; cases this
  | noReady =>
    refine ⟨fun ⟨n, hn, he⟩ => ?_, fun _ => rfl⟩
    rw [hr] at hj
    simp only [List.all_eq_true, Bool.not_eq_true'] at hj
    rw [hj n hn] at he; cases he
  | panic => exact absurd hr (popScoped_never_panics _ _ _ _)

/-- `Pop` never indexes out of range -/
theorem c03_pop_never_panics (eps : List EP) (lb : List (Key × Nat)) (us : List Name) : (pop eps lb us).1 ≠ .panic :=
  pop_never_panics eps lb us

/-- what a request may be sent to: the policy's subset when it has one, otherwise every server of the current list
    (each once) and nothing else -/
theorem c03_upstreams_of_request (ops : List Op) (policy : Nat) (order us : List Name)
    (h : (step (stateOf ps ops) (.matchAttrs policy order)).2 = .matched us) :
    ∃ subset, (absOf ps ops).policies[policy]? = some subset ∧
      ((subset ≠ [] ∧ us = subset) ∨ (subset = [] ∧ us.Perm (dedup (serverNames (absOf ps ops).servers)))) := by
  have hs := c03_reachable_sim ps ops
  have hj := (sim_step hs (.matchAttrs policy order)).1
  rw [h] at hj
  simp only [judgeStep] at hj
  cases hp : (absOf ps ops).policies[policy]? with
  | none => simp [hp] at hj
  | some subset =>
    refine ⟨subset, rfl, ?_⟩
    simp only [hp] at hj
    cases subset with
    | nil =>
      right
      simp only [List.isEmpty_nil, Bool.not_true, Bool.false_eq_true, if_false, Bool.and_eq_true, List.isPerm_iff] at hj
      exact ⟨rfl, hj.2⟩
    | cons x xs =>
      left
      simp only [List.isEmpty_cons, Bool.not_false, if_true, beq_iff_eq, Out.matched.injEq] at hj
      exact ⟨by simp, hj⟩

/-- **disabled ⇒ not probed, enabled ⇒ probed**, in every reachable state (in particular after every Sync): an endpoint
    object is marked disabled exactly when the last spec marks its server disabled, and a health-check worker is alive
    for it exactly when it is enabled. -/
theorem c03_probing_iff_enabled (ops : List Op) (n : Name) (e : EP) (h : load (stateOf ps ops).eps n = some e) :
    e.disabled = specDisabled (absOf ps ops).servers n ∧ e.probing = !specDisabled (absOf ps ops).servers n := by
  obtain ⟨h1, _, _, h4⟩ := (c03_reachable_sim ps ops).ep n e h
  exact ⟨h1, by rw [h4, h1]⟩

/-- after every Sync, from every reachable state: every server of the spec just synced has an object, which is marked
    disabled iff the spec says so and is probed iff it is enabled -/
theorem c03_after_sync (ops : List Op) (servers : List Server) (pols : List (List Name)) (n : Name)
    (hn : n ∈ serverNames servers) :
    ∃ e, load (step (stateOf ps ops) (.sync servers pols)).1.eps n = some e ∧
      e.disabled = specDisabled servers n ∧ e.probing = !specDisabled servers n := by
  have hs := (sim_step (c03_reachable_sim ps ops) (.sync servers pols)).2
  have hout : (step (stateOf ps ops) (.sync servers pols)).2 = .none := rfl
  rw [hout] at hs
  have hsrv : (absStep (absOf ps ops) (.sync servers pols) .none).servers = servers := rfl
  have hdom := hs.dom n
  have hin : (absStep (absOf ps ops) (.sync servers pols) .none).inServers n = true := by
    simp [Abs.inServers, hsrv, hn]
  rw [hin] at hdom
  cases hl : load (step (stateOf ps ops) (.sync servers pols)).1.eps n with
  | none => rw [hl] at hdom; cases hdom
  | some e =>
    obtain ⟨h1, _, _, h4⟩ := hs.ep n e hl
    rw [hsrv] at h1
    exact ⟨e, rfl, h1, by rw [h4, h1]⟩

/-- a probe that fires goes to a current, enabled server (a disabled endpoint receives no probe) -/
theorem c03_probe_only_enabled (ops : List Op) (n : Name) (hv : Bool) (n' : Name) (g : Nat)
    (h : (step (stateOf ps ops) (.probeFire n hv)).2 = .fired n' g) :
    n' = n ∧ n ∈ serverNames (absOf ps ops).servers ∧ specDisabled (absOf ps ops).servers n = false := by
  have hj := (sim_step (c03_reachable_sim ps ops) (.probeFire n hv)).1
  rw [h] at hj
  simp only [judgeStep, Bool.and_eq_true, beq_iff_eq, Abs.enabled, Abs.inServers, Bool.not_eq_true',
    List.contains_eq_mem, decide_eq_true_eq] at hj
  exact ⟨hj.1.1, hj.1.2.1, hj.1.2.2⟩

/-- an endpoint that (re)enters the server list has no health report yet: it gets no traffic before its first healthy report -/
theorem c03_new_server_not_eligible (ops : List Op) (servers : List Server) (pols : List (List Name)) (n : Name)
    (hnew : (absOf ps ops).inServers n = false) :
    (absStep (absOf ps ops) (.sync servers pols) .none).eligible n = false := by
  have hr := (c03_reachable_sim ps ops).rep n hnew
  simp only [Abs.eligible, Abs.healthy, absStep]
  rw [report_lookup_sync]
  by_cases hn : n ∈ serverNames servers <;> simp [hn, hr]

/-- the dispatcher (regenerated shape facts of dispatcher.ServeHTTP): `Pop()` is called once per request; its error is
    answered with `errors.NewServiceUnavailable` (503, checked on the real helper by the harness) under the reason
    `no_ready_endpoints` and the handler returns, so nothing is forwarded; otherwise the target URL and the transports
    are those of the picked endpoint. -/
theorem c03_dispatcher_shape :
    Gen.C03.popCalls = 1 ∧ Gen.C03.popErrorHelper = "errors.NewServiceUnavailable" ∧
    Gen.C03.popErrorReason = "statusReasonNoReadyEndpoints" ∧ Gen.C03.popErrorReturns = true ∧
    Gen.C03.forwardHostFromPicked = true ∧ Gen.C03.transportFromPicked = true := by decide

/-! ## what "healthy" is: the decision of `controllers.GatewayHealthCheck` -/

/-- **only the answer `200` marks an endpoint healthy** (whatever the body): 201–206 pass the rest client without error but are
    not `http.StatusOK`; every other status, a timeout and any transport error are errors of the rest client. -/
theorem c03_probe_decision (a : ProbeAnswer) : gatewayHealthCheck a = true ↔ ∃ b, a = .status 200 b := by
  cases a with
  | status code b =>
    simp only [gatewayHealthCheck, restClientError, Bool.and_eq_true, beq_iff_eq, ProbeAnswer.status.injEq]
    constructor
    · rintro ⟨_, h⟩; exact ⟨b, h, rfl⟩
    · rintro ⟨b', h, _⟩; subst h; exact ⟨by decide, rfl⟩
  | timeout => simp [gatewayHealthCheck]
  | transportError => simp [gatewayHealthCheck]

/-- the shape of `GatewayHealthCheck` the decision function mirrors (regenerated from the source on every run): one
    `UpdateStatus(true, …)`, guarded by `statusCode == http.StatusOK`, in the else branch of `err != nil`, `statusCode` read
    from the response -/
theorem c03_health_check_shape :
    Gen.C03.healthTrueCalls = 1 ∧ Gen.C03.healthTrueGuard = "statusCode == http.StatusOK" ∧
    Gen.C03.healthTrueElseOf = "err != nil" ∧ Gen.C03.healthTrueInElse = true ∧ Gen.C03.healthReadsStatusCode = true := by decide

/-- **no probe starts after the disable** (finding C03-probe-starts-after-disable, fixed by b321377): the model's worker fires
    only while `probing`, and `probing` is false from the Sync that disables the endpoint on (`c03_probing_iff_enabled`,
    `c03_probe_only_enabled`).  The code's worker used to choose at random between a queued tick and its cancellation; it now
    re-checks its context after taking a tick — regenerated fact, and judged by the harness's disable stream without grace. -/
theorem c03_worker_rechecks_ctx : Gen.C03.healthWorkerRechecksCtx = true := by decide

private theorem run_append (s : State) (xs ys : List Op) :
    run s (xs ++ ys) = ((run (run s xs).1 ys).1, (run s xs).2 ++ (run (run s xs).1 ys).2) := by
  induction xs generalizing s with
  | nil => simp [run]
  | cons x xs ih => simp [run, ih]

private theorem run_length (s : State) (xs : List Op) : (run s xs).2.length = xs.length := by
  induction xs generalizing s with
  | nil => simp [run]
  | cons x xs ih => simp [run, ih]

theorem stateOf_snoc (ops : List Op) (op : Op) : stateOf ps (ops ++ [op]) = (step (stateOf ps ops) op).1 := by
  simp [stateOf, run_append, run]

theorem absOf_snoc (ops : List Op) (op : Op) :
    absOf ps (ops ++ [op]) = absStep (absOf ps ops) op (step (stateOf ps ops) op).2 := by
  unfold absOf modelTrace absRun
  rw [run_append]
  simp only
  rw [List.zip_append (by rw [run_length])]
  simp [run, stateOf]

/-- **an endpoint whose last probe answer is not the healthy answer is never picked**: after a probe of `n` that was answered
    anything but `200`, no request in flight can be handed `n` (until a later report says otherwise) -/
theorem c03_unhealthy_answer_not_picked (ops : List Op) (n : Name) (ans : ProbeAnswer) (hans : ∀ b, ans ≠ .status 200 b)
    (n' : Name) (g' : Nat) (hf : (step (stateOf ps ops) (.probeFire n (gatewayHealthCheck ans))).2 = .fired n' g')
    (j : Nat) (g : Nat) :
    (step (stateOf ps (ops ++ [.probeFire n (gatewayHealthCheck ans)])) (.pop j)).2 ≠ .popped (.picked n g) := by
  intro hp
  obtain ⟨_, _, _, _, _, hh, _⟩ := c03_pick_sound ps _ j n g hp
  have hfalse : gatewayHealthCheck ans = false := by
    cases hd : gatewayHealthCheck ans with
    | false => rfl
    | true => obtain ⟨b, hb⟩ := (c03_probe_decision ans).1 hd; exact absurd hb (hans b)
  rw [absOf_snoc, hf, hfalse] at hh
  simp [absStep, Abs.healthy, List.lookup_cons] at hh

/-! ## requests racing with a Sync that changes the server set — finding C03-lb-reset-race (fixed by bb51c11)

The theorems above treat `sync` and `pop` as atomic ops.  On the real code a `Pop` can run *while* `syncEndpoints` resets
the load-balancer map.  Full statement: no interleaving of pickers with resets makes the process die (`NoFatal`).  It was
**false** of the tree while the reset was the assignment `c.loadbalancer = sync.Map{}` (witness below; on the real code
`fatal error: sync: unlock of unlocked mutex`, findings/C03-lb-reset-race).  The tree now empties the map in place; that this
is so is read from the source on every run (`Gen.C03.lbResetAssignsNewMap = false`), and `c03_no_fatal` is the full statement
about the current tree, unconditionally: it stops checking if the assignment comes back. -/

/-- the full statement for a reset of the given kind -/
def NoFatal (inPlace : Bool) : Prop := ∀ acts : List RaceAct, (raceRun inPlace acts).fatal = false

/-- the statement about the code as it is now -/
def CodeNoFatal : Prop := NoFatal (!Gen.C03.lbResetAssignsNewMap)

/-- refutation by witness: picker locks, Sync overwrites the map, picker unlocks -/
theorem c03_lb_reset_by_assignment_is_fatal : ¬ NoFatal false := by
  intro h
  have := h [.popLock 0, .syncReset, .popUnlock 0]
  revert this
  decide

/-- the repair (`Range` + `Delete` in place) satisfies the full statement -/
theorem c03_lb_reset_in_place_is_safe : NoFatal true :=
  fun acts => (raceRun_ok true acts (Or.inl rfl)).1

/-- partial: whatever the reset does, histories in which no reset runs concurrently with the pickers never die -/
theorem c03_no_fatal_partial (inPlace : Bool) (acts : List RaceAct) (h : RaceAct.syncReset ∉ acts) :
    (raceRun inPlace acts).fatal = false :=
  (raceRun_ok inPlace acts (Or.inr h)).1

/-- where the current code stands: the full statement holds of it exactly when the reset is no longer an assignment -/
theorem c03_code_no_fatal_iff : CodeNoFatal ↔ Gen.C03.lbResetAssignsNewMap = false := by
  unfold CodeNoFatal
  cases Gen.C03.lbResetAssignsNewMap with
  | false => exact ⟨fun _ => rfl, fun _ => c03_lb_reset_in_place_is_safe⟩
  | true => exact ⟨fun h => absurd h c03_lb_reset_by_assignment_is_fatal, fun h => by cases h⟩

/-- **the full statement holds of the current tree** (the regenerated fact says: the reset is in place) -/
theorem c03_no_fatal : CodeNoFatal := c03_code_no_fatal_iff.2 (by decide)

/-! ## non-vacuity: concrete histories on which the hypotheses hold non-trivially -/

section NonVacuous
def a : Name := [97]
def b : Name := [98]
def c : Name := [99]

/-- servers a, b(disabled), c; a and c probed healthy/unhealthy; policy 0 = {b, c, a}, policy 1 = all -/
def h1 : List Op :=
  [.sync [⟨a, false⟩, ⟨b, true⟩, ⟨c, false⟩] [[b, c, a], []], .probeFire a true, .probeFire c false,
   .matchAttrs 0 [], .matchAttrs 1 [c, a, b]]

example : (step (stateOf false h1) (.pop 0)).2 = .popped (.picked a 0) := by decide
example : (absOf false h1).pickers[0]? = some (some [b, c, a]) := by decide
example : (step (stateOf false h1) (.pop 1)).2 = .popped (.picked a 0) := by decide
/-- b is disabled: triggering a health check does not make a probe fire -/
example : (step (stateOf true (h1 ++ [.trigger b])) (.probeFire b true)).2 = .notFired := by decide
/-- a becomes unhealthy: nothing is eligible, the request is answered "no ready endpoints" -/
example : (step (stateOf true (h1 ++ [.updateStatus a false])) (.pop 0)).2 = .popped .noReady := by decide
example : ∀ n, n ∈ [b, c, a] → (absOf true (h1 ++ [.updateStatus a false])).eligible n = false := by decide
/-- b re-enabled and healthy: with two ready endpoints the cursor alternates -/
def h2 : List Op := h1 ++ [.sync [⟨a, false⟩, ⟨b, false⟩, ⟨c, false⟩] [[b, c, a], []], .probeFire b true]
example : (step (stateOf false h2) (.pop 0)).2 = .popped (.picked a 0) := by decide
example : (step (step (stateOf false h2) (.pop 0)).1 (.pop 0)).2 = .popped (.picked b 0) := by decide
/-- a removed and re-added: a new object (gen 3, the number of the Sync that re-added it) that is not eligible before its first healthy report; the request matched
    before the change is still answered soundly -/
def h3 : List Op := h2 ++ [.sync [⟨b, false⟩] [[a, b]], .sync [⟨a, false⟩, ⟨b, false⟩] [[a, b]]]
example : (step (stateOf false h3) (.pop 0)).2 = .popped (.picked b 0) := by decide
example : (step (stateOf true (h3 ++ [.probeFire a true])) (.pop 0)).2 = .popped (.picked a 3) := by decide
example : (step (stateOf false h1) (.probeFire a true)).2 = .notFired := by decide
example : (step (stateOf true (h1 ++ [.trigger a])) (.probeFire a true)).2 = .fired a 0 := by decide
/-- a probe answered 204 fires, reports unhealthy, and the endpoint is not handed out any more -/
example : (step (stateOf true (h1 ++ [.trigger a])) (.probeFire a (gatewayHealthCheck (.status 204 true)))).2 = .fired a 0 := by decide
example : (step (stateOf true (h1 ++ [.trigger a, .probeFire a (gatewayHealthCheck (.status 204 true))])) (.pop 0)).2 = .popped .noReady := by decide
example : gatewayHealthCheck (.status 200 false) = true ∧ gatewayHealthCheck (.status 206 true) = false ∧
    gatewayHealthCheck (.status 503 true) = false ∧ gatewayHealthCheck .timeout = false := by decide
end NonVacuous

end KG.Props.C03
