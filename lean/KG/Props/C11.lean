import KG.Lemmas.ClusterSync
/-!
# C11 — hot reload converges to the latest object's configuration, whatever the history

Model: `KG.Model.ClusterSync` (`ClusterInfo.Sync` with every sub-sync, early return and error exit; the controller's
`syncUpstreamCluster` with lister, manager and requeue).  Judge: `KG.Spec.ClusterSync.expected` — the observation
(`observe`) the latest object alone prescribes.  All theorems hold for every `Env` (every deterministic behaviour of
the external parsers) and every `Conn` (client connection settings fixed at creation).
-/
namespace KG.Props.C11
open KG KG.Model.ClusterSync KG.Spec.ClusterSync KG.Lemmas.ClusterSync

/-! ## facts regenerated from the sources on every run -/

/-- the order of the sub-syncs in `ClusterInfo.Sync` the model mirrors is the one the source has now -/
theorem c11_sync_order :
    KG.Gen.C11.syncOrder = ["nameCheck", "c.syncFeatureGate", "c.flowcontrol.ResetLimiter", "c.flowcontrol.Sync",
      "c.syncEndpoints", "c.syncSecureServingConfigLocked", "c.currentDispatchPolicies.Store", "c.currentLoggingConfig.Store"] ∧
    KG.Gen.C11.syncReturnsErrOf = ["c.syncFeatureGate", "c.syncEndpoints", "c.syncSecureServingConfigLocked"] := by
  decide

/-- `syncFeatureGate` applies the annotation to a copy of the DEFAULT gates, and the controller applies the
    lister's current object -/
theorem c11_source_shape :
    KG.Gen.C11.gatesSetOnDefaultCopy = true ∧ KG.Gen.C11.controllerAppliesListerObject = true := by
  decide

/-! ## one `ClusterInfo` -/

/-- every history (successful, refused and half-applied syncs in any mix) leaves a consistent `ClusterInfo` of the
    same cluster with the same connection settings -/
theorem c11_history_invariant (env : Env) (h : List Delivery) : ∀ (c s : CI), Inv env c → runHist env c h = some s →
    Inv env s ∧ s.cluster = c.cluster ∧ s.conn = c.conn := by
  induction h with
  | nil =>
    intro c s hI hr
    simp only [runHist, List.foldl] at hr
    injection hr with hr; subst hr
    exact ⟨hI, rfl, rfl⟩
  | cons d r ih =>
    intro c s hI hr
    simp only [runHist, List.foldl] at hr
    cases hs : sync env c d.obj d.ord with
    | ok c1 =>
      simp only [stepHist, hs] at hr
      have h1 : Inv env c1 ∧ c1.cluster = c.cluster ∧ c1.conn = c.conn := by
        by_cases hn : c.cluster = env.lower d.obj.name
        · obtain ⟨a, b, c', _⟩ := sync_ok_spec hI hs hn
          exact ⟨a, b, c'⟩
        · cases sync_ok_cases hs with
          | inl hl => rw [hl.2]; exact ⟨hI, rfl, rfl⟩
          | inr hr' => exact absurd hr'.1 hn
      obtain ⟨a, b, c'⟩ := ih c1 s h1.1 hr
      exact ⟨a, b.trans h1.2.1, c'.trans h1.2.2⟩
    | fail e c1 =>
      simp only [stepHist, hs] at hr
      obtain ⟨a1, b1, c1', _⟩ := sync_fail_spec hI hs
      obtain ⟨a, b, c'⟩ := ih c1 s a1 hr
      exact ⟨a, b.trans b1, c'.trans c1'⟩
    | crash =>
      simp only [stepHist, hs] at hr
      have : ∀ l : List Delivery, List.foldl (stepHist env) none l = none := by
        intro l; induction l with
        | nil => rfl
        | cons x xs ihx => simp only [List.foldl, stepHist]; exact ihx
      rw [this] at hr; cases hr

/-- **C11 (one cluster)**: for EVERY history `h` of deliveries to one long-lived `ClusterInfo` — objects in any
    order, any of them refused or applied only half-way (the state they leave behind is carried on) — if the gateway
    is still alive and the last `Sync` succeeds for an object of this cluster, then what the gateway observes of the
    cluster is exactly what that last object prescribes (`expected`), a freshly created `ClusterInfo` given only that
    object is created successfully (whatever Go's map iteration order), and both observe the same. -/
theorem c11_converge (env : Env) (conn : Conn) (name : Str) (h : List Delivery) (d : Delivery) (s s' : CI)
    (hrun : runHist env (empty env conn name) h = some s)
    (hlast : sync env s d.obj d.ord = .ok s')
    (hname : env.lower d.obj.name = env.lower name) :
    observe env s' = expected env conn d.obj ∧
    ∀ ord', ∃ f, fresh env conn d.obj ord' = .ok f ∧ observe env f = observe env s' := by
  obtain ⟨hI, hcl, hco⟩ := c11_history_invariant env h _ _ (empty_inv env conn name) hrun
  have hn : s.cluster = env.lower d.obj.name := by rw [hcl, hname]; rfl
  obtain ⟨_, _, _, hobs, happ, hsafe, hg⟩ := sync_ok_spec hI hlast hn
  have hco' : s.conn = conn := hco
  rw [hco'] at hobs happ hg
  refine ⟨hobs, fun ord' => ?_⟩
  obtain ⟨f, hf⟩ := fresh_progress ord' happ hsafe hg
  refine ⟨f, hf, ?_⟩
  obtain ⟨_, _, _, hobs', _⟩ := sync_ok_spec (empty_inv env conn d.obj.name) hf rfl
  rw [hobs, hobs']; rfl

/-- the same, as a statement about the fold over the whole history `h ++ [d]` -/
theorem c11_converge_fold (env : Env) (conn : Conn) (name : Str) (h : List Delivery) (d : Delivery) (s' : CI)
    (hrun : runHist env (empty env conn name) (h ++ [d]) = some s')
    (hlast : ∀ s, runHist env (empty env conn name) h = some s → ∃ s'', sync env s d.obj d.ord = .ok s'')
    (hname : env.lower d.obj.name = env.lower name) :
    observe env s' = expected env conn d.obj ∧
    ∀ ord', ∃ f, fresh env conn d.obj ord' = .ok f ∧ observe env f = observe env s' := by
  simp only [runHist, List.foldl_append, List.foldl] at hrun
  cases hs : List.foldl (stepHist env) (some (empty env conn name)) h with
  | none => rw [hs] at hrun; simp [stepHist] at hrun
  | some s =>
    rw [hs] at hrun
    obtain ⟨s'', hs''⟩ := hlast s hs
    simp only [stepHist, hs''] at hrun
    injection hrun with hrun; subst hrun
    exact c11_converge env conn name h d s s'' hs hs'' hname

/-- a `Sync` that fails — at whatever sub-sync, however far it got — changes neither the TLS material, nor the
    verify options, nor the server names the cluster reports (so the controller's before/after comparison of
    `LoadServerNames` is sound), and the next successful `Sync` repairs everything else (`c11_converge`) -/
theorem c11_failed_sync_keeps_serving_config (env : Env) (c c' : CI) (o : Obj) (ord : List Str) (e : Err)
    (hI : Inv env c) (h : sync env c o ord = .fail e c') :
    loadTLSConfig c' = loadTLSConfig c ∧ loadVerifyOptions c' = loadVerifyOptions c ∧
    loadServerNames env c' = loadServerNames env c := by
  obtain ⟨_, hcl, _, hss⟩ := sync_fail_spec hI h
  simp only [loadTLSConfig, loadVerifyOptions, loadServerNames, loadSS, hss, hcl]
  exact ⟨trivial, trivial, trivial⟩

/-- the process only panics on objects admission validation rejects: with schemas that all have the member their
    limiter type needs, and `GlobalRateLimiter` a registered gate, no `Sync` panics -/
theorem c11_no_panic (env : Env) (c : CI) (o : Obj) (ord : List Str) (hI : Inv env c)
    (hs : ∀ s ∈ o.schemas, safe s)
    (hg : ∀ g, (g = env.defaultGates ∨ ∃ v, env.setGates v = some g) → (alookup strGlobalRateLimiter g).isSome = true) :
    (∀ g, c.gates = g → True) → sync env c o ord ≠ .crash := by
  intro _ hcr
  unfold sync at hcr
  by_cases hn : c.cluster ≠ env.lower o.name
  · rw [if_pos hn] at hcr; cases hcr
  · rw [if_neg hn] at hcr
    cases h1 : syncFeatureGate env c o.annotations with
    | error e => rw [h1] at hcr; cases hcr
    | ok c1 =>
      rw [h1] at hcr; simp only at hcr
      obtain ⟨hc1, hg1, hga⟩ := syncFeatureGate_spec h1
      have hgl : (alookup strGlobalRateLimiter c1.gates).isSome = true := by
        apply hg
        rw [hg1]
        unfold expGates
        simp only
        by_cases hv : (gateAnnotation o.annotations).length = 0
        · rw [if_pos hv]; exact Or.inl rfl
        · rw [if_neg hv]
          obtain ⟨g, hgs⟩ := Option.isSome_iff_exists.1 (hga hv)
          rw [hgs]; exact Or.inr ⟨_, hgs⟩
      cases h2 : getFlowControlType c1.conn.globalRateLimiter c1.gates with
      | none =>
        unfold getFlowControlType at h2
        by_cases hr : c1.conn.globalRateLimiter = strRemote
        · rw [if_pos hr] at h2
          obtain ⟨b, hb⟩ := Option.isSome_iff_exists.1 hgl
          rw [hb] at h2
          cases b <;> cases h2
        · rw [if_neg hr] at h2; cases h2
      | some t =>
        rw [h2] at hcr; simp only at hcr
        have hF2 : FInv (resetLimiter c1 t) := by
          rw [resetLimiter_spec]
          exact FInv_of_eq (a := c) (by simp only; rw [hc1]) (by simp only; rw [hc1]) hI.1
        obtain ⟨c3, h3⟩ := syncLocalFlowControls_progress hF2 hs
        rw [h3] at hcr; simp only at hcr
        cases h4 : syncEndpoints env c3 o.servers ord with
        | mk c4 err =>
          rw [h4] at hcr
          cases err with
          | some e => cases hcr
          | none =>
            simp only at hcr
            cases h5 : syncSecureServing env c4 o.secureServing with
            | error e => rw [h5] at hcr; cases hcr
            | ok c5 => rw [h5] at hcr; cases hcr

end KG.Props.C11
