import KG.Spec.ClusterSync
/-! # C11 — hot reload converges to the latest object (work in progress: theorems follow) -/
namespace KG.Props.C11
open KG KG.Model.ClusterSync KG.Spec.ClusterSync

/-- the order of the sub-syncs in `ClusterInfo.Sync` the model mirrors is the one the source has now -/
theorem c11_sync_order :
    KG.Gen.C11.syncOrder = ["nameCheck", "c.syncFeatureGate", "c.flowcontrol.ResetLimiter", "c.flowcontrol.Sync",
      "c.syncEndpoints", "c.syncSecureServingConfigLocked", "c.currentDispatchPolicies.Store", "c.currentLoggingConfig.Store"] := by
  decide

end KG.Props.C11
