import KG.Lemmas.ClusterSync
/-!
# C11 — hot reload converges to the latest object's configuration, whatever the history

Model: `KG.Model.ClusterSync` (`ClusterInfo.Sync` with every sub-sync, early return and error exit; the controller's
`syncUpstreamCluster` with lister, manager and requeue).  Judge: `KG.Spec.ClusterSync.expected` — the observation
(`observe`) the latest object alone prescribes.  All theorems hold for every `Env` (every deterministic behaviour of
the external parsers) and every `Conn` (client connection settings fixed at creation).
-/
namespace KG.Props.C11
open KG KG.Model.ClusterSync KG.Spec.ClusterSync KG.Lemmas.ClusterSync

/-! ## facts regenerated from the sources on every run -/

/-- the order of the steps of `ClusterInfo.Sync` the model mirrors is the one the source has now: the sub-syncs by
    callee, and — by role, whatever field(s) they are stored in — the publication of dispatch policies and logging as the
    last step, after everything that can fail -/
theorem c11_sync_order :
    KG.Gen.C11.syncOrder = ["nameCheck", "c.syncFeatureGate", "c.flowcontrol.ResetLimiter", "c.flowcontrol.Sync",
      "c.syncEndpoints", "c.syncSecureServingConfigLocked", "publish:DispatchPolicies+Logging"] ∧
    KG.Gen.C11.syncReturnsErrOf = ["c.syncFeatureGate", "c.syncEndpoints", "c.syncSecureServingConfigLocked"] := by
  decide

/-- `syncFeatureGate` applies the annotation to a copy of the DEFAULT gates, and the controller applies the
    lister's current object -/
theorem c11_source_shape :
    KG.Gen.C11.gatesSetOnDefaultCopy = true ∧ KG.Gen.C11.controllerAppliesListerObject = true := by
  decide

/-- what the sequential controller model (`Ctl.step`: ONE delivery is handled at a time, from `lister.Get` to the end of
    `Sync` and the re-keying) rests on: `Run` starts exactly one worker on the queue.  The queue is a passthrough queue —
    its items are event-object pointers, so two versions of one cluster are two items, and a second worker would handle
    them concurrently (`lister.Get` of version N, overtaken by N+1, then `Sync` N) — and `ClusterInfo.Sync` takes no lock
    because it is documented as single threaded.  `c11_controller*` are statements about this one-worker gateway. -/
theorem c11_single_worker :
    KG.Gen.C11.queueWorkers = 1 ∧ KG.Gen.C11.syncDocumentedSingleThreaded = true := by
  decide

/-- what "a refused or failed delivery stays pending and is delivered again later" (`Ctl.step`: a `requeue` answer keeps
    the item in the queue, for ever) rests on: the `RequeueAfter` path of `processNextWorkItem` never counts a requeue, so
    `MaxRequeueTimes` is never reached and the queue never gives an item up.  (With resync period 0 nothing else would
    ever deliver a cluster again whose failure is cured by ANOTHER object, e.g. a server name released by its owner.) -/
theorem c11_requeue_never_gives_up : KG.Gen.C11.requeueAfterIsCounted = false := by
  decide

/-! ## one `ClusterInfo` -/

/-- every history (successful, refused and half-applied syncs in any mix) leaves a consistent `ClusterInfo` of the
    same cluster with the same connection settings -/
theorem c11_history_invariant (env : Env) (h : List Delivery) : ∀ (c s : CI), Inv env c → runHist env c h = some s →
    Inv env s ∧ s.cluster = c.cluster ∧ s.conn = c.conn := by
  induction h with
  | nil =>
    intro c s hI hr
    simp only [runHist, List.foldl] at hr
    injection hr with hr; subst hr
    exact ⟨hI, rfl, rfl⟩
  | cons d r ih =>
    intro c s hI hr
    simp only [runHist, List.foldl] at hr
    cases hs : sync env c d.obj d.ord with
    | ok c1 =>
      simp only [stepHist, hs] at hr
      have h1 : Inv env c1 ∧ c1.cluster = c.cluster ∧ c1.conn = c.conn := by
        by_cases hn : c.cluster = env.lower d.obj.name
        · obtain ⟨a, b, c', _⟩ := sync_ok_spec hI hs hn
          exact ⟨a, b, c'⟩
        · cases sync_ok_cases hs with
          | inl hl => rw [hl.2]; exact ⟨hI, rfl, rfl⟩
          | inr hr' => exact absurd hr'.1 hn
      obtain ⟨a, b, c'⟩ := ih c1 s h1.1 hr
      exact ⟨a, b.trans h1.2.1, c'.trans h1.2.2⟩
    | fail e c1 =>
      simp only [stepHist, hs] at hr
      obtain ⟨a1, b1, c1', _⟩ := sync_fail_spec hI hs
      obtain ⟨a, b, c'⟩ := ih c1 s a1 hr
      exact ⟨a, b.trans b1, c'.trans c1'⟩
    | crash =>
      simp only [stepHist, hs] at hr
      have : ∀ l : List Delivery, List.foldl (stepHist env) none l = none := by
        intro l; induction l with
        | nil => rfl
        | cons x xs ihx => simp only [List.foldl, stepHist]; exact ihx
      rw [this] at hr; cases hr

/-- **C11 (one cluster)**: for EVERY history `h` of deliveries to one long-lived `ClusterInfo` — objects in any
    order, any of them refused or applied only half-way (the state they leave behind is carried on) — if the gateway
    is still alive and the last `Sync` succeeds for an object of this cluster, then what the gateway observes of the
    cluster is exactly what that last object prescribes (`expected`), a freshly created `ClusterInfo` given only that
    object is created successfully (whatever Go's map iteration order), and both observe the same. -/
theorem c11_converge (env : Env) (conn : Conn) (name : Str) (h : List Delivery) (d : Delivery) (s s' : CI)
    (hrun : runHist env (empty env conn name) h = some s)
    (hlast : sync env s d.obj d.ord = .ok s')
    (hname : env.lower d.obj.name = env.lower name) :
    observe env s' = expected env conn d.obj ∧
    ∀ ord', ∃ f, fresh env conn d.obj ord' = .ok f ∧ observe env f = observe env s' := by
  obtain ⟨hI, hcl, hco⟩ := c11_history_invariant env h _ _ (empty_inv env conn name) hrun
  have hn : s.cluster = env.lower d.obj.name := by rw [hcl, hname]; rfl
  obtain ⟨_, _, _, hobs, happ, hsafe, hg⟩ := sync_ok_spec hI hlast hn
  have hco' : s.conn = conn := hco
  rw [hco'] at hobs happ hg
  refine ⟨hobs, fun ord' => ?_⟩
  obtain ⟨f, hf⟩ := fresh_progress ord' happ hsafe hg
  refine ⟨f, hf, ?_⟩
  obtain ⟨_, _, _, hobs', _⟩ := sync_ok_spec (empty_inv env conn d.obj.name) hf rfl
  rw [hobs, hobs']; rfl

/-- the same, as a statement about the fold over the whole history `h ++ [d]` -/
theorem c11_converge_fold (env : Env) (conn : Conn) (name : Str) (h : List Delivery) (d : Delivery) (s' : CI)
    (hrun : runHist env (empty env conn name) (h ++ [d]) = some s')
    (hlast : ∀ s, runHist env (empty env conn name) h = some s → ∃ s'', sync env s d.obj d.ord = .ok s'')
    (hname : env.lower d.obj.name = env.lower name) :
    observe env s' = expected env conn d.obj ∧
    ∀ ord', ∃ f, fresh env conn d.obj ord' = .ok f ∧ observe env f = observe env s' := by
  simp only [runHist, List.foldl_append, List.foldl] at hrun
  cases hs : List.foldl (stepHist env) (some (empty env conn name)) h with
  | none => rw [hs] at hrun; simp [stepHist] at hrun
  | some s =>
    rw [hs] at hrun
    obtain ⟨s'', hs''⟩ := hlast s hs
    simp only [stepHist, hs''] at hrun
    injection hrun with hrun; subst hrun
    exact c11_converge env conn name h d s s'' hs hs'' hname

/-- a `Sync` that fails — at whatever sub-sync, however far it got — changes neither the TLS material, nor the
    verify options, nor the server names the cluster reports (so the controller's before/after comparison of
    `LoadServerNames` is sound), and the next successful `Sync` repairs everything else (`c11_converge`) -/
theorem c11_failed_sync_keeps_serving_config (env : Env) (c c' : CI) (o : Obj) (ord : List Str) (e : Err)
    (hI : Inv env c) (h : sync env c o ord = .fail e c') :
    loadTLSConfig c' = loadTLSConfig c ∧ loadVerifyOptions c' = loadVerifyOptions c ∧
    loadServerNames env c' = loadServerNames env c := by
  obtain ⟨_, hcl, _, hss⟩ := sync_fail_spec hI h
  simp only [loadTLSConfig, loadVerifyOptions, loadServerNames, loadSS, hss, hcl]
  exact ⟨trivial, trivial, trivial⟩

/-- the process only panics on objects admission validation rejects: with schemas that all have the member their
    limiter type needs, and `GlobalRateLimiter` a registered gate, no `Sync` panics -/
theorem c11_no_panic (env : Env) (c : CI) (o : Obj) (ord : List Str) (hI : Inv env c)
    (hs : ∀ s ∈ o.schemas, safe s)
    (hg : ∀ g, (g = env.defaultGates ∨ ∃ v, env.setGates v = some g) → (alookup strGlobalRateLimiter g).isSome = true) :
    sync env c o ord ≠ .crash := by
  intro hcr
  unfold sync at hcr
  by_cases hn : c.cluster ≠ env.lower o.name
  · rw [if_pos hn] at hcr; cases hcr
  · rw [if_neg hn] at hcr
    cases h1 : syncFeatureGate env c o.annotations with
    | error e => rw [h1] at hcr; cases hcr
    | ok c1 =>
      rw [h1] at hcr; simp only at hcr
      obtain ⟨hc1, hg1, hga⟩ := syncFeatureGate_spec h1
      have hgl : (alookup strGlobalRateLimiter c1.gates).isSome = true := by
        apply hg
        rw [hg1]
        unfold expGates
        simp only
        by_cases hv : (gateAnnotation o.annotations).length = 0
        · rw [if_pos hv]; exact Or.inl rfl
        · rw [if_neg hv]
          obtain ⟨g, hgs⟩ := Option.isSome_iff_exists.1 (hga hv)
          rw [hgs]; exact Or.inr ⟨_, hgs⟩
      cases h2 : getFlowControlType c1.conn.globalRateLimiter c1.gates with
      | none =>
        unfold getFlowControlType at h2
        by_cases hr : c1.conn.globalRateLimiter = strRemote
        · rw [if_pos hr] at h2
          obtain ⟨b, hb⟩ := Option.isSome_iff_exists.1 hgl
          rw [hb] at h2
          cases b <;> cases h2
        · rw [if_neg hr] at h2; cases h2
      | some t =>
        rw [h2] at hcr; simp only at hcr
        have hF2 : FInv (resetLimiter c1 t) := by
          rw [resetLimiter_spec]
          exact FInv_of_eq (a := c) (by simp only; rw [hc1]) (by simp only; rw [hc1]) hI.1
        obtain ⟨c3, h3⟩ := syncLocalFlowControls_progress hF2 hs
        rw [h3] at hcr; simp only at hcr
        cases h4 : syncEndpoints env c3 o.servers ord with
        | mk c4 err =>
          rw [h4] at hcr
          cases err with
          | some e => cases hcr
          | none =>
            simp only at hcr
            cases h5 : syncSecureServing env c4 o.secureServing with
            | error e => rw [h5] at hcr; cases hcr
            | ok c5 => rw [h5] at hcr; cases hcr

/-! ## the controller -/

/-- every delivery that is not asked to be requeued leaves its cluster settled on the lister's CURRENT object —
    however old the queue item is (a re-delivered, superseded event re-applies the current object), whatever was
    applied, refused or half-applied before -/
theorem c11_delivery_applies_listers_object (env : Env) (conn : Conn) (hl : LowerIdem env) (st st' : Ctl) (X : Str)
    (ord : List Str) (hI : CInv env conn st) (hX : env.lower X = X)
    (h : syncUpstreamCluster env conn st X ord = .done st') :
    SettledAt env conn st' X ∧ CInv env conn st' := by
  have := handler_spec (conn := conn) hl ord hI hX
  rw [h] at this
  exact ⟨this.2, this.1.1⟩

/-- **deletion then re-creation = fresh**: after any sequence of ops, when nothing is served under a cluster's name
    (it never existed, or its deletion was delivered), the delivery that brings it back installs exactly the
    `ClusterInfo` `CreateClusterInfo` builds from the lister's current object — nothing of an earlier incarnation -/
theorem c11_recreate_is_fresh (env : Env) (conn : Conn) (hl : LowerIdem env) (ops : List COp) (st st' : Ctl)
    (hv : ∀ op ∈ ops, ValidOp env op) (hrun : Ctl.run env conn (some Ctl.init) ops = some st)
    (X : Str) (hX : env.lower X = X) (o : Obj) (ord : List Str) (hlis : alookup X st.lister = some o)
    (hg : st.get env X = none) (h : syncUpstreamCluster env conn st X ord = .done st') :
    ∃ f, fresh env conn o ord = .ok f ∧ st'.get env X = some (st.heap.length, f) :=
  create_is_fresh hl ord (run_inv hl ops Ctl.init st (AllInv_init env conn) hv hrun).cinv hX hlis hg h

/-- **C11 (controller)**: for EVERY sequence of API writes and deletes of any clusters (with overlapping, moving,
    conflicting server names) and queue deliveries in ANY order — refused and failed deliveries stay pending and are
    delivered again whenever, long after newer versions were applied — as long as the gateway is alive: every cluster
    for which nothing is pending is exactly what its latest object prescribes and observes the same as a freshly
    created `ClusterInfo` given only that object (which creation succeeds); a cluster whose object is gone is not
    served.  Deletion followed by re-creation is one instance. -/
theorem c11_controller (env : Env) (conn : Conn) (hl : LowerIdem env) (ops : List COp) (st : Ctl)
    (hv : ∀ op ∈ ops, ValidOp env op) (hrun : Ctl.run env conn (some Ctl.init) ops = some st)
    (n : Str) (hn : env.lower n = n) (hpend : n ∉ st.queue) :
    match alookup n st.lister with
    | none => ∀ (id : Nat) (ci : CI), st.get env n = some (id, ci) → ci.cluster ≠ n
    | some o => ∃ id ci, st.get env n = some (id, ci) ∧ ci.cluster = n ∧
        observe env ci = expected env conn o ∧
        ∀ ord', ∃ f, fresh env conn o ord' = .ok f ∧ observe env f = observe env ci := by
  have hA := run_inv hl ops Ctl.init st (AllInv_init env conn) hv hrun
  have hs : SettledAt env conn st n := by
    cases hA.settled n hn with
    | inl h => exact absurd h hpend
    | inr h => exact h
  unfold SettledAt at hs
  rw [get_eq, hn]
  exact hs

/-- **C11 (controller, server names)**: under the same hypotheses, the hosts that resolve to a settled cluster are
    exactly the (lower-cased) server names of its latest object: its own name and its current `serverNames`.
    (Before fix ddabea4 this was false: a `Sync` failing in `syncEndpoints` had already installed the new names.) -/
theorem c11_controller_names (env : Env) (conn : Conn) (hl : LowerIdem env) (ops : List COp) (st : Ctl)
    (hv : ∀ op ∈ ops, ValidOp env op) (hrun : Ctl.run env conn (some Ctl.init) ops = some st)
    (n : Str) (hn : env.lower n = n) (hpend : n ∉ st.queue) (o : Obj) (hlis : alookup n st.lister = some o) (h : Str) :
    (∃ id ci, st.get env h = some (id, ci) ∧ ci.cluster = n) ↔
    env.lower h ∈ n :: o.secureServing.serverNames.map env.lower := by
  have hA := run_inv hl ops Ctl.init st (AllInv_init env conn) hv hrun
  have hs : SettledAt env conn st n := by
    cases hA.settled n hn with
    | inl h => exact absurd h hpend
    | inr h => exact h
  exact names_of_settled hA.cinv hn hlis hs h

/-- … and no host at all resolves to a cluster whose object is gone once nothing is pending for it -/
theorem c11_controller_deleted (env : Env) (conn : Conn) (hl : LowerIdem env) (ops : List COp) (st : Ctl)
    (hv : ∀ op ∈ ops, ValidOp env op) (hrun : Ctl.run env conn (some Ctl.init) ops = some st)
    (n : Str) (hn : env.lower n = n) (hpend : n ∉ st.queue) (hlis : alookup n st.lister = none) (h : Str) :
    ¬ ∃ id ci, st.get env h = some (id, ci) ∧ ci.cluster = n := by
  have hA := run_inv hl ops Ctl.init st (AllInv_init env conn) hv hrun
  have hs : SettledAt env conn st n := by
    cases hA.settled n hn with
    | inl h => exact absurd h hpend
    | inr h => exact h
  unfold SettledAt at hs
  rw [hlis] at hs
  intro hx
  obtain ⟨id, ci, hg, hc⟩ := hx
  rw [get_eq] at hg
  have hr := resolves_some.1 hg
  have := hA.cinv.namesKeys _ id ci hr.1 hr.2 ci.cluster (cluster_mem_names env ci)
  rw [hc] at this
  exact hs id ci (resolves_some.2 ⟨this, hr.2⟩) hc

/-- the model's manager map never points to a `ClusterInfo` that does not exist (`Ctl.get` treats that as "not found";
    this shows the case never arises), and every `ClusterInfo` of the controller is consistent -/
theorem c11_controller_wf (env : Env) (conn : Conn) (hl : LowerIdem env) (ops : List COp) (st : Ctl)
    (hv : ∀ op ∈ ops, ValidOp env op) (hrun : Ctl.run env conn (some Ctl.init) ops = some st) :
    (∀ (k : Str) (id : Nat), alookup k st.mgr = some id → ∃ ci, st.heap[id]? = some ci ∧ k ∈ loadServerNames env ci) ∧
    (∀ (id : Nat) (ci : CI), st.heap[id]? = some ci → Inv env ci ∧ ci.conn = conn) := by
  have hA := run_inv hl ops Ctl.init st (AllInv_init env conn) hv hrun
  exact ⟨hA.cinv.keysSub, fun id ci h => ⟨(hA.cinv.heapOK id ci h).1, (hA.cinv.heapOK id ci h).2.2⟩⟩

/-! ## effective routing is determined by the observation -/

/-- two `ClusterInfo`s with the same observation route every request identically: same policy, same flow-control
    schema and limiter, same logging decision, same set of candidate endpoints (`MatchAttributes`) -/
theorem c11_routing (env : Env) (a b : CI) (h : observe env a = observe env b) (q : KG.Model.Match.Attrs) :
    (matchAttributes a q).map (fun p => (p.index, p.flowControlName, p.flowControl, p.enableLog)) =
      (matchAttributes b q).map (fun p => (p.index, p.flowControlName, p.flowControl, p.enableLog)) ∧
    ∀ ep, (∃ p, matchAttributes a q = some p ∧ ep ∈ p.upstreams) ↔ (∃ p, matchAttributes b q = some p ∧ ep ∈ p.upstreams) := by
  have hp : loadPolicies a = loadPolicies b := congrArg Obs.policies h
  have hlg : loadLogging a = loadLogging b := congrArg Obs.logging h
  have hfs : getFlowSchema a = getFlowSchema b := congrArg Obs.schemas h
  have hep : loadEndpoint a = loadEndpoint b := congrArg Obs.endpoints h
  have hall : ∀ ep, ep ∈ allEndpoints a ↔ ep ∈ allEndpoints b := by
    intro ep; rw [mem_allEndpoints, mem_allEndpoints, hep]
  unfold matchAttributes
  simp only [hp, hlg, hfs]
  cases KG.Model.Match.matchPolicies q ((loadPolicies b).map (·.rules)) with
  | none => simp
  | some i =>
    simp only
    cases (loadPolicies b)[i]? with
    | none => simp
    | some p =>
      simp only [Option.map_some, true_and]
      intro ep
      by_cases hu : p.upstreamSubset.length ≠ 0
      · simp [hu]
      · simp only [hu, if_false]
        constructor
        · intro hx; obtain ⟨p', hp', hm⟩ := hx; injection hp' with hp'; subst hp'
          exact ⟨_, rfl, (hall ep).1 hm⟩
        · intro hx; obtain ⟨p', hp', hm⟩ := hx; injection hp' with hp'; subst hp'
          exact ⟨_, rfl, (hall ep).2 hm⟩

/-! ## non-vacuity: the hypotheses are satisfiable by concrete, non-trivial histories -/

section NonVacuous

/-- a concrete instance of the external code: no gate annotation parses, no PEM blob parses, `"x"` is an unusable endpoint -/
def env0 : Env :=
  { lower := id, setGates := fun _ => none, defaultGates := [(strGlobalRateLimiter, false)],
    parseCA := fun _ => none, parsePair := fun c k => if c = k then some c else none, addOK := fun e => e ≠ [120] }

def conn0 : Conn := ⟨strRemote, false⟩

def objA : Obj :=
  { name := [99], annotations := none, servers := [⟨[104], none⟩, ⟨[105], some true⟩],
    secureServing := ⟨[7], [7], [], [[97]]⟩,
    schemas := [⟨[97], false, some 5, none, none, none, []⟩], policies := [], logging := strOn }

/-- same cluster: the schema is retyped, a server dropped, the key removed, a client CA that does not parse added -/
def objBad : Obj :=
  { objA with servers := [⟨[104], some true⟩], secureServing := ⟨[], [7], [1], []⟩,
              schemas := [⟨[97], false, none, some ⟨3, 4⟩, none, none, []⟩] }

/-- and one that can be applied again -/
def objC : Obj :=
  { objBad with secureServing := ⟨[], [7], [], [[98]]⟩, servers := [⟨[105], none⟩] }

/-- the middle delivery FAILS (client CA), after feature gates, flow control (schema retyped) and endpoints were already
    applied: the state it leaves is not the one before it … -/
example : ∃ s1 e s2, sync env0 (empty env0 conn0 [99]) objA [] = .ok s1 ∧ sync env0 s1 objBad [] = .fail e s2 ∧
    s2.fcs ≠ s1.fcs ∧ s2.eps ≠ s1.eps ∧ s2.ss = s1.ss := by
  refine ⟨_, _, _, rfl, rfl, ?_, ?_, rfl⟩ <;> decide

/-- … and the hypotheses of `c11_converge` hold for the history [objA, objBad] followed by objC -/
example : ∃ s s', runHist env0 (empty env0 conn0 [99]) [⟨objA, []⟩, ⟨objBad, []⟩] = some s ∧
    sync env0 s objC [] = .ok s' ∧ env0.lower objC.name = env0.lower [99] :=
  ⟨_, _, rfl, rfl, rfl⟩

/-- controller: objBad is refused first (cluster not yet created: `CreateClusterInfo` fails) and stays queued, objC
    is written and applied, then the stale item is delivered again: nothing is pending, the hypotheses of
    `c11_controller` hold, and the cluster is served -/
example : ∃ st, Ctl.run env0 conn0 (some Ctl.init)
      [.write objBad, .deliver 0 [], .write objC, .deliver 1 [], .deliver 0 []] = some st ∧
    (∀ op ∈ [COp.write objBad, .deliver 0 [], .write objC, .deliver 1 [], .deliver 0 []], ValidOp env0 op) ∧
    [99] ∉ st.queue ∧ (alookup [99] st.lister).isSome = true ∧ (st.get env0 [99]).isSome = true ∧ LowerIdem env0 := by
  refine ⟨_, rfl, ?_, ?_, ?_, ?_, fun _ => rfl⟩
  · intro op hop
    simp only [List.mem_cons, List.mem_nil_iff, or_false] at hop
    rcases hop with h | h | h | h | h <;> subst h <;> first | rfl | trivial
  · decide
  · decide
  · decide

end NonVacuous

end KG.Props.C11
