import KG.Props.C01
/-!
# C17 — Admission normalisation of rules does not change what they match

`normalizeRule` mirrors `normalizeRules` / `filterRules` of plugin/admission/upstreamcluster/admission.go;
`ruleMatches` is the model of the *current* matcher (pkg/clusters/matcher.go), as in C01.
-/
namespace KG.Props.C17
open KG KG.Model.Match KG.Spec.Match KG.Lemmas.Match KG.Props.C01

theorem normLoop_star (E f r : List Str) (h : star ∈ E) : (normLoop E f r).2.2 = true := by
  induction E generalizing f r with
  | nil => cases h
  | cons x xs ih =>
    unfold normLoop
    by_cases hx : x = star
    · simp [hx]
    · have hm : star ∈ xs := by
        cases h with
        | head => exact absurd rfl hx
        | tail _ h' => exact h'
      simp only [hx, if_false]
      split <;> exact ih _ _ hm

theorem normLoop_nostar (E f r : List Str) (h : star ∉ E) :
    normLoop E f r = (f ++ positives E, r ++ E.filter inverted, false) := by
  induction E generalizing f r with
  | nil => simp [normLoop, positives]
  | cons x xs ih =>
    have hx : x ≠ star := fun e => h (by simp [e])
    have hxs : star ∉ xs := fun e => h (by simp [e])
    unfold normLoop
    simp only [hx, if_false]
    by_cases hi : inverted x = true
    · simp [hi, ih _ _ hxs, positives]
    · have hi' : inverted x = false := by simpa using hi
      simp [hi', ih _ _ hxs, positives]

theorem normField_star (E : List Str) (h : star ∈ E) : normField E = [star] := by
  have := normLoop_star E [] [] h
  unfold normField
  split
  rename_i f r all heq
  rw [heq] at this
  simp at this
  simp [this]

theorem normField_nostar (E : List Str) (h : star ∉ E) :
    normField E = if (positives E).isEmpty then E.filter inverted else positives E := by
  unfold normField
  rw [normLoop_nostar E [] [] h]
  cases hp : positives E <;> simp

private theorem contains_false {E : List Str} (h : star ∉ E) : E.contains star = false := by
  cases hc : E.contains star
  · rfl
  · exact absurd ((contains_star_iff E).1 hc) h

theorem positives_idem (E : List Str) : positives (positives E) = positives E := by
  simp [positives, List.filter_filter]

theorem positives_of_inverted (E : List Str) : positives (E.filter inverted) = [] := by
  simp only [positives, List.filter_filter, List.filter_eq_nil_iff]
  intro x _; cases inverted x <;> simp

theorem negatives_of_inverted (E : List Str) : negatives (E.filter inverted) = negatives E := by
  simp [negatives, List.filter_filter]

theorem negatives_of_positives (E : List Str) : negatives (positives E) = [] := by
  simp only [negatives, positives, List.filter_filter, List.map_eq_nil_iff, List.filter_eq_nil_iff]
  intro x _; cases inverted x <;> simp

/-- Field level: the normalised list has the same documented meaning as the submitted one. -/
theorem c17_field (opt : Bool) (pos : Str → Bool) (E : List Str) :
    fieldSpec opt pos (normField E) = fieldSpec opt pos E := by
  by_cases hs : star ∈ E
  · rw [normField_star E hs]
    simp [fieldSpec, hs]
  · rw [normField_nostar E hs]
    have hc := contains_false hs
    cases hp : positives E with
    | nil =>
      have hs2 : star ∉ E.filter inverted := fun h => hs (List.mem_filter.1 h).1
      simp only [List.isEmpty_nil, if_true]
      unfold fieldSpec
      rw [contains_false hs2, hc, positives_of_inverted, negatives_of_inverted, hp]
    | cons p ps =>
      simp only [List.isEmpty_cons, Bool.false_eq_true, if_false]
      rw [← hp]
      have hs2 : star ∉ positives E := fun h => hs (List.mem_filter.1 h).1
      unfold fieldSpec
      rw [contains_false hs2, hc, positives_idem, negatives_of_positives]
      simp [hp]

theorem c17_url (E : List Str) (q : Str) : urlSpec (normField E) q = urlSpec E q := by
  by_cases hs : star ∈ E
  · rw [normField_star E hs]
    simp [urlSpec, hs]
  · rw [normField_nostar E hs]
    have hc := contains_false hs
    cases hp : positives E with
    | nil =>
      have hs2 : star ∉ E.filter inverted := fun h => hs (List.mem_filter.1 h).1
      simp only [List.isEmpty_nil, if_true]
      unfold urlSpec
      rw [contains_false hs2, hc, positives_of_inverted, hp]
    | cons p ps =>
      simp only [List.isEmpty_cons, Bool.false_eq_true, if_false]
      rw [← hp]
      have hs2 : star ∉ positives E := fun h => hs (List.mem_filter.1 h).1
      unfold urlSpec
      rw [contains_false hs2, hc, positives_idem]

theorem normField_isEmpty (E : List Str) : (normField E).isEmpty = E.isEmpty := by
  by_cases hs : star ∈ E
  · rw [normField_star E hs]; cases E with
    | nil => cases hs
    | cons _ _ => simp
  · rw [normField_nostar E hs]
    cases E with
    | nil => simp [positives]
    | cons x xs =>
      by_cases hi : inverted x = true
      · cases hp : positives (x :: xs) <;> simp [List.filter_cons, hi]
      · have hi' : inverted x = false := by simpa using hi
        simp [positives, List.filter_cons, hi']

/-- **C17 (equivalence)**: for every rule and every request, the stored (normalised) rule matches iff the
    submitted rule does. -/
theorem c17_equiv (a : Attrs) (r : Rule) : ruleMatches a (normalizeRule r) = ruleMatches a r := by
  rw [c01_rule_refines, c01_rule_refines]
  unfold ruleSpec normalizeRule userSpec
  simp only [c17_field, c17_url, normField_isEmpty]

theorem normField_idem (E : List Str) : normField (normField E) = normField E := by
  by_cases hs : star ∈ E
  · rw [normField_star E hs]; decide
  · rw [normField_nostar E hs]
    cases hp : positives E with
    | nil =>
      have hs2 : star ∉ E.filter inverted := fun h => hs (List.mem_filter.1 h).1
      simp only [List.isEmpty_nil, if_true]
      rw [normField_nostar _ hs2, positives_of_inverted]
      simp [List.filter_filter]
    | cons p ps =>
      simp only [List.isEmpty_cons, Bool.false_eq_true, if_false]
      rw [← hp]
      have hs2 : star ∉ positives E := fun h => hs (List.mem_filter.1 h).1
      rw [normField_nostar _ hs2, positives_idem]
      simp [hp]

/-- **C17 (idempotence)**: normalising an already normalised rule changes nothing. -/
theorem c17_idem (r : Rule) : normalizeRule (normalizeRule r) = normalizeRule r := by
  simp [normalizeRule, normField_idem]

/-- the whole policy list routes identically before and after normalisation -/
theorem c17_routing (a : Attrs) (ps : List Policy) :
    matchPolicies a (ps.map (·.map normalizeRule)) = matchPolicies a ps := by
  induction ps with
  | nil => rfl
  | cons p ps ih =>
    simp only [List.map_cons, matchPolicies, ih]
    have : policyMatches a (p.map normalizeRule) = policyMatches a p := by
      simp [policyMatches, List.any_map, Function.comp_def, c17_equiv]
    rw [this]

end KG.Props.C17
