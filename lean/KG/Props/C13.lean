import KG.Spec.Shard
/-! # C13 — sharding and leadership guard (work in progress: first theorems) -/
namespace KG.Props.C13
open KG KG.Model.Shard KG.Spec.Shard

theorem toU32_lt (x : Int) : toU32 x < 4294967296 := by
  unfold toU32; omega

end KG.Props.C13
