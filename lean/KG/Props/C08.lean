import KG.Lemmas.GlobalCount
/-!
# C08 — Global count: the server never grants beyond the global limit; accounting is exact

Model: `KG.Model.GlobalCount` (current, repaired tree). Judge / invariants: `KG.Spec.GlobalCount`.

`SetState` is ONE critical section of `f.lock` (shape fact re-read from the source on every check:
`KG.Gen.C08.setStateOneCriticalSection`), so one call is one atomic step (`setState`); every interleaving of
calls issued by any number of instances/threads is therefore a sequence of `Op`s, and the sequential theorems
below, which quantify over ALL op lists, are the interleaving theorems (`c08_conc_*` make that explicit; the
`Fine` system with the lock and every atomic as its own step is related to it in part 4).
Exclusion of `sync.RWMutex.Lock` / `sync.Mutex.Lock` is trusted.
-/
namespace KG.Props.C08
open KG KG.Model.GlobalCount KG.Spec.GlobalCount KG.Lemmas.GlobalCount

/-! ## 0. the shape facts the atomic-step models rest on (regenerated from /repo; `rfl` breaks if they change) -/

theorem c08_shape_setstate_one_critical_section : KG.Gen.C08.setStateOneCriticalSection = true := rfl
theorem c08_shape_tryacquire_reads_clock_under_lock : KG.Gen.C08.tryAcquireSerialized = true := rfl

/-! ## 1. one operation -/

/-- every operation keeps `count = Σ states` as `int32`s (what `DebugInfo` shows as `count` vs `total`),
    whatever the values: no hypothesis besides "arguments are `int32`s" -/
theorem c08_step_total_mod (g : G) (op : Op) (h : ModInv g) (hop : OpI32 op) : ModInv (step g op) := by
  cases op with
  | set i r c => exact setState_modInv i r c h hop
  | resize n =>
    show ModInv (resize g n).1
    unfold resize
    split
    · exact ⟨⟨hop, h.1.count, h.1.states, h.1.nodup⟩, h.2⟩
    · exact h

/-- exact accounting and the bound, for one `SetState`: the total stays exactly `Σ states`, and
    `count' ≤ max(count, limit)`; the limit is untouched -/
theorem c08_setState_exact (g : G) (inst : Str) (rid cur : Int) (h : Inv g) (hc : InI32 cur)
    (hpre : 0 ≤ cur → Pre g inst cur) :
    Inv (setState g inst rid cur).1 ∧
    ((setState g inst rid cur).1.count ≤ g.count ∨ (setState g inst rid cur).1.count ≤ g.max) ∧
    (setState g inst rid cur).1.max = g.max := by
  refine ⟨?_, ?_, setState_max g inst rid cur⟩
  · -- Inv
    have hmod : ModInv (setState g inst rid cur).1 :=
      setState_modInv inst rid cur ⟨h.1, by rw [h.2, wrap32_id (h.2 ▸ h.1.count)]⟩ hc
    refine ⟨hmod.1, ?_⟩
    by_cases hneg : cur < 0
    · cases hf : find inst g.states with
      | none => rw [setState_remove_none g inst rid cur hneg hf]; exact h.2
      | some s =>
        rw [setState_remove_some g inst rid cur s hneg hf]
        show wrap32 (g.count + wrap32 (-s.count)) = sumStates (erase inst g.states)
        rw [sum_erase_some hf, h.2]
        have := allOk_find h.1.states hf
        have := find_le_sum h.1.states hf
        have hc := h.1.count; rw [h.2] at hc
        unfold InI32 at hc; unfold wrap32; omega
    · have h0 : 0 ≤ cur := by omega
      have hp := hpre h0
      have hI : Inv (ensure g inst) := ⟨ensure_wf inst h.1, by rw [ensure_count, ensure_sum]; exact h.2⟩
      rw [setState_report g inst rid cur h0]
      by_cases hs : rid > 0 ∧ rid ≤ (stateOf g inst).requestId
      · rw [report_stale _ _ _ _ _ hs]; exact hI.2
      · have hpre' : sumStates (ensure g inst).states ≤ (ensure g inst).max ∨
            sumStates (ensure g inst).states - (stateOf g inst).count + cur ≤ 2147483647 := by
          rw [ensure_sum, ensure_max, stateOf_count]; exact hp.2
        rcases report_exact hI (ensure_find g inst) ⟨h0, hc.2⟩ (by rw [ensure_max]; exact hp.1) hpre' hs with
          ⟨_, _, e⟩ | ⟨_, _, e⟩
        · rw [e]
          show (ensure g inst).count = sumStates (put inst _ (ensure g inst).states)
          rw [sum_put_some (ensure_find g inst), hI.2]
          show _ = sumStates (ensure g inst).states - (stateOf g inst).count + (stateOf g inst).count
          omega
        · rw [e]
          show _ = sumStates (put inst _ (ensure g inst).states)
          rw [sum_put_some (ensure_find g inst)]
  · -- bound
    by_cases hneg : cur < 0
    · cases hf : find inst g.states with
      | none => rw [setState_remove_none g inst rid cur hneg hf]; exact Or.inl (Int.le_refl _)
      | some s =>
        rw [setState_remove_some g inst rid cur s hneg hf]
        left
        show wrap32 (g.count + wrap32 (-s.count)) ≤ g.count
        have := allOk_find h.1.states hf
        have := find_le_sum h.1.states hf
        have hc := h.1.count
        have := h.2
        unfold InI32 at hc; unfold wrap32; omega
    · have h0 : 0 ≤ cur := by omega
      have hp := hpre h0
      have hI : Inv (ensure g inst) := ⟨ensure_wf inst h.1, by rw [ensure_count, ensure_sum]; exact h.2⟩
      rw [setState_report g inst rid cur h0]
      by_cases hs : rid > 0 ∧ rid ≤ (stateOf g inst).requestId
      · rw [report_stale _ _ _ _ _ hs]; left; rw [ensure_count]; exact Int.le_refl _
      · have hpre' : sumStates (ensure g inst).states ≤ (ensure g inst).max ∨
            sumStates (ensure g inst).states - (stateOf g inst).count + cur ≤ 2147483647 := by
          rw [ensure_sum, ensure_max, stateOf_count]; exact hp.2
        rcases report_exact hI (ensure_find g inst) ⟨h0, hc.2⟩ (by rw [ensure_max]; exact hp.1) hpre' hs with
          ⟨_, _, e⟩ | ⟨hn, _, e⟩
        · rw [e]; left; show (ensure g inst).count ≤ g.count; rw [ensure_count]; exact Int.le_refl _
        · rw [e]
          show sumStates (ensure g inst).states - (stateOf g inst).count + cur ≤ g.count ∨
               sumStates (ensure g inst).states - (stateOf g inst).count + cur ≤ g.max
          rw [ensure_sum, ensure_max] at hn
          rw [ensure_sum, h.2]
          omega

/-- **A report that does not raise the instance's count is always applied** — also while the total is above
    a lowered limit (the repaired defect), for any limit and any total, wrapped or not. -/
theorem c08_seq_decrease (g : G) (inst : Str) (rid cur : Int) (s : Inst) (h : WF g)
    (hf : find inst g.states = some s) (h0 : 0 ≤ cur) (hle : cur ≤ s.count)
    (hns : ¬ (0 < rid ∧ rid ≤ s.requestId)) :
    find inst (setState g inst rid cur).1.states = some ⟨cur, newId s rid⟩ ∧
    (setState g inst rid cur).2.latest = cur ∧ (setState g inst rid cur).2.err = .none ∧
    (setState g inst rid cur).1.count = wrap32 (g.count - (s.count - cur)) := by
  have ho := allOk_find h.states hf
  have hst : stateOf g inst = s := by unfold stateOf; rw [hf]
  have hen : ensure g inst = g := by unfold ensure; rw [hf]
  rw [setState_report g inst rid cur h0, hst, hen]
  rcases report_cases g inst s rid cur h.count ho ⟨h0, by omega⟩ hns with ⟨_, hgt, _⟩ | ⟨_, e⟩
  · omega
  · rw [e]
    refine ⟨find_put_self _ _ _, rfl, rfl, ?_⟩
    show wrap32 (g.count + (cur - s.count)) = wrap32 (g.count - (s.count - cur))
    congr 1; omega

/-- with exact accounting the total drops by exactly the difference -/
theorem c08_seq_decrease_exact (g : G) (inst : Str) (rid cur : Int) (s : Inst) (h : Inv g)
    (hf : find inst g.states = some s) (h0 : 0 ≤ cur) (hle : cur ≤ s.count)
    (hns : ¬ (0 < rid ∧ rid ≤ s.requestId)) :
    (setState g inst rid cur).1.count = g.count - (s.count - cur) := by
  rw [(c08_seq_decrease g inst rid cur s h.1 hf h0 hle hns).2.2.2]
  have := allOk_find h.1.states hf
  have := find_le_sum h.1.states hf
  have hc := h.1.count
  have := h.2
  unfold InI32 at hc; unfold wrap32; omega

/-- **A report whose request id is not newer than one already processed for the instance is refused**
    with `RequestIDTooOld`, and nothing changes. -/
theorem c08_seq_reqid_refused (g : G) (inst : Str) (rid cur : Int) (s : Inst)
    (hf : find inst g.states = some s) (h0 : 0 ≤ cur) (hid : 0 < rid ∧ rid ≤ s.requestId) :
    setState g inst rid cur = (g, ⟨false, cur, .requestIDTooOld⟩) := by
  have hst : stateOf g inst = s := by unfold stateOf; rw [hf]
  have hen : ensure g inst = g := by unfold ensure; rw [hf]
  rw [setState_report g inst rid cur h0, hst, hen, report_stale _ _ _ _ _ hid]

/-- `RequestIDTooOld` is answered only for stale ids -/
theorem c08_seq_reqid_only_stale (g : G) (inst : Str) (rid cur : Int)
    (he : (setState g inst rid cur).2.err = .requestIDTooOld) :
    0 ≤ cur ∧ ∃ s, find inst g.states = some s ∧ 0 < rid ∧ rid ≤ s.requestId := by
  by_cases hneg : cur < 0
  · cases hf : find inst g.states with
    | none => rw [setState_remove_none g inst rid cur hneg hf] at he; cases he
    | some s => rw [setState_remove_some g inst rid cur s hneg hf] at he; cases he
  · have h0 : 0 ≤ cur := by omega
    refine ⟨h0, ?_⟩
    rw [setState_report g inst rid cur h0, report_eq] at he
    by_cases hs : rid > 0 ∧ rid ≤ (stateOf g inst).requestId
    · cases hf : find inst g.states with
      | none =>
        have : stateOf g inst = ⟨0, 0⟩ := by unfold stateOf; rw [hf]
        rw [this] at hs; simp only at hs; omega
      | some s =>
        have : stateOf g inst = s := by unfold stateOf; rw [hf]
        exact ⟨s, rfl, this ▸ hs⟩
    · simp only [hs, if_false] at he
      split at he
      · cases he
      · split at he <;> cases he

/-- **Stored request ids only grow**: after any `SetState` of a registered instance that does not remove it,
    the stored id is the old one (refused as stale, or `rid ≤ 0`) or the strictly larger `rid`. -/
theorem c08_seq_reqid_monotone (g : G) (inst : Str) (rid cur : Int) (s : Inst)
    (hf : find inst g.states = some s) (h0 : 0 ≤ cur) :
    ∃ s', find inst (setState g inst rid cur).1.states = some s' ∧ s.requestId ≤ s'.requestId ∧
      ((setState g inst rid cur).2.err = .none → 0 < rid → s'.requestId = rid ∧ s.requestId < rid) := by
  have hst : stateOf g inst = s := by unfold stateOf; rw [hf]
  have hen : ensure g inst = g := by unfold ensure; rw [hf]
  rw [setState_report g inst rid cur h0, hst, hen]
  obtain ⟨s', h1, h2⟩ := report_find_id g inst s rid cur hf
  refine ⟨s', h1, ?_, ?_⟩
  · rw [h2]; unfold newId; split
    · exact Int.le_refl _
    · split <;> omega
  · intro he hr
    by_cases hs : rid > 0 ∧ rid ≤ s.requestId
    · rw [report_stale _ _ _ _ _ hs] at he; cases he
    · rw [h2, if_neg hs]; unfold newId; rw [if_pos hr]; omega

/-- operations of other instances, and `Resize`, leave an instance's entry alone -/
theorem c08_seq_others_untouched (g : G) (op : Op) (j : Str)
    (h : match op with | .set i _ _ => j ≠ i | .resize _ => True) :
    find j (step g op).states = find j g.states := by
  cases op with
  | set i r c => exact setState_find_other g i j r c h
  | resize n => show find j (resize g n).1.states = _; unfold resize; split <;> rfl

/-- an op "removes `inst`" when it is a `SetState` of `inst` with a negative count -/
def Removes (inst : Str) : Op → Prop
  | .set i _ c => i = inst ∧ c < 0
  | .resize _ => False

/-- **Equal (or older) request ids are processed at most once**: once a report with id `rid` has been processed
    for an instance, then after ANY further operations (of any instances, in any order) that do not remove the
    instance, a report of it with an id `≤ rid` is refused. -/
theorem c08_seq_same_id_once (g : G) (inst : Str) (rid cur : Int) (ops : List Op) (rid' cur' : Int)
    (h0 : 0 ≤ cur) (hr : 0 < rid) (hproc : (setState g inst rid cur).2.err = .none)
    (hno : ∀ op ∈ ops, ¬ Removes inst op) (h0' : 0 ≤ cur') (hr' : 0 < rid' ∧ rid' ≤ rid) :
    (setState (run (setState g inst rid cur).1 ops) inst rid' cur').2 = ⟨false, cur', .requestIDTooOld⟩ ∧
    (setState (run (setState g inst rid cur).1 ops) inst rid' cur').1 = run (setState g inst rid cur).1 ops := by
  -- after the processed report the stored id is `rid`
  have hstart : ∃ s, find inst (setState g inst rid cur).1.states = some s ∧ rid ≤ s.requestId := by
    rw [setState_report g inst rid cur h0] at hproc ⊢
    obtain ⟨s', h1, h2⟩ := report_find_id (ensure g inst) inst (stateOf g inst) rid cur (ensure_find g inst)
    refine ⟨s', h1, ?_⟩
    by_cases hs : rid > 0 ∧ rid ≤ (stateOf g inst).requestId
    · rw [report_stale _ _ _ _ _ hs] at hproc; cases hproc
    · rw [h2, if_neg hs]; unfold newId; rw [if_pos hr]; exact Int.le_refl _
  -- the stored id never decreases while the instance is not removed
  have hkeep : ∀ (ops : List Op) (g1 : G), (∃ s, find inst g1.states = some s ∧ rid ≤ s.requestId) →
      (∀ op ∈ ops, ¬ Removes inst op) → ∃ s, find inst (run g1 ops).states = some s ∧ rid ≤ s.requestId := by
    intro ops
    induction ops with
    | nil => intro g1 h _; exact h
    | cons op rest ih =>
      intro g1 ⟨s, hs, hle⟩ hno
      apply ih (step g1 op)
      · cases op with
        | resize n =>
          refine ⟨s, ?_, hle⟩
          rw [c08_seq_others_untouched g1 (.resize n) inst trivial]; exact hs
        | set i r c =>
          by_cases hi : i = inst
          · subst hi
            have hc : 0 ≤ c := by
              have hnr := hno (.set i r c) (List.mem_cons_self ..)
              unfold Removes at hnr
              by_cases hc : 0 ≤ c
              · exact hc
              · exact absurd ⟨rfl, by omega⟩ hnr
            obtain ⟨s', h1, h2, _⟩ := c08_seq_reqid_monotone g1 i r c s hs hc
            exact ⟨s', h1, by omega⟩
          · refine ⟨s, ?_, hle⟩
            rw [c08_seq_others_untouched g1 (.set i r c) inst (fun e => hi e.symm)]; exact hs
      · intro op' hm; exact hno op' (List.mem_cons_of_mem _ hm)
  obtain ⟨s, hs, hle⟩ := hkeep ops _ hstart hno
  rw [c08_seq_reqid_refused _ inst rid' cur' s hs h0' ⟨hr'.1, by omega⟩]
  exact ⟨rfl, rfl⟩

end KG.Props.C08
