import KG.Spec.GlobalCount
namespace KG.Props.C08
open KG KG.Model.GlobalCount KG.Spec.GlobalCount

theorem placeholder_wrap32_id (x : Int) (h : InI32 x) : wrap32 x = x := by
  unfold InI32 at h; unfold wrap32; omega

end KG.Props.C08
