import KG.Lemmas.GlobalCount
/-!
# C08 — Global count: the server never grants beyond the global limit; accounting is exact

Model: `KG.Model.GlobalCount` (current, repaired tree). Judge / invariants: `KG.Spec.GlobalCount`.

`SetState` is ONE critical section of `f.lock` (shape fact re-read from the source on every check:
`KG.Gen.C08.setStateOneCriticalSection`), so one call is one atomic step (`setState`); every interleaving of
calls issued by any number of instances/threads is therefore a sequence of `Op`s, and the sequential theorems
below, which quantify over ALL op lists, are the interleaving theorems (`c08_conc_*` make that explicit; the
`Fine` system with the lock and every atomic as its own step is related to it in part 4).
Exclusion of `sync.RWMutex.Lock` / `sync.Mutex.Lock` is trusted.
-/
namespace KG.Props.C08
open KG KG.Model.GlobalCount KG.Spec.GlobalCount KG.Lemmas.GlobalCount

/-! ## 0. the shape facts the atomic-step models rest on (regenerated from /repo; `rfl` breaks if they change) -/

theorem c08_shape_setstate_one_critical_section : KG.Gen.C08.setStateOneCriticalSection = true := rfl
theorem c08_shape_tryacquire_reads_clock_under_lock : KG.Gen.C08.tryAcquireSerialized = true := rfl

/-! ## 1. one operation -/

/-- every operation keeps `count = Σ states` as `int32`s (what `DebugInfo` shows as `count` vs `total`),
    whatever the values: no hypothesis besides "arguments are `int32`s" -/
theorem c08_step_total_mod (g : G) (op : Op) (h : ModInv g) (hop : OpI32 op) : ModInv (step g op) := by
  cases op with
  | set i r c => exact setState_modInv i r c h hop
  | resize n =>
    show ModInv (resize g n).1
    unfold resize
    split
    · exact ⟨⟨hop, h.1.count, h.1.states, h.1.nodup⟩, h.2⟩
    · exact h

/-- exact accounting and the bound, for one `SetState`: the total stays exactly `Σ states`, and
    `count' ≤ max(count, limit)`; the limit is untouched -/
theorem c08_setState_exact (g : G) (inst : Str) (rid cur : Int) (h : Inv g) (hc : InI32 cur)
    (hpre : 0 ≤ cur → Pre g inst cur) :
    Inv (setState g inst rid cur).1 ∧
    ((setState g inst rid cur).1.count ≤ g.count ∨ (setState g inst rid cur).1.count ≤ g.max) ∧
    (setState g inst rid cur).1.max = g.max := by
  refine ⟨?_, ?_, setState_max g inst rid cur⟩
  · -- Inv
    have hmod : ModInv (setState g inst rid cur).1 :=
      setState_modInv inst rid cur ⟨h.1, by rw [h.2, wrap32_id (h.2 ▸ h.1.count)]⟩ hc
    refine ⟨hmod.1, ?_⟩
    by_cases hneg : cur < 0
    · cases hf : find inst g.states with
      | none => rw [setState_remove_none g inst rid cur hneg hf]; exact h.2
      | some s =>
        rw [setState_remove_some g inst rid cur s hneg hf]
        show wrap32 (g.count + wrap32 (-s.count)) = sumStates (erase inst g.states)
        rw [sum_erase_some hf, h.2]
        have := allOk_find h.1.states hf
        have := find_le_sum h.1.states hf
        have hc := h.1.count; rw [h.2] at hc
        unfold InI32 at hc; unfold wrap32; omega
    · have h0 : 0 ≤ cur := by omega
      have hp := hpre h0
      have hI : Inv (ensure g inst) := ⟨ensure_wf inst h.1, by rw [ensure_count, ensure_sum]; exact h.2⟩
      rw [setState_report g inst rid cur h0]
      by_cases hs : rid > 0 ∧ rid ≤ (stateOf g inst).requestId
      · rw [report_stale _ _ _ _ _ hs]; exact hI.2
      · have hpre' : sumStates (ensure g inst).states ≤ (ensure g inst).max ∨
            sumStates (ensure g inst).states - (stateOf g inst).count + cur ≤ 2147483647 := by
          rw [ensure_sum, ensure_max, stateOf_count]; exact hp.2
        rcases report_exact hI (ensure_find g inst) ⟨h0, hc.2⟩ (by rw [ensure_max]; exact hp.1) hpre' hs with
          ⟨_, _, e⟩ | ⟨_, _, e⟩
        · rw [e]
          show (ensure g inst).count = sumStates (put inst _ (ensure g inst).states)
          rw [sum_put_some (ensure_find g inst), hI.2]
          show _ = sumStates (ensure g inst).states - (stateOf g inst).count + (stateOf g inst).count
          omega
        · rw [e]
          show _ = sumStates (put inst _ (ensure g inst).states)
          rw [sum_put_some (ensure_find g inst)]
  · -- bound
    by_cases hneg : cur < 0
    · cases hf : find inst g.states with
      | none => rw [setState_remove_none g inst rid cur hneg hf]; exact Or.inl (Int.le_refl _)
      | some s =>
        rw [setState_remove_some g inst rid cur s hneg hf]
        left
        show wrap32 (g.count + wrap32 (-s.count)) ≤ g.count
        have := allOk_find h.1.states hf
        have := find_le_sum h.1.states hf
        have hc := h.1.count
        have := h.2
        unfold InI32 at hc; unfold wrap32; omega
    · have h0 : 0 ≤ cur := by omega
      have hp := hpre h0
      have hI : Inv (ensure g inst) := ⟨ensure_wf inst h.1, by rw [ensure_count, ensure_sum]; exact h.2⟩
      rw [setState_report g inst rid cur h0]
      by_cases hs : rid > 0 ∧ rid ≤ (stateOf g inst).requestId
      · rw [report_stale _ _ _ _ _ hs]; left; rw [ensure_count]; exact Int.le_refl _
      · have hpre' : sumStates (ensure g inst).states ≤ (ensure g inst).max ∨
            sumStates (ensure g inst).states - (stateOf g inst).count + cur ≤ 2147483647 := by
          rw [ensure_sum, ensure_max, stateOf_count]; exact hp.2
        rcases report_exact hI (ensure_find g inst) ⟨h0, hc.2⟩ (by rw [ensure_max]; exact hp.1) hpre' hs with
          ⟨_, _, e⟩ | ⟨hn, _, e⟩
        · rw [e]; left; show (ensure g inst).count ≤ g.count; rw [ensure_count]; exact Int.le_refl _
        · rw [e]
          show sumStates (ensure g inst).states - (stateOf g inst).count + cur ≤ g.count ∨
               sumStates (ensure g inst).states - (stateOf g inst).count + cur ≤ g.max
          rw [ensure_sum, ensure_max] at hn
          rw [ensure_sum, h.2]
          omega

/-- **A report that does not raise the instance's count is always applied** — also while the total is above
    a lowered limit (the repaired defect), for any limit and any total, wrapped or not. -/
theorem c08_seq_decrease (g : G) (inst : Str) (rid cur : Int) (s : Inst) (h : WF g)
    (hf : find inst g.states = some s) (h0 : 0 ≤ cur) (hle : cur ≤ s.count)
    (hns : ¬ (0 < rid ∧ rid ≤ s.requestId)) :
    find inst (setState g inst rid cur).1.states = some ⟨cur, newId s rid⟩ ∧
    (setState g inst rid cur).2.latest = cur ∧ (setState g inst rid cur).2.err = .none ∧
    (setState g inst rid cur).1.count = wrap32 (g.count - (s.count - cur)) := by
  have ho := allOk_find h.states hf
  have hst : stateOf g inst = s := by unfold stateOf; rw [hf]
  have hen : ensure g inst = g := by unfold ensure; rw [hf]
  rw [setState_report g inst rid cur h0, hst, hen]
  rcases report_cases g inst s rid cur h.count ho ⟨h0, by omega⟩ hns with ⟨_, hgt, _⟩ | ⟨_, e⟩
  · omega
  · rw [e]
    refine ⟨find_put_self _ _ _, rfl, rfl, ?_⟩
    show wrap32 (g.count + (cur - s.count)) = wrap32 (g.count - (s.count - cur))
    congr 1; omega

/-- with exact accounting the total drops by exactly the difference -/
theorem c08_seq_decrease_exact (g : G) (inst : Str) (rid cur : Int) (s : Inst) (h : Inv g)
    (hf : find inst g.states = some s) (h0 : 0 ≤ cur) (hle : cur ≤ s.count)
    (hns : ¬ (0 < rid ∧ rid ≤ s.requestId)) :
    (setState g inst rid cur).1.count = g.count - (s.count - cur) := by
  rw [(c08_seq_decrease g inst rid cur s h.1 hf h0 hle hns).2.2.2]
  have := allOk_find h.1.states hf
  have := find_le_sum h.1.states hf
  have hc := h.1.count
  have := h.2
  unfold InI32 at hc; unfold wrap32; omega

/-- **A report whose request id is not newer than one already processed for the instance is refused**
    with `RequestIDTooOld`, and nothing changes. -/
theorem c08_seq_reqid_refused (g : G) (inst : Str) (rid cur : Int) (s : Inst)
    (hf : find inst g.states = some s) (h0 : 0 ≤ cur) (hid : 0 < rid ∧ rid ≤ s.requestId) :
    setState g inst rid cur = (g, ⟨false, cur, .requestIDTooOld⟩) := by
  have hst : stateOf g inst = s := by unfold stateOf; rw [hf]
  have hen : ensure g inst = g := by unfold ensure; rw [hf]
  rw [setState_report g inst rid cur h0, hst, hen, report_stale _ _ _ _ _ hid]

/-- `RequestIDTooOld` is answered only for stale ids -/
theorem c08_seq_reqid_only_stale (g : G) (inst : Str) (rid cur : Int)
    (he : (setState g inst rid cur).2.err = .requestIDTooOld) :
    0 ≤ cur ∧ ∃ s, find inst g.states = some s ∧ 0 < rid ∧ rid ≤ s.requestId := by
  by_cases hneg : cur < 0
  · cases hf : find inst g.states with
    | none => rw [setState_remove_none g inst rid cur hneg hf] at he; cases he
    | some s => rw [setState_remove_some g inst rid cur s hneg hf] at he; cases he
  · have h0 : 0 ≤ cur := by omega
    refine ⟨h0, ?_⟩
    rw [setState_report g inst rid cur h0, report_eq] at he
    by_cases hs : rid > 0 ∧ rid ≤ (stateOf g inst).requestId
    · cases hf : find inst g.states with
      | none =>
        have : stateOf g inst = ⟨0, 0⟩ := by unfold stateOf; rw [hf]
        rw [this] at hs; simp only at hs; omega
      | some s =>
        have : stateOf g inst = s := by unfold stateOf; rw [hf]
        exact ⟨s, rfl, this ▸ hs⟩
    · simp only [hs, if_false] at he
      split at he
      · cases he
      · split at he <;> cases he

/-- **Stored request ids only grow**: after any `SetState` of a registered instance that does not remove it,
    the stored id is the old one (refused as stale, or `rid ≤ 0`) or the strictly larger `rid`. -/
theorem c08_seq_reqid_monotone (g : G) (inst : Str) (rid cur : Int) (s : Inst)
    (hf : find inst g.states = some s) (h0 : 0 ≤ cur) :
    ∃ s', find inst (setState g inst rid cur).1.states = some s' ∧ s.requestId ≤ s'.requestId ∧
      ((setState g inst rid cur).2.err = .none → 0 < rid → s'.requestId = rid ∧ s.requestId < rid) := by
  have hst : stateOf g inst = s := by unfold stateOf; rw [hf]
  have hen : ensure g inst = g := by unfold ensure; rw [hf]
  rw [setState_report g inst rid cur h0, hst, hen]
  obtain ⟨s', h1, h2⟩ := report_find_id g inst s rid cur hf
  refine ⟨s', h1, ?_, ?_⟩
  · rw [h2]; unfold newId; split
    · exact Int.le_refl _
    · split <;> omega
  · intro he hr
    by_cases hs : rid > 0 ∧ rid ≤ s.requestId
    · rw [report_stale _ _ _ _ _ hs] at he; cases he
    · rw [h2, if_neg hs]; unfold newId; rw [if_pos hr]; omega

/-- operations of other instances, and `Resize`, leave an instance's entry alone -/
theorem c08_seq_others_untouched (g : G) (op : Op) (j : Str)
    (h : match op with | .set i _ _ => j ≠ i | .resize _ => True) :
    find j (step g op).states = find j g.states := by
  cases op with
  | set i r c => exact setState_find_other g i j r c h
  | resize n => show find j (resize g n).1.states = _; unfold resize; split <;> rfl

/-- **Equal (or older) request ids are processed at most once**: once a report with id `rid` has been processed
    for an instance, then after ANY further operations (of any instances, in any order) that do not remove the
    instance, a report of it with an id `≤ rid` is refused. -/
theorem c08_seq_same_id_once (g : G) (inst : Str) (rid cur : Int) (ops : List Op) (rid' cur' : Int)
    (h0 : 0 ≤ cur) (hr : 0 < rid) (hproc : (setState g inst rid cur).2.err = .none)
    (hno : ∀ op ∈ ops, ¬ Removes inst op) (h0' : 0 ≤ cur') (hr' : 0 < rid' ∧ rid' ≤ rid) :
    (setState (run (setState g inst rid cur).1 ops) inst rid' cur').2 = ⟨false, cur', .requestIDTooOld⟩ ∧
    (setState (run (setState g inst rid cur).1 ops) inst rid' cur').1 = run (setState g inst rid cur).1 ops := by
  -- after the processed report the stored id is `rid`
  have hstart : ∃ s, find inst (setState g inst rid cur).1.states = some s ∧ rid ≤ s.requestId := by
    rw [setState_report g inst rid cur h0] at hproc ⊢
    obtain ⟨s', h1, h2⟩ := report_find_id (ensure g inst) inst (stateOf g inst) rid cur (ensure_find g inst)
    refine ⟨s', h1, ?_⟩
    by_cases hs : rid > 0 ∧ rid ≤ (stateOf g inst).requestId
    · rw [report_stale _ _ _ _ _ hs] at hproc; cases hproc
    · rw [h2, if_neg hs]; unfold newId; rw [if_pos hr]; exact Int.le_refl _
  -- the stored id never decreases while the instance is not removed
  have hkeep : ∀ (ops : List Op) (g1 : G), (∃ s, find inst g1.states = some s ∧ rid ≤ s.requestId) →
      (∀ op ∈ ops, ¬ Removes inst op) → ∃ s, find inst (run g1 ops).states = some s ∧ rid ≤ s.requestId := by
    intro ops
    induction ops with
    | nil => intro g1 h _; exact h
    | cons op rest ih =>
      intro g1 ⟨s, hs, hle⟩ hno
      apply ih (step g1 op)
      · cases op with
        | resize n =>
          refine ⟨s, ?_, hle⟩
          rw [c08_seq_others_untouched g1 (.resize n) inst trivial]; exact hs
        | set i r c =>
          by_cases hi : i = inst
          · subst hi
            have hc : 0 ≤ c := by
              have hnr := hno (.set i r c) (List.mem_cons_self ..)
              unfold Removes at hnr
              by_cases hc : 0 ≤ c
              · exact hc
              · exact absurd ⟨rfl, by omega⟩ hnr
            obtain ⟨s', h1, h2, _⟩ := c08_seq_reqid_monotone g1 i r c s hs hc
            exact ⟨s', h1, by omega⟩
          · refine ⟨s, ?_, hle⟩
            rw [c08_seq_others_untouched g1 (.set i r c) inst (fun e => hi e.symm)]; exact hs
      · intro op' hm; exact hno op' (List.mem_cons_of_mem _ hm)
  obtain ⟨s, hs, hle⟩ := hkeep ops _ hstart hno
  rw [c08_seq_reqid_refused _ inst rid' cur' s hs h0' ⟨hr'.1, by omega⟩]
  exact ⟨rfl, rfl⟩

/-- **The server never accepts beyond the limit**: an accepted report is registered as reported and leaves the
    total within the limit (strictly below it unless the instance reported 0). -/
theorem c08_seq_accept (g : G) (inst : Str) (rid cur : Int) (h : Inv g) (hc : InI32 cur)
    (hpre : 0 ≤ cur → Pre g inst cur) (hacc : (setState g inst rid cur).2.accept = true) :
    0 ≤ cur ∧ (setState g inst rid cur).1.count ≤ g.max ∧
    (cur ≠ 0 → (setState g inst rid cur).1.count < g.max) ∧
    (setState g inst rid cur).2 = ⟨true, cur, .none⟩ ∧
    (find inst (setState g inst rid cur).1.states).map (·.count) = some cur := by
  by_cases hneg : cur < 0
  · cases hf : find inst g.states with
    | none => rw [setState_remove_none g inst rid cur hneg hf] at hacc; cases hacc
    | some s => rw [setState_remove_some g inst rid cur s hneg hf] at hacc; cases hacc
  · have h0 : 0 ≤ cur := by omega
    have hp := hpre h0
    have hI : Inv (ensure g inst) := ⟨ensure_wf inst h.1, by rw [ensure_count, ensure_sum]; exact h.2⟩
    rw [setState_report g inst rid cur h0] at hacc ⊢
    by_cases hs : rid > 0 ∧ rid ≤ (stateOf g inst).requestId
    · rw [report_stale _ _ _ _ _ hs] at hacc; cases hacc
    · have hpre' : sumStates (ensure g inst).states ≤ (ensure g inst).max ∨
          sumStates (ensure g inst).states - (stateOf g inst).count + cur ≤ 2147483647 := by
        rw [ensure_sum, ensure_max, stateOf_count]; exact hp.2
      rcases report_exact hI (ensure_find g inst) ⟨h0, hc.2⟩ (by rw [ensure_max]; exact hp.1) hpre' hs with
        ⟨_, _, e⟩ | ⟨_, _, e⟩
      · rw [e] at hacc; cases hacc
      · rw [e] at hacc ⊢
        have hd : sumStates (ensure g inst).states - (stateOf g inst).count + cur < (ensure g inst).max ∨
            (sumStates (ensure g inst).states - (stateOf g inst).count + cur = (ensure g inst).max ∧ cur = 0) := by
          simpa using hacc
        rw [ensure_max] at hd
        refine ⟨h0, ?_, ?_, ?_, ?_⟩
        · show sumStates (ensure g inst).states - (stateOf g inst).count + cur ≤ g.max
          omega
        · intro hne
          show sumStates (ensure g inst).states - (stateOf g inst).count + cur < g.max
          omega
        · show (⟨_, cur, .none⟩ : Reply) = ⟨true, cur, .none⟩
          congr 1
        · show (find inst (put inst _ (ensure g inst).states)).map (·.count) = some cur
          rw [find_put_self]; rfl

/-! ## 2. every sequence of operations (= every interleaving of atomic calls) -/

/-- **`count = Σ per-instance counts` after every op sequence** (as `int32`s: exactly what `DebugInfo` prints as
    `count` and `total`), for all limits, instances, request ids and counts, removals included. -/
theorem c08_seq_total_mod (m : Int) (ops : List Op) (hm : InI32 m) (hops : ∀ op ∈ ops, OpI32 op) :
    ModInv (run (G.init m) ops) := by
  have : ∀ (ops : List Op) (g : G), ModInv g → (∀ op ∈ ops, OpI32 op) → ModInv (run g ops) := by
    intro ops
    induction ops with
    | nil => intro g h _; exact h
    | cons op rest ih =>
      intro g h hops
      exact ih (step g op) (c08_step_total_mod g op h (hops op (List.mem_cons_self ..)))
        (fun o ho => hops o (List.mem_cons_of_mem _ ho))
  exact this ops _ (init_modInv m hm) hops

/-- one `OpOk` operation keeps the accounting exact and satisfies `count' ≤ max(count, max')` -/
theorem c08_seq_bound (g : G) (op : Op) (h : Inv g) (hop : OpOk g op) :
    Inv (step g op) ∧ ((step g op).count ≤ g.count ∨ (step g op).count ≤ (step g op).max) := by
  cases op with
  | set i r c =>
    obtain ⟨h1, h2, h3⟩ := c08_setState_exact g i r c h hop.1 hop.2
    refine ⟨h1, ?_⟩
    show (setState g i r c).1.count ≤ g.count ∨ (setState g i r c).1.count ≤ (setState g i r c).1.max
    rw [h3]; exact h2
  | resize n =>
    show Inv (resize g n).1 ∧ ((resize g n).1.count ≤ g.count ∨ _)
    unfold resize
    split
    · exact ⟨⟨⟨hop.2, h.1.count, h.1.states, h.1.nodup⟩, h.2⟩, Or.inl (Int.le_refl _)⟩
    · exact ⟨h, Or.inl (Int.le_refl _)⟩

/-- **Exact accounting after every op sequence**: `count = Σ per-instance counts` as integers, whenever no
    `int32` overflow can interfere (`SafeRun`: see `Pre`; discharged unconditionally by the two theorems below). -/
theorem c08_seq_total (g : G) (ops : List Op) (h : Inv g) (hs : SafeRun g ops) : Inv (run g ops) := by
  induction ops generalizing g with
  | nil => exact h
  | cons op rest ih => exact ih (step g op) (c08_seq_bound g op h hs.1).1 hs.2

/-- **While the limit is unchanged the accepted counts sum to at most the limit**, and the total is exact:
    from any state within its (non-negative) limit, after ANY sequence of reports and removals by any
    instances with any request ids and any `int32` counts. No other hypothesis. -/
theorem c08_seq_limit_unchanged (g : G) (ops : List Op) (h : Inv g) (hm : 0 ≤ g.max) (hle : g.count ≤ g.max)
    (hops : ∀ op ∈ ops, ∃ i r c, op = .set i r c ∧ InI32 c) :
    Inv (run g ops) ∧ (run g ops).max = g.max ∧ (run g ops).count ≤ g.max ∧
    sumStates (run g ops).states ≤ g.max := by
  induction ops generalizing g with
  | nil => exact ⟨h, rfl, hle, h.2 ▸ hle⟩
  | cons op rest ih =>
    obtain ⟨i, r, c, rfl, hc⟩ := hops _ (List.mem_cons_self ..)
    have hpre : 0 ≤ c → Pre g i c := fun _ => ⟨hm, Or.inl (h.2 ▸ hle)⟩
    obtain ⟨h1, h2, h3⟩ := c08_setState_exact g i r c h hc hpre
    have hle' : (step g (.set i r c)).count ≤ (step g (.set i r c)).max := by
      show (setState g i r c).1.count ≤ (setState g i r c).1.max
      rw [h3]; omega
    have := ih (step g (.set i r c)) h1 (by show 0 ≤ (setState g i r c).1.max; rw [h3]; exact hm) hle'
      (fun o ho => hops o (List.mem_cons_of_mem _ ho))
    have h3' : (step g (.set i r c)).max = g.max := h3
    rw [h3'] at this
    exact this

/-- the same from a freshly created flow control -/
theorem c08_seq_limit_unchanged_init (m : Int) (ops : List Op) (hm : 0 ≤ m) (hm' : InI32 m)
    (hops : ∀ op ∈ ops, ∃ i r c, op = .set i r c ∧ InI32 c) :
    (run (G.init m) ops).count = sumStates (run (G.init m) ops).states ∧
    sumStates (run (G.init m) ops).states ≤ m := by
  have := c08_seq_limit_unchanged (G.init m) ops (init_inv m hm') hm (by simp [G.init]; exact hm) hops
  exact ⟨this.1.2, this.2.2.2⟩

/-- **With limit changes**: if every configured limit and every reported count is below 2^30, then for EVERY op
    sequence the accounting is exact and every op satisfies `count' ≤ max(count, max')` (so a total above a
    lowered limit can only come down, and `count ≤ max` is preserved while `max` is unchanged). -/
theorem c08_seq_bounded (m : Int) (ops : List Op) (hm : 0 ≤ m ∧ m < 1073741824) (hops : ∀ op ∈ ops, Bounded op) :
    Inv (run (G.init m) ops) ∧ SafeRun (G.init m) ops := by
  have key : ∀ (ops : List Op) (g : G), Inv g → 0 ≤ g.max → g.max < 1073741824 → g.count < 1073741824 →
      (∀ op ∈ ops, Bounded op) → Inv (run g ops) ∧ SafeRun g ops := by
    intro ops
    induction ops with
    | nil => intro g h _ _ _ _; exact ⟨h, trivial⟩
    | cons op rest ih =>
      intro g h hm0 hm1 hc hops
      have hb := hops op (List.mem_cons_self ..)
      have hok : OpOk g op := by
        cases op with
        | set i r c =>
          refine ⟨hb.1, fun _ => ⟨hm0, Or.inr ?_⟩⟩
          have := sum_nonneg h.1.states
          have h2 := h.2
          have : 0 ≤ oldCount g i := by
            unfold oldCount; cases hf : find i g.states with
            | none => simp
            | some s => exact (allOk_find h.1.states hf).1
          have := hb.2
          omega
        | resize n => exact ⟨hb.1, by unfold InI32; have := hb.1; have := hb.2; omega⟩
      obtain ⟨h1, h2⟩ := c08_seq_bound g op h hok
      have hmax : 0 ≤ (step g op).max ∧ (step g op).max < 1073741824 := by
        cases op with
        | set i r c =>
          show 0 ≤ (setState g i r c).1.max ∧ (setState g i r c).1.max < 1073741824
          rw [setState_max]; exact ⟨hm0, hm1⟩
        | resize n =>
          show 0 ≤ (resize g n).1.max ∧ (resize g n).1.max < _
          unfold resize; split
          · exact hb
          · exact ⟨hm0, hm1⟩
      have hc' : (step g op).count < 1073741824 := by omega
      obtain ⟨a, b⟩ := ih (step g op) h1 hmax.1 hmax.2 hc' (fun o ho => hops o (List.mem_cons_of_mem _ ho))
      exact ⟨a, hok, b⟩
  exact key ops (G.init m) (init_inv m (by unfold InI32; omega)) hm.1 hm.2 (by simp [G.init]) hops

/-! ### interleavings of the atomic calls of any number of threads -/

/-- **Reports and removals racing with each other**: whatever the threads (any number, any instances, equal
    request ids included) and however their atomic calls interleave, the running total equals the `int32` sum
    of the latest accepted per-instance counts — at quiescence and after every prefix. -/
theorem c08_conc_total_mod (m : Int) (ts : List (List Op)) (l : List Op) (hm : InI32 m)
    (hts : ∀ t ∈ ts, ∀ op ∈ t, OpI32 op) (hl : Interleave ts l) (k : Nat) :
    ModInv (run (G.init m) (l.take k)) :=
  c08_seq_total_mod m _ hm (fun op hop =>
    let ⟨t, ht, hot⟩ := interleave_mem hl op (List.mem_of_mem_take hop)
    hts t ht op hot)

/-- … exactly, and within the limit, while the limit is unchanged (threads only report and remove) -/
theorem c08_conc_total (m : Int) (ts : List (List Op)) (l : List Op) (hm : 0 ≤ m) (hm' : InI32 m)
    (hts : ∀ t ∈ ts, ∀ op ∈ t, ∃ i r c, op = .set i r c ∧ InI32 c) (hl : Interleave ts l) (k : Nat) :
    (run (G.init m) (l.take k)).count = sumStates (run (G.init m) (l.take k)).states ∧
    sumStates (run (G.init m) (l.take k)).states ≤ m :=
  c08_seq_limit_unchanged_init m _ hm hm' (fun op hop =>
    let ⟨t, ht, hot⟩ := interleave_mem hl op (List.mem_of_mem_take hop)
    hts t ht op hot)

/-- … and with limit changes racing too, for bounded limits and counts -/
theorem c08_conc_bounded (m : Int) (ts : List (List Op)) (l : List Op) (hm : 0 ≤ m ∧ m < 1073741824)
    (hts : ∀ t ∈ ts, ∀ op ∈ t, Bounded op) (hl : Interleave ts l) (k : Nat) :
    Inv (run (G.init m) (l.take k)) ∧ SafeRun (G.init m) (l.take k) :=
  c08_seq_bounded m _ hm (fun op hop =>
    let ⟨t, ht, hot⟩ := interleave_mem hl op (List.mem_of_mem_take hop)
    hts t ht op hot)

/-! ## 3. the judge the harness applies to the real code is satisfied by every step of the model -/

/-- **Soundness of the judge**: on every state satisfying the representation invariant and every `int32`
    argument, the model's `SetState` breaks none of the clauses of `KG.Spec.GlobalCount.violations`
    (total, exact total and bound under `Pre`, accept within the limit, decrease applied, stale id refused and
    state unchanged, ids increase, removal, latest, other instances untouched). -/
theorem c08_model_step_facts (others : List Str) (g : G) (i : Str) (r c : Int) (h : ModInv g) (hc : InI32 c) :
    clTotal g i r c (setState g i r c).2 (setState g i r c).1 = true ∧
    clExact g i r c (setState g i r c).2 (setState g i r c).1 = true ∧
    clBound g i r c (setState g i r c).2 (setState g i r c).1 = true ∧
    clAccept g i r c (setState g i r c).2 (setState g i r c).1 = true ∧
    clDecrease g i r c (setState g i r c).2 (setState g i r c).1 = true ∧
    clStale g i r c (setState g i r c).2 (setState g i r c).1 = true ∧
    clIds g i r c (setState g i r c).2 (setState g i r c).1 = true ∧
    clRemoval g i r c (setState g i r c).2 (setState g i r c).1 = true ∧
    clLatest g i r c (setState g i r c).2 (setState g i r c).1 = true ∧
    clOthers others g i r c (setState g i r c).2 (setState g i r c).1 = true := by
  have hmod := setState_modInv i r c h hc
  have hInv : g.count = sumStates g.states → Inv g := fun e => ⟨h.1, e⟩
  have cl1 : clTotal g i r c (setState g i r c).2 (setState g i r c).1 = true := by
    unfold clTotal; exact decide_eq_true hmod.2
  have cl2 : clExact g i r c (setState g i r c).2 (setState g i r c).1 = true := by
    unfold clExact; apply decide_eq_true
    intro hp he
    exact (c08_setState_exact g i r c (hInv he) hc hp).1.2
  have cl3 : clBound g i r c (setState g i r c).2 (setState g i r c).1 = true := by
    unfold clBound
    rw [Bool.and_eq_true]
    refine ⟨decide_eq_true (setState_max g i r c), decide_eq_true ?_⟩
    intro hp he
    have := (c08_setState_exact g i r c (hInv he) hc hp)
    rw [this.2.2]; exact this.2.1
  have cl4 : clAccept g i r c (setState g i r c).2 (setState g i r c).1 = true := by
    unfold clAccept; apply decide_eq_true
    intro ha hp he
    have := c08_seq_accept g i r c (hInv he) hc (fun h0 => hp h0) ha
    rw [setState_max]
    refine ⟨this.2.1, ?_, ?_, this.2.2.2.2⟩
    · rw [this.2.2.2.1]
    · rw [this.2.2.2.1]
  have cl5 : clDecrease g i r c (setState g i r c).2 (setState g i r c).1 = true := by
    unfold clDecrease; apply decide_eq_true
    intro h0 hle hst
    cases hf : find i g.states with
    | none =>
      -- unknown instance: `c ≤ 0`, so `c = 0`, registered as 0
      have hc0 : c = 0 := by unfold oldCount at hle; rw [hf] at hle; simp at hle; omega
      have he : (setState g i r c).2.err = .none := by
        cases hh : (setState g i r c).2.err with
        | none => rfl
        | requestIDTooOld =>
          obtain ⟨_, s, hs, _⟩ := c08_seq_reqid_only_stale g i r c hh
          rw [hf] at hs; cases hs
      have hl := setState_latest g i r c h.1 hc h0 he
      rw [setState_report g i r c h0] at hl he ⊢
      have hns : ¬ (r > 0 ∧ r ≤ (stateOf g i).requestId) := by
        have : stateOf g i = ⟨0, 0⟩ := by unfold stateOf; rw [hf]
        rw [this]; simp only; omega
      rcases report_cases (ensure g i) i (stateOf g i) r c (ensure_wf i h.1).count (stateOf_ok i h.1) ⟨h0, hc.2⟩ hns with
        ⟨_, hgt, _⟩ | ⟨_, e⟩
      · have : (stateOf g i).count = 0 := by unfold stateOf; rw [hf]
        omega
      · rw [e]; refine ⟨?_, rfl, rfl⟩
        show (find i (put i _ _)).map _ = _; rw [find_put_self]; rfl
    | some s =>
      have hns : ¬ (0 < r ∧ r ≤ s.requestId) := by
        intro hh
        have : stale g i r = true := (stale_iff g i r).2 ⟨s, hf, hh⟩
        rw [this] at hst; cases hst
      have hle' : c ≤ s.count := by unfold oldCount at hle; rw [hf] at hle; exact hle
      obtain ⟨a, b, d, _⟩ := c08_seq_decrease g i r c s h.1 hf h0 hle' hns
      exact ⟨by rw [a]; rfl, b, d⟩
  have cl6 : clStale g i r c (setState g i r c).2 (setState g i r c).1 = true := by
    unfold clStale; apply decide_eq_true
    intro h0 hst
    obtain ⟨s, hf, hid⟩ := (stale_iff g i r).1 hst
    rw [c08_seq_reqid_refused g i r c s hf h0 hid]
    exact ⟨rfl, rfl⟩
  have cl7 : clIds g i r c (setState g i r c).2 (setState g i r c).1 = true := by
    unfold clIds
    rw [Bool.and_eq_true]
    constructor
    · apply decide_eq_true
      intro _ he
      obtain ⟨_, s, hs, hid⟩ := c08_seq_reqid_only_stale g i r c he
      exact (stale_iff g i r).2 ⟨s, hs, hid⟩
    · split
      · rename_i hh
        obtain ⟨h0, he⟩ := hh
        -- the entry after the call
        have hreg : ∃ s', find i (setState g i r c).1.states = some s' ∧
            s'.requestId = (if r > 0 ∧ r ≤ (stateOf g i).requestId then (stateOf g i).requestId
              else newId (stateOf g i) r) := by
          rw [setState_report g i r c h0]
          exact report_find_id (ensure g i) i (stateOf g i) r c (ensure_find g i)
        obtain ⟨s', hs', hid'⟩ := hreg
        have hns : ¬ (r > 0 ∧ r ≤ (stateOf g i).requestId) := by
          intro hs
          rw [setState_report g i r c h0, report_stale _ _ _ _ _ hs] at he; cases he
        rw [if_neg hns] at hid'
        rw [hs']
        simp only
        rw [Bool.and_eq_true]
        constructor
        · apply decide_eq_true; intro hr; rw [hid']; unfold newId; rw [if_pos hr]
        · cases hf : find i g.states with
          | none => rfl
          | some s0 =>
            simp only
            apply decide_eq_true
            have hst : stateOf g i = s0 := by unfold stateOf; rw [hf]
            rw [hst] at hid' hns
            rw [hid']; unfold newId
            split <;> omega
      · rfl
  have cl8 : clRemoval g i r c (setState g i r c).2 (setState g i r c).1 = true := by
    unfold clRemoval; apply decide_eq_true
    intro hneg
    cases hf : find i g.states with
    | none => rw [setState_remove_none g i r c hneg hf]; exact ⟨hf, rfl⟩
    | some s => rw [setState_remove_some g i r c s hneg hf]; exact ⟨find_erase_self h.1.nodup, rfl⟩
  have cl9 : clLatest g i r c (setState g i r c).2 (setState g i r c).1 = true := by
    unfold clLatest; apply decide_eq_true
    intro h0 he
    exact setState_latest g i r c h.1 hc h0 he
  have cl10 : clOthers others g i r c (setState g i r c).2 (setState g i r c).1 = true := by
    unfold clOthers
    rw [List.all_eq_true]
    intro j _
    by_cases hj : j = i
    · simp [hj]
    · simp only [hj, decide_false, Bool.false_or]
      unfold sameInst
      exact decide_eq_true (setState_find_other g i j r c hj)
  exact ⟨cl1, cl2, cl3, cl4, cl5, cl6, cl7, cl8, cl9, cl10⟩

/-- the model breaks none of its own step facts -/
theorem c08_model_step_facts_list (others : List Str) (g : G) (i : Str) (r c : Int) (h : ModInv g) (hc : InI32 c) :
    violations others g i r c (setState g i r c).2 (setState g i r c).1 = [] := by
  obtain ⟨cl1, cl2, cl3, cl4, cl5, cl6, cl7, cl8, cl9, cl10⟩ := c08_model_step_facts others g i r c h hc
  unfold violations clauses
  simp only [List.filterMap_cons, List.filterMap_nil, cl1, cl2, cl3, cl4, cl5, cl6, cl7, cl8, cl9, cl10, if_true]

theorem oldCount_of_map {g : G} {i : Str} {c : Int} (h : (find i g.states).map (·.count) = some c) :
    oldCount g i = c := by
  unfold oldCount
  cases hf : find i g.states with
  | none => rw [hf] at h; cases h
  | some s => rw [hf] at h; simpa using h

/-- **Soundness of the judge** (the clauses of the property's text that the harness applies to the real code): on
    every state satisfying the representation invariant and every `int32` argument, the model's `SetState` breaks
    none of them — with the ghost "newest id already processed for the instance" being the id the model stores. -/
theorem c08_judge_sound (others : List Str) (g : G) (i : Str) (r c : Int) (h : ModInv g) (hc : InI32 c) :
    judgeViolations others ((find i g.states).map (·.requestId)) g i r c (setState g i r c).2 (setState g i r c).1 = [] := by
  obtain ⟨cl1, cl2, cl3, cl4, cl5, cl6, _, cl8, _, cl10⟩ := c08_model_step_facts (i :: others) g i r c h hc
  have hst : staleG ((find i g.states).map (·.requestId)) r = stale g i r := by
    unfold staleG stale; cases find i g.states <;> rfl
  have j4 : jcAccept g i c (setState g i r c).2 (setState g i r c).1 = true := by
    unfold jcAccept; apply decide_eq_true
    intro ha h0 hp he
    have := of_decide_eq_true cl4 ha (fun _ => hp) he
    exact ⟨this.1, oldCount_of_map this.2.2.2⟩
  have j5 : jcDecrease ((find i g.states).map (·.requestId)) g i r c (setState g i r c).1 = true := by
    unfold jcDecrease; apply decide_eq_true
    intro h0 hle hs
    rw [hst] at hs
    exact oldCount_of_map (of_decide_eq_true cl5 h0 hle hs).1
  have j6 : jcStale ((find i g.states).map (·.requestId)) others g i r c (setState g i r c).2 (setState g i r c).1 = true := by
    unfold jcStale; apply decide_eq_true
    intro h0 hs
    rw [hst] at hs
    obtain ⟨e1, e2⟩ := of_decide_eq_true cl6 h0 hs
    rw [e1, e2]
    exact ⟨rfl, rfl, fun _ _ => rfl⟩
  have j7 : jcRemoval i c (setState g i r c).1 = true := by
    unfold jcRemoval; apply decide_eq_true
    intro hneg
    exact (of_decide_eq_true cl8 hneg).1
  have j8 : jcOthers others g i (setState g i r c).1 = true := by
    unfold jcOthers
    rw [List.all_eq_true]
    intro j _
    by_cases hj : j = i
    · simp [hj]
    · simp only [hj, decide_false, Bool.false_or]
      apply decide_eq_true
      unfold oldCount
      rw [setState_find_other g i j r c hj]
  unfold judgeViolations
  simp only [List.filterMap_cons, List.filterMap_nil, cl1, cl2, cl3, j4, j5, j6, j7, j8, if_true]

/-- a limit change of the model leaves the accounting alone -/
theorem c08_judge_sound_limit_change (g : G) (n : Int) : jcResize g (resize g n).1 = [] := by
  unfold jcResize resize
  split
  · rw [if_pos]; exact ⟨rfl, fun _ _ => rfl⟩
  · rw [if_pos]; exact ⟨rfl, fun _ _ => rfl⟩


/-- `Resize(n)` breaks no clause of `resizeViolations` -/
theorem c08_judge_sound_resize (g : G) (n : Int) : resizeViolations g n (resize g n).1 = [] := by
  unfold resizeViolations resize
  split <;> simp_all

/-! ## 4. token-bucket schemas -/

/-- **Σ grants in any interval ≤ burst + qps·T.** From ANY bucket state (so: for any interval of any longer
    history), a sequence of acquisitions whose clock readings are in order is granted in total at most
    `burst + qps·(t_last − t0)`, `t0` being any instant not before the limiter's last reading and not after
    the first reading of the interval (e.g. the first reading itself). -/
theorem c08_tokens_rate (reqs : List (List Int × Int)) (b : Bucket) (t0 : Int) (hq : 0 ≤ b.qps) (hb : 0 ≤ b.burst)
    (htok : 0 ≤ b.tokens) (hm : Mono b t0) (hok : TimesOk t0 reqs) :
    (((runAcq b reqs).2 : Int) : Rat) ≤ (b.burst : Rat) + tokensFromNs b.qps (endTime t0 reqs - t0) := by
  obtain ⟨p1, p2, p3, p4, p5, _⟩ := runAcq_potential reqs b t0 hq hm hok
  have h1 := avail_le_burst b t0
  have h2 := avail_nonneg (runAcq b reqs).1 (endTime t0 reqs) (by rw [p3]; exact hq) (by rw [p4]; exact hb) (p5 htok) p2
  grind

/-- the same for an interval in the middle of a history that started with a new limiter -/
theorem c08_tokens_rate_interval (qps burst : Int) (pre reqs : List (List Int × Int)) (t0 : Int)
    (hq : 0 ≤ qps) (hb : 0 ≤ burst) (hpre : TimesOk t0 pre) (hok : TimesOk (endTime t0 pre) reqs) :
    (((runAcq (runAcq (Bucket.init qps burst) pre).1 reqs).2 : Int) : Rat) ≤
      (burst : Rat) + tokensFromNs qps (endTime (endTime t0 pre) reqs - endTime t0 pre) := by
  have hm0 : Mono (Bucket.init qps burst) t0 := fun l hl => by simp [Bucket.init] at hl
  obtain ⟨_, p2, p3, p4, p5, _⟩ := runAcq_potential pre (Bucket.init qps burst) t0 hq hm0 hpre
  have := c08_tokens_rate reqs (runAcq (Bucket.init qps burst) pre).1 (endTime t0 pre)
    (by rw [p3]; exact hq) (by rw [p4]; exact hb) (p5 (by simp [Bucket.init])) p2 hok
  rw [p3, p4] at this
  exact this

/-! ### every interleaving of concurrent callers (granularity: one `TryAcquireN` = one atomic step that reads
    the clock itself, as in the fixed code; exclusion of `globalTokenBucket.lock` trusted) -/

/-- **A `Resize` to the parameters the bucket already has is the identity on the bucket** (tokens and clock kept):
    re-syncing a cluster's spec after an edit of ANOTHER schema must not refill this bucket. -/
theorem c08_tokens_resize_same_params (b : Bucket) : bucketResize b b.qps b.burst = (b, false) :=
  bucketResize_same b

/-- hence acquisitions interleaved with any number of such `Resize` calls are granted exactly what they are
    granted without them … -/
theorem c08_tokens_resize_transparent (ops : List TBOp) (b : Bucket)
    (hres : ∀ op ∈ ops, match op with | .resize q bu => q = b.qps ∧ bu = b.burst | .acquire .. => True) :
    runTBOps b ops = runAcq b (acquisitions ops) := by
  induction ops generalizing b with
  | nil => rfl
  | cons op rest ih =>
    cases op with
    | acquire nows ask =>
      have hp := tbLoop_params nows b ask
      have := ih (tbLoop b ask nows).1 (by rw [hp.1, hp.2]; exact fun o ho => hres o (List.mem_cons_of_mem _ ho))
      simp only [runTBOps, acquisitions, runAcq, this]
    | resize q bu =>
      have hs : q = b.qps ∧ bu = b.burst := hres (.resize q bu) (List.mem_cons_self ..)
      simp only [runTBOps, acquisitions, hs.1, hs.2, bucketResize_same]
      exact ih b (fun o ho => hres o (List.mem_cons_of_mem _ ho))

/-- … so **the bound spans them**: Σ grants ≤ burst + qps·T over any interval in which the bucket's parameters
    do not really change, however often it is re-synced in between. -/
theorem c08_tokens_rate_across_resize (ops : List TBOp) (b : Bucket) (t0 : Int) (hq : 0 ≤ b.qps) (hb : 0 ≤ b.burst)
    (htok : 0 ≤ b.tokens) (hm : Mono b t0)
    (hres : ∀ op ∈ ops, match op with | .resize q bu => q = b.qps ∧ bu = b.burst | .acquire .. => True)
    (hok : TimesOk t0 (acquisitions ops)) :
    (((runTBOps b ops).2 : Int) : Rat) ≤
      (b.burst : Rat) + tokensFromNs b.qps (endTime t0 (acquisitions ops) - t0) := by
  rw [c08_tokens_resize_transparent ops b hres]
  exact c08_tokens_rate (acquisitions ops) b t0 hq hb htok hm hok

/-- **Every interleaving**: whatever callers do whatever `TryAcquireN` calls in whatever order, with time
    passing in between and with `Resize` calls that do not change the bucket's parameters anywhere in between,
    the tokens granted between two instants are at most `burst + qps·T`. -/
theorem c08_tokens_rate_conc (steps : List TBStep) (s : TBSys) (hq : 0 ≤ s.b.qps) (hb : 0 ≤ s.b.burst)
    (htok : 0 ≤ s.b.tokens) (hm : Mono s.b s.clock) (hres : ∀ st ∈ steps, SameParams s.b.qps s.b.burst st) :
    ((tbRun s steps).granted : Rat) ≤
      (s.granted : Rat) + (s.b.burst : Rat) + tokensFromNs s.b.qps ((tbRun s steps).clock - s.clock) := by
  obtain ⟨p1, p2, p3, p4, p5, _⟩ := tbRun_potential steps s hq hm hres
  have h1 := avail_le_burst s.b s.clock
  have h2 := avail_nonneg (tbRun s steps).b (tbRun s steps).clock (by rw [p3]; exact hq) (by rw [p4]; exact hb) (p5 htok) p2
  grind

/-- the invariants `c08_tokens_rate_conc` starts from hold in every reachable state of a new limiter -/
theorem c08_tokens_conc_reachable (qps burst t0 : Int) (steps : List TBStep) (hq : 0 ≤ qps)
    (hres : ∀ st ∈ steps, SameParams qps burst st) :
    let s := tbRun ⟨t0, Bucket.init qps burst, 0⟩ steps
    s.b.qps = qps ∧ s.b.burst = burst ∧ 0 ≤ s.b.tokens ∧ Mono s.b s.clock := by
  have hm0 : Mono (Bucket.init qps burst) t0 := fun l hl => by simp [Bucket.init] at hl
  obtain ⟨_, p2, p3, p4, p5, _⟩ := tbRun_potential steps ⟨t0, Bucket.init qps burst, 0⟩ hq hm0 hres
  exact ⟨p3, p4, p5 (by simp [Bucket.init]), p2⟩

/-- **Each grant lies between 0 and the amount asked**; nothing is granted without `accept`; a grant is the ask
    halved 0, 1, 2 or 3 times (`n, n/2, n/4, n/8`); no error is reported. (Token-bucket arm of `DoAcquire`,
    any bucket state, any clock readings.) -/
theorem c08_tokens_grant (st : Store) (inst name : Str) (rid tokens : Int) (nows : List Int) (b : Bucket)
    (hf : findFC name st.fcs = some (.tb b)) (h0 : 0 ≤ tokens) :
    let r := (acquireOne st inst rid name tokens nows).2
    r.err = .none ∧ 0 ≤ r.limit ∧ r.limit ≤ tokens ∧ (r.accept = false → r.limit = 0) ∧
    (r.accept = true → r.limit = tokens ∨ r.limit = tokens / 2 ∨ r.limit = tokens / 2 / 2 ∨
      r.limit = tokens / 2 / 2 / 2) := by
  have hn : ¬ tokens < 0 := by omega
  simp only [acquireOne, hf, hn, if_false]
  -- range: the loop lemma with a trivial clock (only its arithmetic part is used)
  have hrange : 0 ≤ (tbLoop b tokens (nows.take KG.Gen.C08.tbTries)).2.2 ∧
      (tbLoop b tokens (nows.take KG.Gen.C08.tbTries)).2.2 ≤ tokens ∧
      ((tbLoop b tokens (nows.take KG.Gen.C08.tbTries)).2.1 = false →
        (tbLoop b tokens (nows.take KG.Gen.C08.tbTries)).2.2 = 0) := by
    have : ∀ (l : List Int) (b : Bucket) (t : Int), 0 ≤ t →
        0 ≤ (tbLoop b t l).2.2 ∧ (tbLoop b t l).2.2 ≤ t ∧ ((tbLoop b t l).2.1 = false → (tbLoop b t l).2.2 = 0) := by
      intro l
      induction l with
      | nil => intro b t ht; simp [tbLoop, ht]
      | cons now rest ih =>
        intro b t ht
        unfold tbLoop
        simp only []
        cases hok : (allowN b now t).2 with
        | true => simp only [if_true]; exact ⟨ht, Int.le_refl _, fun h => by cases h⟩
        | false =>
          simp only [Bool.false_eq_true, if_false]
          by_cases hz : t / KG.Gen.C08.tbDivisor ≤ 0
          · simp only [hz, if_true]; exact ⟨Int.le_refl _, ht, fun _ => trivial⟩
          · simp only [hz, if_false]
            obtain ⟨a1, a2, a3⟩ := ih (allowN b now t).1 (t / KG.Gen.C08.tbDivisor) (by omega)
            have : t / KG.Gen.C08.tbDivisor ≤ t := by rw [tbDivisor_eq]; omega
            exact ⟨a1, by omega, a3⟩
    exact this _ b tokens h0
  refine ⟨trivial, hrange.1, hrange.2.1, hrange.2.2, ?_⟩
  intro hacc
  obtain ⟨k, hk, e⟩ := tbLoop_accept_halving _ b tokens hacc
  have hlen : (nows.take KG.Gen.C08.tbTries).length ≤ 4 := by
    rw [List.length_take]; exact Nat.min_le_left _ _
  rw [e]
  have hk4 : k < 4 := by omega
  have hd := tbDivisor_eq
  match k, hk4 with
  | 0, _ => left; rfl
  | 1, _ => right; left; simp [halve, hd]
  | 2, _ => right; right; left; simp [halve, hd]
  | 3, _ => right; right; right; simp [halve, hd]

/-- **Negative asks are refused** (both schema types): an error, nothing granted, nothing changed. -/
theorem c08_tokens_negative (st : Store) (inst name : Str) (rid tokens : Int) (nows : List Int) (fc : FC)
    (hf : findFC name st.fcs = some fc) (hneg : tokens < 0) :
    acquireOne st inst rid name tokens nows = (st, ⟨false, 0, .negativeTokens⟩) := by
  simp only [acquireOne, hf, hneg, if_true]

/-- the max-in-flight arm of `DoAcquire` maps `(accept, latest, err)` of `SetState` to the reply:
    error ⇒ refused with the error; accept ⇒ `limit = ask`; otherwise `limit = latest` -/
theorem c08_acquire_mif (st : Store) (inst name : Str) (rid tokens : Int) (nows : List Int) (g : G)
    (hf : findFC name st.fcs = some (.mif g)) (h0 : 0 ≤ tokens) :
    let s := setState g inst rid tokens
    acquireOne st inst rid name tokens nows =
      ({ st with fcs := putFC name (.mif s.1) st.fcs },
       match s.2.err with
       | .requestIDTooOld => ⟨false, 0, .requestIDTooOld⟩
       | .none => if s.2.accept then ⟨true, tokens, .none⟩ else ⟨false, s.2.latest, .none⟩) := by
  have hn : ¬ tokens < 0 := by omega
  simp only [acquireOne, hf, hn, if_false]
  cases (setState g inst rid tokens).2.err with
  | none => simp only []; split <;> rfl
  | requestIDTooOld => rfl

/-- the judge for grants (`grantViolations`) is satisfied by every token-bucket acquisition of the model -/
theorem c08_judge_sound_grant (st : Store) (inst name : Str) (rid tokens : Int) (nows : List Int) (b : Bucket)
    (hf : findFC name st.fcs = some (.tb b)) :
    grantViolations tokens (acquireOne st inst rid name tokens nows).2 = [] := by
  by_cases hneg : tokens < 0
  · rw [c08_tokens_negative st inst name rid tokens nows _ hf hneg]
    have : ¬ 0 ≤ tokens := by omega
    simp [grantViolations, hneg, this]
  · have h0 : 0 ≤ tokens := by omega
    obtain ⟨a1, a2, a3, a4, a5⟩ := c08_tokens_grant st inst name rid tokens nows b hf h0
    unfold grantViolations
    rw [if_pos (fun h => absurd h hneg), if_pos (fun _ _ => ⟨a2, a3⟩), if_pos (fun _ _ h => a5 h),
      if_pos (fun _ _ h => a4 h)]
    rfl

/-- the grant judge is satisfied by every acquisition of the model (token bucket: by `c08_tokens_grant` /
    `c08_tokens_negative`) -/
theorem c08_judge_sound_grant_text (st : Store) (inst name : Str) (rid tokens : Int) (nows : List Int) (b : Bucket)
    (hf : findFC name st.fcs = some (.tb b)) :
    grantJudge tokens (acquireOne st inst rid name tokens nows).2 = [] := by
  by_cases hneg : tokens < 0
  · rw [c08_tokens_negative st inst name rid tokens nows _ hf hneg]
    have : ¬ 0 ≤ tokens := by omega
    simp [grantJudge, this]
  · have h0 : 0 ≤ tokens := by omega
    obtain ⟨_, a2, a3, _, _⟩ := c08_tokens_grant st inst name rid tokens nows b hf h0
    unfold grantJudge
    rw [if_pos (fun h => absurd h hneg), if_pos (fun _ _ => ⟨a2, a3⟩)]
    rfl

/-! ### why the clock has to be read inside the critical section (regression witness of the repaired defect
    `C08-stale-clock-overgrant`): the model of `rate.Limiter` itself, fed a stale reading, over-grants -/

/-- `qps = 100, burst = 1`: calls at 9058 ms (1 token), then a reading that is 2 ms STALE (9056 ms, refused, but the
    limiter's clock moves back), then 9067 ms (1 token): two tokens within 9 ms, more than `1 + 100·0.009`. -/
theorem c08_tokens_stale_reading_overgrants :
    let b0 := Bucket.init 100 1
    let r1 := allowN b0 9058000000 1
    let r2 := allowN r1.1 9056000000 2
    let r3 := allowN r2.1 9067000000 1
    r1.2 = true ∧ r2.2 = false ∧ r3.2 = true ∧
    ¬ ((2 : Rat) ≤ (1 : Rat) + tokensFromNs 100 (9067000000 - 9058000000)) := by
  have e1 : ((1:Rat) - 1) = 0 := by grind
  have e2 : ¬ ((0:Rat) + 11000000 * 100 / 1000000000 < 1) := by grind
  have s1 : allowN (Bucket.init 100 1) 9058000000 1 =
      ({ qps := 100, burst := 1, tokens := 0, last := some 9058000000 }, true) := by
    simp [allowN, advance, Bucket.init, e1]
  have s2 : allowN { qps := 100, burst := 1, tokens := 0, last := some 9058000000 } 9056000000 2 =
      ({ qps := 100, burst := 1, tokens := 0, last := some 9056000000 }, false) := by
    simp [allowN, advance, ratMin, tokensFromNs, nsPerSec]
  have s3 : (allowN { qps := 100, burst := 1, tokens := 0, last := some 9056000000 } 9067000000 1).2 = true := by
    simp [allowN, advance, ratMin, tokensFromNs, nsPerSec, e2, e1]
  simp only [s1, s2, s3, true_and]
  simp only [tokensFromNs, nsPerSec]
  grind

/-! ## 6. the fine-grained system: the lock and every shared-memory access of `SetState` / `Resize` as steps -/

/-- **Accounting in every fine-grained interleaving.** Any number of threads run `SetState` and `Resize` calls
    (any instances, request ids, `int32` counts and limits); a step is one shared-memory access (`Lock`, map
    lookup/insert/delete, each `atomic.*`, `Unlock`; `Resize`'s read and store of `max` are NOT under the lock and
    may fall anywhere). In every reachable state in which no thread is inside `SetState`'s critical section —
    in particular at quiescence — the running total is the `int32` sum of the registered per-instance counts,
    every registered count is a non-negative `int32` and no instance is registered twice. Only the exclusion of
    `sync.RWMutex.Lock` is assumed. -/
theorem c08_fine_total (m : Int) (threads : Nat) (sched : List (Nat × Option Op)) (s : Fine)
    (hcalls : ∀ e ∈ sched, ∀ op, e.2 = some op → OpI32 op)
    (hr : fineRun (fineInit m threads) sched = some s) (hfree : s.owner = none) :
    s.g.count = wrap32 (sumStates s.g.states) ∧ AllOk s.g.states ∧ (keys s.g.states).Nodup := by
  have h := fineRun_inv sched _ s (fineInit_inv m threads) hcalls hr
  exact ⟨h.free hfree, h.allOk, h.nodup⟩

/-- mutual exclusion as the model has it: a thread whose pc is inside the critical section owns the lock -/
theorem c08_fine_exclusion (m : Int) (threads : Nat) (sched : List (Nat × Option Op)) (s : Fine)
    (hcalls : ∀ e ∈ sched, ∀ op, e.2 = some op → OpI32 op)
    (hr : fineRun (fineInit m threads) sched = some s) (t t' : Nat) (pc pc' : Pc)
    (h1 : s.pcs[t]? = some pc) (h2 : s.pcs[t']? = some pc') (i1 : inside pc = true) (i2 : inside pc' = true) :
    t = t' := by
  have h := fineRun_inv sched _ s (fineInit_inv m threads) hcalls hr
  have a := h.excl t pc h1 i1
  have b := h.excl t' pc' h2 i2
  rw [a] at b; cases b; rfl

/-- **The reduction (fine-grained ⟶ atomic).** For every run of the fine-grained system there is a list `lin` of
    atomic operations, each of them a call that was issued, such that the atomic system after `lin` has the same
    limit and — whenever no thread is inside the critical section, in particular at quiescence — is in exactly
    the same state (limit, running total, every instance's count and request id). The linearization point of a
    call is the step that decides it: the lookup for a removal, the id load for a stale report, the
    `LoadInt32(&f.max)` after the add for every other report, the store for a `Resize`. So every theorem about
    `run`/`Interleave` above holds of the fine-grained system as well. (Replies are not tracked here; the
    harness compares them on the real code.) -/
theorem c08_fine_reduction (m : Int) (threads : Nat) (sched : List (Nat × Option Op)) (s : Fine)
    (hcalls : ∀ e ∈ sched, ∀ op, e.2 = some op → OpI32 op)
    (hr : fineRun (fineInit m threads) sched = some s) :
    ∃ lin : List Op, (∀ op ∈ lin, op ∈ sched.filterMap (·.2)) ∧ (run (G.init m) lin).max = s.g.max ∧
      (s.owner = none → run (G.init m) lin = s.g) := by
  have hsim0 : Sim (fineInit m threads) (G.init m) := ⟨rfl, rfl, rfl⟩
  have hpend0 : ∀ (t : Nat) (pc : Pc) (op : Op), (fineInit m threads).pcs[t]? = some pc → pendingOp pc = some op →
      op ∈ ([] : List Op) := by
    intro t pc op hp hpo
    simp only [fineInit] at hp
    have := List.mem_of_getElem? hp
    rw [List.mem_replicate] at this
    rw [this.2] at hpo; cases hpo
  obtain ⟨lin, hsim, hlin⟩ := fineRun_sim sched _ s (G.init m) [] (fineInit_inv m threads) hsim0 hpend0 hcalls hr
  refine ⟨lin, fun op hm => by simpa using hlin op hm, hsim.1, ?_⟩
  intro ho
  obtain ⟨hmax, hrest⟩ := hsim
  rw [ho] at hrest
  exact G_ext hmax hrest.1 hrest.2

/-- hence, e.g.: reports and removals racing at the granularity of single atomics keep the total exact and within
    the (unchanged) limit in every state in which the lock is free -/
theorem c08_fine_limit_unchanged (m : Int) (threads : Nat) (sched : List (Nat × Option Op)) (s : Fine)
    (hm : 0 ≤ m) (hm' : InI32 m)
    (hcalls : ∀ e ∈ sched, ∀ op, e.2 = some op → ∃ i r c, op = .set i r c ∧ InI32 c)
    (hr : fineRun (fineInit m threads) sched = some s) (hfree : s.owner = none) :
    s.g.count = sumStates s.g.states ∧ sumStates s.g.states ≤ m := by
  obtain ⟨lin, hlin, _, heq⟩ := c08_fine_reduction m threads sched s
    (fun e he op ho => by obtain ⟨i, r, c, rfl, hc⟩ := hcalls e he op ho; exact hc) hr
  have := c08_seq_limit_unchanged_init m lin hm hm' (fun op hop => by
    have hmem := hlin op hop
    rw [List.mem_filterMap] at hmem
    obtain ⟨e, he, heo⟩ := hmem
    exact hcalls e he op heo)
  rw [heq hfree] at this
  exact this

/-- … and with limit changes racing too (limits and counts below 2^30): exact total at every lock-free state -/
theorem c08_fine_bounded (m : Int) (threads : Nat) (sched : List (Nat × Option Op)) (s : Fine)
    (hm : 0 ≤ m ∧ m < 1073741824) (hcalls : ∀ e ∈ sched, ∀ op, e.2 = some op → Bounded op)
    (hr : fineRun (fineInit m threads) sched = some s) (hfree : s.owner = none) : Inv s.g := by
  have hI : ∀ op, Bounded op → OpI32 op := by
    intro op hb
    cases op with
    | set i r c => exact hb.1
    | resize n => have := hb.1; have := hb.2; unfold OpI32 InI32; omega
  obtain ⟨lin, hlin, _, heq⟩ := c08_fine_reduction m threads sched s
    (fun e he op ho => hI op (hcalls e he op ho)) hr
  have := (c08_seq_bounded m lin hm (fun op hop => by
    have hmem := hlin op hop
    rw [List.mem_filterMap] at hmem
    obtain ⟨e, he, heo⟩ := hmem
    exact hcalls e he op heo)).1
  rw [heq hfree] at this
  exact this

/-! ## 5. non-vacuity: the hypotheses are met by concrete, non-trivial states, and the branches are live -/

example : run (G.init 100) demoOps = { max := 50, count := 70, states := [(i1, ⟨40, 2⟩), (i2, ⟨30, 1⟩)] } := by decide
example : SafeRun (G.init 100) demoOps := (c08_seq_bounded 100 demoOps (by decide) (by
  intro op h
  simp only [demoOps, List.mem_cons, List.mem_nil_iff, or_false] at h
  rcases h with rfl | rfl | rfl | rfl <;> (unfold Bounded InI32; omega))).2
/-- the decrease is applied although the total (90, then 70) is above the lowered limit 50 … -/
example : (setState (run (G.init 100) (demoOps.take 3)) i1 2 40).2 = ⟨false, 40, .none⟩ := by decide
/-- … an increase is rolled back … -/
example : setState (run (G.init 100) demoOps) i2 2 31 =
    ({ max := 50, count := 70, states := [(i1, ⟨40, 2⟩), (i2, ⟨30, 2⟩)] }, ⟨false, 30, .none⟩) := by decide
/-- … a stale id is refused, exactly at the limit is "applied, not accepted", below it is accepted, removal -/
example : (setState (run (G.init 100) demoOps) i2 1 5).2 = ⟨false, 5, .requestIDTooOld⟩ := by decide
example : (setState (G.init 100) i1 1 100).2 = ⟨false, 100, .none⟩ := by decide
example : (setState (G.init 100) i1 1 99).2 = ⟨true, 99, .none⟩ := by decide
example : (setState (run (G.init 100) demoOps) i1 (-1) (-1)).1 =
    { max := 50, count := 30, states := [(i2, ⟨30, 1⟩)] } := by decide
/-- `Pre` really is needed for exactness: with counts near 2^31 above a lowered limit the `int32` total wraps
    and a raise is accepted (the modular total still holds: `c08_seq_total_mod`) -/
example : setState { max := 0, count := 2147483647, states := [(i1, ⟨2147483647, 1⟩)] } i2 1 2147483647 =
    ({ max := 0, count := -2, states := [(i1, ⟨2147483647, 1⟩), (i2, ⟨2147483647, 1⟩)] }, ⟨true, 2147483647, .none⟩) := by
  decide
example : ¬ Pre { max := 0, count := 2147483647, states := [(i1, ⟨2147483647, 1⟩)] } i2 2147483647 := by decide
/-- interleavings exist: two racing removals and a report -/
example : Interleave [[.set i1 (-1) (-1)], [.set i1 (-1) (-1), .set i1 5 7]]
    [.set i1 (-1) (-1), .set i1 (-1) (-1), .set i1 5 7] :=
  .step _ 1 _ [.set i1 5 7] _ rfl (.step _ 0 _ [] _ rfl (.step _ 1 _ [] _ rfl (.done _ (by decide))))
/-- the fine-grained system runs: thread 0 reports 10 for `i1` (limit 100) while thread 1 lowers the limit to 5
    between the add and the load of `max`: the report is rolled back (9 + 2 + 2 steps), quiescent at the end -/
example : fineRun (fineInit 100 2)
    [(0, some (.set i1 1 10)), (0, none), (0, none), (0, none), (0, none), (0, none), (0, none),
     (1, some (.resize 5)), (1, none), (0, none), (0, none), (0, none), (0, none)] =
    some ⟨⟨5, 0, [(i1, ⟨0, 1⟩)]⟩, none, [.idle, .idle]⟩ := by decide
/-- a second `SetState` cannot enter while the lock is held: the step is not enabled -/
example : fineRun (fineInit 100 2) [(0, some (.set i1 1 10)), (0, none), (1, some (.set i1 2 20)), (1, none)] = none := by
  decide
/-- token side: the hypotheses of `c08_tokens_rate` hold for a new limiter and an ordered history -/
example : TimesOk 0 [([0, 0, 1, 2], 25), ([5, 5, 5, 5], 3)] := by simp [TimesOk, Chain, lastFrom]
example : Mono (Bucket.init 10 10) 0 := fun l hl => by simp [Bucket.init] at hl

end KG.Props.C08
