import KG.Lemmas.Validate
/-!
# C16 — admission validation is total, and what it accepts the data plane can apply

Statement (properties.jsonl): validating any UpstreamCluster object terminates with a list of field errors and never
panics; every object that passes validation can be applied by the gateway and by the limiter server without error or
panic; objects that would break them (unparseable endpoint URLs, mixed schemes, unusable key / certificate / CA data,
policies referring to unknown endpoints or schemas, contradictory, incomplete or out-of-range flow-control
configurations) are rejected.

Everything is quantified over every object AND over every behaviour of the external parsers (`Env`: `url.Parse`,
`tls.X509KeyPair`, `cert.ParseCertsPEM`, `featuregate.Set`, `rest.DefaultServerURL`, `strings.ToLower`, the element
`PopAny` returns). Sufficiency additionally assumes `EnvOK env` (Spec): `url.Parse` reports the scheme the prefix test
saw, client-go accepts as host every URL that parses with scheme and host, `ToLower` is idempotent. Validator and
consumer call the same `env` (the same parser on the same bytes).
-/
namespace KG.Props.C16
open KG KG.Model.Validate KG.Spec.Validate KG.Lemmas.Validate

/-! ## Totality -/

/-- `Validate` (plugin; `ValidateUpstreamCluster` inside) returns a list of field errors for every object, every
    lister content and every behaviour of the parsers: it never panics (nor fails otherwise). -/
theorem c16_total (env : Env) (known : List Known) (c : Cluster) : ∃ errs, validate env known c = .ok errs :=
  validate_total env known c

theorem c16_never_panics (env : Env) (known : List Known) (c : Cluster) : isPanic (validate env known c) = false := by
  obtain ⟨e, he⟩ := c16_total env known c
  simp [he, isPanic]

/-- the same for `ValidateUpstreamCluster` alone -/
theorem c16_core_total (env : Env) (c : Cluster) : ∃ errs, validateUpstreamCluster env c = .ok errs := by
  obtain ⟨e, he⟩ := c16_total env [] c
  unfold validate at he
  cases h : validateUpstreamCluster env c with
  | ok l => exact ⟨l, rfl⟩
  | error x => simp [h, bind, Except.bind] at he

/-! ## Updates are validated like creates -/

/-- `Validate` is the same function of the object for every operation - create, update, a write through the status
    subresource - and does not read the old object: whatever an update changes (spec, annotations, labels, nothing),
    the object about to be stored goes through the whole validation. (For status writes this rests on the guard
    `shouldIgnore(a) && !isStatusUpdate(a)`, regenerated as `Gen.C16.statusValidated`.) -/
theorem c16_validate_independent_of_old (env : Env) (known : List Known) (op op' : Operation) (old old' : Option Cluster)
    (c : Cluster) : validateAdmission env known op old c = validateAdmission env known op' old' c := by
  simp [validateAdmission, Gen.C16.statusValidated]

theorem c16_admission_accepts_iff_valid (env : Env) (known : List Known) (op : Operation) (old : Option Cluster)
    (c : Cluster) : validateAdmission env known op old c = .ok [] ↔ valid env known c = true := by
  simp only [validateAdmission, Gen.C16.statusValidated, Bool.not_true, Bool.and_false, Bool.false_eq_true, if_false]
  exact validate_ok_iff_valid env known c

/-- the verdict does not depend on the life-cycle state the API server presents the object in (terminating with
    finalizers, any generation / resource version / managed fields / owner references / labels): only on what
    `ValidateObjectMeta` says about their syntax (`metaErrs`) -/
theorem c16_validate_independent_of_lifecycle (env : Env) (known : List Known) (op : Operation) (old : Option Cluster)
    (c : Cluster) (l : Lifecycle) :
    validateAdmission env known op old { c with lifecycle := l } = validateAdmission env known op old c := by
  have hconf : validateConflicts env { c with lifecycle := l } known = validateConflicts env c known := by
    induction known with
    | nil => rfl
    | cons u rest ih => simp only [validateConflicts, ih]
  simp only [validateAdmission, validate, validateUpstreamCluster, validateUpstreamClusterSpec, validateFeatureGate, hconf]

/-- a write through the status subresource stores the old spec and labels with the REQUEST's annotations
    (`prepareForStatusUpdate`); it is admitted only if that object is valid - e.g. not with an unparsable feature-gate
    annotation -/
theorem c16_status_write_validated (env : Env) (known : List Known) (old req : Cluster)
    (h : validateAdmission env known .statusUpdate (some old) (prepareForStatusUpdate old req) = .ok []) :
    valid env known (prepareForStatusUpdate old req) = true ∧
    featureGateOK env { old with annotations := req.annotations } = true := by
  have hv := (c16_admission_accepts_iff_valid env known .statusUpdate (some old) _).mp h
  refine ⟨hv, ?_⟩
  simp only [valid, Bool.and_eq_true] at hv
  exact hv.1.2

/-- in particular an update that leaves the spec untouched and writes an unparsable feature-gate annotation is
    rejected -/
theorem c16_rejects_bad_feature_gate_on_update (env : Env) (known : List Known) (old c : Cluster)
    (m : List (Str × Str)) (ha : c.annotations = some m) (hne : mapGet m sFeatureGateKey ≠ [])
    (hbad : env.featureGateSet (mapGet m sFeatureGateKey) = none) :
    validateAdmission env known .update (some old) c ≠ .ok [] := by
  intro h
  have hv := (c16_admission_accepts_iff_valid env known .update (some old) c).mp h
  simp only [valid, Bool.and_eq_true] at hv
  have hg := hv.1.2
  simp [featureGateOK, ha, hne, hbad] at hg

/-- `Admit`'s defaulting is idempotent -/
theorem c16_admission_defaults_idempotent (c : Cluster) : admitObject (admitObject c) = admitObject c := by
  unfold admitObject
  simp only [List.map_map]
  congr 1
  apply List.map_congr_left
  intro p _
  by_cases h : p.strategy = [] <;> simp [h]

/-- ... and changes nothing in an object that is valid as submitted -/
theorem c16_admission_defaults_keep_valid_object (env : Env) (known : List Known) (c : Cluster) (h : valid env known c = true) :
    admitObject c = c := by
  simp only [valid, formOK, Bool.and_eq_true, decide_eq_true_eq, List.all_eq_true] at h
  have hp := h.1.1.2.2
  unfold admitObject
  have : c.policies.map (fun p => if p.strategy = [] then { p with strategy := sRoundRobin } else p) = c.policies := by
    conv => rhs; rw [← List.map_id c.policies]
    apply List.map_congr_left
    intro p hpm
    have hs := (hp p hpm).1.1
    by_cases he : p.strategy = []
    · simp only [he, if_true, id]
      cases p; simp_all
    · simp [he]
  rw [this]

/-! ## What is accepted: exactly the declaratively valid objects -/

/-- the validation accepts (empty error list) exactly the objects that are `valid` by the declarative spec -/
theorem c16_accepts_iff_valid (env : Env) (known : List Known) (c : Cluster) :
    validate env known c = .ok [] ↔ valid env known c = true :=
  validate_ok_iff_valid env known c

/-- in particular every accepted object is `usable`: it is in none of the classes the property lists -/
theorem c16_accepted_usable (env : Env) (known : List Known) (c : Cluster) (h : validate env known c = .ok []) :
    usable env c = true := by
  have hv := (c16_accepts_iff_valid env known c).mp h
  simp only [valid, Bool.and_eq_true] at hv
  exact hv.1.1.1.1.2

/-! ## Rejection, class by class -/

private theorem classes_of_accepted (env : Env) (known : List Known) (c : Cluster) (h : validate env known c = .ok []) :
    (c.servers ≠ [] ∧ ∀ s ∈ c.servers, endpointOK env s.endpoint = true) ∧ sameScheme c.servers = true ∧
    clientTLSOK env (schemeOf c.servers) c.clientConfig = true ∧ servingOK env c.secureServing = true ∧
    (∀ s ∈ c.schemas, schemaOK s = true) ∧ namesOK c.schemas = true ∧
    (∀ p ∈ c.policies, policyRefsOK c.servers c.schemas p = true) := by
  have hu := c16_accepted_usable env known c h
  simp only [usable, classes, Bool.and_eq_true, decide_eq_true_eq, List.all_eq_true] at hu
  obtain ⟨⟨⟨⟨⟨⟨⟨a, b⟩, c'⟩, d⟩, e⟩, f⟩, g⟩, i⟩ := hu
  exact ⟨⟨a, b⟩, c', d, e, f, g, i⟩

/-- no servers -/
theorem c16_rejects_no_server (env : Env) (known : List Known) (c : Cluster) (h : c.servers = []) :
    validate env known c ≠ .ok [] := fun hv => (classes_of_accepted env known c hv).1.1 h

/-- an endpoint without `http://` / `https://` prefix -/
theorem c16_rejects_endpoint_without_scheme (env : Env) (known : List Known) (c : Cluster) (s : Server)
    (hs : s ∈ c.servers) (h : getURLScheme s.endpoint = []) : validate env known c ≠ .ok [] := by
  intro hv
  have := (classes_of_accepted env known c hv).1.2 s hs
  simp [endpointOK, h] at this

/-- an endpoint `url.Parse` refuses (`https://%zz`, `http://[::1`, ...) -/
theorem c16_rejects_unparseable_endpoint (env : Env) (known : List Known) (c : Cluster) (s : Server)
    (hs : s ∈ c.servers) (h : env.urlParse s.endpoint = none) : validate env known c ≠ .ok [] := by
  intro hv
  have := (classes_of_accepted env known c hv).1.2 s hs
  simp [endpointOK, h] at this

/-- an endpoint without host (`https://`, `https:///path`) -/
theorem c16_rejects_endpoint_without_host (env : Env) (known : List Known) (c : Cluster) (s : Server) (u : URL)
    (hs : s ∈ c.servers) (h : env.urlParse s.endpoint = some u) (hh : u.host = []) : validate env known c ≠ .ok [] := by
  intro hv
  have := (classes_of_accepted env known c hv).1.2 s hs
  simp [endpointOK, h, hh] at this

/-- mixed schemes -/
theorem c16_rejects_mixed_schemes (env : Env) (known : List Known) (c : Cluster) (a b : Server)
    (ha : a ∈ c.servers) (hb : b ∈ c.servers) (h : getURLScheme a.endpoint ≠ getURLScheme b.endpoint) :
    validate env known c ≠ .ok [] := by
  intro hv
  have := (classes_of_accepted env known c hv).2.1
  simp only [sameScheme, List.all_eq_true, decide_eq_true_eq] at this
  exact h (this a ha b hb)

/-- a client key/certificate pair `tls.X509KeyPair` refuses -/
theorem c16_rejects_unusable_client_keypair (env : Env) (known : List Known) (c : Cluster)
    (hk : c.clientConfig.keyData ≠ []) (hc : c.clientConfig.certData ≠ [])
    (h : env.x509KeyPair c.clientConfig.certData c.clientConfig.keyData = false) : validate env known c ≠ .ok [] := by
  intro hv
  have := (classes_of_accepted env known c hv).2.2.1
  simp [clientTLSOK, hk, hc, h] at this

/-- a client CA bundle `ParseCertsPEM` refuses -/
theorem c16_rejects_unusable_client_ca (env : Env) (known : List Known) (c : Cluster)
    (hc : c.clientConfig.caData ≠ []) (h : env.parseCertsPEM c.clientConfig.caData = false) :
    validate env known c ≠ .ok [] := by
  intro hv
  have := (classes_of_accepted env known c hv).2.2.1
  simp [clientTLSOK, hc, h] at this

/-- https with `insecure` and a CA (client-go refuses to build the transport) -/
theorem c16_rejects_insecure_with_ca (env : Env) (known : List Known) (c : Cluster)
    (hs : schemeOf c.servers = sHttps) (hi : c.clientConfig.insecure = true) (hc : c.clientConfig.caData ≠ []) :
    validate env known c ≠ .ok [] := by
  intro hv
  have := (classes_of_accepted env known c hv).2.2.1
  simp [clientTLSOK, hs, hi, hc] at this

/-- https with half a client key pair -/
theorem c16_rejects_half_client_keypair (env : Env) (known : List Known) (c : Cluster)
    (hs : schemeOf c.servers = sHttps) (h : (c.clientConfig.keyData = []) ≠ (c.clientConfig.certData = [])) :
    validate env known c ≠ .ok [] := by
  intro hv
  have := (classes_of_accepted env known c hv).2.2.1
  by_cases hk : c.clientConfig.keyData = [] <;> by_cases hc : c.clientConfig.certData = [] <;>
    simp [clientTLSOK, hs, hk, hc] at this h

/-- a serving key/certificate pair or client CA the parsers refuse -/
theorem c16_rejects_unusable_serving_keypair (env : Env) (known : List Known) (c : Cluster)
    (hk : c.secureServing.keyData ≠ []) (hc : c.secureServing.certData ≠ [])
    (h : env.x509KeyPair c.secureServing.certData c.secureServing.keyData = false) : validate env known c ≠ .ok [] := by
  intro hv
  have := (classes_of_accepted env known c hv).2.2.2.1
  simp [servingOK, hk, hc, h] at this

theorem c16_rejects_unusable_serving_ca (env : Env) (known : List Known) (c : Cluster)
    (hc : c.secureServing.clientCAData ≠ []) (h : env.parseCertsPEM c.secureServing.clientCAData = false) :
    validate env known c ≠ .ok [] := by
  intro hv
  have := (classes_of_accepted env known c hv).2.2.2.1
  simp [servingOK, hc, h] at this

/-- a policy whose subset names an endpoint that is not a server of the cluster -/
theorem c16_rejects_unknown_subset_endpoint (env : Env) (known : List Known) (c : Cluster) (p : Policy) (u : Str)
    (hp : p ∈ c.policies) (hu : u ∈ p.upstreamSubset) (h : u ∉ c.servers.map (·.endpoint)) :
    validate env known c ≠ .ok [] := by
  intro hv
  have := (classes_of_accepted env known c hv).2.2.2.2.2.2 p hp
  simp only [policyRefsOK, Bool.and_eq_true, List.all_eq_true, List.contains_iff_mem] at this
  exact h (this.1 u hu)

/-- a policy that names a flow-control schema the cluster does not define -/
theorem c16_rejects_unknown_schema_name (env : Env) (known : List Known) (c : Cluster) (p : Policy)
    (hp : p ∈ c.policies) (hn : p.flowControlSchemaName ≠ []) (h : p.flowControlSchemaName ∉ c.schemas.map (·.name)) :
    validate env known c ≠ .ok [] := by
  intro hv
  have := (classes_of_accepted env known c hv).2.2.2.2.2.2 p hp
  simp only [policyRefsOK, Bool.and_eq_true, Bool.or_eq_true, decide_eq_true_eq, List.contains_iff_mem] at this
  rcases this.2 with h1 | h1
  · exact hn h1
  · exact h h1

/-- a flow-control schema that is not one of the five complete, consistent, in-range shapes -/
theorem c16_rejects_bad_flow_control (env : Env) (known : List Known) (c : Cluster) (s : Schema)
    (hs : s ∈ c.schemas) (h : schemaOK s = false) : validate env known c ≠ .ok [] := by
  intro hv
  have := (classes_of_accepted env known c hv).2.2.2.2.1 s hs
  simp [h] at this

/-- the shapes `schemaOK` refuses: more than one configuration -/
theorem schemaOK_two_configurations (s : Schema)
    (h : (s.exempt = true ∧ (s.maxRequestsInflight.isSome ∨ s.tokenBucket.isSome)) ∨
         (s.maxRequestsInflight.isSome ∧ s.tokenBucket.isSome)) : schemaOK s = false := by
  obtain ⟨name, strategy, exempt, m, tb, gm, gtb⟩ := s
  cases exempt <;> cases m <;> cases tb <;> cases gm <;> cases gtb <;> simp [schemaOK, shapeOf] at h ⊢

/-- no configuration at all -/
theorem schemaOK_no_configuration (s : Schema)
    (h : s.exempt = false ∧ s.maxRequestsInflight = none ∧ s.tokenBucket = none) : schemaOK s = false := by
  obtain ⟨name, strategy, exempt, m, tb, gm, gtb⟩ := s
  cases exempt <;> cases m <;> cases tb <;> cases gm <;> cases gtb <;> simp [schemaOK, shapeOf] at h ⊢

/-- a global limit without the local one of the same kind (the shape that makes `NewFlowControl` dereference nil) -/
theorem schemaOK_global_without_local (s : Schema)
    (h : (s.globalMaxRequestsInflight.isSome ∧ s.maxRequestsInflight = none) ∨
         (s.globalTokenBucket.isSome ∧ s.tokenBucket = none)) : schemaOK s = false := by
  obtain ⟨name, strategy, exempt, m, tb, gm, gtb⟩ := s
  cases exempt <;> cases m <;> cases tb <;> cases gm <;> cases gtb <;> simp [schemaOK, shapeOf] at h ⊢

/-- a global limit below the local one -/
theorem schemaOK_global_below_local (s : Schema)
    (h : (∃ m g, s.maxRequestsInflight = some m ∧ s.globalMaxRequestsInflight = some g ∧ g < m) ∨
         (∃ t g, s.tokenBucket = some t ∧ s.globalTokenBucket = some g ∧ (g.qps < t.qps ∨ g.burst < t.burst))) :
    schemaOK s = false := by
  obtain ⟨name, strategy, exempt, m, tb, gm, gtb⟩ := s
  cases exempt <;> cases m <;> cases tb <;> cases gm <;> cases gtb <;>
    simp [schemaOK, shapeOf, Shape.inRange] at h ⊢ <;> omega

/-- numbers outside the range the consumers need: negative `max`, `qps ≤ 0`, `burst < qps` -/
theorem schemaOK_out_of_range (s : Schema)
    (h : (∃ m, s.maxRequestsInflight = some m ∧ m < 0) ∨ (∃ g, s.globalMaxRequestsInflight = some g ∧ g < 0) ∨
         (∃ t, s.tokenBucket = some t ∧ (t.qps ≤ 0 ∨ t.burst < t.qps)) ∨
         (∃ g, s.globalTokenBucket = some g ∧ g.qps ≤ 0)) : schemaOK s = false := by
  obtain ⟨name, strategy, exempt, m, tb, gm, gtb⟩ := s
  cases exempt <;> cases m <;> cases tb <;> cases gm <;> cases gtb <;>
    simp [schemaOK, shapeOf, Shape.inRange] at h ⊢ <;> omega

/-- two schemas with one name, or a schema without name -/
theorem c16_rejects_bad_schema_names (env : Env) (known : List Known) (c : Cluster) (h : namesOK c.schemas = false) :
    validate env known c ≠ .ok [] := by
  intro hv
  have := (classes_of_accepted env known c hv).2.2.2.2.2.1
  simp [h] at this

/-! ## Sufficiency: what is accepted can be applied -/

/-- the gateway creates the cluster: `CreateClusterInfo` (`buildClusterRESTConfig`, TLS configuration, first `Sync`:
    feature gates, limiters, serving certificates, one transport and client set per endpoint) neither fails nor
    panics, in local and in remote mode -/
theorem c16_sufficient_create (env : Env) (henv : EnvOK env) (known : List Known) (c : Cluster)
    (h : validate env known c = .ok []) (remote : Bool) : ∃ ci, createClusterInfo env remote c = .ok ci := by
  obtain ⟨ci, hci, _⟩ := createClusterInfo_ok env henv known c ((c16_accepts_iff_valid env known c).mp h) remote
  exact ⟨ci, hci⟩

/-- ... and conversely: an object on which `CreateClusterInfo` fails or panics is rejected -/
theorem c16_breaking_object_rejected (env : Env) (henv : EnvOK env) (known : List Known) (c : Cluster) (remote : Bool)
    (e : Err) (h : createClusterInfo env remote c = .error e) : validate env known c ≠ .ok [] := by
  intro hv
  obtain ⟨ci, hci⟩ := c16_sufficient_create env henv known c hv remote
  rw [h] at hci
  cases hci

/-- a `ClusterInfo` the gateway may hold: client-go accepts its rest configuration (true of every one created
    from an accepted object, kept by every `Sync`) -/
def Applicable (env : Env) (ci : ClusterInfo) : Prop := tlsConfigFor env ci.restTLS = .ok ()

/-- applying accepted objects one after the other (create, then any number of updates) never fails: `Sync` of an
    accepted object succeeds from EVERY applicable state, whatever objects were applied before -/
theorem c16_sufficient_update (env : Env) (henv : EnvOK env) (known : List Known) (c : Cluster)
    (h : validate env known c = .ok []) (ci : ClusterInfo) (hci : Applicable env ci) :
    ∃ ci', ci.sync env c = .ok ci' ∧ Applicable env ci' := by
  obtain ⟨ci', h1, h2, _⟩ := sync_ok env henv known c ((c16_accepts_iff_valid env known c).mp h) ci hci
  exact ⟨ci', h1, by unfold Applicable; rw [h2]; exact hci⟩

theorem c16_created_applicable (env : Env) (henv : EnvOK env) (known : List Known) (c : Cluster)
    (h : validate env known c = .ok []) (remote : Bool) :
    ∃ ci, createClusterInfo env remote c = .ok ci ∧ Applicable env ci := by
  obtain ⟨ci, hci, ht, _⟩ := createClusterInfo_ok env henv known c ((c16_accepts_iff_valid env known c).mp h) remote
  exact ⟨ci, hci, ht⟩

/-- every history: a cluster created from an accepted object and then synced with any list of accepted objects -/
theorem c16_sufficient_history (env : Env) (henv : EnvOK env) (known : List Known) (cs : List Cluster)
    (h : ∀ c ∈ cs, validate env known c = .ok []) (ci : ClusterInfo) (hci : Applicable env ci) :
    ∃ ci', foldM' (fun (st : ClusterInfo) c => st.sync env c) ci cs = .ok ci' ∧ Applicable env ci' :=
  foldM'_ok _ (Applicable env) cs
    (fun st hst c hc => c16_sufficient_update env henv known c (h c hc) st hst) ci hci

/-- an admitted UPDATE can be applied: the gateway holds the `ClusterInfo` it created from the old (admitted) object;
    `Sync` of the new object, admitted as an update of it, succeeds — whatever the two objects differ in -/
theorem c16_sufficient_update_admission (env : Env) (henv : EnvOK env) (known known' : List Known) (old c : Cluster)
    (hold : validateAdmission env known' .create none old = .ok [])
    (h : validateAdmission env known .update (some old) c = .ok []) (remote : Bool) :
    ∃ ci, createClusterInfo env remote old = .ok ci ∧ ∃ ci', ci.sync env c = .ok ci' := by
  obtain ⟨ci, hci, happ⟩ := c16_created_applicable env henv known' old hold remote
  obtain ⟨ci', hs, _⟩ := c16_sufficient_update env henv known c h ci happ
  exact ⟨ci, hci, ci', hs⟩

/-- ... and so can an admitted status write: what it stores syncs on the `ClusterInfo` created from the old object -/
theorem c16_sufficient_status_write (env : Env) (henv : EnvOK env) (known known' : List Known) (old req : Cluster)
    (hold : validateAdmission env known' .create none old = .ok [])
    (h : validateAdmission env known .statusUpdate (some old) (prepareForStatusUpdate old req) = .ok []) (remote : Bool) :
    ∃ ci, createClusterInfo env remote old = .ok ci ∧ ∃ ci', ci.sync env (prepareForStatusUpdate old req) = .ok ci' := by
  obtain ⟨ci, hci, happ⟩ := c16_created_applicable env henv known' old
    ((c16_admission_accepts_iff_valid env known' .create none old).mpr ((c16_admission_accepts_iff_valid env known' .create none old).mp hold) |>
      (c16_accepts_iff_valid env known' old).mpr ∘ (c16_admission_accepts_iff_valid env known' .create none old).mp) remote
  obtain ⟨ci', hs, _⟩ := c16_sufficient_update env henv known _
    ((c16_accepts_iff_valid env known _).mpr ((c16_admission_accepts_iff_valid env known .statusUpdate (some old) _).mp h)) ci happ
  exact ⟨ci, hci, ci', hs⟩

/-- the controller's queue handler bootstraps an accepted object: no panic, no requeue (`Err.err`), provided the
    manager only holds names of clusters the lister (against which the object was validated) knows -/
theorem c16_sufficient_controller (env : Env) (henv : EnvOK env) (known : List Known) (c : Cluster)
    (h : validate env known c = .ok []) (remote : Bool) (m : Manager) (hm : ManagerReflects env known c m)
    (hnew : alGet m (env.lower c.name) = none) : ∃ m', syncUpstreamCluster env remote m c = .ok m' :=
  syncUpstreamCluster_ok env henv known c ((c16_accepts_iff_valid env known c).mp h) remote m hm hnew

/-- plugin accepts ⇒ the controller does not refuse for a name conflict: the gateway already serves the OTHER clusters
    the lister knows (`applyOthers`: the handler ran for each in turn; ones it refused are not served), whatever their
    names and aliases and in whatever case they are spelled; an object the plugin accepted against that lister (its
    own name not among them) is bootstrapped by the handler - no panic, no requeue. The plugin compares lower-cased
    names on BOTH sides; the manager is keyed by lower-cased names: that is what the proof uses (`noConflict`,
    `ServesOnly`, `EnvOK.lower_idem`). -/
theorem c16_sufficient_controller_among_others (env : Env) (henv : EnvOK env) (others : List Cluster) (c : Cluster)
    (h : validate env (others.map Cluster.toKnown) c = .ok [])
    (hown : ∀ u ∈ others, env.lower u.name ≠ env.lower c.name) (remote : Bool) :
    ∃ m', syncUpstreamCluster env remote (applyOthers env remote [] others) c = .ok m' :=
  syncUpstreamCluster_among_others env henv others c ((c16_accepts_iff_valid env _ c).mp h) hown remote

/-- the limiter server's handler applies every object (accepted or not) from every state without failing;
    its upstream condition then carries exactly the global members of the schemas -/
theorem c16_sufficient_limiter_handler (u : Upstream) (c : Cluster) : ∃ u', upstreamConditionHandler u c = .ok u' :=
  let ⟨u', h, _⟩ := upstreamConditionHandler_ok u c
  ⟨u', h⟩

/-- terms of the limiter server: when a replica starts leading the shard again (leadership lost and regained,
    fail-over, restart) its store has no flow controls - the API-backed store restores the CONDITIONS the previous
    leader flushed (`persist = true`, any `u`), the local store nothing - and the handler it runs for the accepted object
    succeeds and re-creates every global limiter with the configured kind and numbers, whatever was restored
    (in particular a restored `.state` condition that already equals the object's limits) -/
theorem c16_limiter_takeover (env : Env) (known : List Known) (c : Cluster) (h : validate env known c = .ok [])
    (persist : Bool) (u : Upstream) :
    ∃ u', upstreamConditionHandler (newTerm persist u) c = .ok u' ∧ u'.flowControls = globalEntries c.schemas :=
  handler_after_takeover env known c ((c16_accepts_iff_valid env known c).mp h) persist u

/-- no `uint32` wrap-around: a cluster created from an accepted object (whose numbers are `int32` values) has exactly
    one limiter per schema, of the configured kind and with exactly the configured numbers, and no remote limiter -/
theorem c16_created_limiters (env : Env) (henv : EnvOK env) (known : List Known) (c : Cluster)
    (h : validate env known c = .ok []) (ht : ∀ s ∈ c.schemas, wellTyped s = true) (remote : Bool) :
    ∃ ci, createClusterInfo env remote c = .ok ci ∧ ci.flowcontrol.flowControls = c.schemas.map entryOf :=
  createClusterInfo_sizes env henv known c ((c16_accepts_iff_valid env known c).mp h) ht remote

/-- what `entryOf` (`expectedLocal`) says in numbers: the limiter's size is the configured `max`, resp. `qps` and
    `burst`, as integers -/
theorem c16_expected_sizes (s : Schema) (h : schemaOK s = true) :
    ∃ fc, (entryOf s).2.fc = some fc ∧
      (∀ m, s.maxRequestsInflight = some m → fc.typ = .maxRequestsInflight ∧ (fc.n : Int) = m) ∧
      (∀ t, s.tokenBucket = some t → fc.typ = .tokenBucket ∧ (fc.n : Int) = t.qps ∧ (fc.burst : Int) = t.burst) ∧
      (s.exempt = true → fc.typ = .exempt) := by
  obtain ⟨name, strategy, exempt, m, tb, gm, gtb⟩ := s
  cases exempt <;> cases m <;> cases tb <;> cases gm <;> cases gtb <;>
    simp [schemaOK, shapeOf, Shape.inRange] at h <;>
    simp [entryOf, expectedLocal, shapeOf] <;> omega

/-- what the applied configuration DOES: after `Sync` of an accepted object (create or update, from any state) the
    cluster holds exactly the endpoints the object names, each under the very string the object spells it with
    (trailing slash, upper-case host, default port included), and every dispatch policy's picker resolves exactly
    the endpoints the object says - its subset, else all - each of which `Pop` can load -/
theorem c16_policies_resolve (env : Env) (known : List Known) (c : Cluster) (h : validate env known c = .ok [])
    (ci ci' : ClusterInfo) (hs : ci.sync env c = .ok ci') (hn : ci.cluster = env.lower c.name) :
    ci'.policies = c.policies ∧ (∀ x, x ∈ ci'.endpoints ↔ x ∈ c.servers.map (·.endpoint)) ∧
    ∀ p ∈ c.policies, loadedUpstreams ci' p = resolveUpstreams ci' p ∧
      (p.upstreamSubset ≠ [] → resolveUpstreams ci' p = p.upstreamSubset) ∧
      (p.upstreamSubset = [] → resolveUpstreams ci' p = ci'.endpoints) :=
  policies_resolve env known c ((c16_accepts_iff_valid env known c).mp h) ci ci' hs hn

/-- ... and, on a cluster created from the object, the limiter a policy names is the one the object configures -/
theorem c16_created_policy_limiter (env : Env) (henv : EnvOK env) (known : List Known) (c : Cluster)
    (h : validate env known c = .ok []) (ht : ∀ s ∈ c.schemas, wellTyped s = true) (remote : Bool) :
    ∃ ci, createClusterInfo env remote c = .ok ci ∧ ∀ p ∈ c.policies, ∀ s ∈ c.schemas,
      p.flowControlSchemaName = s.name → resolveFlowControl ci p = expectedLocal s := by
  obtain ⟨ci, hci, hfl⟩ := c16_created_limiters env henv known c h ht remote
  refine ⟨ci, hci, ?_⟩
  intro p _ s hs hname
  have hn : namesOK c.schemas = true := (classes_of_accepted env known c h).2.2.2.2.2.1
  have hne : s.name ≠ [] := namesOK_mem_ne c.schemas hn s hs
  unfold resolveFlowControl
  rw [hname, hfl, alGet_map_entryOf_some c.schemas hn s hs]
  simp [hne]

/-- the gateway's periodic reconcile with the limiter server (remote mode): a gateway that created the cluster from
    an accepted object, against a limiter server that handled the same object, runs any number of periods
    (`updateGlobalCuntFlowControls`, `buildLimitConditions`, the server's `UpdateRateLimitConditionStatus` incl.
    `calculateUpstreamCondition`, `updateFlowControls`) without error or panic, whatever quotas the server computes and
    whatever usage the gateway reports. The count path's guard (`Gen.C16.countPathGuarded`, regenerated from the
    source) is what this proof rests on for `globalCount` schemas without a global limit. -/
theorem c16_sufficient_reconcile (env : Env) (henv : EnvOK env) (known : List Known) (c : Cluster)
    (h : validate env known c = .ok []) (ht : ∀ s ∈ c.schemas, wellTyped s = true)
    (quota : Str → Int × Int) (used : Str → Int) (inst : Str) (n : Nat) :
    ∃ ci u, createClusterInfo env true c = .ok ci ∧ upstreamConditionHandler emptyUpstream c = .ok u ∧
      ∃ r, reconcileLoop quota used inst n (ci.flowcontrol.flowControls, u) = .ok r :=
  reconcile_after_create env henv known c ((c16_accepts_iff_valid env known c).mp h) ht quota used inst n

/-- the property's second sentence in one statement: an accepted object is applied by the gateway (controller
    bootstrap in either mode, reconcile periods in remote mode) and by the limiter server (handler, status updates
    inside the reconcile periods) without error or panic -/
theorem c16_sufficient (env : Env) (henv : EnvOK env) (known : List Known) (c : Cluster)
    (h : validate env known c = .ok []) (ht : ∀ s ∈ c.schemas, wellTyped s = true)
    (m : Manager) (hm : ManagerReflects env known c m) (hnew : alGet m (env.lower c.name) = none)
    (quota : Str → Int × Int) (used : Str → Int) (inst : Str) (n : Nat) :
    (∀ remote, ∃ m', syncUpstreamCluster env remote m c = .ok m') ∧
    (∃ ci u, createClusterInfo env true c = .ok ci ∧ upstreamConditionHandler emptyUpstream c = .ok u ∧
      ∃ r, reconcileLoop quota used inst n (ci.flowcontrol.flowControls, u) = .ok r) :=
  ⟨fun remote => c16_sufficient_controller env henv known c h remote m hm hnew,
   c16_sufficient_reconcile env henv known c h ht quota used inst n⟩

/-! ## Non-vacuity -/

/-- "https://h" -/
def exEndpoint : Str := sHttpsPrefix ++ [104]

/-- parsers that accept exactly one endpoint, one key pair and one CA bundle -/
def exEnv : Env :=
  { urlParse := fun s => if s = exEndpoint then some ⟨sHttps, [104]⟩ else none,
    x509KeyPair := fun c k => c = [1] && k = [2],
    parseCertsPEM := fun d => d = [3],
    featureGateSet := fun v => if v = [4] then some true else none,
    restHostOK := fun s => s = exEndpoint,
    lower := id,
    popFirst := true }

def exSchemas : List Schema :=
  [ ⟨[97], sGlobalCountLimit, false, some 10, none, some 100, none⟩,      -- a: max 10, global 100, globalCount
    ⟨[98], sGlobalCountLimit, false, some 5, none, none, none⟩,          -- b: globalCount without a global limit
    ⟨[99], sGlobalAllocateLimit, false, none, some ⟨5, 8⟩, none, some ⟨50, 80⟩⟩,
    ⟨[100], [], true, none, none, none, none⟩ ]

def exCluster : Cluster :=
  { name := [99, 49], metaErrs := [], annotations := some [(sFeatureGateKey, [4])],
    servers := [⟨exEndpoint, none⟩],
    clientConfig := ⟨false, [], [2], [1], [3], 5, 10, 0⟩,
    secureServing := ⟨[2], [1], [3], [[120]]⟩,
    schemas := exSchemas, loggingMode := [],
    policies := [⟨sRoundRobin, [exEndpoint], 1, [97], []⟩] }

example : EnvOK exEnv := by
  refine ⟨?_, ?_, fun _ => rfl⟩
  · intro s u h hs
    simp only [exEnv] at h
    split at h
    · rename_i he; cases h; subst he; decide
    · cases h
  · intro s u h _ _
    simp only [exEnv] at h ⊢
    split at h
    · rename_i he; simp [he]
    · cases h

private theorem exEndpoint_scheme : getURLScheme exEndpoint = sHttps := by decide

example : valid exEnv [⟨[111], [[121]]⟩] exCluster = true := by
  simp [valid, usable, classes, exCluster, exSchemas, exEnv, endpointOK, sameScheme, schemeOf, exEndpoint_scheme,
    clientTLSOK, servingOK, schemaOK, shapeOf, Shape.inRange, namesOK, policyRefsOK, clientLimitsOK, formOK, strategyOK,
    logModeOK, featureGateOK, mapGet, noConflict]
  decide

/-- the hypotheses of the sufficiency theorems hold together for this object (it is accepted, the parsers are
    well-behaved, the empty manager reflects every lister): they are not vacuous -/
example : validate exEnv [⟨[111], [[121]]⟩] exCluster = .ok [] ∧ ManagerReflects exEnv [⟨[111], [[121]]⟩] exCluster [] ∧
    Applicable exEnv (newEmptyClusterInfo exEnv exCluster.name none false) ∧
    (∀ s ∈ exCluster.schemas, wellTyped s = true) := by
  refine ⟨(c16_accepts_iff_valid _ _ _).mpr ?_, ?_, rfl, by decide⟩
  · simp [valid, usable, classes, exCluster, exSchemas, exEnv, endpointOK, sameScheme, schemeOf, exEndpoint_scheme,
      clientTLSOK, servingOK, schemaOK, shapeOf, Shape.inRange, namesOK, policyRefsOK, clientLimitsOK, formOK, strategyOK,
      logModeOK, featureGateOK, mapGet, noConflict]
    decide
  · intro k ci h; simp [alGet] at h

/-- ... and those of `c16_sufficient_controller_among_others`: another cluster with an alias is served already -/
example : validate exEnv ([Known.toCluster ⟨[111], [[121]]⟩].map Cluster.toKnown) exCluster = .ok [] ∧
    (∀ u ∈ [Known.toCluster ⟨[111], [[121]]⟩], exEnv.lower u.name ≠ exEnv.lower exCluster.name) := by
  refine ⟨(c16_accepts_iff_valid _ _ _).mpr ?_, by decide⟩
  simp [valid, usable, classes, exCluster, exSchemas, exEnv, endpointOK, sameScheme, schemeOf, exEndpoint_scheme,
    clientTLSOK, servingOK, schemaOK, shapeOf, Shape.inRange, namesOK, policyRefsOK, clientLimitsOK, formOK, strategyOK,
    logModeOK, featureGateOK, mapGet, noConflict, Known.toCluster, Cluster.toKnown]
  decide

end KG.Props.C16
