import KG.Spec.Validate
namespace KG.Props.C16
open KG KG.Model.Validate KG.Spec.Validate

theorem placeholder : toU32 0 = 0 := by decide

end KG.Props.C16
