import KG.Lemmas.Endpoints
import KG.Gen.C14
/-!
# C14 — Round-robin: ready endpoints of a policy share its traffic evenly

About `KG.Model.Endpoints.pop` / `popMany` (mirror of `endpointPickStrategy.Pop`: one `uint64` cursor per *ordered* ready
list, incremented atomically, indexed modulo the number of ready endpoints) and the small-step model `cstep` of concurrent
pickers.  The endpoint map `eps` is fixed during the picks (the ready set is stable); the cursors `lb` start anywhere; the
hypothesis `… < 2^64` says the window does not cross the `uint64` wrap of a cursor (2^64 picks on one ready list).

Reading chosen (see notes/C14.md): "N consecutive picks" are consecutive picks *on that ready set* — picks that share a
cursor; an endpoint named twice in a subset counts as two positions (the per-endpoint statements assume duplicate-free
ready lists, which always holds without an explicit subset).
-/
namespace KG.Props.C14
open KG KG.Model.Endpoints KG.Spec.Endpoints KG.Lemmas.Endpoints

/-- **bounded deviation, any orders**: `N` consecutive picks whose ordered ready lists are arbitrary (even adversarially
    chosen per pick) members of a set `K` of `D` orders of the same `k ≥ 2` ready endpoints: every ready endpoint `e` is
    chosen `count` times with `|k·count − N| ≤ D·(k−1)` — a bound independent of `N` (`D ≤ k!`). -/
theorem c14_bounded (eps : List EP) (e : Name × Nat) (k : Nat) (hk : 2 ≤ k) (K : List Key) (hK : K.Nodup)
    (hKe : ∀ κ, κ ∈ K → κ.Nodup ∧ κ.length = k ∧ e ∈ κ)
    (uss : List (List Name)) (lb : List (Key × Nat))
    (hkeys : ∀ us, us ∈ uss → (readyList eps us).map EP.id ∈ K)
    (hwrap : ∀ κ, κ ∈ K → lbGet lb κ + uss.length < 2 ^ 64) :
    boundedOK k K.length uss.length (countPicked e.1 e.2 (popMany eps lb uss).1) = true := by
  have h := popMany_potential eps e k hk K hK hKe uss lb hkeys hwrap
  have h1 := potential_le K k e lb (fun κ hκ => (hKe κ hκ).2)
  have h2 := potential_le K k e (popMany eps lb uss).2 (fun κ hκ => (hKe κ hκ).2)
  simp only [boundedOK, Bool.and_eq_true, decide_eq_true_eq]
  omega

/-- **strict round-robin, fixed order**: `N` consecutive picks over the same upstream list (an explicit subset: the ready
    list keeps the subset's order) with `k ≥ 2` distinct ready endpoints, from any cursor value: every ready endpoint is
    chosen `⌊N/k⌋` or `⌈N/k⌉` times. -/
theorem c14_strict (eps : List EP) (us : List Name) (N : Nat) (lb : List (Key × Nat)) (e : EP)
    (hk : 2 ≤ (readyList eps us).length) (hnd : ((readyList eps us).map EP.id).Nodup) (he : e ∈ readyList eps us)
    (hwrap : lbGet lb ((readyList eps us).map EP.id) + N < 2 ^ 64) :
    strictOK (readyList eps us).length N (countPicked e.name e.gen (popMany eps lb (List.replicate N us)).1) = true := by
  have hb := c14_bounded eps e.id (readyList eps us).length hk [(readyList eps us).map EP.id] (by simp)
    (by
      intro κ hκ
      have : κ = (readyList eps us).map EP.id := by simpa using hκ
      subst this
      exact ⟨hnd, by simp, List.mem_map.2 ⟨e, he, rfl⟩⟩)
    (List.replicate N us) lb
    (by intro us' h'; have := (List.mem_replicate.1 h').2; subst this; simp)
    (by intro κ hκ; have : κ = (readyList eps us).map EP.id := by simpa using hκ
        subst this; simpa using hwrap)
  simp only [boundedOK, Bool.and_eq_true, decide_eq_true_eq, List.length_replicate, List.length_cons, List.length_nil,
    EP.id] at hb
  simp only [strictOK, Bool.and_eq_true, decide_eq_true_eq]
  generalize countPicked e.name e.gen (popMany eps lb (List.replicate N us)).1 = cnt at hb ⊢
  generalize (readyList eps us).length = k at hb hk ⊢
  have hkpos : 0 < k := by omega
  constructor
  · have : N / k < cnt + 1 := by
      rw [Nat.div_lt_iff_lt_mul hkpos, Nat.add_mul, Nat.mul_comm cnt k]; omega
    omega
  · rw [Nat.le_div_iff_mul_le hkpos, Nat.mul_comm cnt k]; omega

/-- no ready endpoint is starved: once `N` exceeds the constant, every ready endpoint has been chosen -/
theorem c14_no_starvation (eps : List EP) (e : Name × Nat) (k : Nat) (hk : 2 ≤ k) (K : List Key) (hK : K.Nodup)
    (hKe : ∀ κ, κ ∈ K → κ.Nodup ∧ κ.length = k ∧ e ∈ κ)
    (uss : List (List Name)) (lb : List (Key × Nat))
    (hkeys : ∀ us, us ∈ uss → (readyList eps us).map EP.id ∈ K)
    (hwrap : ∀ κ, κ ∈ K → lbGet lb κ + uss.length < 2 ^ 64)
    (hN : K.length * (k - 1) < uss.length) :
    0 < countPicked e.1 e.2 (popMany eps lb uss).1 := by
  have hb := c14_bounded eps e k hk K hK hKe uss lb hkeys hwrap
  simp only [boundedOK, Bool.and_eq_true, decide_eq_true_eq] at hb
  cases hc : countPicked e.1 e.2 (popMany eps lb uss).1 with
  | zero => rw [hc] at hb; omega
  | succ _ => omega

/-- the exact law behind both: a pick with `k ≥ 2` ready endpoints increments the cursor of its ordered ready list (and no
    other cursor) and returns the element at `cursor mod k` -/
theorem c14_cursor_law (eps : List EP) (lb : List (Key × Nat)) (us : List Name) (h : 2 ≤ (readyList eps us).length) :
    let key := (readyList eps us).map EP.id
    let c := toU64 (lbGet lb key + 1)
    (pop eps lb us).1 = indexResult (readyList eps us) c ∧
    lbGet (pop eps lb us).2 key = c ∧ ∀ κ, κ ≠ key → lbGet (pop eps lb us).2 κ = lbGet lb κ := by
  simp only
  rw [pop_multi eps lb us h]
  refine ⟨rfl, by simp [lbGet_lbSet], ?_⟩
  intro κ hκ; simp [lbGet_lbSet, hκ]

/-- `k = 1`: that endpoint, cursors untouched; `k = 0`: "no ready endpoints", cursors untouched -/
theorem c14_one_or_none (eps : List EP) (lb : List (Key × Nat)) (us : List Name) :
    (∀ e, readyList eps us = [e] → pop eps lb us = (.picked e.name e.gen, lb)) ∧
    (readyList eps us = [] → pop eps lb us = (.noReady, lb)) :=
  ⟨fun e h => pop_single eps lb us e h, fun h => pop_none eps lb us h⟩

/-- without an explicit subset the ordered ready list is duplicate-free in every reachable state (the per-endpoint
    hypotheses of `c14_strict` / `c14_bounded` hold): `order` is what `AllEndpoints()` returned -/
theorem c14_full_set_nodup (s : State) (hs : (s.eps.map (·.name)).Nodup) (order : List Name)
    (hperm : order.Perm (s.eps.map (·.name))) : ((readyList s.eps order).map EP.id).Nodup := by
  have hord : order.Nodup := (hperm.nodup_iff).2 hs
  clear hperm hs
  unfold readyList
  induction order with
  | nil => simp
  | cons n rest ih =>
    have hn := List.nodup_cons.1 hord
    have hrest := ih hn.2
    clear ih
    simp only [List.filterMap_cons]
    cases hl : load s.eps n with
    | none => simpa [hl] using hrest
    | some e =>
      simp only [hl]
      by_cases hr : e.isReady = true
      · simp only [hr, if_true, List.map_cons, List.nodup_cons]
        refine ⟨?_, hrest⟩
        intro hmem
        obtain ⟨e', he', hid⟩ := List.mem_map.1 hmem
        obtain ⟨m, hm, hlm⟩ := List.mem_filterMap.1 he'
        have hname : e'.name = e.name := by simpa [EP.id] using congrArg Prod.fst hid
        have hm' : e'.name = m := by
          cases hl' : load s.eps m with
          | none => simp [hl'] at hlm
          | some e'' =>
            simp only [hl'] at hlm
            split at hlm
            · injection hlm with hlm; subst hlm; exact load_some_name hl'
            · cases hlm
        have : m = n := by rw [← hm', hname]; exact load_some_name hl
        exact hn.1 (this ▸ hm)
      · simpa [hr] using hrest

/-- the reachable states of the C03 model have duplicate-free endpoint maps -/
theorem c14_reachable_nodup (ops : List Op) : (((run init ops).1).eps.map (·.name)).Nodup := by
  have : ∀ (s : State) (a : Abs), Sim s a → ∀ ops, ∃ a', Sim (run s ops).1 a' := by
    intro s a h ops
    induction ops generalizing s a with
    | nil => exact ⟨a, by simpa [run] using h⟩
    | cons op ops ih =>
      obtain ⟨a', h'⟩ := ih _ _ (sim_step h op).2
      exact ⟨a', by simpa [run] using h'⟩
  obtain ⟨a', h'⟩ := this init Abs.init sim_init ops
  exact h'.nodup

/-- every reachable state of the C03 model is in simulation with some abstract state (the hypothesis `Sim s a` below is
    satisfiable by, and only talks about, reachable states: `a.servers` is the server list of the last Sync) -/
theorem c14_reachable_sim (ops : List Op) : ∃ a, Sim (run init ops).1 a := by
  have : ∀ (s : State) (a : Abs), Sim s a → ∀ ops, ∃ a', Sim (run s ops).1 a' := by
    intro s a h ops
    induction ops generalizing s a with
    | nil => exact ⟨a, by simpa [run] using h⟩
    | cons op ops ih =>
      obtain ⟨a', h'⟩ := ih _ _ (sim_step h op).2
      exact ⟨a', by simpa [run] using h'⟩
  exact this init Abs.init sim_init ops

/-- **a Sync that does not change the server list keeps the ready set stable and leaves the cursors alone**: same endpoint
    names with the same disabled marks (order, duplicates, dispatch policies, logging, flow control, annotations may all
    differ, or nothing at all — an informer resync): no endpoint object changes and no cursor is reset. -/
theorem c14_resync_keeps_cursors {s : State} {a : Abs} (h : Sim s a) (servers : List Server) (policies : List (List Name))
    (hs : sameServers a.servers servers) :
    (sync s servers policies).eps = s.eps ∧ (sync s servers policies).lb = s.lb := by
  obtain ⟨e1, e2⟩ := resync_noop h servers hs
  exact ⟨by simpa [sync] using e1, by simpa [sync] using e2⟩

/-- **strict round-robin over a window with Syncs in it**: `N` picks over the same upstream list, with any number of Syncs
    that leave the server list unchanged arriving anywhere in between (also after every single pick): every ready endpoint
    is still chosen `⌊N/k⌋` or `⌈N/k⌉` times over the whole window. -/
theorem c14_strict_across_resyncs {s : State} {a : Abs} (h : Sim s a) (events : List Event) (us : List Name) (N : Nat)
    (hpicks : picksOf events = List.replicate N us)
    (hev : ∀ sv pl, Event.sync sv pl ∈ events → sameServers a.servers sv) (e : EP)
    (hk : 2 ≤ (readyList s.eps us).length) (hnd : ((readyList s.eps us).map EP.id).Nodup) (he : e ∈ readyList s.eps us)
    (hwrap : lbGet s.lb ((readyList s.eps us).map EP.id) + N < 2 ^ 64) :
    strictOK (readyList s.eps us).length N (countPicked e.name e.gen (runEvents s events).2) = true := by
  rw [(runEvents_resyncs h events hev).1, hpicks]
  exact c14_strict s.eps us N s.lb e hk hnd he hwrap

/-- **a probe that changes nothing moves no cursor**: status reports, `TriggerHealthCheck`, `EnsureGatewayHealthCheck` and
    probes never write a cursor, and a probe whose report repeats the endpoint's current health leaves every ordered ready list
    — every cursor key — as it is (the key is the list of ready *objects*; it does not depend on reason / message of the status). -/
theorem c14_probe_keeps_cursors (s : State) (n : Name) (hv : Bool) :
    (step s (.probeFire n hv)).1.lb = s.lb ∧ (step s (.updateStatus n hv)).1.lb = s.lb ∧
    (step s (.trigger n)).1.lb = s.lb ∧ (step s (.ensure n)).1.lb = s.lb ∧
    ((∀ e, load s.eps n = some e → e.healthy = hv) →
      ∀ us, (readyList (step s (.probeFire n hv)).1.eps us).map EP.id = (readyList s.eps us).map EP.id) :=
  ⟨step_lb_of_status_op s _ trivial, step_lb_of_status_op s _ trivial, step_lb_of_status_op s _ trivial,
   step_lb_of_status_op s _ trivial, fun h us => probe_same_health_keeps_keys s n hv h us⟩

/-! ## the traffic a policy FORWARDS when requests are authenticated with tokens — finding C14-auth-pick-shares-cursors (fixed by ccef1b6)

The counting theorems above are about the picks that share a cursor.  A policy's traffic is only the *dispatched* picks; a
token-authenticated request also makes the authenticator call `Manager.ClientFor` → `ClusterInfo.PickOne()` before it is
dispatched (`Req`, `runReqs`).  Full statement: the endpoints `N` consecutive requests of a policy are forwarded to are
floor/ceil, whatever `PickOne` calls come with them.  It holds iff `PickOne` keeps its own cursors; while `PickOne` drew from the
policies' cursors it was **false**: witness below, on the real code 477/523 instead of 500/500
(findings/C14-auth-pick-shares-cursors).  The tree now gives `PickOne` its own cursor scope; that this is so is read from the
source on every run (`Gen.C14.pickOneOwnCursors = true`) and `c14_forwarded_strict` is the full statement about the current tree,
unconditionally: it stops checking if `PickOne` goes back to the shared cursors. -/

/-- the full statement for a `PickOne` of the given kind -/
def ForwardedStrict (own : Bool) : Prop :=
  ∀ (eps : List EP) (us : List Name) (lb lbA : List (Key × Nat)) (reqs : List Req) (e : EP),
    (∀ r, r ∈ reqs → r.us = us) →
    2 ≤ (readyList eps us).length → ((readyList eps us).map EP.id).Nodup → e ∈ readyList eps us →
    lbGet lb ((readyList eps us).map EP.id) + 2 * reqs.length < 2 ^ 64 →
    strictOK (readyList eps us).length reqs.length (countPicked e.name e.gen (runReqs own eps lb lbA reqs)) = true

/-- the statement about the code as it is now -/
def CodeForwardedStrict : Prop := ForwardedStrict Gen.C14.pickOneOwnCursors

private theorem map_us_replicate (reqs : List Req) (us : List Name) (h : ∀ r, r ∈ reqs → r.us = us) :
    reqs.map (·.us) = List.replicate reqs.length us := by
  induction reqs with
  | nil => rfl
  | cons r rest ih =>
    simp only [List.map_cons, List.length_cons, List.replicate_succ, h r (by simp)]
    rw [ih (fun r' hr' => h r' (by simp [hr']))]

/-- with its own cursors for `PickOne`, the forwarded traffic of a policy is strict round-robin whatever is authenticated -/
theorem c14_forwarded_strict_own_cursors : ForwardedStrict true := by
  intro eps us lb lbA reqs e hus hk hnd he hwrap
  rw [runReqs_own, map_us_replicate reqs us hus]
  exact c14_strict eps us reqs.length lb e hk hnd he (by omega)

/-- partial, whatever `PickOne` does: requests that involve no `PickOne` (client certificates, anonymous) are strict -/
theorem c14_forwarded_strict_partial (own : Bool) (eps : List EP) (us : List Name) (lb lbA : List (Key × Nat))
    (reqs : List Req) (e : EP) (hus : ∀ r, r ∈ reqs → r.us = us) (hno : ∀ r, r ∈ reqs → r.authOrder = none)
    (hk : 2 ≤ (readyList eps us).length) (hnd : ((readyList eps us).map EP.id).Nodup) (he : e ∈ readyList eps us)
    (hwrap : lbGet lb ((readyList eps us).map EP.id) + reqs.length < 2 ^ 64) :
    strictOK (readyList eps us).length reqs.length (countPicked e.name e.gen (runReqs own eps lb lbA reqs)) = true := by
  rw [runReqs_noAuth own eps lb lbA reqs hno, map_us_replicate reqs us hus]
  exact c14_strict eps us reqs.length lb e hk hnd he hwrap

/-- refutation by witness: two ready endpoints `a, b`, a policy with the subset `[a, b]`, two requests whose authentication
    pick happened to iterate in the same order: both are forwarded to the same endpoint -/
theorem c14_forwarded_shared_cursors_refuted : ¬ ForwardedStrict false := by
  intro h
  let a : EP := { newEP [97] 0 false with healthy := true }
  let b : EP := { newEP [98] 0 false with healthy := true }
  have := h [a, b] [[97], [98]] [] [] [⟨some [[97], [98]], [[97], [98]]⟩, ⟨some [[97], [98]], [[97], [98]]⟩] b
    (by decide) (by decide) (by decide) (by decide) (by decide)
  revert this
  decide

/-- where the current code stands: the full statement holds of it exactly when `PickOne` keeps its own cursors -/
theorem c14_code_forwarded_strict_iff : CodeForwardedStrict ↔ Gen.C14.pickOneOwnCursors = true := by
  unfold CodeForwardedStrict
  cases Gen.C14.pickOneOwnCursors with
  | true => exact ⟨fun _ => rfl, fun _ => c14_forwarded_strict_own_cursors⟩
  | false => exact ⟨fun h => absurd h c14_forwarded_shared_cursors_refuted, fun h => by cases h⟩

/-! ## several policies with the same upstreams — finding C14-policies-share-cursor

"each of ITS k endpoints": the statement is per policy.  `runPolicies` interleaves the picks of any number of policies in any
way.  Full statement: the picks of policy `p`, all over the same upstream list, are floor/ceil whatever the other policies
pick in between — also when they list the same upstreams in the same order.  It holds iff every policy has its own cursors
(regenerated fact `Gen.C14.policyOwnCursors`); with one cursor per ordered ready list it is false: two policies with the subset
`[a, b]` whose requests alternate each land on one endpoint only (witness below; on the real code pods b = 100/100). -/

/-- the full per-policy statement for cursors of the given kind -/
def PolicyStrict (own : Bool) : Prop :=
  ∀ (eps : List EP) (p : Nat) (us : List Name) (lbs : Nat → List (Key × Nat)) (evs : List (Nat × List Name)) (e : EP),
    (∀ x, x ∈ evs → x.1 = p → x.2 = us) →
    2 ≤ (readyList eps us).length → ((readyList eps us).map EP.id).Nodup → e ∈ readyList eps us →
    (∀ q, lbGet (lbs q) ((readyList eps us).map EP.id) + evs.length < 2 ^ 64) →
    strictOK (readyList eps us).length (evs.filter fun x => x.1 == p).length
      (countPicked e.name e.gen (((runPolicies own eps lbs evs).filter fun x => x.1 == p).map (·.2))) = true

/-- the statement about the code as it is now -/
def CodePolicyStrict : Prop := PolicyStrict Gen.C14.policyOwnCursors

/-- with its own cursors every policy is strict round-robin under any interleaving with other policies -/
theorem c14_policy_strict_own_cursors : PolicyStrict true := by
  intro eps p us lbs evs e hus hk hnd he hwrap
  rw [runPolicies_own]
  have hmap : (evs.filter fun x => x.1 == p).map (·.2) = List.replicate (evs.filter fun x => x.1 == p).length us := by
    clear hwrap
    induction evs with
    | nil => rfl
    | cons x rest ih =>
      have ih' := ih (fun y hy => hus y (by simp [hy]))
      by_cases hx : x.1 = p
      · have hb : (x.1 == p) = true := by simpa using hx
        simp only [List.filter_cons, hb, if_true, List.map_cons, List.length_cons, List.replicate_succ, hus x (by simp) hx]
        rw [ih']
      · have hb : (x.1 == p) = false := by simpa using hx
        simp only [List.filter_cons, hb, Bool.false_eq_true, if_false]
        exact ih'
  rw [hmap]
  have hlen : (evs.filter fun x => x.1 == p).length ≤ evs.length := List.length_filter_le _ _
  exact c14_strict eps us _ (lbs p) e hk hnd he (by have := hwrap p; omega)

/-- refutation by witness for one cursor per ordered ready list: two policies with the subset `[a, b]`, requests alternating:
    both picks of policy 0 land on the same endpoint -/
theorem c14_policy_shared_cursor_refuted : ¬ PolicyStrict false := by
  intro h
  let a : EP := { newEP [97] 0 false with healthy := true }
  let b : EP := { newEP [98] 0 false with healthy := true }
  have := h [a, b] 0 [[97], [98]] (fun _ => []) [(0, [[97], [98]]), (1, [[97], [98]]), (0, [[97], [98]]), (1, [[97], [98]])] b
    (by decide) (by decide) (by decide) (by decide) (by intro q; decide)
  revert this
  decide

/-- where the current code stands: the per-policy statement holds of it exactly when every policy has its own cursors -/
theorem c14_code_policy_strict_iff : CodePolicyStrict ↔ Gen.C14.policyOwnCursors = true := by
  unfold CodePolicyStrict
  cases Gen.C14.policyOwnCursors with
  | true => exact ⟨fun _ => rfl, fun _ => c14_policy_strict_own_cursors⟩
  | false => exact ⟨fun h => absurd h c14_policy_shared_cursor_refuted, fun h => by cases h⟩

/-- **the full statement holds of the current tree** (the regenerated fact says: `PickOne` keeps its own cursors) -/
theorem c14_forwarded_strict : CodeForwardedStrict := c14_code_forwarded_strict_iff.2 (by decide)

/-- **the per-policy statement holds of the current tree** (the regenerated fact says: every dispatch policy keeps its own
    cursors, fix 511eb58): whatever other policies with the same subset do in between, the requests one policy forwards are
    spread floor/ceil over its ready endpoints. -/
theorem c14_policy_strict : CodePolicyStrict := c14_code_policy_strict_iff.2 (by decide)

/-- **concurrent pickers**: for every schedule (interleaving of the threads' atomic actions) that lets all `n` pickers
    finish, the order `log` of their atomic adds is a permutation of the pickers, each picker's result is exactly what the
    *sequential* `popMany` gives it in that order, and the cursors end where the sequential run ends — so the counting
    theorems above apply to concurrent picks unchanged. -/
theorem c14_concurrent (eps : List EP) (uss : List (List Name)) (lb0 : List (Key × Nat)) (sched : List Nat)
    (hdone : ∀ t, t < uss.length → ∃ r, (crun eps uss (cinit lb0 uss.length) sched).pcs[t]? = some (.done r)) :
    let sys := crun eps uss (cinit lb0 uss.length) sched
    sys.log.Perm (List.range uss.length) ∧
    sys.log.map (fun t => sys.pcs[t]?) = (popMany eps lb0 (sys.log.map (usAt uss))).1.map (fun r => some (PC.done r)) ∧
    sys.lb = (popMany eps lb0 (sys.log.map (usAt uss))).2 := by
  intro sys
  have h : CInv eps uss lb0 sys := cinv_run (cinv_init eps uss lb0) sched
  refine ⟨?_, ?_, h.lb⟩
  · rw [List.perm_ext_iff_of_nodup h.nodup List.nodup_range]
    intro t
    rw [List.mem_range]
    constructor
    · intro ht; exact (h.logged t ht).1
    · intro ht
      apply Classical.byContradiction
      intro hnot
      obtain ⟨r, hr⟩ := hdone t ht
      have hs := h.unlogged t ht hnot
      rw [hr] at hs; cases hs
  · rw [← h.view, List.map_map]
    apply List.map_congr_left
    intro t ht
    obtain ⟨r, hr⟩ := hdone t (h.logged t ht).1
    simp only [Function.comp, final]
    rw [hr]

/-- at every moment of every schedule the cursors are those of the sequential run of the pickers that have performed their
    atomic add, in the order of the adds: the values handed out per ordered ready list are distinct and consecutive -/
theorem c14_cursors_linearise (eps : List EP) (uss : List (List Name)) (lb0 : List (Key × Nat)) (sched : List Nat) :
    let sys := crun eps uss (cinit lb0 uss.length) sched
    sys.lb = (popMany eps lb0 (sys.log.map (usAt uss))).2 ∧ sys.log.Nodup :=
  let h : CInv eps uss lb0 _ := cinv_run (cinv_init eps uss lb0) sched
  ⟨h.lb, h.nodup⟩

/-! ## non-vacuity -/
section NonVacuous
def ea : EP := { newEP [97] 0 false with healthy := true }
def eb : EP := { newEP [98] 0 false with healthy := true }
def ec : EP := { newEP [99] 0 false with healthy := true }
def ed : EP := { newEP [100] 0 true with healthy := true }   -- disabled: never ready
def eps3 : List EP := [ea, eb, ec, ed]

/-- three ready endpoints (and a disabled one in the subset), 7 picks from cursor 5: counts 2/3/2 -/
example : (popMany eps3 [([ea.id, eb.id, ec.id], 5)] (List.replicate 7 [[97], [100], [98], [99]])).1
    = [.picked [97] 0, .picked [98] 0, .picked [99] 0, .picked [97] 0, .picked [98] 0, .picked [99] 0, .picked [97] 0] := by decide
example : 2 ≤ (readyList eps3 [[97], [100], [98], [99]]).length ∧ ((readyList eps3 [[97], [100], [98], [99]]).map EP.id).Nodup
    ∧ eb ∈ readyList eps3 [[97], [100], [98], [99]] := by decide
/-- two orders of the same ready set, alternating -/
example : (popMany eps3 [] [[[97], [98], [99]], [[99], [98], [97]], [[97], [98], [99]], [[99], [98], [97]]]).1
    = [.picked [98] 0, .picked [98] 0, .picked [99] 0, .picked [97] 0] := by decide
/-- three pickers, interleaved: adds in the order 2, 0, 1; indexing in another order -/
example : let sys := crun eps3 (List.replicate 3 [[97], [98], [99]]) (cinit [] 3) [2, 0, 0, 1, 2, 1]
    sys.log = [2, 0, 1] ∧ sys.pcs = [.done (.picked [99] 0), .done (.picked [97] 0), .done (.picked [98] 0)] := by decide
/-- a Sync with the same servers (reordered, one listed twice) between the picks: the cursor goes on -/
example : (runEvents (run init [.sync [⟨[97], false⟩, ⟨[98], false⟩, ⟨[99], false⟩] [[]], .probeFire [97] true, .probeFire [98] true, .probeFire [99] true]).1
    [.pick [[97], [98], [99]], .sync [⟨[99], false⟩, ⟨[97], false⟩, ⟨[98], false⟩, ⟨[97], false⟩] [[[97]]], .pick [[97], [98], [99]],
     .sync [⟨[97], false⟩, ⟨[98], false⟩, ⟨[99], false⟩] [], .pick [[97], [98], [99]]]).2
    = [.picked [98] 0, .picked [99] 0, .picked [97] 0] := by decide
/-- the wrap of the `uint64` cursor is what the hypothesis `… < 2^64` excludes: 3 does not divide 2^64 -/
example : (popMany eps3 [([ea.id, eb.id, ec.id], 2 ^ 64 - 2)] (List.replicate 3 [[97], [98], [99]])).1
    = [.picked [97] 0, .picked [97] 0, .picked [98] 0] := by decide
end NonVacuous

end KG.Props.C14
