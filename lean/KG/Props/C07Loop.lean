import KG.Lemmas.LimiterLoop
import KG.Props.C09
/-!
# C07 in the closed loop "N gateway instances ⇄ sharded limiter server" (`KG.Model.LimiterLoop`)

Every theorem is about EVERY op history from the initial state (`reach`): reports with arbitrary strategy outputs,
heartbeats, the two clean-up passes at arbitrary times, crashes and returns (old or new identity), partitions, global
limit changes delivered to the server and to each gateway at different times, leadership flaps with the store
discarded / reloaded from the API, for every shard function, store type, number of shards and gateways. The only
hypothesis on histories is `OpOK` (decidable): configured global limits are ≥ 1 and gateways sync schemas that
validation accepts (`0 ≤ local ≤ global ≤ 2^31−1`).
-/
namespace KG.Props.C07.Loop
open KG KG.Model KG.Model.LimiterLoop KG.Spec.LimiterLoop KG.Lemmas.LimiterLoop
open KG.Model.Alloc (sumQ onesQ lookupD setQuota)
open RemoteLimiter (bound maxInt32)

/-- the state after an op history from the initial state -/
def reach (shardOf : Nat → Nat) (nShards nGw nUp : Nat) (k8s : Bool) (ops : List Op) : State :=
  run shardOf (init nShards nGw nUp k8s) ops

/-- the invariant of the composition holds in every reachable state -/
theorem loop_inv (shardOf : Nat → Nat) (nShards nGw nUp : Nat) (k8s : Bool) (ops : List Op) (hops : ∀ op ∈ ops, OpOK op) :
    LInv (reach shardOf nShards nGw nUp k8s ops) :=
  linv_run shardOf ops _ (linv_init nShards nGw nUp k8s) hops

/-! ## 0. the judge applied to the real gateways and the real limiter server accepts every reachable model state -/

/-- **main theorem**: after every history, for every upstream, no clause of the system-level judge is broken -/
theorem loop_judge (shardOf : Nat → Nat) (nShards nGw nUp : Nat) (k8s : Bool) (ops : List Op)
    (hops : ∀ op ∈ ops, OpOK op) (u : Nat) :
    judgeU (obsU (reach shardOf nShards nGw nUp k8s ops) u) = [] :=
  judgeU_of_linv (loop_inv shardOf nShards nGw nUp k8s ops hops) u

/-! ## 1. system-level no over-commit -/

/-- the live gateways that run the reconcile loop for `u`, as the judge sees them -/
def liveObs (s : State) (u : Nat) : List GObs := (obsU s u).gws

/-- **no over-commit (general form)**: in every reachable state, the live gateways that use the remote limiter for
    `u`, have distinct identities and hold exactly what the server has on record for them ("the gateway applied the
    last answer, and the record is still there") together enforce at most `hi + #(recorded quotas equal to 1)`,
    `hi` being the largest global limit the server had in force since the record began. Gateways in local fallback
    are not in the sum: they enforce their local limit (`loop_instance_fallback`). -/
theorem loop_no_overcommit (shardOf : Nat → Nat) (nShards nGw nUp : Nat) (k8s : Bool) (ops : List Op)
    (hops : ∀ op ∈ ops, OpOK op) (u : Nat) (e : UpStore)
    (he : aget (reach shardOf nShards nGw nUp k8s ops).srv.ups u = some e)
    (hdist : (((liveObs (reach shardOf nShards nGw nUp k8s ops) u).filter (·.remote)).map (·.id)).Nodup)
    (hsync : ∀ g ∈ liveObs (reach shardOf nShards nGw nUp k8s ops) u, g.remote = true → holdsRecord e.srv.quotas g = true) :
    sumRemote (liveObs (reach shardOf nShards nGw nUp k8s ops) u) ≤ e.hi + onesQ e.srv.quotas := by
  have hj := loop_judge shardOf nShards nGw nUp k8s ops hops u
  have hinv := loop_inv shardOf nShards nGw nUp k8s ops hops
  generalize reach shardOf nShards nGw nUp k8s ops = s at *
  have hsrv : (obsU s u).srv = some (obsS e) := by simp [obsU, he]
  unfold judgeU at hj
  rw [hsrv] at hj
  have hsys : systemOK (obsS e) (obsU s u).gws = true := by
    cases h : systemOK (obsS e) (obsU s u).gws with
    | true => rfl
    | false => simp [h] at hj
  unfold systemOK at hsys
  simp only [Bool.or_eq_true, Bool.not_eq_true', Bool.and_eq_false_iff, decide_eq_false_iff_not,
    decide_eq_true_eq] at hsys
  rcases hsys with (h1 | h1) | h1
  · exact absurd hdist h1
  · exfalso
    have : ((obsU s u).gws.filter (·.remote)).all (holdsRecord (obsS e).quotas) = true := by
      rw [List.all_eq_true]
      intro g hg
      have := List.mem_filter.1 hg
      exact hsync g this.1 this.2
    rw [this] at h1; cases h1
  · exact h1

/-- **no over-commit (the form of the property)**: whenever the server and the live gateways agree on the global limit
    `T` of `u` (the server's limit was never lowered below what it is now: `hi = T`; every live gateway's view is `T`),
    no live gateway is in local fallback, identities are distinct and every gateway holds what is on record for it, the
    sum over the live instances of the capacity each one actually enforces is at most `T` plus the number of instances
    held at the minimum quota 1. -/
theorem loop_no_overcommit_agreed (shardOf : Nat → Nat) (nShards nGw nUp : Nat) (k8s : Bool) (ops : List Op)
    (hops : ∀ op ∈ ops, OpOK op) (u : Nat) (e : UpStore) (T : Int)
    (he : aget (reach shardOf nShards nGw nUp k8s ops).srv.ups u = some e)
    (hT : e.srv.total = T) (hhi : e.hi = T)
    (hview : ∀ g ∈ liveObs (reach shardOf nShards nGw nUp k8s ops) u, g.view = T)
    (hnofb : ∀ g ∈ liveObs (reach shardOf nShards nGw nUp k8s ops) u, g.remote = true)
    (hdist : ((liveObs (reach shardOf nShards nGw nUp k8s ops) u).map (·.id)).Nodup)
    (hsync : ∀ g ∈ liveObs (reach shardOf nShards nGw nUp k8s ops) u, holdsRecord e.srv.quotas g = true) :
    ((liveObs (reach shardOf nShards nGw nUp k8s ops) u).map (·.enforced)).sum ≤ T + onesQ e.srv.quotas ∧
    ∀ g ∈ liveObs (reach shardOf nShards nGw nUp k8s ops) u, 0 ≤ g.enforced ∧ g.enforced ≤ T := by
  have hfil : (liveObs (reach shardOf nShards nGw nUp k8s ops) u).filter (·.remote)
      = liveObs (reach shardOf nShards nGw nUp k8s ops) u := by
    rw [List.filter_eq_self]; exact hnofb
  have h := loop_no_overcommit shardOf nShards nGw nUp k8s ops hops u e he (by rw [hfil]; exact hdist)
    (fun g hg _ => hsync g hg)
  constructor
  · have : sumRemote (liveObs (reach shardOf nShards nGw nUp k8s ops) u)
        = ((liveObs (reach shardOf nShards nGw nUp k8s ops) u).map (·.enforced)).sum := by
      unfold sumRemote; rw [hfil]
    rw [this, hhi] at h; exact h
  · -- each one is within its own view, which is T: it holds a recorded quota (≥ 1), bounded to [0, view]
    intro g hg
    have hj := loop_judge shardOf nShards nGw nUp k8s ops hops u
    have hinv := loop_inv shardOf nShards nGw nUp k8s ops hops
    generalize reach shardOf nShards nGw nUp k8s ops = s at *
    have hgj : judgeG g = [] := by
      unfold judgeU at hj
      have h1 := (List.append_eq_nil_iff.1 hj).1
      rw [List.flatten_eq_nil_iff] at h1
      exact h1 _ (List.mem_map.2 ⟨g, hg, rfl⟩)
    -- the observation comes from a gateway state of the loop's shape
    simp only [liveObs, obsU, List.mem_map, List.mem_filter] at hg
    obtain ⟨gw, ⟨hgw, hrep⟩, rfl⟩ := hg
    have hgi := hinv.gws gw hgw
    simp only [reports, Bool.and_eq_true] at hrep
    cases hc : (gw.st s.nShards u).cache with
    | none => rw [hc] at hrep; simp at hrep
    | some c =>
      obtain ⟨l, t, a0, a1, a2, hloc, hrem⟩ := hgi.ok u c hc
      have hrm := hnofb (obsG s.nShards gw u) (by
        simp only [liveObs, obsU, List.mem_map, List.mem_filter]
        exact ⟨gw, ⟨hgw, by simp [reports, hrep.1, hc]⟩, rfl⟩)
      have hvw := hview (obsG s.nShards gw u) (by
        simp only [liveObs, obsU, List.mem_map, List.mem_filter]
        exact ⟨gw, ⟨hgw, by simp [reports, hrep.1, hc]⟩, rfl⟩)
      rcases hrem with hr | ⟨q, tv, b0, b1, hr⟩
      · obtain ⟨_, _, _, _, o5, _⟩ := obs_noremote hc hloc hr
        simp [obsG, o5] at hrm
      · obtain ⟨o1, _, o3, _, o5, o6⟩ := obs_remote hc hloc hr
        have hready : RemoteLimiter.isReady (gw.st s.nShards u) = true := by
          simp only [obsG] at hrm; rw [o5] at hrm; exact hrm
        have hb := bound_range' q tv b0
        -- it holds a record: the quota is at least 1, hence the limiter is at most the quota, which is within T
        have hh := hsync (obsG s.nShards gw u) (by
          simp only [liveObs, obsU, List.mem_map, List.mem_filter]
          exact ⟨gw, ⟨hgw, by simp [reports, hrep.1, hc]⟩, rfl⟩)
        simp only [holdsRecord, obsG, o3] at hh
        cases hl : e.srv.quotas.lookup gw.id with
        | none => rw [hl] at hh; cases hh
        | some cq =>
          rw [hl] at hh
          have hqc : q = cq := by simpa using hh
          have hsinv : SInv e := hinv.srv.ups (u, e) (aget_mem he)
          have hc1 := hsinv.ge_one _ (mem_of_lookup hl)
          -- every recorded quota is at most hi + (its own share of the ones) … the simple bound: quota ≤ sum ≤ hi + ones
          simp only [obsG, o6, hready, if_true, Option.getD_some]
          refine ⟨hb.1, ?_⟩
          have hle := bound_le_self q tv (by omega)
          -- q ≤ T: a recorded quota above 1 is within the slack
          have hqT : q ≤ T := by
            have hs := hsinv.slack
            have hq := quota_le_slack e.srv.quotas hsinv.ge_one gw.id cq hl
            have hlim := hsinv.limit
            rw [hhi] at hs
            rw [hT] at hlim
            subst hqc
            unfold KG.Props.C07.isOne at hq
            split at hq <;> omega
          omega

/-- **every served report re-establishes the hypothesis of `loop_no_overcommit`**: right after a report of a live,
    connected gateway with a schema for `u` was served, the gateway holds exactly what the server has on record for it
    (and its remote limiter is that quota bounded by its current view). So after a hand-over that discarded the records,
    or a partition during which a record was reclaimed, one round of served reports restores the system-level bound. -/
theorem loop_report_establishes_record (shardOf : Nat → Nat) (nShards nGw nUp : Nat) (k8s : Bool) (ops : List Op)
    (hops : ∀ op ∈ ops, OpOK op) (g u : Nat) (x m : Rat) (used lvl : Int) (gw : Gw) (e : UpStore)
    (hgw : (reach shardOf nShards nGw nUp k8s ops).gw g = some gw)
    (hrep : reports (reach shardOf nShards nGw nUp k8s ops).nShards gw u = true) (hnet : gw.net = true)
    (hserv : (reach shardOf nShards nGw nUp k8s ops).srv.serving shardOf u = some e) :
    ∃ gw' e' n, (step shardOf (reach shardOf nShards nGw nUp k8s ops) (.report g u x m used lvl)).gw g = some gw' ∧
      aget (step shardOf (reach shardOf nShards nGw nUp k8s ops) (.report g u x m used lvl)).srv.ups u = some e' ∧
      gw'.id = gw.id ∧ e'.srv.quotas.lookup gw.id = some n ∧
      raw (gw'.st (reach shardOf nShards nGw nUp k8s ops).nShards u) = some n ∧
      gw'.fresh.contains u = true := by
  have hinv := loop_inv shardOf nShards nGw nUp k8s ops hops
  generalize reach shardOf nShards nGw nUp k8s ops = s at *
  have hgi := hinv.gws gw (gw_mem hgw)
  have hcache : ((gw.st s.nShards u).cache).isSome = true := by
    simp only [reports, Bool.and_eq_true] at hrep; exact hrep.2
  obtain ⟨st0, hu, hst0⟩ := entry_of_cache hcache
  -- the server's side
  have hsr : s.srv.report shardOf u gw.id x m used lvl
      = (({ s.srv with ups := aset s.srv.ups u (e.report gw.id x m used lvl) } : Server).persist,
         some ((e.report gw.id x m used lvl).quotaOf gw.id)) := by
    simp only [Server.report, hserv]
  -- the gateway's side
  rcases step_answer (hgi.ok u) ((e.report gw.id x m used lvl).quotaOf gw.id) with
    ⟨hnone, _⟩ | ⟨c, l, t, st', c', hc, hloc, t0, t1, hstep, hst, hloc', hrem⟩
  · rw [hnone] at hcache; cases hcache
  · rw [hst0] at hstep
    have hlen : g < s.gws.length := by
      simp only [State.gw] at hgw
      exact (List.getElem?_eq_some_iff.1 hgw).1
    have hnr : (!(reports s.nShards gw u && gw.net)) = false := by rw [hrep, hnet]; rfl
    have hstepEq : step shardOf s (.report g u x m used lvl)
        = { (s.setGw g { gw.apply s.nShards u (.answer true (mkItem ((e.report gw.id x m used lvl).quotaOf gw.id))) with
              fresh := if gw.fresh.contains u then gw.fresh else u :: gw.fresh }) with
            srv := ({ s.srv with ups := aset s.srv.ups u (e.report gw.id x m used lvl) } : Server).persist } := by
      simp only [step, hgw, hnr, Bool.false_eq_true, if_false, hsr]
    rw [hstepEq]
    refine ⟨{ gw.apply s.nShards u (.answer true (mkItem ((e.report gw.id x m used lvl).quotaOf gw.id))) with
        fresh := if gw.fresh.contains u then gw.fresh else u :: gw.fresh },
      e.report gw.id x m used lvl, (e.report gw.id x m used lvl).quotaOf gw.id, ?_, ?_, ?_, ?_, ?_, ?_⟩
    · simp only [State.gw, State.setGw]
      exact List.getElem?_set_self hlen
    · show aget (Server.persist _).ups u = _
      rw [persist_ups]
      exact aget_aset_self _ _ _
    · simp [Gw.apply, hu]
    · -- the record of the reporter is the answer
      simp only [UpStore.quotaOf, UpStore.report, Alloc.step]
      have : ∀ (q : List (Nat × Int)) (i : Nat) (v : Int), (setQuota q i v).lookup i = some v := by
        intro q i v
        induction q with
        | nil => simp [setQuota]
        | cons a rest ih =>
          obtain ⟨j, w⟩ := a
          unfold setQuota
          by_cases hj : j = i
          · subst hj; simp
          · have hb : (i == j) = false := by simp; exact fun e => hj e.symm
            simp only [hj, if_false, List.lookup, hb]; exact ih
      rw [this, lookupD_setQuota_self]
    · have hap : (gw.apply s.nShards u (.answer true (mkItem ((e.report gw.id x m used lvl).quotaOf gw.id)))).ups
          = aset gw.ups u st' := by simp [Gw.apply, hu, stepOr, hstep]
      have hsu : ({ gw.apply s.nShards u (.answer true (mkItem ((e.report gw.id x m used lvl).quotaOf gw.id))) with
          fresh := if gw.fresh.contains u then gw.fresh else u :: gw.fresh } : Gw).st s.nShards u = st' := by
        simp [Gw.st, hap, aget_aset_self]
      rw [hsu]
      have hloc2 : c'.loc = ⟨mkSchema l t, some (.mi l)⟩ := by rw [hloc', hloc]
      exact (obs_remote hst hloc2 hrem).2.2.1
    · simp only
      split
      · assumption
      · simp
/-! ## 1b. what each live instance enforces -/

/-- **per instance**: in every reachable state a gateway with a schema for `u` hands out either
    * its remote limiter — only while its client set is ready; the limiter is its applied quota `b`, `0 ≤ b`, at most
      the quota `q` it holds and reports, and — if it applied an answer since its view `t` of the global limit last
      changed — exactly `q` bounded to `[0, t]`, hence at most its own view (C09); or
    * its local limiter, which enforces exactly its local limit (fallback, C09). -/
theorem loop_instance (shardOf : Nat → Nat) (nShards nGw nUp : Nat) (k8s : Bool) (ops : List Op)
    (hops : ∀ op ∈ ops, OpOK op) (gw : Gw) (hgw : gw ∈ (reach shardOf nShards nGw nUp k8s ops).gws) (u : Nat)
    (hs : ((gw.st (reach shardOf nShards nGw nUp k8s ops).nShards u).cache).isSome = true) :
    (usesRemote (gw.st (reach shardOf nShards nGw nUp k8s ops).nShards u) = true →
      RemoteLimiter.isReady (gw.st (reach shardOf nShards nGw nUp k8s ops).nShards u) = true ∧
      ∃ q b, raw (gw.st (reach shardOf nShards nGw nUp k8s ops).nShards u) = some q ∧
        applied (gw.st (reach shardOf nShards nGw nUp k8s ops).nShards u) = some b ∧
        enforced (gw.st (reach shardOf nShards nGw nUp k8s ops).nShards u) = some b ∧ 0 ≤ b ∧ (0 ≤ q → b ≤ q) ∧
        (gw.fresh.contains u = true →
          ∃ t, view (gw.st (reach shardOf nShards nGw nUp k8s ops).nShards u) = some t ∧ b = bound q t ∧ b ≤ t)) ∧
    (usesRemote (gw.st (reach shardOf nShards nGw nUp k8s ops).nShards u) = false →
      ∃ l, localLimit (gw.st (reach shardOf nShards nGw nUp k8s ops).nShards u) = some l ∧
        enforced (gw.st (reach shardOf nShards nGw nUp k8s ops).nShards u) = some l ∧ 0 ≤ l) := by
  have hinv := loop_inv shardOf nShards nGw nUp k8s ops hops
  generalize reach shardOf nShards nGw nUp k8s ops = s at *
  have hgi := hinv.gws gw hgw
  cases hc : (gw.st s.nShards u).cache with
  | none => rw [hc] at hs; cases hs
  | some c =>
    obtain ⟨l, t, a0, a1, a2, hloc, hrem⟩ := hgi.ok u c hc
    rcases hrem with hr | ⟨q, tv, b0, b1, hr⟩
    · obtain ⟨_, o2, _, _, o5, o6⟩ := obs_noremote hc hloc hr
      exact ⟨fun h => (by rw [o5] at h; cases h), fun _ => ⟨l, o2, o6, a0⟩⟩
    · obtain ⟨o1, o2, o3, o4, o5, o6⟩ := obs_remote hc hloc hr
      have hb := bound_range' q tv b0
      constructor
      · intro hrm
        rw [o5] at hrm
        refine ⟨hrm, q, bound q tv, o3, o4, by rw [o6, hrm]; rfl, hb.1, bound_le_self q tv, ?_⟩
        intro hf
        obtain ⟨l', t', q', e1, e2⟩ := hgi.fresh u hf c hc
        rw [hloc] at e1
        obtain ⟨_, e3⟩ := mkSchema_inj e1
        rw [hr] at e2
        simp only [remShape, Option.some.injEq, RemoteLimiter.Remote.mk.injEq] at e2
        have e4 := mkItem_inj e2.1
        have e5 := mkItem_inj e2.2.1
        have hbt := bound_range' q t (by omega)
        refine ⟨t, o1, by rw [e5, ← e4, ← e3], ?_⟩
        rw [e5, ← e4, ← e3]; exact hbt.2
      · intro hrm
        rw [o5] at hrm
        exact ⟨l, o2, by rw [o6, hrm]; rfl, a0⟩

/-! ## 2. the recorded sum obeys C07's invariant through clean-ups, returns, leadership and limit changes -/

/-- **lift of `c07_history`**: in every reachable state, every record the server holds — in the store of a shard it
    leads or led, and every copy in the API that the next holder of the shard will load — satisfies C07's history
    invariant relative to the largest limit in force since the record began: every quota ≥ 1, sum ≤ recorded sum,
    `sum ≤ hi + #(quotas equal to 1)`, `1 ≤ limit ≤ hi`. -/
theorem loop_recorded (shardOf : Nat → Nat) (nShards nGw nUp : Nat) (k8s : Bool) (ops : List Op)
    (hops : ∀ op ∈ ops, OpOK op) :
    (∀ p ∈ (reach shardOf nShards nGw nUp k8s ops).srv.ups, SInv p.2) ∧
    (∀ p ∈ (reach shardOf nShards nGw nUp k8s ops).srv.api, SInv p.2) :=
  ⟨(loop_inv shardOf nShards nGw nUp k8s ops hops).srv.ups, (loop_inv shardOf nShards nGw nUp k8s ops hops).srv.api⟩

/-- … which is exactly `KG.Props.C07.Inv` (sum ≤ limit + #ones) for every record whose limit was never lowered -/
theorem loop_c07_inv (shardOf : Nat → Nat) (nShards nGw nUp : Nat) (k8s : Bool) (ops : List Op)
    (hops : ∀ op ∈ ops, OpOK op) (p : Nat × UpStore)
    (hp : p ∈ (reach shardOf nShards nGw nUp k8s ops).srv.ups ∨ p ∈ (reach shardOf nShards nGw nUp k8s ops).srv.api)
    (hnl : p.2.hi = p.2.srv.total) : KG.Props.C07.Inv p.2.srv := by
  obtain ⟨h1, h2⟩ := loop_recorded shardOf nShards nGw nUp k8s ops hops
  rcases hp with hp | hp
  · exact sinv_c07 (h1 p hp) hnl
  · exact sinv_c07 (h2 p hp) hnl

/-- the quota a served report answers is the exact tail of C07 on the record of the reporter -/
theorem report_answer (shardOf : Nat → Nat) (s : Server) (u i : Nat) (x m : Rat) (used lvl : Int) (e : UpStore)
    (he : s.serving shardOf u = some e) :
    (s.report shardOf u i x m used lvl).2 = some (Alloc.answer e.srv i x m) := by
  simp only [Server.report, he, UpStore.report, UpStore.quotaOf, Alloc.step, lookupD_setQuota_self]

/-- **lift of `c07_over_report`** (limit lowered: the record is over-committed): in ANY state a served report never
    makes the reporter's quota grow while the recorded sum exceeds the limit — unless it is set to the minimum 1 -/
theorem loop_over_report (shardOf : Nat → Nat) (s : Server) (u i : Nat) (x m : Rat) (used lvl : Int) (e : UpStore)
    (he : s.serving shardOf u = some e) (hover : e.srv.total < e.srv.recSum) :
    ∃ n, (s.report shardOf u i x m used lvl).2 = some n ∧ (n = 1 ∨ n < e.quotaOf i) :=
  ⟨_, report_answer shardOf s u i x m used lvl e he, KG.Props.C07.c07_over_report e.srv i x m hover⟩

/-- every quota ever answered is within `[1, limit]` of the record it is answered from -/
theorem loop_answer_range (shardOf : Nat → Nat) (nShards nGw nUp : Nat) (k8s : Bool) (ops : List Op)
    (hops : ∀ op ∈ ops, OpOK op) (u i : Nat) (x m : Rat) (used lvl : Int) (e : UpStore)
    (he : (reach shardOf nShards nGw nUp k8s ops).srv.serving shardOf u = some e) :
    ∃ n, ((reach shardOf nShards nGw nUp k8s ops).srv.report shardOf u i x m used lvl).2 = some n ∧
      1 ≤ n ∧ n ≤ e.srv.total := by
  have hinv := loop_inv shardOf nShards nGw nUp k8s ops hops
  refine ⟨_, report_answer shardOf _ u i x m used lvl e he, ?_⟩
  rw [KG.Props.C07.answer_eq]
  exact KG.Props.C07.c07_range x m _ _ _ (hinv.srv.ups _ (serving_mem shardOf he)).limit

/-! ## 3. reclaimed capacity (composition with C18) -/

/-- **the time-out pass reclaims** (C18 `c18_timeout_pass_reclaims`, in the loop): an instance all of whose heartbeats
    are older than the time-out leaves the heartbeat table, and in every shard this server leads its LABELLED record
    (reported at least twice) is gone, while the record of every instance that is not declared dead is untouched
    (C18 `c18_live_safe_timeout_pass`), as are the configured limit and the recorded sum (recomputed by the next report) -/
theorem loop_timeout_pass_reclaims (shardOf : Nat → Nat) (s : Server) (now d : Nat)
    (hd : ∀ p ∈ s.hb, p.1 = d → timedOut now p = true) (hin : s.hbHas d = true) :
    (s.cleanupTimeout shardOf now).hbHas d = false ∧
    ∀ u e, aget s.ups u = some e → s.isLeader (shardOf u) = true →
      ∃ e', aget (s.cleanupTimeout shardOf now).ups u = some e' ∧
        (e.labelled.contains d = true → e'.has d = false ∧ e'.quotaOf d = 0) ∧
        (∀ j, (s.dead now).contains j = false → e'.quotaOf j = e.quotaOf j ∧ e'.has j = e.has j) ∧
        e'.srv.total = e.srv.total ∧ e'.srv.recSum = e.srv.recSum := by
  have hdead : (s.dead now).contains d = true := by
    simp only [Server.hbHas, List.any_eq_true, beq_iff_eq] at hin
    obtain ⟨p, hp, hpd⟩ := hin
    simp only [Server.dead, List.contains_eq_mem, List.mem_map, List.mem_filter, decide_eq_true_eq]
    exact ⟨p, ⟨hp, hd p hp hpd⟩, hpd⟩
  constructor
  · unfold Server.cleanupTimeout
    simp only [Server.hbHas, persist_hb]
    rw [List.any_eq_false]
    intro p hp
    have hp' := List.mem_filter.1 hp
    simp only [beq_iff_eq]
    intro e
    have := hd p hp'.1 e
    rw [this] at hp'
    simp at hp'
  · intro u e he hl
    refine ⟨_, by rw [cleanupTimeout_ups, he]; rfl, ?_, ?_, ?_, ?_⟩
    · intro hlab
      simp only [hl, if_true]
      have hp : ((s.dead now).contains d && e.labelled.contains d) = true := by rw [hdead, hlab]; rfl
      exact drop_dropped e (fun i => (s.dead now).contains i && e.labelled.contains i) d hp
    · intro j hj
      simp only [hl, if_true]
      have hp : ((s.dead now).contains j && e.labelled.contains j) = false := by rw [hj]; rfl
      exact drop_kept e (fun i => (s.dead now).contains i && e.labelled.contains i) j hp
    · simp only [hl, if_true]; rfl
    · simp only [hl, if_true]; rfl

/-- **the unknown pass reclaims** (C18 `c18_unknown_pass_reclaims`, in the loop): in every shard this server leads no
    record is left of an instance that is not in the heartbeat table (labelled or not), and the record of every instance
    that is in the table is untouched (C18 `c18_live_safe_unknown_pass`) -/
theorem loop_unknown_pass_reclaims (shardOf : Nat → Nat) (s : Server) (u : Nat) (e : UpStore)
    (he : aget s.ups u = some e) (hl : s.isLeader (shardOf u) = true) :
    ∃ e', aget (s.cleanupUnknown shardOf).ups u = some e' ∧
      (∀ d, s.hbHas d = false → e'.has d = false ∧ e'.quotaOf d = 0) ∧
      (∀ j, s.hbHas j = true → e'.quotaOf j = e.quotaOf j ∧ e'.has j = e.has j) ∧
      e'.srv.total = e.srv.total ∧ e'.srv.recSum = e.srv.recSum := by
  refine ⟨_, by rw [cleanupUnknown_ups, he]; rfl, ?_, ?_, ?_, ?_⟩
  · intro d hd
    simp only [hl, if_true]
    exact drop_dropped e (fun i => !s.hbHas i) d (by simp [hd])
  · intro j hj
    simp only [hl, if_true]
    exact drop_kept e (fun i => !s.hbHas i) j (by simp [hj])
  · simp only [hl, if_true]; rfl
  · simp only [hl, if_true]; rfl

/-- the passes respect leadership (C13 / C18 `c18_passes_respect_leadership`): nothing changes for an upstream whose
    shard this server does not lead -/
theorem loop_passes_respect_leadership (shardOf : Nat → Nat) (s : Server) (now u : Nat)
    (hl : s.isLeader (shardOf u) = false) :
    aget (s.cleanupTimeout shardOf now).ups u = aget s.ups u ∧ aget (s.cleanupUnknown shardOf).ups u = aget s.ups u := by
  rw [cleanupTimeout_ups, cleanupUnknown_ups]
  cases aget s.ups u <;> simp [hl]

/-- dropping records gives their quotas back: what is left sums to at most the old sum minus the dropped quota -/
theorem drop_gives_back (e : UpStore) (he : SInv e) (p : Nat → Bool) (d : Nat) (hd : p d = true) :
    sumQ (e.drop p).srv.quotas + e.quotaOf d ≤ sumQ e.srv.quotas := by
  have hnn : ∀ q ∈ e.srv.quotas, 0 ≤ q.2 := fun q hq => by have := he.ge_one q hq; omega
  have h1 := sumQ_split e.srv.quotas d hnn
  -- the records kept by the drop are among those kept when only `d` is removed
  have h2 : sumQ (e.drop p).srv.quotas ≤ sumQ (e.srv.quotas.filter (fun q => q.1 != d)) := by
    have : (e.drop p).srv.quotas = (e.srv.quotas.filter (fun q => q.1 != d)).filter (fun q => !p q.1) := by
      simp only [UpStore.drop, List.filter_filter]
      apply List.filter_congr
      intro q _
      by_cases hq : q.1 = d
      · rw [hq, hd]; simp
      · have : (q.1 != d) = true := by simpa using hq
        simp [this]
    rw [this]
    exact KG.Props.C07.filter_sum_le _ _ (fun q hq => he.ge_one q (List.mem_filter.1 hq).1)
  simp only [UpStore.quotaOf]
  omega

/-- **the survivors' next reports grow into the freed capacity, never beyond the limit.** After records have been
    reclaimed (`e.drop p`, by either pass), the next answered report of a survivor `j` (any strategy outputs)
    recomputes the recorded sum, which no longer contains the reclaimed quotas; from then on a report of any instance
    `j'` that asks for at least what is left (`x ≥ quota + limit − sum`, e.g. a busy instance: `x` = twice its quota)
    is answered EXACTLY `quota + (limit − sum)` — everything that is left, the freed capacity included — whenever that is
    within `[1, limit]`; and whatever is asked, the record keeps C07's invariant (`SInv`: sum ≤ hi + #ones). -/
theorem loop_reclaimed_capacity (e : UpStore) (he : SInv e) (p : Nat → Bool) (d : Nat) (hd : p d = true)
    (j : Nat) (x m : Rat) (used lvl : Int) (hj : j ≠ d) :
    let e2 := (e.drop p).report j x m used lvl
    e2.quotaOf d = 0 ∧ e2.srv.recSum = sumQ e2.srv.quotas ∧ SInv e2 ∧
    (∀ j' x' m' used' lvl', SInv (e2.report j' x' m' used' lvl')) ∧
    (∀ j' (x' m' : Rat), m' ≤ x' → ((e2.quotaOf j' + (e2.srv.total - sumQ e2.srv.quotas) : Int) : Rat) ≤ x' →
      1 ≤ e2.quotaOf j' + (e2.srv.total - sumQ e2.srv.quotas) →
      e2.quotaOf j' + (e2.srv.total - sumQ e2.srv.quotas) ≤ e2.srv.total →
      Alloc.answer e2.srv j' x' m' = e2.quotaOf j' + (e2.srv.total - sumQ e2.srv.quotas)) := by
  intro e2
  have h2 : SInv e2 := sinv_report (sinv_drop he p) j x m used lvl
  have hrs : e2.srv.recSum = sumQ e2.srv.quotas := rfl
  refine ⟨?_, hrs, h2, fun j' x' m' used' lvl' => sinv_report h2 j' x' m' used' lvl', ?_⟩
  · have h0 : (e.drop p).quotaOf d = 0 := (drop_dropped e p d hd).2
    have : e2.quotaOf d = (e.drop p).quotaOf d := by
      simp only [e2, UpStore.quotaOf, UpStore.report, Alloc.step]
      exact lookupD_setQuota_ne _ _ _ _ (fun e => hj e.symm)
    rw [this, h0]
  · intro j' x' m' hm hx h1 h2'
    have := answer_takes_all e2.srv j' x' m' hm (by rw [hrs]; exact hx) (by rw [hrs]; exact h1) (by rw [hrs]; exact h2')
    rw [hrs] at this
    exact this

/-! ## 3b. the passes of the loop ARE the passes of C18's model (commuting lemmas): C18's theorems lifted

`toReclaim N shardOf` maps the loop's limiter server onto a state of `KG.Model.Reclaim` (names given by `N`; a record
becomes the instance's condition, labelled or not; the `.state` condition carries limit and recorded sum).
`toReclaim_heartbeat`, `toReclaim_cleanupTimeout`, `toReclaim_cleanupUnknown` (in `KG.Lemmas.LimiterLoop`) say the
loop's ops commute with C18's. -/

/-- in every reachable state every recorded upstream is in the lister (what the unknown pass needs to leave upstreams alone) -/
theorem loop_listed (shardOf : Nat → Nat) (nShards nGw nUp : Nat) (k8s : Bool) (ops : List Op) :
    ∀ p ∈ (reach shardOf nShards nGw nUp k8s ops).srv.ups, ∃ t, aget (reach shardOf nShards nGw nUp k8s ops).srv.listed p.1 = some t :=
  (ls_run shardOf ops (init nShards nGw nUp k8s) ⟨by simp [init], by simp [init]⟩).ups

/-- C18's `c18_timeout_pass_reclaims` and `c18_live_safe_timeout_pass` hold of the loop's time-out pass, in ANY state -/
theorem loop_c18_timeout_pass (N : Naming) (shardOf : Nat → Nat) (hsh : ∀ u, N.shardOf' (N.un u) = shardOf u)
    (s : Server) (now : Nat) :
    KG.Spec.Reclaim.ReclaimTimeout N.shardOf' now (toReclaim N shardOf s)
      (toReclaim N shardOf (s.cleanupTimeout shardOf now)) ∧
    KG.Spec.Reclaim.LiveSafeTimeout now (toReclaim N shardOf s) (toReclaim N shardOf (s.cleanupTimeout shardOf now)) := by
  rw [toReclaim_cleanupTimeout N shardOf hsh]
  exact ⟨KG.Props.C18.c18_timeout_pass_reclaims N.shardOf' _ now, KG.Props.C18.c18_live_safe_timeout_pass N.shardOf' _ now⟩

/-- C18's `c18_unknown_pass_reclaims` and `c18_live_safe_unknown_pass` hold of the loop's unknown pass in every
    reachable state -/
theorem loop_c18_unknown_pass (N : Naming) (shardOf : Nat → Nat) (hsh : ∀ u, N.shardOf' (N.un u) = shardOf u)
    (nShards nGw nUp : Nat) (k8s : Bool) (ops : List Op) :
    KG.Spec.Reclaim.ReclaimUnknown N.shardOf' (toReclaim N shardOf (reach shardOf nShards nGw nUp k8s ops).srv)
      (toReclaim N shardOf ((reach shardOf nShards nGw nUp k8s ops).srv.cleanupUnknown shardOf)) ∧
    KG.Spec.Reclaim.LiveSafeUnknown (toReclaim N shardOf (reach shardOf nShards nGw nUp k8s ops).srv)
      (toReclaim N shardOf ((reach shardOf nShards nGw nUp k8s ops).srv.cleanupUnknown shardOf)) := by
  rw [toReclaim_cleanupUnknown N shardOf hsh _ (loop_listed shardOf nShards nGw nUp k8s ops)]
  exact ⟨KG.Props.C18.c18_unknown_pass_reclaims N.shardOf' _, KG.Props.C18.c18_live_safe_unknown_pass N.shardOf' _⟩

/-- C18's `c18_heartbeat_recorded` holds of the loop's heartbeat -/
theorem loop_c18_heartbeat (N : Naming) (shardOf : Nat → Nat) (s : Server) (i t : Nat) :
    KG.Spec.Reclaim.HeartbeatRecorded (N.iname i) t (toReclaim N shardOf s) (toReclaim N shardOf (s.heartbeat i t)) := by
  rw [toReclaim_heartbeat]
  exact KG.Props.C18.c18_heartbeat_recorded _ _ _

/-! ## 4. frame lemmas between the areas -/

/-- ops of the gateway area (schema sync, partition, crash, return) leave the limiter server untouched -/
theorem frame_gateway_ops (shardOf : Nat → Nat) (s : State) (op : Op)
    (h : match op with | .gwSchema .. | .net .. | .crash .. | .ret .. => True | _ => False) :
    (step shardOf s op).srv = s.srv := by
  cases op <;> simp only at h <;> simp only [step, State.setGw] <;> (repeat' split) <;> rfl

/-- ops of the server area (lister, upstream events, both passes, leadership) leave every gateway untouched -/
theorem frame_server_ops (shardOf : Nat → Nat) (s : State) (op : Op)
    (h : match op with
      | .list .. | .handle .. | .tick .. | .unknownPass | .elect .. | .gain .. | .lose .. => True
      | _ => False) :
    (step shardOf s op).gws = s.gws := by
  cases op <;> simp only at h <;> rfl

/-- a heartbeat round moves the heartbeat table and the sender's readiness only: records, API objects, leadership,
    stores and the lister are untouched, and so is every other gateway -/
theorem frame_heartbeat (shardOf : Nat → Nat) (s : State) (g now : Nat) :
    (step shardOf s (.hb g now)).srv.ups = s.srv.ups ∧ (step shardOf s (.hb g now)).srv.api = s.srv.api ∧
    (step shardOf s (.hb g now)).srv.leaders = s.srv.leaders ∧ (step shardOf s (.hb g now)).srv.stores = s.srv.stores ∧
    (step shardOf s (.hb g now)).srv.listed = s.srv.listed ∧
    ∀ g', g' ≠ g → (step shardOf s (.hb g now)).gw g' = s.gw g' := by
  simp only [step]
  split
  · exact ⟨rfl, rfl, rfl, rfl, rfl, fun _ _ => rfl⟩
  · split
    · exact ⟨rfl, rfl, rfl, rfl, rfl, fun _ _ => rfl⟩
    · split
      · refine ⟨rfl, rfl, rfl, rfl, rfl, fun g' hg' => ?_⟩
        simp only [State.gw, State.setGw]
        exact List.getElem?_set_ne (fun e => hg' e.symm)
      · refine ⟨rfl, rfl, rfl, rfl, rfl, fun g' hg' => ?_⟩
        simp only [State.gw, State.setGw]
        exact List.getElem?_set_ne (fun e => hg' e.symm)

/-- **leadership guard (C13) in the loop**: a report for an upstream whose shard this server does not lead, or has no
    store for, or whose `.state` condition does not exist, changes NOTHING — neither the server nor the gateway (the
    gateway keeps enforcing what it had) -/
theorem frame_report_refused (shardOf : Nat → Nat) (s : State) (g u : Nat) (x m : Rat) (used lvl : Int)
    (h : s.srv.serving shardOf u = none) : step shardOf s (.report g u x m used lvl) = s := by
  simp only [step]
  split
  · rfl
  · split
    · rfl
    · simp only [Server.report, h]

theorem serving_none_of_not_leader (shardOf : Nat → Nat) (s : Server) (u : Nat)
    (h : s.isLeader (shardOf u) = false ∨ s.hasStore (shardOf u) = false) : s.serving shardOf u = none := by
  unfold Server.serving
  rcases h with h | h <;> simp [h]

/-- a report of a dead or partitioned gateway, or of one without a schema, changes nothing -/
theorem frame_report_silent (shardOf : Nat → Nat) (s : State) (g u : Nat) (x m : Rat) (used lvl : Int) (gw : Gw)
    (hg : s.gw g = some gw) (h : gw.alive = false ∨ gw.net = false ∨ (gw.st s.nShards u).cache = none) :
    step shardOf s (.report g u x m used lvl) = s := by
  simp only [step, hg]
  have : (!(reports s.nShards gw u && gw.net)) = true := by
    rcases h with h | h | h <;> simp [reports, h]
  rw [if_pos this]

/-- a served report touches the record of its own upstream only, the heartbeat table / leadership / stores / lister not
    at all, and no other gateway -/
theorem frame_report (shardOf : Nat → Nat) (s : State) (g u : Nat) (x m : Rat) (used lvl : Int) :
    (∀ v, v ≠ u → aget (step shardOf s (.report g u x m used lvl)).srv.ups v = aget s.srv.ups v) ∧
    (step shardOf s (.report g u x m used lvl)).srv.hb = s.srv.hb ∧
    (step shardOf s (.report g u x m used lvl)).srv.leaders = s.srv.leaders ∧
    (step shardOf s (.report g u x m used lvl)).srv.stores = s.srv.stores ∧
    (step shardOf s (.report g u x m used lvl)).srv.listed = s.srv.listed ∧
    ∀ g', g' ≠ g → (step shardOf s (.report g u x m used lvl)).gw g' = s.gw g' := by
  simp only [step]
  split
  · exact ⟨fun _ _ => rfl, rfl, rfl, rfl, rfl, fun _ _ => rfl⟩
  · split
    · exact ⟨fun _ _ => rfl, rfl, rfl, rfl, rfl, fun _ _ => rfl⟩
    · split
      · exact ⟨fun _ _ => rfl, rfl, rfl, rfl, rfl, fun _ _ => rfl⟩
      · rename_i gw hgw hrep _ srv' n hsr
        have hsrv' : srv' = (s.srv.report shardOf u gw.id x m used lvl).1 := by rw [hsr]
        have hshape : ∃ e', srv' = ({ s.srv with ups := aset s.srv.ups u e' } : Server).persist := by
          rw [hsrv']
          unfold Server.report
          split
          · rename_i hnone
            simp only [Server.report, hnone] at hsr
            cases hsr
          · exact ⟨_, rfl⟩
        obtain ⟨e', he'⟩ := hshape
        have hp : ∀ t : Server, t.persist.hb = t.hb ∧ t.persist.leaders = t.leaders ∧ t.persist.stores = t.stores ∧
            t.persist.listed = t.listed ∧ t.persist.ups = t.ups := by
          intro t; unfold Server.persist; split <;> exact ⟨rfl, rfl, rfl, rfl, rfl⟩
        refine ⟨fun v hv => ?_, ?_, ?_, ?_, ?_, fun g' hg' => ?_⟩
        · show aget srv'.ups v = _
          rw [he', (hp _).2.2.2.2]
          exact aget_aset_ne _ _ _ _ hv
        · show srv'.hb = _; rw [he', (hp _).1]
        · show srv'.leaders = _; rw [he', (hp _).2.1]
        · show srv'.stores = _; rw [he', (hp _).2.2.1]
        · show srv'.listed = _; rw [he', (hp _).2.2.2.1]
        · simp only [State.gw, State.setGw]
          exact List.getElem?_set_ne (fun e => hg' e.symm)

/-! ## 5. projection onto C09: every `upstreamLimiter` of the loop is in a state C09's model reaches

so every theorem of `KG.Props.C09` about reachable states / runs applies to every gateway of every reachable loop state -/

/-- **projection theorem**: after every history, the state of every `upstreamLimiter` of every gateway is a state
    that C09's model reaches (`exec {} log`) by an operation list inside C09's quantifier (`C09Ok` = the clauses of
    `KG.Props.C09.Allowed .mi`) -/
theorem loop_gateway_projection (shardOf : Nat → Nat) (nShards nGw nUp : Nat) (k8s : Bool) (ops : List Op)
    (hops : ∀ op ∈ ops, OpOK op) (gw : Gw) (hgw : gw ∈ (reach shardOf nShards nGw nUp k8s ops).gws) (u : Nat) :
    GwReach (gw.st (reach shardOf nShards nGw nUp k8s ops).nShards u) :=
  (rinv_run shardOf ops _ (rinv_init nShards nGw nUp k8s) hops).reach gw hgw u

/-- C09's `c09_fallback_choice`, in the loop (for ANY limiter state): the remote limiter is handed out only while the
    client set is ready and a remote limiter was synced — a gateway that cannot reach the limiter server for longer
    than the server heartbeat time-out hands out its local limiter -/
theorem loop_fallback (st : RemoteLimiter.State) (h : usesRemote st = true) :
    RemoteLimiter.isReady st = true ∧ ∃ c, st.cache = some c ∧ c.remote.isSome = true := by
  simp only [usesRemote, beq_iff_eq] at h
  unfold RemoteLimiter.load at h
  cases hc : st.cache with
  | none => simp [hc] at h
  | some c =>
    simp only [hc, gwCfg] at h
    by_cases h1 : c.loc.config.strategy = .empty
    · simp [h1] at h
    · by_cases h2 : c.loc.config.strategy = .loc
      · simp [h2] at h
      · cases hr : RemoteLimiter.isReady st with
        | false => simp [h1, h2, hr] at h
        | true =>
          cases hrem : c.remote.isSome with
          | false => simp [h1, h2, hr, hrem] at h
          | true => exact ⟨rfl, c, rfl, hrem⟩

/-- the loop's projection is inside C09's quantifier -/
theorem gwReach_allowed {st : RemoteLimiter.State} (h : GwReach st) :
    ∃ log, KG.Props.C09.Allowed .mi log ∧ RemoteLimiter.exec {} log = some st := by
  obtain ⟨log, h1, h2⟩ := h
  refine ⟨log, ?_, h2⟩
  intro op hop
  have := h1 op hop
  cases op <;> first | exact this | trivial

/-- C09's `c09_local_limit`, lifted: in every reachable loop state the local limiter of every gateway enforces exactly
    the local limit of the schema in force (what the gateway falls back to when the limiter server is unreachable) -/
theorem loop_c09_local_limit (shardOf : Nat → Nat) (nShards nGw nUp : Nat) (k8s : Bool) (ops : List Op)
    (hops : ∀ op ∈ ops, OpOK op) (gw : Gw) (hgw : gw ∈ (reach shardOf nShards nGw nUp k8s ops).gws) (u : Nat)
    (c : RemoteLimiter.Cache) (hc : (gw.st (reach shardOf nShards nGw nUp k8s ops).nShards u).cache = some c) :
    KG.Spec.RemoteLimiter.validSchema c.loc.config = true ∧ c.loc.fc = some (KG.Spec.RemoteLimiter.limOf c.loc.config) := by
  obtain ⟨log, h1, h2⟩ := gwReach_allowed (loop_gateway_projection shardOf nShards nGw nUp k8s ops hops gw hgw u)
  exact KG.Props.C09.c09_local_limit .mi gwCfg log h1 _ h2 c hc

/-! ## 6. histories that never lower a configured limit: the lift of `c07_history` with its `Legal` hypothesis -/

/-- **the history theorem of C07, in the loop** (lift of `c07_history` with its hypothesis `Legal`): along every
    history that never lowers a configured limit — through reports with arbitrary strategy outputs, both clean-up
    passes, crashes and returns, partitions, leadership flaps with the store discarded or reloaded from the API, limit
    raises delivered at any time — every record of the server (and every API copy) satisfies `KG.Props.C07.Inv`:
    every quota ≥ 1, `sum ≤ limit + #(quotas equal to 1)`, `sum ≤ recorded sum`. -/
theorem loop_c07_history (shardOf : Nat → Nat) (nShards nGw nUp : Nat) (k8s : Bool) (ops : List Op)
    (hops : ∀ op ∈ ops, OpOK op) (hnl : NoLower [] ops) (p : Nat × UpStore)
    (hp : p ∈ (reach shardOf nShards nGw nUp k8s ops).srv.ups ∨ p ∈ (reach shardOf nShards nGw nUp k8s ops).srv.api) :
    KG.Props.C07.Inv p.2.srv := by
  have hn : NLInv (reach shardOf nShards nGw nUp k8s ops).srv :=
    nl_run shardOf ops (init nShards nGw nUp k8s) ⟨by simp [init], by simp [init]⟩ hnl
  apply loop_c07_inv shardOf nShards nGw nUp k8s ops hops p hp
  rcases hp with hp | hp
  · exact (hn.ups p hp).1
  · exact (hn.api p hp).1

/-! ## 7. non-vacuity: concrete histories that meet the hypotheses, and observations the judge rejects -/

def exShard : Nat → Nat := fun _ => 0

/-- limit 64 listed, shard gained, two gateways sync their schemas, heartbeat, and report while busy: 40, then 24 (what
    is left), then 40 again (nothing left to grow into) -/
def exOps : List Op :=
  [ .list 0 64, .gain 0, .gwSchema 0 0 4 64, .gwSchema 1 0 4 64, .hb 0 0, .hb 1 0,
    .report 0 0 40 1 30 46, .report 1 0 40 1 20 78, .report 0 0 40 1 40 93 ]

def exS : State := reach exShard 1 2 1 false exOps

def exE : UpStore := ⟨⟨64, 64, [(0, 40), (1, 24)]⟩, 64, 93, [0], [(0, 40), (1, 20)]⟩

example : ∀ op ∈ exOps, OpOK op := by decide
example : NoLower [] exOps := by simp [exOps, NoLower, aget]
/-- the hypotheses of `loop_no_overcommit_agreed` hold in `exS` with `T = 64`, and the bound is tight: 40 + 24 = 64 -/
example : (aget exS.srv.ups 0).map obsS = some (obsS exE) := by decide +kernel
example : (liveObs exS 0).map (fun g => (g.id, g.remote, g.enforced, g.view, g.fresh)) =
    [(0, true, 40, 64, true), (1, true, 24, 64, true)] := by decide +kernel
example : (liveObs exS 0).all (holdsRecord exE.srv.quotas) = true := by decide +kernel
example : sumRemote (liveObs exS 0) = 64 := by decide +kernel

/-- gateway 1 is partitioned and stops heartbeating; gateway 0 keeps heartbeating; the pass at 3.6 s does NOT yet reclaim
    gateway 1's once-reported (unlabelled) record; its second report before the partition would have labelled it -/
def exOps2 : List Op :=
  exOps ++ [ .report 1 0 24 1 24 100, .net 1 false, .hb 0 3500, .hb 1 3500, .tick 3600, .report 0 0 64 1 40 62,
             .report 0 0 64 1 40 62, .hb 1 9000 ]

def exS2 : State := reach exShard 1 2 1 false exOps2

/-- the time-out pass reclaimed gateway 1's (labelled) record; gateway 0's next report recomputed the sum (40), the one
    after grew into ALL of the freed capacity (64), never beyond the limit; gateway 1, unreachable for more than the
    server heartbeat time-out, fell back to its local limit 4 -/
example : (aget exS2.srv.ups 0).map (fun e => (e.srv.total, e.srv.recSum, e.srv.quotas)) = some (64, 64, [(0, 64)]) := by
  decide +kernel
example : exS2.srv.hb = [(0, 3500)] := by decide +kernel
example : (liveObs exS2 0).map (fun g => (g.id, g.remote, g.enforced, g.ready)) =
    [(0, true, 64, true), (1, false, 4, false)] := by decide +kernel
example : judgeU (obsU exS2 0) = [] := by decide +kernel
/-- here the hypothesis "holds what is on record" FAILS for gateway 1 (it still holds 24, its record is gone): had it not
    fallen back it would over-commit — the hypothesis is needed, and the fallback is what saves the sum -/
example : (liveObs exS2 0).map (holdsRecord [(0, 64)]) = [true, false] := by decide +kernel

/-- the hypotheses of `loop_timeout_pass_reclaims` / `loop_reclaimed_capacity` are met by a concrete server state -/
example : (reach exShard 1 2 1 false (exOps ++ [.report 1 0 24 1 24 100, .net 1 false, .hb 0 3500, .hb 1 3500])).srv.hb
    = [(1, 0), (0, 3500)] := by decide +kernel
example : timedOut 3600 (1, 0) = true ∧ timedOut 3600 (0, 3500) = false := by decide

/-- a naming exists for every shard function (upstream `u` = `u+1` letters `u`, instance `i` = `i+1` letters `g`): the
    hypotheses of the lifted C18 theorems are satisfiable -/
def exNaming (shardOf : Nat → Nat) : Naming where
  un u := List.replicate (u + 1) 117
  iname i := List.replicate (i + 1) 103
  sname := [115]
  shardOf' n := shardOf (n.length - 1)
  iname_inj a b h := by
    have := congrArg List.length h
    simp at this; exact this
  iname_ne a := by simp

example (shardOf : Nat → Nat) : ∀ u, (exNaming shardOf).shardOf' ((exNaming shardOf).un u) = shardOf u := by
  intro u; simp [exNaming]

/-! the judge is not trivially true: it rejects an over-committed record, gateways that together exceed the limit, a
    remote limiter handed out while unreachable, a limiter above the answered quota or above the gateway's own view, a
    fallback that is not the local limit -/
def okG (id : Nat) (q : Int) : GObs :=
  { id := id, remote := true, enforced := q, raw := some q, applied := some q, view := 64, loc := 4, ready := true, fresh := true }

example : judgeU { srv := some ⟨64, 64, 64, [(0, 40), (1, 24)]⟩, gws := [okG 0 40, okG 1 24] } = [] := by decide
example : judgeU { srv := some ⟨64, 64, 70, [(0, 40), (1, 30)]⟩, gws := [okG 0 40, okG 1 30] }
    = ["c07.loop-recorded-invariant", "c07.loop-system-overcommit"] := by decide
example : judgeU { srv := some ⟨64, 64, 64, [(0, 40), (1, 24)]⟩, gws := [{ okG 1 24 with ready := false }] }
    = ["c07.loop-remote-while-unreachable"] := by decide
example : judgeU { srv := none, gws := [{ okG 1 24 with enforced := 30, applied := some 30 }] }
    = ["c07.loop-exceeds-answer", "c07.loop-exceeds-own-limit"] := by decide
example : judgeU { srv := none, gws := [{ okG 1 100 with view := 64 }] } = ["c07.loop-exceeds-own-limit"] := by decide
example : judgeU { srv := none, gws := [{ okG 1 24 with remote := false, enforced := 24 }] }
    = ["c07.loop-fallback-local"] := by decide

end KG.Props.C07.Loop
