import KG.Props.C17
/-!
# C01 ∘ C17 — routing of a policy list that went through the admission plugin

Objects reach the gateway through the control plane, whose admission plugin rewrites every rule (`normalizeRule`, the
model of `normalizeRules` in plugin/admission/upstreamcluster/admission.go; property C17). The user-visible statement
of C01 is about the policy list the user SUBMITTED: the request is routed under the first submitted policy that has a
rule matching it by the documented semantics. It follows from C17's `c17_routing` and C01's `c01_first_match`.
-/
namespace KG.Props.C01.Admitted
open KG KG.Model.Match KG.Spec.Match KG.Lemmas.Match KG.Props.C01 KG.Props.C17

/-- what is in force after admission routes every request like the documented semantics of the submitted list -/
theorem c01_admitted_routing (a : Attrs) (ps : List Policy) :
    matchPolicies a (ps.map (·.map normalizeRule)) = firstMatchSpec a ps := by
  rw [c17_routing, c01_first_match]

/-- … in particular: admitted or not makes no difference to the matcher -/
theorem c01_admission_transparent (a : Attrs) (ps : List Policy) :
    matchPolicies a (ps.map (·.map normalizeRule)) = matchPolicies a ps := c17_routing a ps

/-- no submitted policy matches ⇔ the admitted list routes nowhere (the dispatcher then answers 500, C04) -/
theorem c01_admitted_none_iff (a : Attrs) (ps : List Policy) :
    matchPolicies a (ps.map (·.map normalizeRule)) = none ↔ ∀ p ∈ ps, policySpec a p = false := by
  rw [c17_routing]; exact c01_none_iff a ps

end KG.Props.C01.Admitted
