import KG.Lemmas.Names
import KG.Gen.C10
/-!
# C10 — Tenant resolution: a host resolves to at most one cluster, and the right one

Model: `KG.Model.Names` (the manager, the controller's queue handler `syncUpstreamCluster` as it is after the
fixes dfb1dc5 / 9025070, host extraction, the TLS wrappers, the admission plug-in's conflict rule).
Predicates: `KG.Spec.Names`.

`lower` stands for `strings.ToLower`; the only fact used about it is idempotence (`hl`).
A *history* is an arbitrary list of handler invocations `(obj.Name, what the lister answers for it)`, i.e. every
interleaving of creates, updates, deletes, retries and superseded (requeued) events the queue can produce.
All theorems quantify over every history (`Reachable`).
-/
namespace KG.Props.C10
open KG KG.Model.Names KG.Spec.Names KG.Lemmas.Names

section
variable (lower : Str → Str)

/-- states the controller can be in: any sequence of handler invocations from the empty manager -/
inductive Reachable : Mgr → Prop
  | init : Reachable Mgr.init
  | step (m : Mgr) (name : Str) (latest : Option Spec) :
      Reachable m → Reachable (syncUpstreamCluster lower m name latest).1

theorem reachable_runCalls (m : Mgr) (h : Reachable lower m) (calls : List (Str × Option Spec)) :
    Reachable lower (runCalls lower m calls) := by
  induction calls generalizing m with
  | nil => exact h
  | cons c rest ih =>
    obtain ⟨n, l⟩ := c
    exact ih _ (Reachable.step m n l h)

theorem init_inv : Inv lower Mgr.init := by
  refine ⟨?_, ?_, ?_, ?_, ?_, ?_⟩ <;> intros <;> simp_all [Mgr.init, Mgr.look, alookup]

/-- one handler invocation preserves the invariant -/
theorem inv_step (hl : ∀ s, lower (lower s) = lower s) (m : Mgr) (hI : Inv lower m) (name : Str)
    (latest : Option Spec) : Inv lower (syncUpstreamCluster lower m name latest).1 := by
  have hc : lower (lower name) = lower name := hl name
  cases sync_char lower hl m hI name latest with
  | requeue _ h => rw [h]; exact hI
  | deleted _ _ h => exact inv_of_deleted lower hI h
  | applied spec _ _ _ h => exact inv_of_applied lower hl hc hI h

/-- **c10_inv** — for every history: (ii) a key that resolves to a cluster is one of its current server
    names, (iii) every current server name of a served cluster resolves to it, no dangling or stopped
    `ClusterInfo` is served. -/
theorem c10_inv (hl : ∀ s, lower (lower s) = lower s) (m : Mgr) (h : Reachable lower m) : Inv lower m := by
  induction h with
  | init => exact init_inv lower
  | step m name latest _ ih => exact inv_step lower hl m ih name latest

/-- **c10_function** (i) — each name resolves to at most one `ClusterInfo`, and each cluster name is served by at
    most one `ClusterInfo`: two keys that resolve to `ClusterInfo`s of the same cluster resolve to the same one. -/
theorem c10_function (hl : ∀ s, lower (lower s) = lower s) (m : Mgr) (h : Reachable lower m) :
    (∀ k p q, m.look k = some p → m.look k = some q → p = q) ∧
    (∀ k k' c, clusterAt m k = some c → clusterAt m k' = some c → m.look k = m.look k') := by
  refine ⟨?_, ?_⟩
  · intro k p q hp hq
    rw [hp] at hq; cases hq; rfl
  · intro k k' c h1 h2
    exact owner_unique lower (c10_inv lower hl m h) h1 h2

/-- **c10_step** — the obligations of every handler invocation, from every reachable state:
    `Frame` (names of other clusters are neither captured nor removed nor re-pointed, their `ClusterInfo` is
    untouched), and: a refused/failed event (requeue) changes nothing; a delete event leaves no key resolving to the
    cluster and stops its `ClusterInfo`; an applied event makes exactly the object's names resolve to a running
    `ClusterInfo` carrying the object's names and TLS material. -/
theorem c10_step (hl : ∀ s, lower (lower s) = lower s) (m : Mgr) (h : Reachable lower m) (name : Str)
    (latest : Option Spec) :
    StepOK lower (lower name) latest (syncUpstreamCluster lower m name latest).2.requeue m
      (syncUpstreamCluster lower m name latest).1 := by
  have hI := c10_inv lower hl m h
  have hc : lower (lower name) = lower name := hl name
  unfold StepOK
  cases sync_char lower hl m hI name latest with
  | requeue hr he =>
    rw [hr, he]
    refine ⟨⟨?_, ?_, ?_⟩, ?_⟩
    · intro k p ci hp hci _
      exact ⟨hp, hci, Iff.rfl⟩
    · intro k; exact Or.inl rfl
    · intro k p ci hp hci _
      exact ⟨hp, hci⟩
    · simp only [if_true]
      exact ⟨fun _ => rfl, rfl, fun _ => Iff.rfl⟩
  | deleted ho hlat hd =>
    subst hlat
    rw [ho]
    refine ⟨frame_of_deleted hd, ?_⟩
    simp only [Outcome.requeue, Bool.false_eq_true, if_false]
    exact deleted_of_char lower hc hd
  | applied spec hr hlat _ ha =>
    subst hlat
    rw [hr]
    refine ⟨frame_of_applied lower ha, ?_⟩
    simp only [Bool.false_eq_true, if_false]
    exact applied_of_char lower hc ha

/-- **c10_frame** — an event for cluster `C` never changes what a name held by another cluster `C' ≠ C`
    resolves to (no capture, no removal), nor that cluster's `ClusterInfo`. -/
theorem c10_frame (hl : ∀ s, lower (lower s) = lower s) (m : Mgr) (h : Reachable lower m) (name : Str)
    (latest : Option Spec) (k : Str) (p : Nat) (ci : CI)
    (hk : m.look k = some p) (hci : m.heap[p]? = some ci) (hne : ci.cluster ≠ lower name) :
    let m' := (syncUpstreamCluster lower m name latest).1
    m'.look k = some p ∧ m'.heap[p]? = some ci ∧ (p ∈ m'.stopped ↔ p ∈ m.stopped) :=
  (c10_step lower hl m h name latest).1.keep k p ci hk hci hne

/-- **c10_refused_unchanged** — an event the handler refuses (name conflict) or fails on (requeue) changes nothing. -/
theorem c10_refused_unchanged (hl : ∀ s, lower (lower s) = lower s) (m : Mgr) (h : Reachable lower m) (name : Str)
    (latest : Option Spec) (hr : (syncUpstreamCluster lower m name latest).2.requeue = true) :
    (syncUpstreamCluster lower m name latest).1 = m := by
  have hI := c10_inv lower hl m h
  cases sync_char lower hl m hI name latest with
  | requeue _ he => exact he
  | deleted ho _ _ => rw [ho] at hr; cases hr
  | applied _ hr' _ _ _ => rw [hr'] at hr; cases hr

/-- **c10_delete** — after a delete event for `C` no key resolves to `C`, whatever host is asked. -/
theorem c10_delete (hl : ∀ s, lower (lower s) = lower s) (m : Mgr) (h : Reachable lower m) (name : Str) :
    let m' := (syncUpstreamCluster lower m name none).1
    (∀ k, clusterAt m' k ≠ some (lower name)) ∧
    (∀ H p ci, resolve lower m' H = some (p, ci) → ci.cluster ≠ lower name) := by
  have hs := c10_step lower hl m h name none
  have hd : Deleted lower (lower name) m (syncUpstreamCluster lower m name none).1 := by
    have := hs.2
    simpa [syncUpstreamCluster, Outcome.requeue] using this
  refine ⟨hd.gone, ?_⟩
  intro H p ci hr hcl
  unfold resolve at hr
  obtain ⟨h1, h2⟩ := (get_some_iff lower _ _ p ci).1 hr
  have := clusterAt_of_look h1 h2
  rw [hcl] at this
  exact hd.gone _ this

/-- a creation or update is refused exactly when one of the names it claims is held by another cluster, or
    `Sync` fails on it -/
theorem c10_refused_iff (hl : ∀ s, lower (lower s) = lower s) (m : Mgr) (h : Reachable lower m) (name : Str)
    (spec : Spec)
    (hfree : ∀ k ∈ objNames lower (lower name) spec, clusterAt m k = none ∨ clusterAt m k = some (lower name))
    (hb : spec.bad = false) :
    (syncUpstreamCluster lower m name (some spec)).2.requeue = false := by
  have hI := c10_inv lower hl m h
  have hc : lower (lower name) = lower name := hl name
  -- the pre-check passes
  have hchk : checkUpstreamServerNameConflict lower m (lower name) spec = false := by
    have hnew : ∀ n ∈ objNames lower (lower name) spec, m.heldByOther lower n (lower name) = false := by
      intro n hn
      cases hh : m.heldByOther lower n (lower name) with
      | false => rfl
      | true =>
        exfalso
        obtain ⟨c', h1, h2⟩ := (heldByOther_iff lower m n (lower name)).1 hh
        rw [objNames_lower lower hl _ hc spec n hn] at h1
        rcases hfree n hn with h3 | h3
        · rw [h1] at h3; cases h3
        · rw [h1] at h3; cases h3; exact h2 rfl
    unfold checkUpstreamServerNameConflict
    simp only
    cases hg : m.get lower (lower name) with
    | none =>
      simp only
      exact noconflict_of_free lower m _ _ _ hnew (fun o ho => by cases ho)
    | some pi =>
      obtain ⟨p, info⟩ := pi
      simp only
      apply noconflict_of_free lower m _ _ _ hnew
      intro o ho _
      cases hh : m.heldByOther lower o (lower name) with
      | false => rfl
      | true =>
        exfalso
        obtain ⟨c', h1, h2⟩ := (heldByOther_iff lower m o (lower name)).1 hh
        -- o is a current name of the ClusterInfo that serves `lower name`
        obtain ⟨hp, hci⟩ := (get_some_iff lower m _ p info).1 hg
        have hlow := names_lower lower hl info (hI.low p info hci) o ho
        rw [hlow] at h1
        have hop := hI.all _ p info hp hci o ho
        have hcl := clusterAt_of_look hop hci
        -- the cluster serving `lower name` is `lower name` itself, because `lower name` is one of the new names
        have hcn : clusterAt m (lower name) = some info.cluster := by
          rw [hc] at hp; exact clusterAt_of_look hp hci
        rcases hfree (lower name) (by simp [objNames]) with h3 | h3
        · rw [hcn] at h3; cases h3
        · rw [hcn] at h3
          rw [hcl, h3] at h1
          cases h1; exact h2 rfl
  cases hsc : sync_char lower hl m hI name (some spec) with
  | requeue hr he =>
    -- impossible: the pre-check passes and the object is not bad
    exfalso
    unfold syncUpstreamCluster at hr
    simp only [hchk, Bool.false_eq_true, if_false] at hr
    cases hg : m.get lower (lower name) with
    | none =>
      rw [hg] at hr
      simp only [hb, Bool.false_eq_true, if_false] at hr
      obtain ⟨m2, hm2, _⟩ := create_char lower hl m hI (lower name) hc spec hg hchk
      rw [hm2] at hr
      cases hr
    | some pi =>
      obtain ⟨p, info⟩ := pi
      rw [hg] at hr
      obtain ⟨hcl, m2, hm2, _⟩ := update_char lower hl m hI (lower name) hc spec p info hg hchk
      simp only [hcl, ne_eq, not_true_eq_false, if_false, hb, Bool.false_eq_true] at hr
      rw [hm2] at hr
      cases hr
  | deleted _ hlat _ => cases hlat
  | applied _ hr _ _ _ => exact hr

/-! ### during an event ("at every moment") -/

/-- **c10_mid_event** — for every history and every event: in EVERY state a concurrent lookup can observe while
    the handler runs (after each `AddWithKey` / `Delete` / `DeleteWithStop` it performs), a name that resolves to
    the same `ClusterInfo` before and after the event — the cluster's own name, every server name an update
    keeps, every name of every other cluster — still resolves to it, and nothing resolves to a `ClusterInfo` it
    resolved to neither before nor after. -/
theorem c10_mid_event (hl : ∀ s, lower (lower s) = lower s) (m : Mgr) (h : Reachable lower m) (name : Str)
    (latest : Option Spec) :
    ∀ s ∈ syncTrace lower m name latest, MidOK m (syncUpstreamCluster lower m name latest).1 s := by
  intro s hs
  have hb := trace_between lower hl m (c10_inv lower hl m h) name latest s hs
  refine ⟨?_, ?_⟩
  · intro k p h1 h2
    rcases hb k with h3 | h3
    · rw [h3]; exact h1
    · rw [h3]; exact h2
  · intro k q hq
    rcases hb k with h3 | h3
    · left; rw [← h3]; exact hq
    · right; rw [← h3]; exact hq

/-- names of other clusters are untouched at every moment of an event for `name` -/
theorem c10_mid_event_frame (hl : ∀ s, lower (lower s) = lower s) (m : Mgr) (h : Reachable lower m) (name : Str)
    (latest : Option Spec) (k : Str) (p : Nat) (ci : CI)
    (hk : m.look k = some p) (hci : m.heap[p]? = some ci) (hne : ci.cluster ≠ lower name) :
    ∀ s ∈ syncTrace lower m name latest, s.look k = some p := by
  intro s hs
  exact (c10_mid_event lower hl m h name latest s hs).kept k p hk
    (c10_frame lower hl m h name latest k p ci hk hci hne).1

theorem midB_of (m m' s : Mgr) (h : MidOK m m' s) : midB m m' s = true := by
  unfold midB
  simp only [Bool.and_eq_true, List.all_eq_true]
  refine ⟨?_, ?_⟩
  · intro e _
    split
    · rfl
    · rename_i p hp
      by_cases h2 : m'.look e.1 = some p
      · simp [h.kept e.1 p hp h2]
      · simp [h2]
  · intro e _
    split
    · rfl
    · rename_i q hq
      rcases h.nostray e.1 q hq with h1 | h1 <;> simp [h1]

/-- the Boolean mid-event judge holds of the model for every history -/
theorem c10_judge_mid (hl : ∀ s, lower (lower s) = lower s) (m : Mgr) (h : Reachable lower m) (name : Str)
    (latest : Option Spec) :
    (syncTrace lower m name latest).all (fun s => midB m (syncUpstreamCluster lower m name latest).1 s) = true := by
  rw [List.all_eq_true]
  intro s hs
  exact midB_of m _ s (c10_mid_event lower hl m h name latest s hs)

/-! ### the `iff` of the property statement -/

/-- a cluster whose latest object was applied stays applied while only events for OTHER clusters are processed -/
theorem applied_preserved (m m' : Mgr) (hI' : Inv lower m') (c c' : Str) (hne : c ≠ c') (hc : lower c = c)
    (spec : Spec) (hf : Frame c' m m') (ha : Applied lower c spec m) : Applied lower c spec m' := by
  obtain ⟨p, ci, hg, hcl, hnames, hcert, hca, hns, hkeys⟩ := ha.served
  obtain ⟨hp, hci⟩ := (get_some_iff lower m c p ci).1 hg
  obtain ⟨hp', hci', hst⟩ := hf.keep _ p ci hp hci (by rw [hcl]; exact hne)
  refine ⟨⟨p, ci, (get_some_iff lower m' c p ci).2 ⟨hp', hci'⟩, hcl, hnames, hcert, hca, ?_, ?_⟩⟩
  · intro h; exact hns (hst.1 h)
  · intro k
    rw [← hnames]
    constructor
    · intro hk; exact hI'.mem k p ci hk hci'
    · intro hk; exact hI'.all _ p ci hp' hci' k hk

/-- **c10_iff (state form)** — in a state in which cluster `c` is applied with object `spec`: host `H` is served
    by `c` if and only if `lower (stripPort H)` is `c`'s name or one of the object's (lower-cased) server names. -/
theorem iff_of_applied (m : Mgr) (hI : Inv lower m) (c : Str) (spec : Spec) (ha : Applied lower c spec m)
    (H : Str) :
    (∃ p ci, resolve lower m H = some (p, ci) ∧ ci.cluster = c) ↔
      lower (hostWithoutPort lower H) ∈ objNames lower c spec := by
  obtain ⟨p, ci, hg, hcl, hnames, _, _, _, hkeys⟩ := ha.served
  obtain ⟨hp, hci⟩ := (get_some_iff lower m c p ci).1 hg
  unfold resolve
  constructor
  · rintro ⟨q, ci', hr, hcl'⟩
    obtain ⟨h1, h2⟩ := (get_some_iff lower m _ q ci').1 hr
    have e := owner_unique lower hI (clusterAt_of_look h1 h2) (by rw [hcl', ← hcl]; exact clusterAt_of_look hp hci)
    rw [h1, hp] at e
    cases e
    exact (hkeys _).1 h1
  · intro hk
    exact ⟨p, ci, (get_some_iff lower m _ p ci).2 ⟨(hkeys _).2 hk, hci⟩, hcl⟩

/-- **c10_iff** — for EVERY history `calls1`, every object applied for `name` after it (the handler did not ask
    for a requeue), and every continuation `calls2` made of events for other clusters (creates, updates, deletes,
    conflicting or not, with names that overlap, collide, vary in case or move): a request addressed to `H` is
    served by that cluster iff `H` equals, case-insensitively and ignoring the port, its name or one of the
    object's server names; and the serving `ClusterInfo` carries the object's TLS material. -/
theorem c10_iff (hl : ∀ s, lower (lower s) = lower s) (calls1 calls2 : List (Str × Option Spec)) (name : Str)
    (spec : Spec)
    (happ : (syncUpstreamCluster lower (runCalls lower Mgr.init calls1) name (some spec)).2.requeue = false)
    (hothers : ∀ call ∈ calls2, lower call.1 ≠ lower name) :
    let m := runCalls lower (syncUpstreamCluster lower (runCalls lower Mgr.init calls1) name (some spec)).1 calls2
    Applied lower (lower name) spec m ∧
    ∀ H, (∃ p ci, resolve lower m H = some (p, ci) ∧ ci.cluster = lower name) ↔
      lower (hostWithoutPort lower H) ∈ objNames lower (lower name) spec := by
  have hc : lower (lower name) = lower name := hl name
  have hr1 := reachable_runCalls lower _ (Reachable.init) calls1
  have hs := c10_step lower hl _ hr1 name (some spec)
  rw [happ] at hs
  have ha0 : Applied lower (lower name) spec
      (syncUpstreamCluster lower (runCalls lower Mgr.init calls1) name (some spec)).1 := by
    have := hs.2
    simpa using this
  have hr2 : Reachable lower (syncUpstreamCluster lower (runCalls lower Mgr.init calls1) name (some spec)).1 :=
    Reachable.step _ name (some spec) hr1
  -- generalise over the state reached so far
  suffices key : ∀ (calls : List (Str × Option Spec)) (m0 : Mgr), Reachable lower m0 →
      Applied lower (lower name) spec m0 → (∀ call ∈ calls, lower call.1 ≠ lower name) →
      Reachable lower (runCalls lower m0 calls) ∧ Applied lower (lower name) spec (runCalls lower m0 calls) by
    obtain ⟨hr3, ha3⟩ := key calls2 _ hr2 ha0 hothers
    exact ⟨ha3, iff_of_applied lower _ (c10_inv lower hl _ hr3) _ spec ha3⟩
  intro calls
  induction calls with
  | nil => intro m0 h1 h2 _; exact ⟨h1, h2⟩
  | cons call rest ih =>
    intro m0 h1 h2 h3
    obtain ⟨n, l⟩ := call
    have hn : lower n ≠ lower name := h3 (n, l) (by simp)
    have hstep := c10_step lower hl m0 h1 n l
    have hr' : Reachable lower (syncUpstreamCluster lower m0 n l).1 := Reachable.step m0 n l h1
    have ha' := applied_preserved lower m0 _ (c10_inv lower hl _ hr') (lower name) (lower n)
      (fun e => hn e.symm) hc spec hstep.1 h2
    exact ih _ hr' ha' (fun call hmem => h3 call (List.mem_cons_of_mem _ hmem))

/-! ### TLS material follows the resolution -/

/-- **c10_tls** — in every state, `WrapGetConfigForClient` answers with the material of the cluster the SNI
    (or, without SNI, the local IP) resolves to and with the base configuration when there is none;
    `SNIVerifyOptions` answers with the client-CA options of the cluster the request host resolves to. -/
theorem c10_tls (m : Mgr) (base : TLS) (sni localAddr host : Str) :
    wrapGetConfigForClient lower m base sni localAddr =
      (match (if sni.isEmpty then splitHostPort localAddr else some sni) with
       | none => base
       | some hostname => tlsSpec lower m base hostname) ∧
    sniVerifyOptions lower m host = verifySpec lower m host := by
  refine ⟨?_, ?_⟩
  · unfold wrapGetConfigForClient tlsSpec
    simp only
    cases (if sni.isEmpty then splitHostPort localAddr else some sni) with
    | none => rfl
    | some hostname =>
      simp only
      cases m.get lower hostname with
      | none => rfl
      | some pi =>
        obtain ⟨p, ci⟩ := pi
        simp only [loadTLSConfig]
        cases hcert : ci.cert <;> cases hca : ci.ca <;> simp
  · unfold sniVerifyOptions verifySpec resolve loadVerifyOptions
    cases m.get lower (hostWithoutPort lower host) with
    | none => rfl
    | some pi => rfl

/-- **c10_tls_applied** — for a cluster applied with object `spec` (in particular after every history of the form
    of `c10_iff`): a handshake whose SNI is one of its names gets the object's serving certificate and client-CA
    pool (the base ones where the object sets none), and the verify options for such a host are the object's. -/
theorem c10_tls_applied (m : Mgr) (c : Str) (spec : Spec) (ha : Applied lower c spec m) (base : TLS)
    (sni localAddr : Str) (hne : sni.isEmpty = false) (hs : lower sni ∈ objNames lower c spec) :
    wrapGetConfigForClient lower m base sni localAddr =
      (if spec.cert = none ∧ spec.ca = none then base
       else { cert := if spec.cert = none then base.cert else spec.cert,
              ca := if spec.ca = none then base.ca else spec.ca,
              requestClientCert := if spec.ca = none then base.requestClientCert else true }) := by
  obtain ⟨p, ci, _, _, _, hcert, hca, _, hkeys⟩ := ha.served
  obtain ⟨_, hci⟩ := (get_some_iff lower m c p ci).1 (by assumption)
  have hg : m.get lower sni = some (p, ci) := (get_some_iff lower m sni p ci).2 ⟨(hkeys _).2 hs, hci⟩
  rw [(c10_tls lower m base sni localAddr sni).1, hne]
  simp only [Bool.false_eq_true, if_false]
  unfold tlsSpec
  rw [hg]
  simp only
  rw [hcert, hca]

theorem c10_verify_applied (m : Mgr) (hI : Inv lower m) (c : Str) (spec : Spec) (ha : Applied lower c spec m)
    (host : Str) (hs : lower (hostWithoutPort lower host) ∈ objNames lower c spec) :
    sniVerifyOptions lower m host = spec.ca := by
  obtain ⟨p, ci, hres, _⟩ := (iff_of_applied lower m hI c spec ha host).2 hs
  obtain ⟨p', ci', hg', _, _, _, hca, _, hkeys⟩ := ha.served
  rw [(c10_tls lower m { cert := none, ca := none, requestClientCert := false } [] [] host).2]
  unfold verifySpec
  rw [hres]
  simp only
  -- the resolved ClusterInfo is the applied one
  unfold resolve at hres
  obtain ⟨h1, h2⟩ := (get_some_iff lower m _ p ci).1 hres
  obtain ⟨h1', h2'⟩ := (get_some_iff lower m c p' ci').1 hg'
  have := (hkeys _).2 hs
  rw [h1] at this
  cases this
  rw [h2] at h2'
  cases h2'
  exact hca

/-- **c10_auth_applied** — through the wiring the proxy ships (`sniInstalled = true`), with or without a
    control-plane client CA (`cp`, `base.requestClientCert` arbitrary): on a connection whose SNI and request host
    are names of a cluster applied with an object that sets client CA `a`, a client certificate signed by `a` is
    authenticated as its subject, and one signed by any other CA (another cluster's, the control plane's) is
    rejected — never served as anonymous. -/
theorem c10_auth_applied (m : Mgr) (hI : Inv lower m) (c : Str) (spec : Spec) (ha : Applied lower c spec m)
    (a : Nat) (hca : spec.ca = some a) (base : TLS) (cp : Option Nat) (sni localAddr host : Str)
    (hne : sni.isEmpty = false) (hs : lower sni ∈ objNames lower c spec)
    (hh : lower (hostWithoutPort lower host) ∈ objNames lower c spec) (x : Nat) :
    (wiredExchange lower m base cp true sni localAddr host (some x)).2 =
      if x = a then AuthOutcome.user else AuthOutcome.rejected := by
  unfold wiredExchange
  simp only
  rw [c10_tls_applied lower m c spec ha base sni localAddr hne hs]
  have hv := c10_verify_applied lower m hI c spec ha host hh
  simp only [hca, reduceCtorEq, and_false, if_false, if_true]
  unfold proxyAuthenticate
  simp only [Bool.not_true, Bool.and_false, Bool.false_eq_true, if_false, if_true, hv, hca, x509Authenticate]
  by_cases hx : x = a <;> simp [hx]

/-- a host that resolves to no cluster gets the base configuration and no verify options -/
theorem c10_tls_unserved (m : Mgr) (base : TLS) (sni localAddr : Str) (hne : sni.isEmpty = false)
    (hg : m.get lower sni = none) : wrapGetConfigForClient lower m base sni localAddr = base := by
  rw [(c10_tls lower m base sni localAddr sni).1, hne]
  simp only [Bool.false_eq_true, if_false]
  unfold tlsSpec
  rw [hg]

/-! ### admissible histories: the manager serves exactly what the current objects say

An *admissible* history is one in which every object written passes the admission plug-in's own rule
(`pluginAdmits`: valid name, parseable secure-serving data, no name shared with another current object) against
the objects existing at that moment, and is handed to the handler before the next write (plus arbitrary
re-deliveries). On such histories no event is ever refused and the served names are exactly the claimed ones.
On other histories (an object created while another cluster still holds one of its names, delayed events, …) the
theorems above (`c10_inv`, `c10_step`, `c10_iff`) are what holds: the refused cluster is not served. -/

inductive AEv
  | apply (name : Str) (spec : Spec)   -- create or update, synced at once
  | delete (name : Str)                -- delete, synced at once
  | resync (name : Str)                -- the queue re-delivers an event for `name`

def applyEv (w : World) : AEv → World
  | .apply n s => ((w.step lower (.set n s)).1.step lower (.sync n)).1
  | .delete n => ((w.step lower (.unset n)).1.step lower (.sync n)).1
  | .resync n => (w.step lower (.sync n)).1

/-- the outcome of the handler invocation the event ends with -/
def evOutcome (w : World) : AEv → Option Outcome
  | .apply n s => ((w.step lower (.set n s)).1.step lower (.sync n)).2
  | .delete n => ((w.step lower (.unset n)).1.step lower (.sync n)).2
  | .resync n => (w.step lower (.sync n)).2

def evOK (w : World) : AEv → Prop
  | .apply n s => pluginAdmits lower w.lister n s = true
  | .delete n => lower n = n
  | .resync n => lower n = n

def Admissible (w : World) : List AEv → Prop
  | [] => True
  | e :: rest => evOK lower w e ∧ Admissible (applyEv lower w e) rest

def runEvs (w : World) : List AEv → World
  | [] => w
  | e :: rest => runEvs (applyEv lower w e) rest

structure WInv (w : World) : Prop where
  reach : Reachable lower w.mgr
  mirror : Mirror lower w.lister w.mgr
  valid : ∀ n s, w.lister.get n = some s → lower n = n ∧ s.bad = false

theorem clusterAt_back {c : Str} {m m' : Mgr} (hf : Frame c m m') {k c' : Str}
    (h : clusterAt m' k = some c') (hne : c' ≠ c) : clusterAt m k = some c' := by
  obtain ⟨p, ci, h1, h2, h3⟩ := (clusterAt_some_iff m' k c').1 h
  obtain ⟨h4, h5⟩ := hf.back k p ci h1 h2 (by rw [h3]; exact hne)
  rw [clusterAt_of_look h4 h5, h3]

/-- one handler invocation for `n` when every OTHER object of the (already written) lister is applied -/
theorem mirror_sync (hl : ∀ s, lower (lower s) = lower s) (m : Mgr) (hR : Reachable lower m) (lister' : Lister)
    (n : Str) (hn : lower n = n)
    (H1 : ∀ n' s', n' ≠ n → lister'.get n' = some s' → Applied lower (lower n') s' m)
    (H2 : ∀ k c, clusterAt m k = some c → c ≠ lower n → ∃ n' s', n' ≠ n ∧ lister'.get n' = some s' ∧ lower n' = c)
    (H3 : ∀ n' s', lister'.get n' = some s' → lower n' = n' ∧ s'.bad = false)
    (H4 : ∀ s, lister'.get n = some s → ∀ k ∈ objNames lower (lower n) s,
            clusterAt m k = none ∨ clusterAt m k = some (lower n)) :
    (syncUpstreamCluster lower m n (lister'.get n)).2.requeue = false ∧
    Mirror lower lister' (syncUpstreamCluster lower m n (lister'.get n)).1 := by
  have hstep := c10_step lower hl m hR n (lister'.get n)
  have hR' : Reachable lower (syncUpstreamCluster lower m n (lister'.get n)).1 := Reachable.step m n _ hR
  have hI' := c10_inv lower hl _ hR'
  have hothers : ∀ n' s', n' ≠ n → lister'.get n' = some s' →
      Applied lower (lower n') s' (syncUpstreamCluster lower m n (lister'.get n)).1 := by
    intro n' s' hne hg
    have hn' := (H3 n' s' hg).1
    exact applied_preserved lower m _ hI' (lower n') (lower n) (by rw [hn', hn]; exact hne) (hl n') s'
      hstep.1 (H1 n' s' hne hg)
  cases hg : lister'.get n with
  | none =>
    rw [hg] at hstep hothers
    have hreq : (syncUpstreamCluster lower m n none).2.requeue = false := rfl
    refine ⟨hreq, ?_⟩
    rw [hreq] at hstep
    have hd : Deleted lower (lower n) m (syncUpstreamCluster lower m n none).1 := by
      have := hstep.2; simpa using this
    refine ⟨?_, ?_⟩
    · intro n' s' hg'
      have hne : n' ≠ n := by intro e; rw [e, hg] at hg'; cases hg'
      exact hothers n' s' hne hg'
    · intro k c hk
      have hcne : c ≠ lower n := by intro e; rw [e] at hk; exact hd.gone k hk
      obtain ⟨n', s', _, h2, h3⟩ := H2 k c (clusterAt_back hstep.1 hk hcne) hcne
      exact ⟨n', s', h2, h3⟩
  | some s =>
    rw [hg] at hstep hothers
    have hreq := c10_refused_iff lower hl m hR n s (H4 s hg) (H3 n s hg).2
    refine ⟨hreq, ?_⟩
    rw [hreq] at hstep
    have ha : Applied lower (lower n) s (syncUpstreamCluster lower m n (some s)).1 := by
      have := hstep.2; simpa using this
    refine ⟨?_, ?_⟩
    · intro n' s' hg'
      by_cases hne : n' = n
      · subst hne
        rw [hg] at hg'; cases hg'
        exact ha
      · exact hothers n' s' hne hg'
    · intro k c hk
      by_cases hcne : c = lower n
      · exact ⟨n, s, hg, hcne.symm⟩
      · obtain ⟨n', s', _, h2, h3⟩ := H2 k c (clusterAt_back hstep.1 hk hcne) hcne
        exact ⟨n', s', h2, h3⟩

/-- in a mirrored state, a key held by cluster `lower n'` is one of the names its object claims -/
theorem key_of_mirror (hl : ∀ s, lower (lower s) = lower s) (w : World) (hW : WInv lower w) (k : Str) (n' : Str)
    (s' : Spec) (hg : w.lister.get n' = some s') (hk : clusterAt w.mgr k = some (lower n')) :
    k ∈ objNames lower (lower n') s' := by
  have hI := c10_inv lower hl _ hW.reach
  obtain ⟨p, ci, hget, hcl, _, _, _, _, hkeys⟩ := (hW.mirror.objs n' s' hg).served
  obtain ⟨hp, hci⟩ := (get_some_iff lower _ _ p ci).1 hget
  have hc : clusterAt w.mgr (lower (lower n')) = some (lower n') := by
    rw [clusterAt_of_look hp hci, hcl]
  have := owner_unique lower hI hk hc
  rw [hp] at this
  exact (hkeys k).1 this

theorem admissible_step (hl : ∀ s, lower (lower s) = lower s) (w : World) (hW : WInv lower w) (e : AEv)
    (hok : evOK lower w e) :
    WInv lower (applyEv lower w e) ∧ ∀ o, evOutcome lower w e = some o → o.requeue = false := by
  have hI := c10_inv lower hl _ hW.reach
  cases e with
  | apply n s =>
    unfold evOK pluginAdmits at hok
    simp only [Bool.and_eq_true, decide_eq_true_eq, Bool.not_eq_true'] at hok
    obtain ⟨⟨hn, hbad⟩, hconf⟩ := hok
    have hget : (w.lister.set n s).get n = some s := by rw [lister_get_set]; simp
    have H := mirror_sync lower hl w.mgr hW.reach (w.lister.set n s) n hn
      (by
        intro n' s' hne hg
        rw [lister_get_set, if_neg (fun e => hne e.symm)] at hg
        exact hW.mirror.objs n' s' hg)
      (by
        intro k c hk hcne
        obtain ⟨n', s', h1, h2⟩ := hW.mirror.back k c hk
        have hne : n' ≠ n := by intro e; rw [e] at h2; exact hcne h2.symm
        refine ⟨n', s', hne, ?_, h2⟩
        rw [lister_get_set, if_neg (fun e => hne e.symm)]
        exact h1)
      (by
        intro n' s' hg
        rw [lister_get_set] at hg
        by_cases hne : n = n'
        · subst hne
          simp only [if_true, Option.some.injEq] at hg
          subst hg
          exact ⟨hn, hbad⟩
        · rw [if_neg hne] at hg
          exact hW.valid n' s' hg)
      (by
        intro s0 hg0 k hk
        rw [hget] at hg0; cases hg0
        -- the plug-in's rule: the names of the new object are not claimed by any other current object
        cases hcl : clusterAt w.mgr k with
        | none => exact Or.inl rfl
        | some c' =>
          right
          by_cases hcc : c' = lower n
          · rw [hcc]
          · exfalso
            obtain ⟨n', s', h1, h2⟩ := hW.mirror.back k c' hcl
            subst h2
            have hk' := key_of_mirror lower hl w hW k n' s' h1 hcl
            have hmem := lister_mem_of_get _ _ _ h1
            unfold pluginConflict at hconf
            rw [List.any_eq_false] at hconf
            have hu := hconf (n', s') hmem
            simp only [hcc, if_false] at hu
            have hu' : ∀ x ∈ n' :: s'.aliases,
                ¬ (lower (lower n) = lower x) ∧ ∀ sn ∈ s.aliases, ¬ (lower sn = lower x) := by
              intro x hx
              refine ⟨?_, ?_⟩
              · intro e
                apply hu
                exact List.any_eq_true.2 ⟨x, hx, by simp [e]⟩
              · intro sn hsn e
                apply hu
                refine List.any_eq_true.2 ⟨x, hx, ?_⟩
                rw [Bool.or_eq_true]; right
                exact List.any_eq_true.2 ⟨sn, hsn, by simp [e]⟩
            -- k = lower x for some x among the other object's names
            have hx : ∃ x ∈ n' :: s'.aliases, k = lower x := by
              unfold objNames at hk'
              rcases List.mem_cons.1 hk' with h | h
              · exact ⟨n', List.mem_cons_self, h⟩
              · obtain ⟨a, ha, rfl⟩ := List.mem_map.1 h
                exact ⟨a, List.mem_cons_of_mem _ ha, rfl⟩
            obtain ⟨x, hx1, hx2⟩ := hx
            obtain ⟨hu1, hu2⟩ := hu' x hx1
            unfold objNames at hk
            rcases List.mem_cons.1 hk with h | h
            · apply hu1
              rw [hl, ← h, hx2]
            · obtain ⟨sn, hsn, hsn2⟩ := List.mem_map.1 h
              exact hu2 sn hsn (by rw [hsn2, hx2]))
    have hval : ∀ n' s', (w.lister.set n s).get n' = some s' → lower n' = n' ∧ s'.bad = false := by
      intro n' s' hg
      rw [lister_get_set] at hg
      by_cases hne : n = n'
      · subst hne
        simp only [if_true, Option.some.injEq] at hg
        subst hg
        exact ⟨hn, hbad⟩
      · rw [if_neg hne] at hg
        exact hW.valid n' s' hg
    refine ⟨⟨Reachable.step _ n _ hW.reach, H.2, hval⟩, ?_⟩
    intro o ho
    have : o = (syncUpstreamCluster lower w.mgr n ((w.lister.set n s).get n)).2 := by
      simp only [evOutcome, World.step, Option.some.injEq] at ho
      exact ho.symm
    rw [this]; exact H.1
  | delete n =>
    have hn : lower n = n := hok
    have hget : (w.lister.unset n).get n = none := by rw [lister_get_unset]; simp
    have H := mirror_sync lower hl w.mgr hW.reach (w.lister.unset n) n hn
      (by
        intro n' s' hne hg
        rw [lister_get_unset, if_neg (fun e => hne e.symm)] at hg
        exact hW.mirror.objs n' s' hg)
      (by
        intro k c hk hcne
        obtain ⟨n', s', h1, h2⟩ := hW.mirror.back k c hk
        have hne : n' ≠ n := by intro e; rw [e] at h2; exact hcne h2.symm
        refine ⟨n', s', hne, ?_, h2⟩
        rw [lister_get_unset, if_neg (fun e => hne e.symm)]
        exact h1)
      (by
        intro n' s' hg
        rw [lister_get_unset] at hg
        by_cases hne : n = n'
        · rw [if_pos hne] at hg; cases hg
        · rw [if_neg hne] at hg
          exact hW.valid n' s' hg)
      (by intro s0 hg0; rw [hget] at hg0; cases hg0)
    have hval : ∀ n' s', (w.lister.unset n).get n' = some s' → lower n' = n' ∧ s'.bad = false := by
      intro n' s' hg
      rw [lister_get_unset] at hg
      by_cases hne : n = n'
      · rw [if_pos hne] at hg; cases hg
      · rw [if_neg hne] at hg
        exact hW.valid n' s' hg
    refine ⟨⟨Reachable.step _ n _ hW.reach, H.2, hval⟩, ?_⟩
    intro o ho
    have : o = (syncUpstreamCluster lower w.mgr n ((w.lister.unset n).get n)).2 := by
      simp only [evOutcome, World.step, Option.some.injEq] at ho
      exact ho.symm
    rw [this]; exact H.1
  | resync n =>
    have hn : lower n = n := hok
    have H := mirror_sync lower hl w.mgr hW.reach w.lister n hn
      (fun n' s' _ hg => hW.mirror.objs n' s' hg)
      (by
        intro k c hk hcne
        obtain ⟨n', s', h1, h2⟩ := hW.mirror.back k c hk
        have hne : n' ≠ n := by intro e; rw [e] at h2; exact hcne h2.symm
        exact ⟨n', s', hne, h1, h2⟩)
      hW.valid
      (by
        intro s0 hg0 k hk
        right
        obtain ⟨p, ci, hget, hcl, _, _, _, _, hkeys⟩ := (hW.mirror.objs n s0 hg0).served
        obtain ⟨_, hci⟩ := (get_some_iff lower _ _ p ci).1 hget
        rw [clusterAt_of_look ((hkeys k).2 hk) hci, hcl])
    refine ⟨⟨Reachable.step _ n _ hW.reach, H.2, hW.valid⟩, ?_⟩
    intro o ho
    have : o = (syncUpstreamCluster lower w.mgr n (w.lister.get n)).2 := by
      simp only [evOutcome, World.step, Option.some.injEq] at ho
      exact ho.symm
    rw [this]; exact H.1

theorem init_winv : WInv lower World.init := by
  refine ⟨Reachable.init, ⟨?_, ?_⟩, ?_⟩
  · intro n s h; simp [World.init, Lister.get] at h
  · intro k c h; simp [World.init, Mgr.init, clusterAt, Mgr.look, alookup] at h
  · intro n s h; simp [World.init, Lister.get] at h

theorem winv_runEvs (hl : ∀ s, lower (lower s) = lower s) (w : World) (hW : WInv lower w) (evs : List AEv)
    (hadm : Admissible lower w evs) : WInv lower (runEvs lower w evs) := by
  induction evs generalizing w with
  | nil => exact hW
  | cons e rest ih =>
    exact ih _ (admissible_step lower hl w hW e hadm.1).1 hadm.2

/-- **c10_admissible** — for every admissible history: the manager mirrors the lister (every current object is
    applied: served under exactly its names with its TLS material; every served key belongs to a current object),
    hence a request addressed to `H` is served by cluster `c` iff a current object named `c` claims
    `lower (stripPort H)`; and the next admissible event is never refused. -/
theorem c10_admissible (hl : ∀ s, lower (lower s) = lower s) (evs : List AEv)
    (hadm : Admissible lower World.init evs) :
    let w := runEvs lower World.init evs
    Mirror lower w.lister w.mgr ∧
    (∀ H c, (∃ p ci, resolve lower w.mgr H = some (p, ci) ∧ ci.cluster = c) ↔
       ∃ n s, w.lister.get n = some s ∧ lower n = c ∧ lower (hostWithoutPort lower H) ∈ objNames lower c s) ∧
    (∀ e, evOK lower w e → ∀ o, evOutcome lower w e = some o → o.requeue = false) := by
  have hW := winv_runEvs lower hl _ (init_winv lower) evs hadm
  have hI := c10_inv lower hl _ hW.reach
  refine ⟨hW.mirror, ?_, fun e he => (admissible_step lower hl _ hW e he).2⟩
  intro H c
  constructor
  · rintro ⟨p, ci, hr, hcl⟩
    unfold resolve at hr
    obtain ⟨h1, h2⟩ := (get_some_iff lower _ _ p ci).1 hr
    have hk : clusterAt (runEvs lower World.init evs).mgr (lower (hostWithoutPort lower H)) = some c := by
      rw [clusterAt_of_look h1 h2, hcl]
    obtain ⟨n, s, hg, hn⟩ := hW.mirror.back _ c hk
    subst hn
    exact ⟨n, s, hg, rfl, key_of_mirror lower hl _ hW _ n s hg hk⟩
  · rintro ⟨n, s, hg, hn, hmem⟩
    subst hn
    exact (iff_of_applied lower _ hI _ s (hW.mirror.objs n s hg) H).2 hmem

/-! ### the judge the harness evaluates on the real controller's states is implied by the Prop-level statements -/

theorem invB_of_inv (m : Mgr) (h : Inv lower m) : invB lower m = true := by
  unfold invB
  simp only [Bool.and_eq_true, List.all_eq_true, decide_eq_true_eq]
  refine ⟨⟨?_, ?_⟩, ?_⟩
  · intro e _
    split
    · rfl
    · rename_i p hp
      obtain ⟨ci, hci⟩ := h.wf e.1 p hp
      rw [hci]
      simp only [Bool.and_eq_true, decide_eq_true_eq, List.all_eq_true, Bool.not_eq_true', decide_eq_false_iff_not]
      exact ⟨⟨h.mem e.1 p ci hp hci, h.all e.1 p ci hp hci⟩, h.alive e.1 p hp⟩
  · intro ci hci
    obtain ⟨p, _, hp⟩ := List.getElem_of_mem hci
    exact h.low p ci (by rw [List.getElem?_eq_some_iff]; exact ⟨_, hp⟩)
  · intro p hp
    obtain ⟨ci, hci⟩ := h.swf p hp
    exact lt_of_getElem?_some _ _ _ hci

theorem frameB_of_frame (c : Str) (m m' : Mgr) (h : Frame c m m') : frameB c m m' = true := by
  unfold frameB
  simp only [Bool.and_eq_true, List.all_eq_true]
  refine ⟨⟨⟨?_, ?_⟩, ?_⟩, ?_⟩
  · intro e _
    split
    · rfl
    · rename_i p hp
      split
      · rfl
      · rename_i ci hci
        by_cases hc : ci.cluster = c
        · simp [hc]
        · obtain ⟨h1, h2, h3⟩ := h.keep e.1 p ci hp hci hc
          simp [hc, h1, h2, h3]
  · intro e _
    rcases h.only e.1 with h1 | h1 | h1 <;> simp [h1]
  · intro e _
    rcases h.only e.1 with h1 | h1 | h1 <;> simp [h1]
  · intro e _
    split
    · rfl
    · rename_i p hp
      split
      · rfl
      · rename_i ci hci
        by_cases hc : ci.cluster = c
        · simp [hc]
        · obtain ⟨h1, h2⟩ := h.back e.1 p ci hp hci hc
          simp [hc, h1, h2]

theorem unchangedB_of (m m' : Mgr) (h : Unchanged m m') : unchangedB m m' = true := by
  unfold unchangedB
  simp only [Bool.and_eq_true, List.all_eq_true, decide_eq_true_eq, beq_iff_eq]
  refine ⟨⟨⟨fun e _ => h.look e.1, fun e _ => h.look e.1⟩, h.heap⟩, ?_⟩
  intro p _
  exact decide_eq_decide.2 (h.stopped p)

theorem deletedB_of (c : Str) (m m' : Mgr) (h : Deleted lower c m m') : deletedB lower c m m' = true := by
  unfold deletedB
  simp only [Bool.and_eq_true, List.all_eq_true, decide_eq_true_eq]
  refine ⟨fun e _ => h.gone e.1, ?_⟩
  split
  · rename_i p ci hg
    by_cases hc : ci.cluster = c
    · simp [h.stop p ci hg hc]
    · simp [hc]
  · rfl

theorem appliedB_of (c : Str) (spec : Spec) (m' : Mgr) (h : Applied lower c spec m') :
    appliedB lower c spec m' = true := by
  obtain ⟨p, ci, hg, hcl, hnames, hcert, hca, hns, hkeys⟩ := h.served
  unfold appliedB
  rw [hg]
  simp only [Bool.and_eq_true, decide_eq_true_eq, Bool.not_eq_true', decide_eq_false_iff_not, List.all_eq_true,
    Bool.or_eq_true]
  refine ⟨⟨⟨⟨⟨⟨hcl, hnames⟩, hcert⟩, hca⟩, hns⟩, fun k hk => (hkeys k).2 hk⟩, ?_⟩
  intro e _
  by_cases hp : m'.look e.1 = some p
  · right; exact (hkeys e.1).1 hp
  · left; exact hp

theorem stepB_of (c : Str) (latest : Option Spec) (requeued : Bool) (m m' : Mgr)
    (h : StepOK lower c latest requeued m m') : stepB lower c latest requeued m m' = true := by
  unfold StepOK at h
  unfold stepB
  rw [frameB_of_frame c m m' h.1, Bool.true_and]
  cases requeued with
  | true =>
    simp only [if_true] at h ⊢
    exact unchangedB_of m m' h.2
  | false =>
    simp only [Bool.false_eq_true, if_false] at h ⊢
    cases latest with
    | none => exact deletedB_of lower c m m' h.2
    | some spec => exact appliedB_of lower c spec m' h.2

/-- **c10_judge** — the Boolean judge (`invB`, `stepB`: what `C10.judge` evaluates on the states observed on the
    real controller) holds of the model for every history and every event. -/
theorem c10_judge (hl : ∀ s, lower (lower s) = lower s) (m : Mgr) (h : Reachable lower m) (name : Str)
    (latest : Option Spec) :
    invB lower (syncUpstreamCluster lower m name latest).1 = true ∧
    stepB lower (lower name) latest (syncUpstreamCluster lower m name latest).2.requeue m
      (syncUpstreamCluster lower m name latest).1 = true :=
  ⟨invB_of_inv lower _ (c10_inv lower hl _ (Reachable.step m name latest h)),
   stepB_of lower _ _ _ _ _ (c10_step lower hl m h name latest)⟩

theorem mirrorB_of (lister : Lister) (m : Mgr) (h : Mirror lower lister m) : mirrorB lower lister m = true := by
  unfold mirrorB
  simp only [Bool.and_eq_true, List.all_eq_true, Bool.or_eq_true, decide_eq_true_eq]
  refine ⟨?_, ?_⟩
  · intro u _
    by_cases hg : lister.get u.1 = some u.2
    · right; exact appliedB_of lower _ _ _ (h.objs u.1 u.2 hg)
    · left; exact hg
  · intro e _
    split
    · rfl
    · rename_i c hc
      obtain ⟨n, s, hg, hn⟩ := h.back e.1 c hc
      rw [List.any_eq_true]
      refine ⟨(n, s), lister_mem_of_get _ _ _ hg, ?_⟩
      simp [hg, hn]

/-- the judge of admissible histories (`mirrorB`) holds of the model on every admissible history -/
theorem c10_judge_admissible (hl : ∀ s, lower (lower s) = lower s) (evs : List AEv)
    (hadm : Admissible lower World.init evs) :
    mirrorB lower (runEvs lower World.init evs).lister (runEvs lower World.init evs).mgr = true :=
  mirrorB_of lower _ _ (c10_admissible lower hl evs hadm).1

end

/-! ### host and port (ASCII instance of `strings.ToLower`) -/

/-- `asciiLower` satisfies the only hypothesis the theorems make about `strings.ToLower` -/
theorem c10_lower_idem : ∀ s, asciiLower (asciiLower s) = asciiLower s := asciiLower_idem

/-- what `HostWithoutPort` answers only depends on the lower-cased host (case-insensitivity) -/
theorem c10_hostport_case (lower : Str → Str) (H H' : Str) (h : lower H = lower H') :
    hostWithoutPort lower H = hostWithoutPort lower H' := by
  unfold hostWithoutPort; rw [h]

theorem hostWithoutPort_eq (lower : Str → Str) (H : Str) :
    hostWithoutPort lower H = match splitHostPort (lower H) with
      | none => lower H
      | some h => h := rfl

/-- no colon: the whole (lower-cased) string is the host -/
theorem c10_hostport_noport (lower : Str → Str) (H : Str) (h : colon ∉ lower H) :
    hostWithoutPort lower H = lower H := by
  rw [hostWithoutPort_eq, splitHostPort_noport _ h]

/-- `host:port` (no colon or bracket in either part, the port is not inspected): the port is dropped -/
theorem c10_hostport (h p : Str) (h1 : colon ∉ h) (h2 : lbr ∉ h) (h3 : rbr ∉ h)
    (p1 : colon ∉ p) (p2 : lbr ∉ p) (p3 : rbr ∉ p) :
    hostWithoutPort asciiLower (h ++ colon :: p) = asciiLower h := by
  rw [hostWithoutPort_eq]
  have e : asciiLower (h ++ colon :: p) = asciiLower h ++ colon :: asciiLower p := by
    simp [asciiLower, lowerByte, colon]
  rw [e, splitHostPort_plain]
  · exact fun x => h1 ((mem_asciiLower_special colon (Or.inl rfl) h).1 x)
  · exact fun x => h2 ((mem_asciiLower_special lbr (Or.inr (Or.inl rfl)) h).1 x)
  · exact fun x => h3 ((mem_asciiLower_special rbr (Or.inr (Or.inr rfl)) h).1 x)
  · exact fun x => p1 ((mem_asciiLower_special colon (Or.inl rfl) p).1 x)
  · exact fun x => p2 ((mem_asciiLower_special lbr (Or.inr (Or.inl rfl)) p).1 x)
  · exact fun x => p3 ((mem_asciiLower_special rbr (Or.inr (Or.inr rfl)) p).1 x)

/-- `[host]:port` (the host may contain colons): brackets and port are dropped -/
theorem c10_hostport_bracket (h p : Str) (h2 : lbr ∉ h) (h3 : rbr ∉ h)
    (p1 : colon ∉ p) (p2 : lbr ∉ p) (p3 : rbr ∉ p) :
    hostWithoutPort asciiLower (lbr :: h ++ rbr :: colon :: p) = asciiLower h := by
  rw [hostWithoutPort_eq]
  have e : asciiLower (lbr :: h ++ rbr :: colon :: p) = lbr :: asciiLower h ++ rbr :: colon :: asciiLower p := by
    simp [asciiLower, lowerByte, colon, lbr, rbr]
  rw [e, splitHostPort_bracket]
  · exact fun x => h2 ((mem_asciiLower_special lbr (Or.inr (Or.inl rfl)) h).1 x)
  · exact fun x => h3 ((mem_asciiLower_special rbr (Or.inr (Or.inr rfl)) h).1 x)
  · exact fun x => p1 ((mem_asciiLower_special colon (Or.inl rfl) p).1 x)
  · exact fun x => p2 ((mem_asciiLower_special lbr (Or.inr (Or.inl rfl)) p).1 x)
  · exact fun x => p3 ((mem_asciiLower_special rbr (Or.inr (Or.inr rfl)) p).1 x)

/-- **c10_iff_port** — for an applied cluster: `h`, any case variant of it, and `h:port` are served by it exactly
    when the lower-cased `h` is one of the names its object claims. -/
theorem c10_iff_port (m : Mgr) (hI : Inv asciiLower m) (c : Str) (spec : Spec) (ha : Applied asciiLower c spec m)
    (h p : Str) (h1 : colon ∉ h) (h2 : lbr ∉ h) (h3 : rbr ∉ h) (p1 : colon ∉ p) (p2 : lbr ∉ p) (p3 : rbr ∉ p) :
    ((∃ q ci, resolve asciiLower m (h ++ colon :: p) = some (q, ci) ∧ ci.cluster = c) ↔
      asciiLower h ∈ objNames asciiLower c spec) ∧
    ((∃ q ci, resolve asciiLower m h = some (q, ci) ∧ ci.cluster = c) ↔
      asciiLower h ∈ objNames asciiLower c spec) := by
  refine ⟨?_, ?_⟩
  · rw [iff_of_applied asciiLower m hI c spec ha, c10_hostport h p h1 h2 h3 p1 p2 p3, asciiLower_idem]
  · rw [iff_of_applied asciiLower m hI c spec ha,
      c10_hostport_noport asciiLower h (fun x => h1 ((mem_asciiLower_special colon (Or.inl rfl) h).1 x)),
      asciiLower_idem]

/-! ### what the sequential model relies on implicitly (facts regenerated from /repo on every run) -/

/-- **c10_wiring_facts** — semantic, three-valued facts (`none` = the extractor does not understand the code; then
    the behavioural streams of the harness are the tie: race cases count handler invocations in flight and judge the
    invariants, auth cases run the shipped wiring with and without --client-ca-file).
    (1) the worker count the controller passes to its queue, executed through `SyncQueue.Run`, starts exactly ONE
    worker: the handler invocations of a gateway form a sequence, which is what `Reachable` and every theorem above
    quantify over (two concurrent invocations for colliding names can both pass the conflict checks);
    (2) `ToAuthenticationConfig` does not make the SNI verify-options provider conditional on the control plane's
    client-cert configuration, so `proxyAuthenticate … (sniInstalled := true)` is what the shipped proxy builds with
    AND without a control-plane client CA (`c10_auth_applied`);
    (3) a handler result that asks for a requeue (a refused name conflict) is re-delivered for ever — nothing feeds
    the counter `MaxRequeueTimes` is compared with: a refused cluster is looked at again after the conflict ends
    (then `c10_refused_iff` applies it); nothing else would ever trigger it. -/
theorem c10_wiring_facts :
    (KG.Gen.C10.workersStarted = some 1 ∨ KG.Gen.C10.workersStarted = none) ∧
    KG.Gen.C10.sniProviderWithoutControlPlaneCA ≠ some false ∧
    KG.Gen.C10.requeueAfterCounted ≠ some true := by decide

/-! ### non-vacuity: the hypotheses of the theorems are satisfied by concrete, non-trivial histories -/

section NonVacuous
def sA : Str := [97, 46, 101]      -- "a.e"
def sB : Str := [98, 46, 101]      -- "b.e"
def sX : Str := [88, 46, 69]       -- "X.E"
def sx : Str := [120, 46, 101]     -- "x.e"
def sXport : Str := [88, 46, 69, 58, 52, 52, 51]   -- "X.E:443"

/-- A{x} created, B{X} refused (conflict), A drops x, B retried and applied, A deleted -/
def demoCalls : List (Str × Option Spec) :=
  [ (sA, some { aliases := [sX], cert := some 1, ca := some 1, bad := false }),
    (sB, some { aliases := [sx], cert := some 2, ca := none, bad := false }),
    (sA, some { aliases := [], cert := some 1, ca := some 1, bad := false }),
    (sB, some { aliases := [sx], cert := some 2, ca := none, bad := false }),
    (sA, none) ]

-- the second event is refused, the fourth (same object) is applied: `happ` of `c10_iff` is satisfiable after a
-- non-trivial prefix, and the continuation (an event for another cluster) satisfies `hothers`
example : (syncUpstreamCluster asciiLower (runCalls asciiLower Mgr.init (demoCalls.take 1)) sB
    (some { aliases := [sx], cert := some 2, ca := none, bad := false })).2 = .refused := by decide
example : (syncUpstreamCluster asciiLower (runCalls asciiLower Mgr.init (demoCalls.take 3)) sB
    (some { aliases := [sx], cert := some 2, ca := none, bad := false })).2.requeue = false := by decide
example : ∀ call ∈ demoCalls.drop 4, asciiLower call.1 ≠ asciiLower sB := by decide
-- in the final state X.E:443 is served by b.example with B's certificate
example : (resolve asciiLower (runCalls asciiLower Mgr.init demoCalls) sXport).map (·.2.cluster)
    = some sB := by decide
example : (wrapGetConfigForClient asciiLower (runCalls asciiLower Mgr.init demoCalls)
    { cert := some 100, ca := some 200, requestClientCert := false } sX []).cert = some 2 := by decide
-- the Boolean judge is not trivially true: it rejects a state in which a key resolves to a cluster that does not list it
def strayKey : Mgr :=
  { heap := [({ cluster := sA, aliases := [], cert := none, ca := none } : CI)], stopped := [],
    map := [(sA, 0), (sx, 0)] }
example : invB asciiLower strayKey = false := by decide
-- an update that drops a server name performs exactly one manager write (the Delete of that name) …
example : (syncTrace asciiLower (runCalls asciiLower Mgr.init (demoCalls.take 1)) sA
    (some { aliases := [], cert := some 1, ca := some 1, bad := false })).length = 1 := by decide
-- … and the mid-event judge rejects an intermediate state in which the kept cluster name is missing
example : midB (runCalls asciiLower Mgr.init (demoCalls.take 1))
    (syncUpstreamCluster asciiLower (runCalls asciiLower Mgr.init (demoCalls.take 1)) sA
      (some { aliases := [], cert := some 1, ca := some 1, bad := false })).1
    { (runCalls asciiLower Mgr.init (demoCalls.take 1)) with map := [] } = false := by decide
-- an admissible history: A{x}, B{}, A drops x, B takes x, A deleted
example : Admissible asciiLower World.init
    [ .apply sA { aliases := [sX], cert := some 1, ca := none, bad := false },
      .apply sB { aliases := [], cert := none, ca := none, bad := false },
      .apply sA { aliases := [], cert := some 1, ca := none, bad := false },
      .apply sB { aliases := [sx], cert := none, ca := some 2, bad := false },
      .delete sA, .resync sB ] := by
  simp only [Admissible, evOK]
  decide
-- and an inadmissible write is recognised: B claiming x while A holds X.Example
example : pluginAdmits asciiLower [(sA, { aliases := [sX], cert := none, ca := none, bad := false })] sB
    { aliases := [sx], cert := none, ca := none, bad := false } = false := by decide
end NonVacuous

end KG.Props.C10
