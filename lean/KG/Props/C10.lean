import KG.Lemmas.Names
/-!
# C10 — Tenant resolution: a host resolves to at most one cluster, and the right one

Model: `KG.Model.Names` (the manager, the controller's queue handler `syncUpstreamCluster` as it is after the
fixes dfb1dc5 / 9025070, host extraction, the TLS wrappers, the admission plug-in's conflict rule).
Predicates: `KG.Spec.Names`.

`lower` stands for `strings.ToLower`; the only fact used about it is idempotence (`hl`).
A *history* is an arbitrary list of handler invocations `(obj.Name, what the lister answers for it)`, i.e. every
interleaving of creates, updates, deletes, retries and superseded (requeued) events the queue can produce.
All theorems quantify over every history (`Reachable`).
-/
namespace KG.Props.C10
open KG KG.Model.Names KG.Spec.Names KG.Lemmas.Names

section
variable (lower : Str → Str)

/-- states the controller can be in: any sequence of handler invocations from the empty manager -/
inductive Reachable : Mgr → Prop
  | init : Reachable Mgr.init
  | step (m : Mgr) (name : Str) (latest : Option Spec) :
      Reachable m → Reachable (syncUpstreamCluster lower m name latest).1

theorem reachable_runCalls (m : Mgr) (h : Reachable lower m) (calls : List (Str × Option Spec)) :
    Reachable lower (runCalls lower m calls) := by
  induction calls generalizing m with
  | nil => exact h
  | cons c rest ih =>
    obtain ⟨n, l⟩ := c
    exact ih _ (Reachable.step m n l h)

theorem init_inv : Inv lower Mgr.init := by
  refine ⟨?_, ?_, ?_, ?_, ?_, ?_⟩ <;> intros <;> simp_all [Mgr.init, Mgr.look, alookup]

/-- one handler invocation preserves the invariant -/
theorem inv_step (hl : ∀ s, lower (lower s) = lower s) (m : Mgr) (hI : Inv lower m) (name : Str)
    (latest : Option Spec) : Inv lower (syncUpstreamCluster lower m name latest).1 := by
  have hc : lower (lower name) = lower name := hl name
  cases sync_char lower hl m hI name latest with
  | requeue _ h => rw [h]; exact hI
  | deleted _ _ h => exact inv_of_deleted lower hI h
  | applied spec _ _ _ h => exact inv_of_applied lower hl hc hI h

/-- **c10_inv** — for every history: (ii) a key that resolves to a cluster is one of its current server
    names, (iii) every current server name of a served cluster resolves to it, no dangling or stopped
    `ClusterInfo` is served. -/
theorem c10_inv (hl : ∀ s, lower (lower s) = lower s) (m : Mgr) (h : Reachable lower m) : Inv lower m := by
  induction h with
  | init => exact init_inv lower
  | step m name latest _ ih => exact inv_step lower hl m ih name latest

/-- **c10_function** (i) — each name resolves to at most one `ClusterInfo`, and each cluster name is served by at
    most one `ClusterInfo`: two keys that resolve to `ClusterInfo`s of the same cluster resolve to the same one. -/
theorem c10_function (hl : ∀ s, lower (lower s) = lower s) (m : Mgr) (h : Reachable lower m) :
    (∀ k p q, m.look k = some p → m.look k = some q → p = q) ∧
    (∀ k k' c, clusterAt m k = some c → clusterAt m k' = some c → m.look k = m.look k') := by
  refine ⟨?_, ?_⟩
  · intro k p q hp hq
    rw [hp] at hq; cases hq; rfl
  · intro k k' c h1 h2
    exact owner_unique lower (c10_inv lower hl m h) h1 h2

/-- **c10_step** — the obligations of every handler invocation, from every reachable state:
    `Frame` (names of other clusters are neither captured nor removed nor re-pointed, their `ClusterInfo` is
    untouched), and: a refused/failed event (requeue) changes nothing; a delete event leaves no key resolving to the
    cluster and stops its `ClusterInfo`; an applied event makes exactly the object's names resolve to a running
    `ClusterInfo` carrying the object's names and TLS material. -/
theorem c10_step (hl : ∀ s, lower (lower s) = lower s) (m : Mgr) (h : Reachable lower m) (name : Str)
    (latest : Option Spec) :
    StepOK lower (lower name) latest (syncUpstreamCluster lower m name latest).2.requeue m
      (syncUpstreamCluster lower m name latest).1 := by
  have hI := c10_inv lower hl m h
  have hc : lower (lower name) = lower name := hl name
  unfold StepOK
  cases sync_char lower hl m hI name latest with
  | requeue hr he =>
    rw [hr, he]
    refine ⟨⟨?_, ?_⟩, ?_⟩
    · intro k p ci hp hci _
      exact ⟨hp, hci, Iff.rfl⟩
    · intro k; exact Or.inl rfl
    · simp only [if_true]
      exact ⟨fun _ => rfl, rfl, fun _ => Iff.rfl⟩
  | deleted ho hlat hd =>
    subst hlat
    rw [ho]
    refine ⟨frame_of_deleted hd, ?_⟩
    simp only [Outcome.requeue, Bool.false_eq_true, if_false]
    exact deleted_of_char lower hc hd
  | applied spec hr hlat _ ha =>
    subst hlat
    rw [hr]
    refine ⟨frame_of_applied lower ha, ?_⟩
    simp only [Bool.false_eq_true, if_false]
    exact applied_of_char lower hc ha

/-- **c10_frame** — an event for cluster `C` never changes what a name held by another cluster `C' ≠ C`
    resolves to (no capture, no removal), nor that cluster's `ClusterInfo`. -/
theorem c10_frame (hl : ∀ s, lower (lower s) = lower s) (m : Mgr) (h : Reachable lower m) (name : Str)
    (latest : Option Spec) (k : Str) (p : Nat) (ci : CI)
    (hk : m.look k = some p) (hci : m.heap[p]? = some ci) (hne : ci.cluster ≠ lower name) :
    let m' := (syncUpstreamCluster lower m name latest).1
    m'.look k = some p ∧ m'.heap[p]? = some ci ∧ (p ∈ m'.stopped ↔ p ∈ m.stopped) :=
  (c10_step lower hl m h name latest).1.keep k p ci hk hci hne

/-- **c10_refused_unchanged** — an event the handler refuses (name conflict) or fails on (requeue) changes nothing. -/
theorem c10_refused_unchanged (hl : ∀ s, lower (lower s) = lower s) (m : Mgr) (h : Reachable lower m) (name : Str)
    (latest : Option Spec) (hr : (syncUpstreamCluster lower m name latest).2.requeue = true) :
    (syncUpstreamCluster lower m name latest).1 = m := by
  have hI := c10_inv lower hl m h
  cases sync_char lower hl m hI name latest with
  | requeue _ he => exact he
  | deleted ho _ _ => rw [ho] at hr; cases hr
  | applied _ hr' _ _ _ => rw [hr'] at hr; cases hr

/-- **c10_delete** — after a delete event for `C` no key resolves to `C`, whatever host is asked. -/
theorem c10_delete (hl : ∀ s, lower (lower s) = lower s) (m : Mgr) (h : Reachable lower m) (name : Str) :
    let m' := (syncUpstreamCluster lower m name none).1
    (∀ k, clusterAt m' k ≠ some (lower name)) ∧
    (∀ H p ci, resolve lower m' H = some (p, ci) → ci.cluster ≠ lower name) := by
  have hs := c10_step lower hl m h name none
  have hd : Deleted lower (lower name) m (syncUpstreamCluster lower m name none).1 := by
    have := hs.2
    simpa [syncUpstreamCluster, Outcome.requeue] using this
  refine ⟨hd.gone, ?_⟩
  intro H p ci hr hcl
  unfold resolve at hr
  obtain ⟨h1, h2⟩ := (get_some_iff lower _ _ p ci).1 hr
  have := clusterAt_of_look h1 h2
  rw [hcl] at this
  exact hd.gone _ this

/-- a creation or update is refused exactly when one of the names it claims is held by another cluster, or
    `Sync` fails on it -/
theorem c10_refused_iff (hl : ∀ s, lower (lower s) = lower s) (m : Mgr) (h : Reachable lower m) (name : Str)
    (spec : Spec)
    (hfree : ∀ k ∈ objNames lower (lower name) spec, clusterAt m k = none ∨ clusterAt m k = some (lower name))
    (hb : spec.bad = false) :
    (syncUpstreamCluster lower m name (some spec)).2.requeue = false := by
  have hI := c10_inv lower hl m h
  have hc : lower (lower name) = lower name := hl name
  -- the pre-check passes
  have hchk : checkUpstreamServerNameConflict lower m (lower name) spec = false := by
    have hnew : ∀ n ∈ objNames lower (lower name) spec, m.heldByOther lower n (lower name) = false := by
      intro n hn
      cases hh : m.heldByOther lower n (lower name) with
      | false => rfl
      | true =>
        exfalso
        obtain ⟨c', h1, h2⟩ := (heldByOther_iff lower m n (lower name)).1 hh
        rw [objNames_lower lower hl _ hc spec n hn] at h1
        rcases hfree n hn with h3 | h3
        · rw [h1] at h3; cases h3
        · rw [h1] at h3; cases h3; exact h2 rfl
    unfold checkUpstreamServerNameConflict
    simp only
    cases hg : m.get lower (lower name) with
    | none =>
      simp only
      exact noconflict_of_free lower m _ _ _ hnew (fun o ho => by cases ho)
    | some pi =>
      obtain ⟨p, info⟩ := pi
      simp only
      apply noconflict_of_free lower m _ _ _ hnew
      intro o ho _
      cases hh : m.heldByOther lower o (lower name) with
      | false => rfl
      | true =>
        exfalso
        obtain ⟨c', h1, h2⟩ := (heldByOther_iff lower m o (lower name)).1 hh
        -- o is a current name of the ClusterInfo that serves `lower name`
        obtain ⟨hp, hci⟩ := (get_some_iff lower m _ p info).1 hg
        have hlow := names_lower lower hl info (hI.low p info hci) o ho
        rw [hlow] at h1
        have hop := hI.all _ p info hp hci o ho
        have hcl := clusterAt_of_look hop hci
        -- the cluster serving `lower name` is `lower name` itself, because `lower name` is one of the new names
        have hcn : clusterAt m (lower name) = some info.cluster := by
          rw [hc] at hp; exact clusterAt_of_look hp hci
        rcases hfree (lower name) (by simp [objNames]) with h3 | h3
        · rw [hcn] at h3; cases h3
        · rw [hcn] at h3
          rw [hcl, h3] at h1
          cases h1; exact h2 rfl
  cases hsc : sync_char lower hl m hI name (some spec) with
  | requeue hr he =>
    -- impossible: the pre-check passes and the object is not bad
    exfalso
    unfold syncUpstreamCluster at hr
    simp only [hchk, Bool.false_eq_true, if_false] at hr
    cases hg : m.get lower (lower name) with
    | none =>
      rw [hg] at hr
      simp only [hb, Bool.false_eq_true, if_false] at hr
      obtain ⟨m2, hm2, _⟩ := create_char lower hl m hI (lower name) hc spec hg hchk
      rw [hm2] at hr
      cases hr
    | some pi =>
      obtain ⟨p, info⟩ := pi
      rw [hg] at hr
      obtain ⟨hcl, m2, hm2, _⟩ := update_char lower hl m hI (lower name) hc spec p info hg hchk
      simp only [hcl, ne_eq, not_true_eq_false, if_false, hb, Bool.false_eq_true] at hr
      rw [hm2] at hr
      cases hr
  | deleted _ hlat _ => cases hlat
  | applied _ hr _ _ _ => exact hr

/-! ### the `iff` of the property statement -/

/-- a cluster whose latest object was applied stays applied while only events for OTHER clusters are processed -/
theorem applied_preserved (m m' : Mgr) (hI' : Inv lower m') (c c' : Str) (hne : c ≠ c') (hc : lower c = c)
    (spec : Spec) (hf : Frame c' m m') (ha : Applied lower c spec m) : Applied lower c spec m' := by
  obtain ⟨p, ci, hg, hcl, hnames, hcert, hca, hns, hkeys⟩ := ha.served
  obtain ⟨hp, hci⟩ := (get_some_iff lower m c p ci).1 hg
  obtain ⟨hp', hci', hst⟩ := hf.keep _ p ci hp hci (by rw [hcl]; exact hne)
  refine ⟨⟨p, ci, (get_some_iff lower m' c p ci).2 ⟨hp', hci'⟩, hcl, hnames, hcert, hca, ?_, ?_⟩⟩
  · intro h; exact hns (hst.1 h)
  · intro k
    rw [← hnames]
    constructor
    · intro hk; exact hI'.mem k p ci hk hci'
    · intro hk; exact hI'.all _ p ci hp' hci' k hk

/-- **c10_iff (state form)** — in a state in which cluster `c` is applied with object `spec`: host `H` is served
    by `c` if and only if `lower (stripPort H)` is `c`'s name or one of the object's (lower-cased) server names. -/
theorem iff_of_applied (m : Mgr) (hI : Inv lower m) (c : Str) (spec : Spec) (ha : Applied lower c spec m)
    (H : Str) :
    (∃ p ci, resolve lower m H = some (p, ci) ∧ ci.cluster = c) ↔
      lower (hostWithoutPort lower H) ∈ objNames lower c spec := by
  obtain ⟨p, ci, hg, hcl, hnames, _, _, _, hkeys⟩ := ha.served
  obtain ⟨hp, hci⟩ := (get_some_iff lower m c p ci).1 hg
  unfold resolve
  constructor
  · rintro ⟨q, ci', hr, hcl'⟩
    obtain ⟨h1, h2⟩ := (get_some_iff lower m _ q ci').1 hr
    have e := owner_unique lower hI (clusterAt_of_look h1 h2) (by rw [hcl', ← hcl]; exact clusterAt_of_look hp hci)
    rw [h1, hp] at e
    cases e
    exact (hkeys _).1 h1
  · intro hk
    exact ⟨p, ci, (get_some_iff lower m _ p ci).2 ⟨(hkeys _).2 hk, hci⟩, hcl⟩

/-- **c10_iff** — for EVERY history `calls1`, every object applied for `name` after it (the handler did not ask
    for a requeue), and every continuation `calls2` made of events for other clusters (creates, updates, deletes,
    conflicting or not, with names that overlap, collide, vary in case or move): a request addressed to `H` is
    served by that cluster iff `H` equals, case-insensitively and ignoring the port, its name or one of the
    object's server names; and the serving `ClusterInfo` carries the object's TLS material. -/
theorem c10_iff (hl : ∀ s, lower (lower s) = lower s) (calls1 calls2 : List (Str × Option Spec)) (name : Str)
    (spec : Spec)
    (happ : (syncUpstreamCluster lower (runCalls lower Mgr.init calls1) name (some spec)).2.requeue = false)
    (hothers : ∀ call ∈ calls2, lower call.1 ≠ lower name) :
    let m := runCalls lower (syncUpstreamCluster lower (runCalls lower Mgr.init calls1) name (some spec)).1 calls2
    Applied lower (lower name) spec m ∧
    ∀ H, (∃ p ci, resolve lower m H = some (p, ci) ∧ ci.cluster = lower name) ↔
      lower (hostWithoutPort lower H) ∈ objNames lower (lower name) spec := by
  have hc : lower (lower name) = lower name := hl name
  have hr1 := reachable_runCalls lower _ (Reachable.init) calls1
  have hs := c10_step lower hl _ hr1 name (some spec)
  rw [happ] at hs
  have ha0 : Applied lower (lower name) spec
      (syncUpstreamCluster lower (runCalls lower Mgr.init calls1) name (some spec)).1 := by
    have := hs.2
    simpa using this
  have hr2 : Reachable lower (syncUpstreamCluster lower (runCalls lower Mgr.init calls1) name (some spec)).1 :=
    Reachable.step _ name (some spec) hr1
  -- generalise over the state reached so far
  suffices key : ∀ (calls : List (Str × Option Spec)) (m0 : Mgr), Reachable lower m0 →
      Applied lower (lower name) spec m0 → (∀ call ∈ calls, lower call.1 ≠ lower name) →
      Reachable lower (runCalls lower m0 calls) ∧ Applied lower (lower name) spec (runCalls lower m0 calls) by
    obtain ⟨hr3, ha3⟩ := key calls2 _ hr2 ha0 hothers
    exact ⟨ha3, iff_of_applied lower _ (c10_inv lower hl _ hr3) _ spec ha3⟩
  intro calls
  induction calls with
  | nil => intro m0 h1 h2 _; exact ⟨h1, h2⟩
  | cons call rest ih =>
    intro m0 h1 h2 h3
    obtain ⟨n, l⟩ := call
    have hn : lower n ≠ lower name := h3 (n, l) (by simp)
    have hstep := c10_step lower hl m0 h1 n l
    have hr' : Reachable lower (syncUpstreamCluster lower m0 n l).1 := Reachable.step m0 n l h1
    have ha' := applied_preserved lower m0 _ (c10_inv lower hl _ hr') (lower name) (lower n)
      (fun e => hn e.symm) hc spec hstep.1 h2
    exact ih _ hr' ha' (fun call hmem => h3 call (List.mem_cons_of_mem _ hmem))

/-! ### TLS material follows the resolution -/

/-- **c10_tls** — in every state, `WrapGetConfigForClient` answers with the material of the cluster the SNI
    (or, without SNI, the local IP) resolves to and with the base configuration when there is none;
    `SNIVerifyOptions` answers with the client-CA options of the cluster the request host resolves to. -/
theorem c10_tls (m : Mgr) (base : TLS) (sni localAddr host : Str) :
    wrapGetConfigForClient lower m base sni localAddr =
      (match (if sni.isEmpty then splitHostPort localAddr else some sni) with
       | none => base
       | some hostname => tlsSpec lower m base hostname) ∧
    sniVerifyOptions lower m host = verifySpec lower m host := by
  refine ⟨?_, ?_⟩
  · unfold wrapGetConfigForClient tlsSpec
    simp only
    cases (if sni.isEmpty then splitHostPort localAddr else some sni) with
    | none => rfl
    | some hostname =>
      simp only
      cases m.get lower hostname with
      | none => rfl
      | some pi =>
        obtain ⟨p, ci⟩ := pi
        simp only [loadTLSConfig]
        cases hcert : ci.cert <;> cases hca : ci.ca <;> simp
  · unfold sniVerifyOptions verifySpec resolve loadVerifyOptions
    cases m.get lower (hostWithoutPort lower host) with
    | none => rfl
    | some pi => rfl

/-- **c10_tls_applied** — for a cluster applied with object `spec` (in particular after every history of the form
    of `c10_iff`): a handshake whose SNI is one of its names gets the object's serving certificate and client-CA
    pool (the base ones where the object sets none), and the verify options for such a host are the object's. -/
theorem c10_tls_applied (m : Mgr) (c : Str) (spec : Spec) (ha : Applied lower c spec m) (base : TLS)
    (sni localAddr : Str) (hne : sni.isEmpty = false) (hs : lower sni ∈ objNames lower c spec) :
    wrapGetConfigForClient lower m base sni localAddr =
      (if spec.cert = none ∧ spec.ca = none then base
       else { cert := if spec.cert = none then base.cert else spec.cert,
              ca := if spec.ca = none then base.ca else spec.ca,
              requestClientCert := if spec.ca = none then base.requestClientCert else true }) := by
  obtain ⟨p, ci, _, _, _, hcert, hca, _, hkeys⟩ := ha.served
  obtain ⟨_, hci⟩ := (get_some_iff lower m c p ci).1 (by assumption)
  have hg : m.get lower sni = some (p, ci) := (get_some_iff lower m sni p ci).2 ⟨(hkeys _).2 hs, hci⟩
  rw [(c10_tls lower m base sni localAddr sni).1, hne]
  simp only [Bool.false_eq_true, if_false]
  unfold tlsSpec
  rw [hg]
  simp only
  rw [hcert, hca]

theorem c10_verify_applied (m : Mgr) (hI : Inv lower m) (c : Str) (spec : Spec) (ha : Applied lower c spec m)
    (host : Str) (hs : lower (hostWithoutPort lower host) ∈ objNames lower c spec) :
    sniVerifyOptions lower m host = spec.ca := by
  obtain ⟨p, ci, hres, _⟩ := (iff_of_applied lower m hI c spec ha host).2 hs
  obtain ⟨p', ci', hg', _, _, _, hca, _, hkeys⟩ := ha.served
  rw [(c10_tls lower m { cert := none, ca := none, requestClientCert := false } [] [] host).2]
  unfold verifySpec
  rw [hres]
  simp only
  -- the resolved ClusterInfo is the applied one
  unfold resolve at hres
  obtain ⟨h1, h2⟩ := (get_some_iff lower m _ p ci).1 hres
  obtain ⟨h1', h2'⟩ := (get_some_iff lower m c p' ci').1 hg'
  have := (hkeys _).2 hs
  rw [h1] at this
  cases this
  rw [h2] at h2'
  cases h2'
  exact hca

/-- a host that resolves to no cluster gets the base configuration and no verify options -/
theorem c10_tls_unserved (m : Mgr) (base : TLS) (sni localAddr : Str) (hne : sni.isEmpty = false)
    (hg : m.get lower sni = none) : wrapGetConfigForClient lower m base sni localAddr = base := by
  rw [(c10_tls lower m base sni localAddr sni).1, hne]
  simp only [Bool.false_eq_true, if_false]
  unfold tlsSpec
  rw [hg]

end
end KG.Props.C10
