import KG.Lemmas.MaxInflight
import KG.Lemmas.LocalLimiter
/-!
# C05 — Local max-in-flight: never more than M admitted and unfinished; slots never leak

Three layers (DESIGN.md §5 C05), all about the tree after `fix: hand requests the limiter in force …`:

(a) `KG.Model.MaxInflight` — the lock-free counter of the dependency, one step per atomic operation,
    any number of threads, **every interleaving** (`Reachable` = reachable by some schedule).
(b) `KG.Model.LocalLimiter` — `upstreamLimiter` / `FlowControlCache` / `localWrapper.Sync` over **every
    history** of reconfigurations, arrivals and completions; the property is the judge
    `KG.Spec.LocalLimiter.judge` (what the harness also evaluates on the real code's answers).
(c) `dispatcher.ServeHTTP`, abstracted statement by statement from the current source
    (`KG.Gen.C05.serveHTTP`): the slot is given back exactly once on **every way out**.
-/
namespace KG.Props.C05
open KG

/-! ## (a) the counter, every interleaving -/
section counter
open KG.Model.MaxInflight KG.Lemmas.MaxInflight

/-- The counter is exactly the requests admitted and unfinished plus the overshoots about to be rolled back;
    it is never negative. -/
theorem c05_counter_inv {s : Sys} (h : Reachable s) :
    s.count = s.holders.length + s.pending.length ∧ 0 ≤ s.count :=
  ⟨(inv_reachable h).cnt, count_nonneg (inv_reachable h)⟩

/-- The branches that would lose or invent slots are unreachable for well-formed clients: no thread is
    ever at the CAS or at the clamp-to-zero store, and a holder that starts `Release` never takes the
    `if f.count <= 0 { return }` exit (which would keep its slot for ever). -/
theorem c05_leak_paths_unreachable {s : Sys} (h : Reachable s) (t : Tid) :
    s.pc t ≠ .rel2 ∧ (∀ c0 m, s.pc t ≠ .cas c0 m) ∧ (s.pc t = .holding → 0 < s.count) := by
  have hi := inv_reachable h
  refine ⟨hi.noRel2 t, hi.noCas t, ?_⟩
  intro hpc
  have hh : t ∈ s.holders := (hi.hold t).2 (Or.inl hpc)
  have := List.length_pos_of_mem hh
  have := hi.cnt
  omega

/-- **Bound at every admission**: the step that admits is the `Add(+1)` of a thread that loaded `m` as the
    limit in this very call, and right after it at most `m` requests are admitted and unfinished. -/
theorem c05_bound {s : Sys} (h : Reachable s) (t : Tid) (hadm : (stepThread s t).2 = .admitted) :
    ∃ m : Int, s.pc t = .adding m ∧ ((stepThread s t).1.holders.length : Int) ≤ m := by
  obtain ⟨m, h1, h2, _⟩ := admit_bound (inv_reachable h) t hadm
  exact ⟨m, h1, h2⟩

/-- With a limit that never exceeds `M` (constant, or resized to values `≤ M`), at no instant are more
    than `M` requests admitted and unfinished — for every schedule. -/
theorem c05_bound_max (M : Nat) (es : List Ev) (hr : ResizesLe M es) :
    (run (init M) es).holders.length ≤ M :=
  bound_run (inv_init M) (cap_init M) (by simp [init]) es hr

/-- **Resize semantics**: once the limit is `M'`, a `TryAcquire` that starts afterwards (thread `t` is not
    inside a call) admits only if at most `M'` are then in flight, however the other threads — including
    those that loaded the old limit — interleave. -/
theorem c05_resize {s : Sys} (h : Reachable s) (M' : Nat) (t : Tid) (hidle : s.pc t = .idle ∨ s.pc t = .holding)
    (es : List Ev) (hn : NoResize es) : AdmitsWithin M' t (step s (.resize M')).1 es := by
  have hi : SInv (step s (.resize M')).1 := inv_step (inv_reachable h) _
  refine resize_run hi ⟨rfl, ?_⟩ es hn
  intro m hm
  have : s.pc t = .adding m := hm
  rcases hidle with h1 | h1 <;> rw [h1] at this <;> cases this

/-- **No leak**: whenever no thread is inside a call the counter equals the number of requests in flight … -/
theorem c05_no_leak {s : Sys} (h : Reachable s) (hq : Quiescent s) : s.count = s.holders.length :=
  quiescent_count (inv_reachable h) hq

/-- … so a request arriving then is admitted **iff** fewer than `max` are in flight: after all requests
    have finished, exactly `max` new ones are admitted again. The complete call is the sequential
    `Counter.tryAcquire` that layer (b) uses. -/
theorem c05_refill {s : Sys} (h : Reachable s) (hq : Quiescent s) (t : Tid) (hpc : s.pc t = .idle) :
    (runCall s t 4).2 = (if s.holders.length < s.max then Out.admitted else Out.rejected) ∧
    (runCall s t 4).2 = (if (Counter.tryAcquire ⟨s.count, s.max⟩).2 then Out.admitted else Out.rejected) ∧
    (runCall s t 4).1.count = (Counter.tryAcquire ⟨s.count, s.max⟩).1.count := by
  have hi := inv_reachable h
  have hc := quiescent_count hi hq
  have h0 := count_nonneg hi
  obtain ⟨h1, _, h3, _⟩ := runCall_tryAcquire hi t hpc
  refine ⟨?_, h3, h1⟩
  rw [h3]
  have hlt : ¬ s.count < 0 := by omega
  simp only [Counter.tryAcquire, hlt, if_false]
  by_cases hfull : s.count ≥ (s.max : Int)
  · have : ¬ s.holders.length < s.max := by omega
    simp [hfull, this]
  · have h1 : ¬ s.count + 1 > (s.max : Int) := by omega
    have : s.holders.length < s.max := by omega
    simp [hfull, h1, this]

/-- A holder's complete `Release` gives exactly its own slot back. -/
theorem c05_release_gives_back {s : Sys} (h : Reachable s) (t : Tid) (hpc : s.pc t = .holding) :
    (runCall s t 3).1.count = s.count - 1 ∧ (runCall s t 3).1.holders = s.holders.erase t ∧
    (runCall s t 3).2 = .released := by
  obtain ⟨h1, _, _, h4, h5, _⟩ := runCall_release (inv_reachable h) t hpc
  exact ⟨h1, h5, h4⟩

/-- **Concurrency and reconfiguration together**: take any number of limiter objects (one per schema
    generation: a type change, deletion or re-addition makes later requests use another object, a resize acts
    on the same object) and any interleaving of atomic steps of any number of requests on the objects they
    hold with any resizes. Every object is, at every instant, in a state reachable by its own schedule — so
    all of the above holds for each of them — and if the limits configured for object `o` never exceed `M`,
    never more than `M` requests admitted by `o` are unfinished. -/
theorem c05_bound_every_limiter (maxOf : Nat → Nat) (es : List (Nat × Ev)) (o : Nat) :
    Reachable ((Heap.run (Heap.init maxOf) es).objs o) ∧
    ∀ M, maxOf o ≤ M → ResizesLe M (eventsOf o es) →
      ((Heap.run (Heap.init maxOf) es).objs o).holders.length ≤ M := by
  rw [heap_run_proj]
  refine ⟨⟨maxOf o, eventsOf o es, rfl⟩, ?_⟩
  intro M hM hr
  exact bound_run (inv_init _) ⟨hM, fun t m h => by simp [init] at h⟩ (by simp [init]) _ hr

/-! non-vacuity: two threads at limit 1, fully interleaved — one holds the slot, the other has overshot and
    is about to roll back (`count = 2 > max`, yet only one request is admitted); then the limit is raised
    and a third thread, which starts afterwards, is admitted as number 2. -/
example :
    let s := run (init 1) [.step 0, .step 1, .step 0, .step 1, .step 0, .step 1]
    Reachable s ∧ s.count = 2 ∧ s.holders = [0] ∧ s.pending = [1] ∧ s.pc 2 = .idle := by
  refine ⟨⟨1, _, rfl⟩, ?_⟩
  decide
example :
    let s := run (init 1) [.step 0, .step 1, .step 0, .step 1, .step 0, .step 1, .step 1, .resize 2,
      .step 2, .step 2, .step 2]
    s.holders = [2, 0] ∧ s.count = 2 ∧ s.max = 2 ∧ Quiescent s := by
  refine ⟨by decide, by decide, by decide, ?_⟩
  intro t
  match t with
  | 0 => exact Or.inr (by decide)
  | 1 => exact Or.inl (by decide)
  | 2 => exact Or.inr (by decide)
  | (n + 3) => exact Or.inl (by simp [run, step, stepThread, setPc, init])

/-- regenerated fact: the atomic operations of the dependency's `atomicTokenBucket`, in source order, are
    the ones the model has a step for; `NewFlowControl` builds a max-in-flight limiter with that type. -/
theorem c05_fact_counter_ops :
    KG.Gen.C05.tryAcquireOps = tryAcquireOps ∧ KG.Gen.C05.releaseOps = releaseOps ∧
    KG.Gen.C05.resizeOps = resizeOps ∧ KG.Gen.C05.counterCtor = counterCtor := by decide

end counter

/-! ## (b) reconfiguration, every history -/
section limiter
open KG.Model.LocalLimiter KG.Spec.LocalLimiter KG.Lemmas.LocalLimiter

/-- **What the current code does, over every history** of `Sync` (resize, type change, delete, re-add,
    duplicates, re-submission), limiter-mode switches (`ResetLimiter` local ↔ remote, which keep every cache
    and limiter), arrivals and completions on any number of clusters: a request arriving under a schema the
    code treats as max-in-flight is admitted **iff** fewer than `uint32(max)` of the requests admitted under it
    since it last became one are unfinished (`uint32(max)` being the code's own reading of the limit in force
    at that moment: for `max < 0` that is 4294967295 — a fact about the code, not a demand of the property);
    no refusal where no limiter applies; no panic on arrival. -/
theorem c05_model_exact (ops : List Op) : judgeExact ops (KG.Model.LocalLimiter.run World.init ops) = none :=
  judgeFrom_run rel_init 0 ops

/-- **The property over every such history** (`KG.Spec.LocalLimiter.judge`, the judge the harness applies to
    the real code). It speaks about schemas as validation admits them — exactly one kind, limit `M = max ≥ 0`,
    unique names: under a max-in-flight schema with limit `M` a request is refused whenever `M` of the
    requests admitted under it since it last became a max-in-flight schema are unfinished (`M` the limit in
    force at that moment), and admitted whenever fewer than `M` are unfinished and none has finished since
    nothing was in flight (all slots are back once all have finished); admitted under an exempt schema or
    under no schema; never a panic on arrival. For a negative `max`, several kinds, duplicate names, a
    missing schema it demands nothing. -/
theorem c05_reconfig_bound (ops : List Op) : judge ops (KG.Model.LocalLimiter.run World.init ops) = none :=
  judgeFrom_of_exact PState.init 0 ops _ (c05_model_exact ops)

/-- An arriving request never brings the gateway down (no nil limiter is ever handed out for a non-empty
    schema name, no dangling limiter). -/
theorem c05_arrival_never_panics {w : World} (h : KG.Model.LocalLimiter.Reachable w) (c n : Str) (tb : Bool) :
    ∃ w' b, acquire w c n tb = .ok (w', b) := by
  obtain ⟨σ, hr⟩ := reachable_rel h
  obtain ⟨w', b, ha, _⟩ := acquire_step hr c n tb
  exact ⟨w', b, ha⟩

/-- **Isolation** (frame theorem, per cluster and per schema): an op that does not concern `(c, n)` — an
    arrival or a completion under another schema or cluster, however many; any `Sync` of another cluster —
    does not change the answer a request for `(c, n)` gets. Exhausting one limit never causes a rejection
    under another. -/
theorem c05_isolation {w : World} (h : KG.Model.LocalLimiter.Reachable w) (op : Op) (c n : Str) (tb : Bool)
    (hna : ¬ addresses w op c n) :
    answer (KG.Model.LocalLimiter.step w op).1 c n tb = answer w c n tb := by
  obtain ⟨σ, hr⟩ := reachable_rel h
  exact isolation_step hr op c n tb hna

/-! non-vacuity: the witness of findings/C05-release-hits-swapped-limiter (token bucket → max-in-flight
    `M = 1`, three requests). The model (fixed code) refuses the third request; the judge rejects the
    answers the pristine tree gave (third request admitted) at op 5 — so the judge is not trivially true. -/
def witnessSchema (mi : Option Int) (tb : Option (Int × Int)) : Schema := ⟨[102, 99], [], false, mi, tb, none, none⟩
def witness : List Op :=
  [.sync [99] [witnessSchema none (some (1000, 1000))], .acquire [99] [102, 99] true,
   .sync [99] [witnessSchema (some 1) none], .acquire [99] [102, 99] true, .release 0, .acquire [99] [102, 99] true]
example : KG.Model.LocalLimiter.run World.init witness =
    [.synced, .acquired true, .synced, .acquired true, .released true, .acquired false] := by decide
example : judge witness [.synced, .acquired true, .synced, .acquired true, .released true, .acquired true] = some 5 := by
  decide
/-! non-vacuity: a limiter-mode switch (`ResetLimiter` remote, then the `Sync` of the unchanged list, as
    `ClusterInfo.Sync` does when the GlobalRateLimiter gate flips) with a request in flight at `M = 1`: the
    model keeps refusing; the judge rejects an implementation that admits after the switch. -/
def switchHistory : List Op :=
  [.sync [99] [witnessSchema (some 1) none], .acquire [99] [102, 99] true, .reset [99] modeRemote,
   .sync [99] [witnessSchema (some 1) none], .acquire [99] [102, 99] true]
example : KG.Model.LocalLimiter.run World.init switchHistory =
    [.synced, .acquired true, .synced, .synced, .acquired false] := by decide
example : judge switchHistory [.synced, .acquired true, .synced, .synced, .acquired true] = some 4 := by decide
/-! the property says nothing about a negative `max`: an implementation that refuses (clamps to 0) is accepted
    by `judge`; only the description of the current code (`judgeExact`: `uint32(-1)` slots) tells them apart.
    At `max = 2` a refusal with nothing in flight is rejected by the property's judge, an admission of a
    third request as well. -/
def negHistory : List Op := [.sync [99] [witnessSchema (some (-1)) none], .acquire [99] [102, 99] true]
example : judge negHistory [.synced, .acquired false] = none ∧ judge negHistory [.synced, .acquired true] = none ∧
    judgeExact negHistory [.synced, .acquired false] = some 1 := by decide
def twoHistory : List Op := [.sync [99] [witnessSchema (some 2) none], .acquire [99] [102, 99] true,
  .acquire [99] [102, 99] true, .acquire [99] [102, 99] true]
example : judge twoHistory [.synced, .acquired false] = some 1 ∧
    judge twoHistory [.synced, .acquired true, .acquired true, .acquired true] = some 3 ∧
    judge twoHistory [.synced, .acquired true, .acquired true, .acquired false] = none := by decide
example : KG.Model.LocalLimiter.Reachable (exec World.init witness) := ⟨witness, rfl⟩
example : ¬ addresses (exec World.init witness) (.acquire [99] [120] true) [99] [102, 99] := by
  simp [addresses]

/-- regenerated fact: `upstreamLimiter.Load` hands out the limiter in force (`Current()`) at both places
    where it returns the local limiter — what the model's `getOrDefault` does. -/
theorem c05_fact_load_returns_current : KG.Gen.C05.loadLocalReturns = loadLocalReturns := by decide

end limiter

/-! ## (c) every way out of `dispatcher.ServeHTTP` -/
section dispatcher
open KG.Model.LocalLimiter KG.Lemmas.LocalLimiter

/-- regenerated fact: in the current `ServeHTTP`, `defer flowcontrol.Release()` is the statement that follows
    the `if !flowcontrol.TryAcquire() { …; return }` guard, and nothing else mentions `TryAcquire`/`Release`. -/
theorem c05_fact_dispatcher_shape : shapeOk dispatcherProgram = true := by decide

/-- **Release exactly once**: whatever each statement of `ServeHTTP` does — fall through, return early
    (answered by the gateway: no match, no ready endpoint, bad endpoint …), or panic (client abort, broken
    upstream, anything) — and whatever the limiter answers, the number of `Release` calls equals the number of
    successful `TryAcquire` calls, which is at most one. -/
theorem c05_release_once (sc : Scenario) :
    countRel (serve dispatcherProgram sc) = countAcq (serve dispatcherProgram sc) ∧
    countAcq (serve dispatcherProgram sc) ≤ 1 :=
  exec_release_once sc dispatcherProgram 0 [] c05_fact_dispatcher_shape rfl

/-! non-vacuity: a request that is admitted and then finds no ready endpoint (the first guard after the
    `defer`), and one that panics in the last statement: one acquisition, one release each. -/
example : let sc : Scenario := ⟨fun i => if i = 19 then .exit else .go, true⟩
    countAcq (serve dispatcherProgram sc) = 1 ∧ countRel (serve dispatcherProgram sc) = 1 := by decide
example : let sc : Scenario := ⟨fun i => if i = 37 then .panic else .go, true⟩
    countAcq (serve dispatcherProgram sc) = 1 ∧ countRel (serve dispatcherProgram sc) = 1 := by decide
example : let sc : Scenario := ⟨fun _ => .go, false⟩
    countAcq (serve dispatcherProgram sc) = 0 ∧ countRel (serve dispatcherProgram sc) = 0 := by decide

end dispatcher

end KG.Props.C05
