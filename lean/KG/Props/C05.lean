import KG.Lemmas.MaxInflight
import KG.Spec.LocalLimiter
namespace KG.Props.C05
open KG.Model.MaxInflight KG.Lemmas.MaxInflight

/-- every interleaving: the counter is exactly holders + pending roll-backs -/
theorem c05_counter_inv {s : Sys} (h : Reachable s) :
    s.count = s.holders.length + s.pending.length ∧ 0 ≤ s.count :=
  ⟨(inv_reachable h).cnt, count_nonneg (inv_reachable h)⟩

end KG.Props.C05
