import KG.Spec.Lifecycle
/-! C15 theorems (under construction). -/
namespace KG.Props.C15
open KG KG.Model.Lifecycle KG.Spec.Lifecycle

theorem done_nil (ch : Chain) : done [] ch = false := by
  induction ch with
  | nil => rfl
  | cons s t ih => simp [done, memSid] at *

end KG.Props.C15
