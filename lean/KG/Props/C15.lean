import KG.Lemmas.Lifecycle
import KG.Gen.C15
/-!
# C15 — Removal: deleted clusters / endpoints get no traffic, in-flight requests are cut, probing stops

All theorems are about `KG.Model.Lifecycle` (the mirror of manager.go, clusterinfo.go, endpoint.go,
upstream_controller.go and the request path upstreaminfo.go → dispatcher.go) and quantify over **every history**
(`run ops init`, any list of `apply` / `delete` / `reqStart` / `reqPick` / `reqFinish` / `health` operations, i.e. every
position of a removal relative to the steps of every request) or over every state satisfying the invariant `Inv`
that every reachable state satisfies (`c15_invariant`).

A context is done (`done cancels chain = true`) iff a scope of its chain was cancelled; the chains are
`[ep e, cl o]` for an endpoint, `[hc e g, ep e, cl o]` for its g-th health-check loop, `[rq r, ep e, cl o]` for
a request proxied to it.

What is *not* in here (run-time residue, exhibited by the harness at scripted timings): that Go's `context`
propagates a cancellation promptly, that `net/http` tears the upstream exchange down and ends the client's stream
when the proxied request's context ends, that the goroutines exit.
-/
namespace KG.Props.C15
open KG KG.Model.Lifecycle KG.Spec.Lifecycle KG.Lemmas.Lifecycle

/-! ## the source still has the shape the model builds in -/

/-- Regenerated from /repo on every run (tools/extract/c15 → `KG.Gen.C15`): cluster deletion goes through the stopping
    delete (`DeleteForServerNames` → `DeleteWithStop` → `doDelete(name, true)` → `Stop` → `cancel`) and its loop **skips**
    a server name that no longer resolves to the cluster and goes on to the next one (`delStep` returns the state
    unchanged and the fold continues — a loop that stopped there would leave the names behind a repeated entry
    registered), alias removal through
    the plain one, endpoint contexts derive from the cluster's, removed endpoints leave the map and are cancelled,
    health-check loops run under (and watch) a context derived from the `ctx` argument of `EnsureGatewayHealthCheck`,
    and **both** of its call sites (new endpoint; known endpoint being disabled / re-enabled) hand over the endpoint's
    own context, `PickOne` — the pick behind `ClientFor`, i.e. behind the TokenReview / SubjectAccessReview webhook
    calls — is nothing but `Pop()` over `AllEndpoints()` (so `pickable` / `c15_endpoint_removed` / `c15_endpoint_forever`
    speak about the authentication / authorization traffic as well as about proxied requests), the dispatcher's
    goroutine cancels
    the proxied request when the endpoint's context ends. The model `KG.Model.Lifecycle` is the mirror of exactly this
    shape; if a fact changes, this obligation fails. -/
theorem c15_source_shape :
    Gen.C15.deleteForServerNamesStops = true ∧ Gen.C15.deleteLoopVisitsEveryName = true ∧
    Gen.C15.updateLoopsVisitEveryName = true ∧ Gen.C15.aliasDropStops = false ∧
    Gen.C15.endpointCtxChildOfCluster = true ∧ Gen.C15.pickOneIsPlainPop = true ∧
    Gen.C15.removedEndpointLeavesMap = true ∧
    Gen.C15.removedEndpointCancelled = true ∧ Gen.C15.healthCheckCtxChildOfEndpoint = true ∧
    Gen.C15.hcCtxAtCreateIsEndpoint = true ∧ Gen.C15.hcCtxAtUpdateIsEndpoint = true ∧
    Gen.C15.dispatcherWatchesEndpoint = true := by decide

/-! ## every reachable state -/

/-- the bookkeeping invariant holds after every history -/
theorem c15_invariant (ops : List Op) : Inv (run ops init) := run_inv ops init init_inv

/-- chains: everything under a cancelled cluster is done -/
theorem done_of_cluster {cs : List Sid} {o : Nat} (h : Sid.cl o ∈ cs) (ch : Chain) (hm : Sid.cl o ∈ ch) :
    done cs ch = true := (done_iff cs ch).2 ⟨_, hm, h⟩

/-- chains: everything under a cancelled endpoint is done -/
theorem done_of_endpoint {cs : List Sid} {e : Nat} (h : Sid.ep e ∈ cs) (ch : Chain) (hm : Sid.ep e ∈ ch) :
    done cs ch = true := (done_iff cs ch).2 ⟨_, hm, h⟩

/-- **The judge holds on every reachable state**: a cluster no name resolves to is stopped; an endpoint that left
    the endpoint map, or whose cluster is stopped, is cancelled; a cancelled endpoint is not probed; no proxied
    request is alive on a cancelled endpoint. -/
theorem judge_of_inv (st : State) (hI : Inv st) (rids : List Nat) : judge (observe st rids) = true := by
  unfold judge
  rw [Bool.and_eq_true, Bool.and_eq_true, List.all_eq_true, List.all_eq_true, List.all_eq_true]
  refine ⟨⟨?_, ?_⟩, ?_⟩
  · intro c hc
    obtain ⟨o, _, hco⟩ := List.mem_flatMap.1 hc
    unfold obsCluster at hco
    cases hh : st.heap o with
    | none => rw [hh] at hco; cases hco
    | some cl =>
      rw [hh] at hco
      simp only [List.mem_singleton] at hco
      subst hco
      unfold clusterOk
      rcases hI.n.no_leak o cl hh with h | h
      · simp [h]
      · simp [done_of_cluster h (clChain o) (by simp [clChain])]
  · intro e he
    obtain ⟨e0, he0, rfl⟩ := List.mem_map.1 he
    unfold epOk obsEp
    simp only [Bool.and_eq_true, Bool.or_eq_true, List.all_eq_true, Bool.not_eq_true']
    refine ⟨⟨?_, ?_⟩, ?_⟩
    · cases hi : e0.inMap with
      | true => exact Or.inl rfl
      | false => exact Or.inr (done_of_endpoint (hI.e.gone e0 he0 hi) e0.chain (by simp [Ep.chain_eq]))
    · cases hd : done st.cancels e0.chain with
      | false => exact Or.inl rfl
      | true =>
        right
        exact hI.e.hcLive_false he0 _ hd
    · intro c hc
      obtain ⟨o, _, hco⟩ := List.mem_flatMap.1 hc
      unfold obsCluster at hco
      cases hh : st.heap o with
      | none => rw [hh] at hco; cases hco
      | some cl =>
        rw [hh] at hco
        simp only [List.mem_singleton] at hco
        subst hco
        simp only
        by_cases hoo : o = e0.owner
        · cases hd : done st.cancels (clChain o) with
          | false => simp
          | true =>
            obtain ⟨s, hs, hcs⟩ := (done_iff _ _).1 hd
            simp only [clChain, List.mem_singleton] at hs
            subst hs
            have : done st.cancels e0.chain = true := done_of_cluster hcs e0.chain (by simp [Ep.chain_eq, hoo])
            simp [this]
        · simp [hoo]
  · intro q hq
    obtain ⟨r, _, hqr⟩ := List.mem_flatMap.1 hq
    unfold obsReq at hqr
    split at hqr
    · rename_i eid o hr
      simp only [List.mem_singleton] at hqr
      subst hqr
      unfold reqOk
      simp only [Bool.or_eq_true, Bool.not_eq_true', Bool.not_eq_false', List.all_eq_true]
      cases hd : reqDone st r eid o with
      | true => exact Or.inl rfl
      | false =>
        right
        intro e he
        obtain ⟨e0, he0, rfl⟩ := List.mem_map.1 he
        unfold obsEp
        simp only
        by_cases hid : e0.id = eid
        · obtain ⟨e1, he1, hid1, hown1⟩ := hI.r.req_ep r eid o (Or.inl hr)
          have : e0 = e1 := hI.e.eq_of_id he0 he1 (hid.trans hid1.symm)
          subst this
          have hnd := (done_false_iff _ _).1 hd
          right
          rw [done_false_iff]
          intro s hs
          simp only [Ep.chain_eq, List.mem_cons, List.not_mem_nil, or_false] at hs
          rcases hs with rfl | rfl
          · exact hnd _ (by simp [reqChain_eq, hid])
          · exact hnd _ (by simp [reqChain_eq, hown1])
        · left; simp [hid]
    · cases hqr

theorem c15_judge (ops : List Op) (rids : List Nat) : judge (observe (run ops init) rids) = true :=
  judge_of_inv _ (c15_invariant ops) rids

/-- cancelled stays cancelled, whatever happens next -/
theorem c15_done_forever (st : State) (hI : Inv st) (ops : List Op) (ch : Chain) (h : done st.cancels ch = true) :
    done (run ops st).cancels ch = true :=
  done_mono (run_cancels_mono ops st hI) h

/-! ## deleting a cluster -/

section cluster
variable (st : State) (hI : Inv st) (name : Str) (o : Nat) (c : Cluster)
  (ho : st.names (lower name) = some o) (hc : st.heap o = some c) (hcn : c.name = lower name)
include hI ho hc hcn

/-- after the delete, no name resolves to the cluster … -/
theorem c15_cluster_unresolvable : ∀ k, (deleteSpec st name).names k ≠ some o :=
  (deleteSpec_existing st name hI.n ho hc hcn).1

/-- … so a request for any host that used to reach it is answered 503 by `WithUpstreamInfo` -/
theorem c15_cluster_503 (r : Nat) (host : Str) (hfresh : (deleteSpec st name).reqs r = none)
    (hwas : get st host = some o) :
    (reqStart (deleteSpec st name) r host).reqs r = some Phase.rejected := by
  obtain ⟨h1, _, _, _, h5⟩ := deleteSpec_existing st name hI.n ho hc hcn
  have : get (deleteSpec st name) host = none := by
    unfold Model.Lifecycle.get at hwas ⊢
    cases hk : (deleteSpec st name).names (lower host) with
    | none => rfl
    | some o2 =>
      have := h5 _ _ hk
      rw [hwas] at this; cases this
      exact absurd hk (h1 _)
  unfold reqStart
  simp [hfresh, this, upd]

/-- the cluster's context is cancelled, hence every context below it: the endpoints', their health-check loops',
    the proxied requests' -/
theorem c15_cluster_cancelled :
    Sid.cl o ∈ (deleteSpec st name).cancels ∧
    (∀ ch : Chain, Sid.cl o ∈ ch → done (deleteSpec st name).cancels ch = true) ∧
    (∀ e, e ∈ (deleteSpec st name).eps → e.owner = o →
        done (deleteSpec st name).cancels e.chain = true ∧
        (∀ g, g < e.hcGen → done (deleteSpec st name).cancels (e.hcChain g) = true) ∧
        hcLive (deleteSpec st name).cancels e = false ∧
        (∀ r, reqDone (deleteSpec st name) r e.id o = true)) := by
  have h2 := (deleteSpec_existing st name hI.n ho hc hcn).2.1
  have hI' : Inv (deleteSpec st name) := deleteSpec_inv st name hI
  refine ⟨h2, fun ch hm => done_of_cluster h2 ch hm, ?_⟩
  intro e he hown
  have hch : done (deleteSpec st name).cancels e.chain = true := done_of_cluster h2 _ (by simp [Ep.chain_eq, hown])
  refine ⟨hch, fun g hg => done_of_cluster h2 _ (by rw [hI'.e.hcChain_eq he hg]; simp [hown]), hI'.e.hcLive_false he _ hch,
    fun r => done_of_cluster h2 _ (by simp [reqChain_eq])⟩

/-- frame: only that cluster's scope is cancelled; every context that is not below it keeps its status; endpoints,
    cluster objects and requests are untouched; the names of every other cluster resolve as before -/
theorem c15_cluster_frame :
    (∀ x, x ∈ (deleteSpec st name).cancels ↔ (x ∈ st.cancels ∨ x = Sid.cl o)) ∧
    (∀ ch : Chain, Sid.cl o ∉ ch → done (deleteSpec st name).cancels ch = done st.cancels ch) ∧
    (deleteSpec st name).eps = st.eps ∧ (deleteSpec st name).heap = st.heap ∧ (deleteSpec st name).reqs = st.reqs ∧
    (∀ k o2, o2 ≠ o → ((deleteSpec st name).names k = some o2 ↔ st.names k = some o2)) := by
  obtain ⟨_, h2, h3, h4, _⟩ := deleteSpec_existing st name hI.n ho hc hcn
  obtain ⟨f1, f2, f3, _, f5⟩ := deleteSpec_frame st name
  have hx : ∀ x, x ∈ (deleteSpec st name).cancels ↔ (x ∈ st.cancels ∨ x = Sid.cl o) := by
    intro x
    constructor
    · exact h3 x
    · rintro (h | rfl)
      · exact f5 x h
      · exact h2
  refine ⟨hx, ?_, f2, f1, f3, h4⟩
  intro ch hm
  apply done_congr
  intro s hs
  rw [hx]
  constructor
  · rintro (h | rfl)
    · exact h
    · exact absurd hs hm
  · exact Or.inl

/-- the other clusters' endpoints, health checks and requests: exactly as before -/
theorem c15_cluster_frame_endpoints (e : Ep) (he : e ∈ st.eps) (hown : e.owner ≠ o) :
    done (deleteSpec st name).cancels e.chain = done st.cancels e.chain ∧
    (∀ g, g < e.hcGen → done (deleteSpec st name).cancels (e.hcChain g) = done st.cancels (e.hcChain g)) ∧
    hcLive (deleteSpec st name).cancels e = hcLive st.cancels e ∧
    (∀ r, reqDone (deleteSpec st name) r e.id e.owner = reqDone st r e.id e.owner) ∧
    (∀ o2, pickable (deleteSpec st name) o2 = pickable st o2) := by
  obtain ⟨_, hf, heps, _⟩ := c15_cluster_frame st hI name o c ho hc hcn
  have hne : Sid.cl o ≠ Sid.cl e.owner := fun h => hown (by cases h; rfl)
  have h1 := hf e.chain (by simp [Ep.chain_eq, hne])
  have h2 : ∀ g, g < e.hcGen → done (deleteSpec st name).cancels (e.hcChain g) = done st.cancels (e.hcChain g) :=
    fun g hg => hf _ (by rw [hI.e.hcChain_eq he hg]; simp [hne])
  refine ⟨h1, h2, ?_, fun r => hf _ (by simp [reqChain_eq, hne]), fun o2 => by unfold pickable; rw [heps]⟩
  unfold hcLive
  cases hon : e.hcOn with
  | false => rfl
  | true =>
    have hpos := hI.e.hc_pos e he hon
    rw [h2 _ (by omega)]

/-- and it stays that way: after any continuation no name resolves to the deleted cluster object and everything
    below it is done (a request that resolved the cluster *before* the delete and pops an endpoint only *after* it
    gets a proxied request whose context is already done) -/
theorem c15_cluster_forever (ops : List Op) :
    (∀ k, (run ops (deleteSpec st name)).names k ≠ some o) ∧
    (∀ ch : Chain, Sid.cl o ∈ ch → done (run ops (deleteSpec st name)).cancels ch = true) ∧
    (∀ r eid, reqDone (run ops (deleteSpec st name)) r eid o = true) := by
  have hI' : Inv (deleteSpec st name) := deleteSpec_inv st name hI
  have h2 := (deleteSpec_existing st name hI.n ho hc hcn).2.1
  have h3 : Sid.cl o ∈ (run ops (deleteSpec st name)).cancels := run_cancels_mono ops _ hI' _ h2
  refine ⟨?_, fun ch hm => done_of_cluster h3 ch hm, fun r eid => done_of_cluster h3 _ (by simp [reqChain_eq])⟩
  intro k hk
  obtain ⟨_, _, _, _, hncl⟩ := (run_inv ops _ hI').n.names_ok k o hk
  exact hncl h3

end cluster

/-! ## a sync that drops an endpoint -/

/-- what an update can cancel: the endpoints it drops and the health-check loops of endpoints it disables, nothing else -/
theorem applySpec_newc (st : State) (hI : Inv st) (sp : Spec) (s : Sid) (h : s ∈ (applySpec st sp).cancels) :
    s ∈ st.cancels ∨
    ∃ o, (st.names (lower sp.name) = some o ∨ (st.names (lower sp.name) = none ∧ o = st.next)) ∧
      ((∃ e, e ∈ st.eps ∧ isDropped o (sp.servers.map (·.1)) e = true ∧ s = Sid.ep e.id) ∨
       (∃ e', e' ∈ (applySpec st sp).eps ∧ e'.owner = o ∧ disabledOf sp.servers e'.url = true ∧ ∃ g, s = Sid.hc e'.id g)) := by
  rcases applySpec_eps_cancels st sp hI.n with h0 | ⟨s1, o, h1, h2, _, _, _, _, htarget, h6, h7, _⟩
  · rw [h0] at h; exact Or.inl h
  · rw [h7] at h
    rcases syncEndpoints_newc s1 o sp.servers s h with h' | h' | h'
    · exact Or.inl (by rw [← h2]; exact h')
    · right; refine ⟨o, htarget, Or.inl ?_⟩; rw [← h1]; exact h'
    · right; refine ⟨o, htarget, Or.inr ?_⟩; rw [h6]; exact h'

/-- the update of an existing, non-conflicting cluster runs `Sync` and then adjusts the names -/
theorem applySpec_update_eq (st : State) (sp : Spec) (o : Nat) (c : Cluster)
    (ho : st.names (lower sp.name) = some o) (hc : st.heap o = some c) (hcn : c.name = lower sp.name)
    (hconf : conflicts st (lower sp.name) c.serverNames (lower sp.name :: sp.aliases.map lower) = false) :
    applySpec st sp = addOrUpdateForServerNames (syncEndpoints (syncState st sp o c) o sp.servers) c.serverNames o := by
  unfold applySpec Model.Lifecycle.get syncState
  simp only [lower_idem, ho, hc, hconf, hcn]
  simp

section endpoint
variable (st : State) (hI : Inv st) (sp : Spec) (o : Nat) (c : Cluster)
  (ho : st.names (lower sp.name) = some o) (hc : st.heap o = some c) (hcn : c.name = lower sp.name)
  (hconf : conflicts st (lower sp.name) c.serverNames (lower sp.name :: sp.aliases.map lower) = false)
include hI ho hc hcn hconf

/-- an endpoint of the cluster that the new server list no longer names: it leaves the endpoint map, so the picker
    cannot return it; its context is cancelled, hence its health-check loops and every request proxied to it -/
theorem c15_endpoint_removed (e : Ep) (he : e ∈ st.eps) (hown : e.owner = o) (hin : e.inMap = true)
    (hdrop : e.url ∉ sp.servers.map (·.1)) :
    (∃ e', e' ∈ (applySpec st sp).eps ∧ e'.id = e.id ∧ e'.inMap = false) ∧
    (∀ o2 x, x ∈ pickable (applySpec st sp) o2 → x.id ≠ e.id) ∧
    Sid.ep e.id ∈ (applySpec st sp).cancels ∧
    done (applySpec st sp).cancels e.chain = true ∧
    (∀ g, g < e.hcGen → done (applySpec st sp).cancels (e.hcChain g) = true) ∧
    hcLive (applySpec st sp).cancels e = false ∧
    (∀ r, reqDone (applySpec st sp) r e.id e.owner = true) := by
  have heq := applySpec_update_eq st sp o c ho hc hcn hconf
  obtain ⟨_, f2, _, _, f5⟩ := aou_frame (syncEndpoints (syncState st sp o c) o sp.servers) c.serverNames o
  have hdr : isDropped o (sp.servers.map (·.1)) e = true := (isDropped_iff _ _ e).2 ⟨hown, hin, hdrop⟩
  obtain ⟨e', he', hid', _, _, _, hmap'⟩ := syncEndpoints_fwd (syncState st sp o c) o sp.servers e he
  have hgone : e'.inMap = false := by rw [hmap', hdr, hin]; rfl
  have he'' : e' ∈ (applySpec st sp).eps := by rw [heq, f2]; exact he'
  have hI' : Inv (applySpec st sp) := applySpec_inv st sp hI
  have hcan : Sid.ep e.id ∈ (applySpec st sp).cancels := by rw [← hid']; exact hI'.e.gone e' he'' hgone
  have hch : done (applySpec st sp).cancels e.chain = true := done_of_endpoint hcan _ (by simp [Ep.chain_eq])
  refine ⟨⟨e', he'', hid', hgone⟩, ?_, hcan, hch,
    fun g hg => done_of_endpoint hcan _ (by rw [hI.e.hcChain_eq he hg]; simp), hI.e.hcLive_false he _ hch,
    fun r => done_of_endpoint hcan _ (by simp [reqChain_eq])⟩
  intro o2 x hx hid
  obtain ⟨hxe, _, hxin, _⟩ := mem_pickable hx
  have : x = e' := hI'.e.eq_of_id hxe he'' (hid.trans hid'.symm)
  rw [this, hgone] at hxin; cases hxin

/-- forever: after any continuation (including a sync that names the same URL again, which creates a *new*
    endpoint object) the picker never returns the dropped endpoint object and everything below it stays done -/
theorem c15_endpoint_forever (e : Ep) (he : e ∈ st.eps) (hown : e.owner = o) (hin : e.inMap = true)
    (hdrop : e.url ∉ sp.servers.map (·.1)) (ops : List Op) :
    (∀ o2 x, x ∈ pickable (run ops (applySpec st sp)) o2 → x.id ≠ e.id) ∧
    (∀ ch : Chain, Sid.ep e.id ∈ ch → done (run ops (applySpec st sp)).cancels ch = true) := by
  obtain ⟨⟨e', he', hid', hgone⟩, _, hcan, _⟩ := c15_endpoint_removed st hI sp o c ho hc hcn hconf e he hown hin hdrop
  have hI' : Inv (applySpec st sp) := applySpec_inv st sp hI
  have hI'' : Inv (run ops (applySpec st sp)) := run_inv ops _ hI'
  obtain ⟨e2, he2, hid2, _, _, hgone2⟩ := run_ep_fwd ops _ hI' e' he'
  refine ⟨?_, fun ch hm => done_of_endpoint (run_cancels_mono ops _ hI' _ hcan) ch hm⟩
  intro o2 x hx hid
  obtain ⟨hxe, _, hxin, _⟩ := mem_pickable hx
  have : x = e2 := hI''.e.eq_of_id hxe he2 (hid.trans (hid2.trans hid').symm)
  rw [this, hgone2 hgone] at hxin; cases hxin

end endpoint

/-- **frame of any `syncUpstreamCluster`** (create, update, conflict): an endpoint that belongs to another cluster, or
    that the new server list still names, or that was removed earlier, keeps the status of its context; if moreover
    the new list does not disable it, its health-check loops keep theirs; a request proxied to it keeps its; no
    cluster context and no request context is ever cancelled by an update. -/
theorem c15_endpoint_frame (st : State) (hI : Inv st) (sp : Spec) (e : Ep) (he : e ∈ st.eps)
    (hkeep : st.names (lower sp.name) ≠ some e.owner ∨ e.url ∈ sp.servers.map (·.1) ∨ e.inMap = false) :
    (∀ x, Sid.cl x ∈ (applySpec st sp).cancels ↔ Sid.cl x ∈ st.cancels) ∧
    (∀ x, Sid.rq x ∈ (applySpec st sp).cancels ↔ Sid.rq x ∈ st.cancels) ∧
    (Sid.ep e.id ∈ (applySpec st sp).cancels ↔ Sid.ep e.id ∈ st.cancels) ∧
    done (applySpec st sp).cancels e.chain = done st.cancels e.chain ∧
    (∀ r, reqDone (applySpec st sp) r e.id e.owner = reqDone st r e.id e.owner) ∧
    ((st.names (lower sp.name) ≠ some e.owner ∨ disabledOf sp.servers e.url = false) →
      (∀ g, g < e.hcGen → done (applySpec st sp).cancels (e.hcChain g) = done st.cancels (e.hcChain g)) ∧
      hcLive (applySpec st sp).cancels e = hcLive st.cancels e) := by
  have hsub : ∀ s, s ∈ st.cancels → s ∈ (applySpec st sp).cancels := step_cancels_mono st (.apply sp) hI
  have hcl : ∀ x, Sid.cl x ∈ (applySpec st sp).cancels ↔ Sid.cl x ∈ st.cancels := by
    intro x
    refine ⟨fun h => ?_, hsub _⟩
    rcases applySpec_newc st hI sp _ h with h | ⟨_, _, ⟨_, _, _, h⟩ | ⟨_, _, _, _, _, h⟩⟩
    · exact h
    · cases h
    · cases h
  have hrq : ∀ x, Sid.rq x ∈ (applySpec st sp).cancels ↔ Sid.rq x ∈ st.cancels := by
    intro x
    refine ⟨fun h => ?_, hsub _⟩
    rcases applySpec_newc st hI sp _ h with h | ⟨_, _, ⟨_, _, _, h⟩ | ⟨_, _, _, _, _, h⟩⟩
    · exact h
    · cases h
    · cases h
  have htarget_ne : ∀ o, (st.names (lower sp.name) = some o ∨ (st.names (lower sp.name) = none ∧ o = st.next)) →
      st.names (lower sp.name) ≠ some e.owner → e.owner ≠ o := by
    intro o ht hne hoo
    rcases ht with ht | ⟨_, ht⟩
    · exact hne (by rw [hoo]; exact ht)
    · exact absurd (hI.e.owner_lt e he) (by rw [hoo, ht]; exact Nat.lt_irrefl _)
  have hep : Sid.ep e.id ∈ (applySpec st sp).cancels ↔ Sid.ep e.id ∈ st.cancels := by
    refine ⟨fun h => ?_, hsub _⟩
    rcases applySpec_newc st hI sp _ h with h | ⟨o, ht, ⟨e1, he1, hdr, heq⟩ | ⟨_, _, _, _, _, h⟩⟩
    · exact h
    · exfalso
      have hid : e1.id = e.id := (Sid.ep.inj heq).symm
      have : e1 = e := hI.e.eq_of_id he1 he hid
      subst this
      obtain ⟨a, b, c⟩ := (isDropped_iff _ _ e1).1 hdr
      rcases hkeep with h | h | h
      · exact htarget_ne o ht h a
      · exact c h
      · rw [b] at h; cases h
    · cases h
  have hchain : done (applySpec st sp).cancels e.chain = done st.cancels e.chain := by
    apply done_congr
    intro s hs
    simp only [Ep.chain_eq, List.mem_cons, List.not_mem_nil, or_false] at hs
    rcases hs with rfl | rfl
    · exact hep
    · exact hcl _
  refine ⟨hcl, hrq, hep, hchain, ?_, ?_⟩
  · intro r
    unfold reqDone
    apply done_congr
    intro s hs
    simp only [reqChain_eq, List.mem_cons, List.not_mem_nil, or_false] at hs
    rcases hs with rfl | rfl | rfl
    · exact hrq _
    · exact hep
    · exact hcl _
  · intro hen
    have hhc : ∀ g, (Sid.hc e.id g ∈ (applySpec st sp).cancels ↔ Sid.hc e.id g ∈ st.cancels) := by
      intro g
      refine ⟨fun h => ?_, hsub _⟩
      rcases applySpec_newc st hI sp _ h with h | ⟨o, ht, ⟨_, _, _, h⟩ | ⟨e1, he1, hown1, hdis1, g1, heq⟩⟩
      · exact h
      · cases h
      · exfalso
        have hid : e1.id = e.id := (Sid.hc.inj heq).1.symm
        obtain ⟨e2, he2, hid2, hown2, hurl2, _⟩ := step_ep_fwd st (.apply sp) hI e he
        have hI' : Inv (applySpec st sp) := applySpec_inv st sp hI
        have : e1 = e2 := hI'.e.eq_of_id he1 he2 (hid.trans hid2.symm)
        subst this
        rcases hen with h | h
        · exact htarget_ne o ht h (hown2.symm.trans hown1)
        · rw [hurl2, h] at hdis1; cases hdis1
    have hd : ∀ g, g < e.hcGen → done (applySpec st sp).cancels (e.hcChain g) = done st.cancels (e.hcChain g) := by
      intro g hg
      apply done_congr
      intro s hs
      rw [hI.e.hcChain_eq he hg] at hs
      simp only [List.mem_cons, List.not_mem_nil, or_false] at hs
      rcases hs with rfl | rfl | rfl
      · exact hhc g
      · exact hep
      · exact hcl _
    refine ⟨hd, ?_⟩
    unfold hcLive
    cases hon : e.hcOn with
    | false => rfl
    | true =>
      have hpos := hI.e.hc_pos e he hon
      rw [hd _ (by omega)]

/-! ## removing an alias -/

/-- no `syncUpstreamCluster` of an object that exists ever stops a cluster: aliases are removed with `Delete`,
    never `DeleteWithStop` -/
theorem c15_alias_safe (st : State) (hI : Inv st) (sp : Spec) (x : Nat) :
    Sid.cl x ∈ (applySpec st sp).cancels ↔ Sid.cl x ∈ st.cancels := by
  refine ⟨fun h => ?_, step_cancels_mono st (.apply sp) hI _⟩
  rcases applySpec_newc st hI sp _ h with h | ⟨_, _, ⟨_, _, _, h⟩ | ⟨_, _, _, _, _, h⟩⟩
  · exact h
  · cases h
  · cases h

section alias
variable (st : State) (hI : Inv st) (sp : Spec) (o : Nat) (c : Cluster)
  (ho : st.names (lower sp.name) = some o) (hc : st.heap o = some c) (hcn : c.name = lower sp.name)
  (hconf : conflicts st (lower sp.name) c.serverNames (lower sp.name :: sp.aliases.map lower) = false)
include hI ho hc hcn hconf

/-- an update that only changes the aliases (same servers, same flags) touches no scope at all: same cancelled set,
    same endpoint objects, same requests -/
theorem c15_alias_only_touches_no_scope (hsame : sameServers st o sp.servers) :
    (applySpec st sp).cancels = st.cancels ∧ (applySpec st sp).eps = st.eps ∧ (applySpec st sp).reqs = st.reqs := by
  have heq := applySpec_update_eq st sp o c ho hc hcn hconf
  obtain ⟨_, f2, f3, _, f5⟩ := aou_frame (syncEndpoints (syncState st sp o c) o sp.servers) c.serverNames o
  have hno : syncEndpoints (syncState st sp o c) o sp.servers = syncState st sp o c :=
    syncEndpoints_noop (syncState st sp o c) o sp.servers hI.e.hc_sync hsame
  rw [heq, f5, f2, f3, hno]
  exact ⟨rfl, rfl, rfl⟩

/-- the names the new object keeps still resolve to the cluster, the dropped alias resolves to nothing -/
theorem c15_alias_names (k : Str) (hk : st.names k = some o) :
    (k ∈ (lower sp.name :: sp.aliases.map lower) → (applySpec st sp).names k = some o) ∧
    (k ∉ (lower sp.name :: sp.aliases.map lower) → (applySpec st sp).names k = none) := by
  have heq := applySpec_update_eq st sp o c ho hc hcn hconf
  have hheap : (syncEndpoints (syncState st sp o c) o sp.servers).heap o = some { c with aliases := sp.aliases.map lower } := by
    rw [syncEndpoints_heap]; exact upd_same ..
  have hnew : ({ c with aliases := sp.aliases.map lower } : Cluster).serverNames = lower sp.name :: sp.aliases.map lower := by
    unfold Cluster.serverNames; rw [hcn]
  have hkold : k ∈ c.serverNames := by
    obtain ⟨c2, hc2, hkin, _⟩ := hI.n.names_ok k o hk
    rw [hc] at hc2; cases hc2; exact hkin
  have hklow : lower k = k := hI.n.srv_lower o c hc k hkold
  have hk2 : (syncEndpoints (syncState st sp o c) o sp.servers).names k = some o := by
    rw [syncEndpoints_names]; exact hk
  rw [heq]
  rcases aou_spec _ c.serverNames o _ hheap with ⟨he, hr⟩ | ⟨_, g, G, A⟩
  · rw [hr]
    rw [hnew] at he
    exact ⟨fun _ => hk2, fun h => absurd (by rw [← he]; exact hkold) h⟩
  · rw [hnew] at G A
    have hna : ¬ ∃ nn, nn ∈ (lower sp.name :: sp.aliases.map lower) ∧ nn ∉ c.serverNames ∧ lower nn = k := by
      intro ⟨nn, h1, h2, h3⟩
      rw [lower_new_idem sp.name sp.aliases nn h1] at h3
      subst h3; exact h2 hkold
    rw [A.other k hna]
    constructor
    · intro hin
      rcases G.keep k o hk2 with h | ⟨_, _, on, h1, h2, h3⟩
      · exact h
      · rw [hI.n.srv_lower o c hc on h1] at h2; subst h2; exact absurd hin h3
    · intro hnin
      apply G.kill k o hk2 _ ⟨k, hkold, hklow, hnin⟩
      rw [nameOf_some hheap]

end alias

/-! ## every request, every timing -/

/-- **Wherever the removal falls in a request's life**: in every reachable state, a request that has been handed
    an endpoint (it may have resolved its cluster, popped the endpoint, connected, or be streaming — before or after
    the removal) is not alive if no name resolves to its cluster any more or if its endpoint has left the endpoint
    map: its context is done. Together with `c15_cluster_503` / `c15_endpoint_removed` (never routed) this is
    "cancelled or never routed". -/
theorem c15_request_cut_or_never_routed (ops : List Op) (r eid o : Nat)
    (hr : (run ops init).reqs r = some (Phase.proxying eid o))
    (hrem : (∀ k, (run ops init).names k ≠ some o) ∨ (∃ e, e ∈ (run ops init).eps ∧ e.id = eid ∧ e.inMap = false)) :
    reqDone (run ops init) r eid o = true := by
  have hI := c15_invariant ops
  rcases hrem with h | ⟨e, he, hid, hgone⟩
  · obtain ⟨e, he, _, hown⟩ := hI.r.req_ep r eid o (Or.inl hr)
    obtain ⟨c, hc⟩ := hI.o e he
    rw [hown] at hc
    rcases hI.n.no_leak o c hc with h1 | h1
    · exact absurd h1 (h _)
    · exact done_of_cluster h1 _ (by simp [reqChain_eq])
  · have := hI.e.gone e he hgone
    rw [hid] at this
    exact done_of_endpoint this _ (by simp [reqChain_eq])

/-- a request is only ever handed an endpoint that is in the endpoint map of the cluster it resolved, enabled and
    healthy at that moment (the picker never returns a removed endpoint) -/
theorem c15_pick_only_current (st : State) (r choice eid o : Nat)
    (hbefore : st.reqs r ≠ some (Phase.proxying eid o))
    (hafter : (reqPick st r choice).reqs r = some (Phase.proxying eid o)) :
    ∃ e, e ∈ st.eps ∧ e.id = eid ∧ e.owner = o ∧ e.inMap = true ∧ e.disabled = false ∧ e.healthy = true := by
  unfold reqPick at hafter
  split at hafter
  · rename_i o' hr
    split at hafter
    · simp [upd] at hafter
    · rename_i e hpick
      simp only [upd, if_true, Option.some.injEq, Phase.proxying.injEq] at hafter
      obtain ⟨h1, h2⟩ := hafter
      subst h1; subst h2
      obtain ⟨a, b, c, d, f⟩ := mem_pickable (List.mem_of_getElem? hpick)
      exact ⟨e, a, rfl, b, c, d, f⟩
  · exact absurd hafter hbefore

/-- every health-check loop ever started for an endpoint — the one started when it was added and every one
    restarted by a disable → re-enable through the update path — runs under a context derived from the ENDPOINT's
    (the `ctx` each `EnsureGatewayHealthCheck` call site passes is recorded per loop in `hcParent`) -/
theorem c15_loops_under_endpoint (ops : List Op) (e : Ep) (he : e ∈ (run ops init).eps) (g : Nat) (hg : g < e.hcGen) :
    e.hcParent g = e.chain ∧ e.hcChain g = [Sid.hc e.id g, Sid.ep e.id, Sid.cl e.owner] :=
  ⟨(c15_invariant ops).e.hc_parent e he g hg, (c15_invariant ops).e.hcChain_eq he hg⟩

/-- **health probing stops**: in every reachable state, an endpoint whose cluster no name resolves to, or that left
    the endpoint map, or that is disabled, has no running health-check loop; **every loop ever started for it,
    restarted ones included, is cancelled**; and a probe round does not touch it -/
theorem c15_probing_stops (ops : List Op) (e : Ep) (he : e ∈ (run ops init).eps)
    (hrem : (∀ k, (run ops init).names k ≠ some e.owner) ∨ e.inMap = false ∨ e.disabled = true) :
    hcLive (run ops init).cancels e = false ∧
    (∀ g, g < e.hcGen → done (run ops init).cancels (e.hcChain g) = true) ∧
    (∀ u ok, probeEp (run ops init).cancels u ok e = e) := by
  have hI := c15_invariant ops
  have hall : ∀ g, g < e.hcGen → done (run ops init).cancels (e.hcChain g) = true := by
    intro g hg
    rw [hI.e.hcChain_eq he hg]
    rcases hrem with h | h | h
    · obtain ⟨c, hc⟩ := hI.o e he
      rcases hI.n.no_leak e.owner c hc with h1 | h1
      · exact absurd h1 (h _)
      · exact done_of_cluster h1 _ (by simp)
    · exact done_of_endpoint (hI.e.gone e he h) _ (by simp)
    · have hoff : e.hcOn = false := by rw [hI.e.hc_sync e he, h]; rfl
      exact (done_iff _ _).2 ⟨_, List.mem_cons_self .., hI.e.hc_off e he hoff g hg⟩
  have hdead : hcLive (run ops init).cancels e = false := by
    unfold hcLive
    cases hon : e.hcOn with
    | false => rfl
    | true =>
      have hpos := hI.e.hc_pos e he hon
      rw [hall _ (by omega)]; rfl
  refine ⟨hdead, hall, fun u ok => ?_⟩
  unfold probeEp
  simp [hdead]

/-! ## non-vacuity: a concrete history with a removal in the middle of traffic -/

/-- names as explicit byte strings: "a", "b", "x", "X", "B", "u0", "u1" -/
def nA : Str := [97]
def nB : Str := [98]
def nx : Str := [120]
def nX : Str := [88]
def nBup : Str := [66]
def u0 : Str := [117, 48]
def u1 : Str := [117, 49]

/-- cluster `a` (alias `X`) on u0,u1 and cluster `b` on u1; probes succeed; request 1 streams on `a` via the alias,
    request 2 on `b`, request 3 has resolved `a` but not popped yet; then `a` is deleted; then request 3 pops;
    request 4 arrives for the alias. -/
def demoOps : List Op :=
  [ .apply { name := nA, aliases := [nX], servers := [(u0, false), (u1, false)] },
    .apply { name := nB, aliases := [], servers := [(u1, false)] },
    .health u0 true, .health u1 true,
    .reqStart 1 nx, .reqPick 1 0,
    .reqStart 2 nBup, .reqPick 2 0,
    .reqStart 3 nA,
    .delete nA,
    .reqPick 3 1,
    .reqStart 4 nx ]

example : (run demoOps init).reqs 1 = some (Phase.proxying 1 0) ∧ reqDone (run demoOps init) 1 1 0 = true ∧
          (run demoOps init).reqs 2 = some (Phase.proxying 4 3) ∧ reqDone (run demoOps init) 2 4 3 = false ∧
          (run demoOps init).reqs 3 = some (Phase.proxying 2 0) ∧ reqDone (run demoOps init) 3 2 0 = true ∧
          (run demoOps init).reqs 4 = some Phase.rejected ∧
          get (run demoOps init) nB = some 3 := by decide

/-- the hypotheses of the cluster theorems are satisfiable: before the delete, `a` resolves to object 0 named `a` -/
example : (run (demoOps.take 9) init).names (lower nA) = some 0 ∧
    ((run (demoOps.take 9) init).heap 0).map (·.name) = some (lower nA) ∧
    (pickable (run (demoOps.take 9) init) 0).map (·.id) = [1, 2] := by decide

/-- the hypotheses of the endpoint theorems are satisfiable: a sync of `a` that drops u0 while request 1 streams on it -/
def demoDrop : Spec := { name := nA, aliases := [nX], servers := [(u1, false)] }

example : (((run (demoOps.take 9) init).heap 0).map fun c =>
      conflicts (run (demoOps.take 9) init) (lower demoDrop.name) c.serverNames (lower demoDrop.name :: demoDrop.aliases.map lower))
      = some false ∧
    ((run (demoOps.take 9) init).eps.filter (isDropped 0 (demoDrop.servers.map (·.1)))).map (·.id) = [1] ∧
    reqDone (run (demoOps.take 9) init) 1 1 0 = false ∧
    reqDone (applySpec (run (demoOps.take 9) init) demoDrop) 1 1 0 = true ∧
    (pickable (applySpec (run (demoOps.take 9) init) demoDrop) 0).map (·.id) = [2] := by decide

/-- restarted loops: u0 of `a` is disabled, re-enabled (second loop, started through the update path), then dropped:
    both loops ever started ran under the endpoint's context and both are done; u1 is still probed -/
def demoCycle : List Op :=
  [ .apply { name := nA, aliases := [], servers := [(u0, false), (u1, false)] }, .health u0 true, .health u1 true,
    .apply { name := nA, aliases := [], servers := [(u0, true), (u1, false)] },
    .apply { name := nA, aliases := [], servers := [(u0, false), (u1, false)] },
    .apply { name := nA, aliases := [], servers := [(u1, false)] } ]

example : ((run (demoCycle.take 5) init).eps.map fun e => [e.id, e.hcGen, (hcLive (run (demoCycle.take 5) init).cancels e).toNat])
            = [[1, 2, 1], [2, 1, 1]] := by decide

example : ((run demoCycle init).eps.map fun e =>
              [e.id, e.inMap.toNat, e.hcGen, (hcLive (run demoCycle init).cancels e).toNat] ++
               (List.range e.hcGen).flatMap fun g => [(e.hcParent g == e.chain).toNat, (done (run demoCycle init).cancels (e.hcChain g)).toNat])
            = [[1, 0, 2, 0, 1, 1, 1, 1], [2, 1, 1, 1, 1, 0]] := by decide

/-- messed-up server names: the object lists its OWN name and a repeated alias in front of another alias
    (`serverNames = [a, A, X, x, y]` for cluster `a`, so `LoadServerNames = [a, a, a, x, x, y]`): the second visit of a
    name finds it gone and is skipped, the loop goes on, and after the delete NO name resolves (hypotheses of
    `c15_cluster_unresolvable` hold for this state; a request for the trailing alias is rejected) -/
def nY : Str := [121]
def demoMessy : List Op :=
  [ .apply { name := nA, aliases := [nA, [65], nX, nx, nY], servers := [(u0, false)] }, .health u0 true,
    .reqStart 1 nY, .reqPick 1 0,
    .delete [65],
    .reqStart 2 nY, .reqStart 3 nx, .reqStart 4 nA ]

example : ((run (demoMessy.take 4) init).heap 0).map (·.serverNames) = some [nA, nA, nA, nx, nx, nY] ∧
    get (run (demoMessy.take 4) init) nY = some 0 ∧
    get (run demoMessy init) nY = none ∧ get (run demoMessy init) nx = none ∧ get (run demoMessy init) nA = none ∧
    (run demoMessy init).reqs 2 = some Phase.rejected ∧ (run demoMessy init).reqs 3 = some Phase.rejected ∧
    (run demoMessy init).reqs 4 = some Phase.rejected ∧ reqDone (run demoMessy init) 1 1 0 = true := by decide

/-- and of the alias theorems: dropping the alias `X` with the same servers -/
def demoAlias : Spec := { name := nA, aliases := [], servers := [(u0, false), (u1, false)] }

example : get (run (demoOps.take 9) init) nx = some 0 ∧
    get (applySpec (run (demoOps.take 9) init) demoAlias) nx = none ∧
    get (applySpec (run (demoOps.take 9) init) demoAlias) nA = some 0 ∧
    (applySpec (run (demoOps.take 9) init) demoAlias).cancels = (run (demoOps.take 9) init).cancels := by decide

end KG.Props.C15
