import KG.Lemmas.Forward
/-!
# C04 — Forwarding fidelity and gateway-terminated answers

Every theorem is about `KG.Model.Forward` (the mirror of dispatcher.go / upgradeaware.go / reverseproxy.go /
termination.go / upstreaminfo.go and of the `net/url` functions on the way) and the judges of `KG.Spec.Forward`.
They quantify over all byte strings, all header maps, all scenarios.

Two places where the full statement of the property is FALSE of the code (findings C04-invalid-raw-byte-reencoded and
C04-requestinfo-error-plain-500, see notes/C04.md) are kept visible: the full statement as a `def … : Prop`, a kernel-checked refutation by witness, and the
proved partial theorem with its explicit decidable hypothesis.
-/
namespace KG.Props.C04
open KG KG.Model.Forward KG.Spec.Forward KG.Lemmas.Forward

/-! ## request: path -/

/-- **FULL statement, every path the server accepts (no validity hypothesis; since 85b204e):** the path the transport writes
    is the client's escaped path with EXACTLY the bytes net/url rejects in `RawPath` (`"`, `{`, `|`, `<`, raw UTF-8, …)
    percent-encoded; every other byte and every escape the client wrote (`%2F`, `%2f`, `%25`, `%20`, `%41`, `//`, `;`, `+`,
    non-UTF-8 escapes, lower-case hex …) is forwarded as it is. -/
theorem c04_path_exact (p P : Str) (hp : hasPrefixSlash p = true) (h : unescape .path p = some P) :
    pathPipeline p = some (escapeInvalidPathBytes p) :=
  pathPipeline_exact p P hp h

/-- … so a valid RFC 3986 path (only pchars, `/` and percent escapes) is forwarded byte for byte -/
theorem c04_path_exact_valid (p P : Str) (hp : hasPrefixSlash p = true) (hv : validEncoded p = true)
    (h : unescape .path p = some P) : pathPipeline p = some p :=
  pathPipeline_valid p P hp hv h

/-- the bytes `escapeInvalidPathBytes` leaves alone (regenerated from the source) are exactly those net/url accepts -/
theorem c04_escape_table (c : UInt8) : pathByteValid c = validEncodedByte c := pathByteValid_eq c

/-- Every accepted path, valid or not, reaches the upstream as a path that decodes to the same bytes. -/
theorem c04_path_decoded (p P : Str) (hp : hasPrefixSlash p = true) (h : unescape .path p = some P) :
    ∃ out, pathPipeline p = some out ∧ unescape .path out = some P :=
  let ⟨out, h1, h2, _⟩ := pathPipeline_decoded p P hp h
  ⟨out, h1, h2⟩

/-- **every accepted path reaches the upstream as the same path up to RFC 3986 normalisation** (escapes of reserved bytes
    kept: `%2F` never becomes `/`). This was the FULL statement `PathFidelityFull` that finding
    C04-invalid-raw-byte-reencoded refuted on the tree before 85b204e (`/%2F"` ↦ `//%22`); it now holds. -/
def PathFidelityFull : Prop :=
  ∀ p P out, hasPrefixSlash p = true → unescape .path p = some P → pathPipeline p = some out → rfcNorm out = rfcNorm p

theorem c04_path_full : PathFidelityFull := by
  intro p P out hp h ho
  rw [c04_path_exact p P hp h] at ho
  injection ho with ho
  rw [← ho]
  exact rfcNorm_escapeInvalid p P h

/-- the three path judges hold of the model's output on EVERY accepted path -/
theorem c04_path_judges (p P : Str) (hp : hasPrefixSlash p = true) (h : unescape .path p = some P) :
    ∃ out, pathPipeline p = some out ∧ pathExact p out = true ∧ pathDecoded p out = true ∧ pathNorm p out = true := by
  refine ⟨_, c04_path_exact p P hp h, ?_, ?_, ?_⟩
  · unfold pathExact
    by_cases hv : validEncoded p = true
    · simp [escapeInvalid_id p hv]
    · simp [hv]
  · unfold pathDecoded; simp [unescape_escapeInvalid p P h, h]
  · unfold pathNorm; simp [rfcNorm_escapeInvalid p P h]

/-- the former witness of the finding: `/%2F"` now arrives as `/%2F%22` -/
example : pathPipeline [47, 37, 50, 70, 34] = some [47, 37, 50, 70, 37, 50, 50] := by decide

/-! ## request: query -/

/-- The forwarded query (`Values.Encode` of the parsed query) parses to the same multimap: for every key the same
    values in the same order. Malformed pairs are dropped by both parses. -/
theorem c04_query_multimap (q : Str) (k : Str) :
    valuesOf k (parseQuery (encodeQuery (parseQuery q))) = valuesOf k (parseQuery q) := by
  rw [parseQuery_encodeQuery, valuesOf_regroup]

theorem c04_query_judge (q : Str) : queryOK q (encodeQuery (parseQuery q)) = true := by
  unfold queryOK
  simp only [List.all_eq_true, decide_eq_true_eq]
  intro k _
  exact c04_query_multimap q k

/-! ## request: headers -/
/-- **the code's hop-by-hop list is the specification's**: the regenerated `hopHeaders` of reverseproxy.go names
    exactly the headers of `specHop` -/
theorem c04_hop_list (k : Str) : k ∈ Gen.C04.hopHeaders ↔ k ∈ specHop := by
  have h1 : ∀ x ∈ Gen.C04.hopHeaders, x ∈ specHop := by decide
  have h2 : ∀ x ∈ specHop, x ∈ Gen.C04.hopHeaders := by decide
  exact ⟨h1 k, h2 k⟩

theorem xff_not_hop : kXFF ∉ specHop := by decide
theorem te_hop : kTe ∈ specHop := by decide
theorem ua_not_hop : kUserAgent ∉ specHop := by decide

theorem values_director_connection (h : Hdr) : (director h).values kConnection = h.values kConnection := by
  unfold director
  split
  · rfl
  · rw [values_eq, get?_set]; simp [show kConnection ≠ kUserAgent by decide, values_eq]

theorem connectionTokens_director (h : Hdr) : connectionTokens (director h) = connectionTokens h := by
  unfold connectionTokens; rw [values_director_connection]

theorem get?_director (h : Hdr) (k : Str) :
    (director h).get? k = if k = kUserAgent ∧ h.get? kUserAgent = none then some [[]] else h.get? k := by
  unfold director
  cases hu : h.get? kUserAgent with
  | none =>
    simp only [Option.isSome_none, Bool.false_eq_true, if_false, get?_set]
    by_cases hk : k = kUserAgent <;> simp [hk]
  | some v =>
    simp only [Option.isSome_some, if_true]
    by_cases hk : k = kUserAgent <;> simp [hk]

theorem get?_stripHopByHop (h : Hdr) (k : Str) :
    (stripHopByHop (director h)).get? k =
      if k ∈ specHop ∨ k ∈ connectionTokens h then none else (director h).get? k := by
  unfold stripHopByHop removeHop removeConnectionHeaders
  rw [get?_delAll, get?_delAll, connectionTokens_director]
  simp only [c04_hop_list]
  by_cases h1 : k ∈ specHop <;> by_cases h2 : k ∈ connectionTokens h <;> simp [h1, h2]

theorem get?_teStep (h out : Hdr) (k : Str) :
    (teStep h out).get? k =
      if headerValuesContainsToken (h.values kTe) kTrailers = true ∧ k = kTe then some [kTrailers] else out.get? k := by
  unfold teStep
  by_cases ht : headerValuesContainsToken (h.values kTe) kTrailers = true
  · simp only [ht, if_true, get?_set, true_and]
  · simp [ht]

/-- **Request header fidelity**, per header name, for every header map and every client address (non-upgrade requests):
    the upstream sees exactly what `reqHdrExpected` says — end-to-end headers unchanged and in order, hop-by-hop and
    `Connection`-listed headers gone (with the `Te: trailers` exception), `X-Forwarded-For` folded and extended. -/
theorem c04_request_headers (h : Hdr) (ip : Option Str) (hw : WF h) (hup : upgradeType (director h) = []) (k : Str) :
    (outHeaders h ip).values k = reqHdrExpected h ip k := by
  unfold outHeaders upgradeStep
  simp only [hup, ne_eq, not_true_eq_false, if_false]
  -- the map before the X-Forwarded-For step
  have hg : ∀ x, (teStep h (stripHopByHop (director h))).get? x =
      if headerValuesContainsToken (h.values kTe) kTrailers = true ∧ x = kTe then some [kTrailers]
      else if x ∈ specHop ∨ x ∈ connectionTokens h then none
      else if x = kUserAgent ∧ h.get? kUserAgent = none then some [[]] else h.get? x := by
    intro x; rw [get?_teStep, get?_stripHopByHop, get?_director]
  have hxff : (teStep h (stripHopByHop (director h))).get? kXFF =
      if kXFF ∈ connectionTokens h then none else h.get? kXFF := by
    rw [hg]
    simp [show kXFF ≠ kTe by decide, xff_not_hop, show kXFF ≠ kUserAgent by decide]
  by_cases hk : k = kXFF
  · -- X-Forwarded-For
    subst hk
    unfold reqHdrExpected
    simp only [if_true]
    cases ip with
    | none =>
      unfold xffStep
      simp only [values_eq, hxff]
      by_cases hl : kXFF ∈ connectionTokens h <;> simp [hl]
    | some ip =>
      unfold xffStep
      simp only [hxff]
      by_cases hl : kXFF ∈ connectionTokens h
      · simp [hl, values_eq, get?_set]
      · simp only [hl, if_false]
        cases hv : h.get? kXFF with
        | none => simp [values_eq, get?_set, hv]
        | some vs =>
          cases vs with
          | nil => exact absurd hv (hw kXFF)
          | cons p ps => simp [values_eq, get?_set, hv]
  · -- every other name is untouched by the X-Forwarded-For step
    have hsame : (xffStep (teStep h (stripHopByHop (director h))) ip).get? k = (teStep h (stripHopByHop (director h))).get? k := by
      unfold xffStep
      cases ip with
      | none => rfl
      | some ip =>
        simp only
        split
        · rfl
        · rw [get?_set]; simp [hk]
        · rw [get?_set]; simp [hk]
    rw [values_eq, hsame, hg]
    unfold reqHdrExpected
    simp only [hk, if_false]
    by_cases ht : headerValuesContainsToken (h.values kTe) kTrailers = true ∧ k = kTe
    · have ht' : k = kTe ∧ headerValuesContainsToken (h.values kTe) kTrailers = true := ⟨ht.2, ht.1⟩
      simp [ht, ht']
    · have ht' : ¬ (k = kTe ∧ headerValuesContainsToken (h.values kTe) kTrailers = true) := fun x => ht ⟨x.2, x.1⟩
      simp only [ht, ht', if_false]
      by_cases hr : k ∈ specHop ∨ k ∈ connectionTokens h
      · have hr' : k ∈ connectionTokens h ∨ k ∈ specHop := hr.symm
        simp [hr, hr']
      · have hr' : ¬ (k ∈ connectionTokens h ∨ k ∈ specHop) := fun x => hr x.symm
        simp only [hr, hr', if_false]
        by_cases hu : k = kUserAgent ∧ h.get? kUserAgent = none
        · simp [hu]
        · simp [hu, values_eq]

/-- a request that `UpgradeAwareHandler.ServeHTTP` sends down the reverse-proxy path (`httpstream.IsUpgradeRequest` is
    false) has no upgrade type in the reverse proxy's sense: the hypothesis of `c04_request_headers` holds -/
theorem c04_nonupgrade_has_no_upgrade_type (h : Hdr) (hnu : isUpgradeRequest h = false) : upgradeType (director h) = [] := by
  unfold upgradeType
  rw [values_director_connection, upgradeType_nil_of_not_upgrade h hnu]
  simp

/-- `c04_request_headers` under the condition the code itself tests -/
theorem c04_request_headers_nonupgrade (h : Hdr) (ip : Option Str) (hw : WF h) (hnu : isUpgradeRequest h = false) (k : Str) :
    (outHeaders h ip).values k = reqHdrExpected h ip k :=
  c04_request_headers h ip hw (c04_nonupgrade_has_no_upgrade_type h hnu) k

/-- corollary: an end-to-end header (not hop-by-hop, not listed in `Connection`, not `X-Forwarded-For`, and not an
    absent `User-Agent`) reaches the upstream with the same values in the same order -/
theorem c04_request_end_to_end (h : Hdr) (ip : Option Str) (hw : WF h) (hup : upgradeType (director h) = []) (k : Str)
    (h1 : k ∉ specHop) (h2 : k ∉ connectionTokens h) (h3 : k ≠ kXFF) (h4 : k ≠ kUserAgent) :
    (outHeaders h ip).values k = h.values k := by
  rw [c04_request_headers h ip hw hup k]
  unfold reqHdrExpected
  have : k ≠ kTe := fun hk => h1 (hk ▸ te_hop)
  simp [h1, h2, h3, h4, this]

/-- corollary: no hop-by-hop or `Connection`-listed header is forwarded, except `Te: trailers` -/
theorem c04_request_hop_removed (h : Hdr) (ip : Option Str) (hw : WF h) (hup : upgradeType (director h) = []) (k : Str)
    (h1 : k ∈ specHop ∨ k ∈ connectionTokens h) (h3 : k ≠ kXFF) (h4 : k ≠ kTe) :
    (outHeaders h ip).values k = [] := by
  rw [c04_request_headers h ip hw hup k]
  unfold reqHdrExpected
  simp [h3, h4, h1.symm]

/-- corollary: `X-Forwarded-For` is the prior values folded with ", " plus the client address -/
theorem c04_request_xff (h : Hdr) (ip : Str) (hw : WF h) (hup : upgradeType (director h) = [])
    (hl : kXFF ∉ connectionTokens h) :
    (outHeaders h (some ip)).values kXFF =
      match h.values kXFF with
      | [] => [ip]
      | p :: ps => [joinWith kCommaSpace (p :: ps) ++ kCommaSpace ++ ip] := by
  rw [c04_request_headers h (some ip) hw hup kXFF]
  unfold reqHdrExpected
  simp only [if_true, hl, if_false]
  cases h.values kXFF <;> rfl

/-- the header map the proxy handler receives from net/http + `WithAuthentication` is well-formed -/
theorem c04_parsed_headers_wf (lines : List (Str × Str)) : WF (afterAuthentication (parseHeaders lines)) :=
  wf_del _ _ (wf_parseHeaders lines)

/-! ## the whole forwarded request -/

/-- method, host and body are handed to the transport unchanged -/
theorem c04_request_method_host_body (r : Req) (u : UpReq) (h : forwardRequest r = some u) :
    u.method = r.method ∧ u.host = r.host ∧ u.body = r.body := by
  unfold forwardRequest at h
  cases ht : targetPipeline r.target with
  | none => simp [ht] at h
  | some t => simp [ht] at h; subst h; simp

theorem cut_nosep (sep : UInt8) (a : Str) (h : sep ∉ a) : cut sep a = (a, []) := by
  induction a with
  | nil => simp [cut]
  | cons c a ih =>
    have hc : c ≠ sep := by intro hc; exact h (by simp [hc])
    have ha : sep ∉ a := by intro ha; exact h (by simp [ha])
    rw [cut_cons]; simp [hc, ih ha]

/-- **Request fidelity**: for EVERY request with a slash-led path the gateway accepts (its escapes decode) that is
    not an upgrade request (the test `UpgradeAwareHandler.ServeHTTP` itself makes: no `Connection` value contains
    "upgrade"), the request handed to the upstream has the same method, host, body, the client's path bytes with
    exactly the bytes no URL may carry percent-escaped (`escapeInvalidPathBytes`, the identity on a valid path —
    see `c04_request_fidelity_valid`), a query that parses to the same multimap, and per header name the values
    `reqHdrExpected` prescribes. -/
theorem c04_request_fidelity (r : Req) (P : Str)
    (hp : hasPrefixSlash (cut 63 r.target).1 = true)
    (hd : unescape .path (cut 63 r.target).1 = some P)
    (hnu : isUpgradeRequest (afterAuthentication (parseHeaders r.lines)) = false) :
    ∃ u, forwardRequest r = some u ∧ u.method = r.method ∧ u.host = r.host ∧ u.body = r.body
      ∧ (cut 63 u.target).1 = escapeInvalidPathBytes (cut 63 r.target).1
      ∧ (∀ k, valuesOf k (parseQuery (cut 63 u.target).2) = valuesOf k (parseQuery (cut 63 r.target).2))
      ∧ (∀ k, u.headers.values k = reqHdrExpected (afterAuthentication (parseHeaders r.lines)) r.remoteIP k) := by
  have hpath := c04_path_exact _ P hp hd
  have h63 : (63 : UInt8) ∉ escapeInvalidPathBytes (cut 63 r.target).1 := by
    intro hm
    have hv := escapeInvalid_valid (cut 63 r.target).1
    have : validEncodedByte 63 = true := by
      unfold validEncoded at hv
      exact List.all_eq_true.mp hv 63 hm
    revert this; decide
  generalize escapeInvalidPathBytes (cut 63 r.target).1 = q at hpath h63
  refine ⟨_, by unfold forwardRequest targetPipeline; rw [hpath], rfl, rfl, rfl, ?_, ?_, ?_⟩
  · -- path
    simp only
    by_cases hq : encodeQuery (parseQuery (cut 63 r.target).2) = []
    · simp only [hq, if_true]
      rw [cut_nosep 63 q h63]
    · simp only [hq, if_false]
      have : q ++ [63] ++ encodeQuery (parseQuery (cut 63 r.target).2)
          = q ++ 63 :: encodeQuery (parseQuery (cut 63 r.target).2) := by simp
      rw [this, cut_append 63 _ _ h63]
  · -- query
    intro k
    simp only
    by_cases hq : encodeQuery (parseQuery (cut 63 r.target).2) = []
    · simp only [hq, if_true]
      rw [cut_nosep 63 q h63]
      have := c04_query_multimap (cut 63 r.target).2 k
      rw [hq] at this
      exact this
    · simp only [hq, if_false]
      have : q ++ [63] ++ encodeQuery (parseQuery (cut 63 r.target).2)
          = q ++ 63 :: encodeQuery (parseQuery (cut 63 r.target).2) := by simp
      rw [this, cut_append 63 _ _ h63]
      exact c04_query_multimap _ k
  · intro k
    exact c04_request_headers_nonupgrade _ _ (c04_parsed_headers_wf r.lines) hnu k

/-- a request the model forwards had a path whose escapes decode (that is what "the gateway accepts the path" means) -/
theorem c04_forwarded_decodes (r : Req) (u : UpReq) (h : forwardRequest r = some u) :
    ∃ P, unescape .path (cut 63 r.target).1 = some P := by
  cases hd : unescape .path (cut 63 r.target).1 with
  | some P => exact ⟨P, rfl⟩
  | none => simp [forwardRequest, targetPipeline, pathPipeline, setPath, hd] at h

/-- … and on a valid path the escaped path bytes are the client's, byte for byte -/
theorem c04_request_fidelity_valid (r : Req) (P : Str)
    (hp : hasPrefixSlash (cut 63 r.target).1 = true) (hv : validEncoded (cut 63 r.target).1 = true)
    (hd : unescape .path (cut 63 r.target).1 = some P)
    (hnu : isUpgradeRequest (afterAuthentication (parseHeaders r.lines)) = false) :
    ∃ u, forwardRequest r = some u ∧ u.method = r.method ∧ u.host = r.host ∧ u.body = r.body
      ∧ (cut 63 u.target).1 = (cut 63 r.target).1
      ∧ (∀ k, valuesOf k (parseQuery (cut 63 u.target).2) = valuesOf k (parseQuery (cut 63 r.target).2))
      ∧ (∀ k, u.headers.values k = reqHdrExpected (afterAuthentication (parseHeaders r.lines)) r.remoteIP k) := by
  have h := c04_request_fidelity r P hp hd hnu
  rw [escapeInvalid_id _ hv] at h
  exact h

/-! ## response -/

theorem nodup_upstreamResponseHeaders (lines : List (Str × Str)) : (upstreamResponseHeaders lines).keys.Nodup := by
  unfold upstreamResponseHeaders transportResponseHeaders
  split
  · exact nodup_keys_del _ _ (nodup_keys_parseHeaders lines)
  · exact nodup_keys_parseHeaders lines

/-- **Response header fidelity**, per header name, for every upstream header map: the client sees what the gateway's
    own filters put there, then the upstream's values in order — unless the name is hop-by-hop or listed in the
    upstream's `Connection`. -/
theorem c04_response_headers (pre up : Hdr) (hn : up.keys.Nodup) (k : Str) :
    (relayHeaders pre up).values k = respHdrExpected pre up k := by
  unfold relayHeaders respHdrExpected
  rw [values_copyHeader _ _ _ (by
    unfold removeHop removeConnectionHeaders
    exact nodup_keys_delAll _ _ (nodup_keys_delAll _ _ hn))]
  congr 1
  unfold removeHop removeConnectionHeaders
  rw [values_eq, get?_delAll, get?_delAll]
  simp only [c04_hop_list]
  by_cases h1 : k ∈ specHop <;> by_cases h2 : k ∈ connectionTokens up <;> simp [h1, h2, values_eq]

/-- **Response fidelity**: status and body are relayed unchanged, every end-to-end header of the upstream reaches the
    client in order, and the only values added are the gateway-owned ones of `preHeaders`. -/
theorem c04_response_fidelity (closeWhenIdle : Bool) (status : Nat) (lines : List (Str × Str)) (body : Str) :
    (relayResponse closeWhenIdle status lines body).status = status ∧
    (relayResponse closeWhenIdle status lines body).body = body ∧
    ∀ k, (relayResponse closeWhenIdle status lines body).headers.values k =
      respHdrExpected (preHeaders closeWhenIdle) (upstreamResponseHeaders lines) k := by
  refine ⟨rfl, rfl, fun k => ?_⟩
  show (relayHeaders (preHeaders closeWhenIdle) (upstreamResponseHeaders lines)).values k = _
  exact c04_response_headers (preHeaders closeWhenIdle) (upstreamResponseHeaders lines) (nodup_upstreamResponseHeaders lines) k

/-- the gateway-owned allow-list: the only names `preHeaders` ever sets are `Cache-Control` and `Connection` (to `close`) -/
theorem c04_response_allow_list (closeWhenIdle : Bool) (k : Str) (hk : k ≠ kCacheControl) (hc : k ≠ kConnection) :
    (preHeaders closeWhenIdle).values k = [] := by
  cases closeWhenIdle <;> simp [preHeaders, values_eq, get?_cons, get?_nil, Ne.symm hk, Ne.symm hc]

theorem c04_response_connection_close_only (closeWhenIdle : Bool) :
    (preHeaders closeWhenIdle).values kConnection = if closeWhenIdle then [kClose] else [] := by
  cases closeWhenIdle <;> decide

/-! ## response: time -/

/-- the construction of the transport a forwarded request is sent with, pinned: the fields `newTransport` sets (regenerated
    from pkg/clusters/endpoint.go), the function the literal is handed to, and no later assignment to a time-out field -/
theorem c04_transport_construction :
    Gen.C04.transportFields.map (·.1) = ["Proxy", "TLSHandshakeTimeout", "TLSClientConfig", "MaxIdleConnsPerHost", "DialContext", "DisableCompression"] ∧
    Gen.C04.transportDurationsMs = [("TLSHandshakeTimeout", 10000)] ∧
    Gen.C04.transportWrap = "utilnet.SetTransportDefaults" ∧ Gen.C04.timeoutAssignments = [] := by decide

/-- the time-outs of `newRESTConfig` and of the two dialers (they bound connecting, and the clientset's own requests) -/
theorem c04_rest_config_timeouts :
    Gen.C04.restConfigDurationsMs = [("Timeout", 5000)] ∧ Gen.C04.restDialerMs = [("Timeout", 5000), ("KeepAlive", 30000)] ∧
    Gen.C04.fallbackDialerMs = [("Timeout", 30000), ("KeepAlive", 30000)] := by decide

/-- **the code has no deadline for the answer of a forwarded request**: the transport literal sets no field that bounds the
    wait for a response, and no time-out filter is in the chain -/
theorem c04_no_response_deadline :
    codeDeadlines.responseHeader = none ∧
    (∀ f, f ∈ responseDeadlineFields → f ∉ Gen.C04.transportFields.map (·.1)) ∧
    (∀ f, f ∈ timeoutFilters → f ∉ Gen.C04.proxyChainNames) := by decide

/-- **Fidelity for every delay**: whenever the upstream answers — however long it waits before the status line, between
    header and body, between pieces of the body — the client gets the relayed answer (and `c04_response_fidelity` says what
    that is): the relay has no deadline of its own. -/
theorem c04_relay_every_delay (t : Timing) (closeWhenIdle : Bool) (status : Nat) (lines : List (Str × Str)) (body : Str) :
    relayTimed codeDeadlines t closeWhenIdle status lines body = .relayed (relayResponse closeWhenIdle status lines body) := by
  unfold relayTimed
  rw [c04_no_response_deadline.1]

/-- … and what that answer is, in one statement -/
theorem c04_response_fidelity_timed (t : Timing) (closeWhenIdle : Bool) (status : Nat) (lines : List (Str × Str)) (body : Str) :
    ∃ r, relayTimed codeDeadlines t closeWhenIdle status lines body = .relayed r ∧ r.status = status ∧ r.body = body ∧
      ∀ k, r.headers.values k = respHdrExpected (preHeaders closeWhenIdle) (upstreamResponseHeaders lines) k :=
  ⟨_, c04_relay_every_delay t closeWhenIdle status lines body, c04_response_fidelity closeWhenIdle status lines body⟩

/-- For ANY deadlines (what a tree with a response-header time-out would do): every delay below the deadline is relayed in full,
    delays after the header never matter … -/
theorem c04_relay_below_deadline (dl : Deadlines) (t : Timing) (closeWhenIdle : Bool) (status : Nat) (lines : List (Str × Str)) (body : Str)
    (h : ∀ d, dl.responseHeader = some d → t.beforeStatus < d) :
    relayTimed dl t closeWhenIdle status lines body = .relayed (relayResponse closeWhenIdle status lines body) := by
  unfold relayTimed
  cases hd : dl.responseHeader with
  | none => rfl
  | some d =>
    have := h d hd
    simp only
    rw [if_neg (by omega)]

/-- … and a header that comes at or after the deadline ends the exchange with the gateway's own 502: nothing is relayed
    although the request was forwarded — which is why the property needs `c04_no_response_deadline` -/
theorem c04_relay_deadline_terminates (dl : Deadlines) (t : Timing) (d : Nat) (closeWhenIdle : Bool) (status : Nat)
    (lines : List (Str × Str)) (body : Str) (hd : dl.responseHeader = some d) (h : d ≤ t.beforeStatus) :
    relayTimed dl t closeWhenIdle status lines body = .gatewayError := by
  unfold relayTimed
  rw [hd]
  simp only
  rw [if_pos h]

/-- the outcome depends on the time before the header only -/
theorem c04_relay_later_delays_irrelevant (dl : Deadlines) (t t' : Timing) (h : t.beforeStatus = t'.beforeStatus)
    (closeWhenIdle : Bool) (status : Nat) (lines : List (Str × Str)) (body : Str) :
    relayTimed dl t closeWhenIdle status lines body = relayTimed dl t' closeWhenIdle status lines body := by
  unfold relayTimed
  rw [h]

/-- non-vacuity: a tree whose transport had `ResponseHeaderTimeout: cfg.Timeout` (5 s) would answer a 201 that comes after 6 s
    with its own 502, and relay one that comes after 4 s -/
example : relayTimed ⟨durationOf "ResponseHeaderTimeout" [("TLSHandshakeTimeout", 10000), ("ResponseHeaderTimeout", 5000)]⟩
    ⟨6000, 0, []⟩ false 201 [] [] = .gatewayError := by decide
example : relayTimed ⟨durationOf "ResponseHeaderTimeout" [("TLSHandshakeTimeout", 10000), ("ResponseHeaderTimeout", 5000)]⟩
    ⟨4000, 3000, [3000]⟩ false 201 [] [] = .relayed (relayResponse false 201 [] []) := by decide

/-! ## gateway-terminated answers -/

theorem retryAfter_pos : 0 < Gen.C04.retryAfter := by decide
theorem unavailableRetryAfter_pos : 0 < Gen.C04.unavailableRetryAfter := by decide

/-- the model of `dispatcher.ServeHTTP` computes the dispatcher's rows -/
theorem c04_dispatcher_table (s : Scenario) : dispatcher s = tableDispatch s := by
  have hr : (if 0 < Gen.C04.retryAfter then some Gen.C04.retryAfter else none) = some Gen.C04.retryAfter := by
    simp [retryAfter_pos]
  unfold dispatcher tableDispatch
  cases hpm : s.policyMatches <;> cases haq : s.acquireOK <;> cases hpo : s.popOK
    <;> simp [terminateWithError, errorNegotiated, suggestsClientDelay, newServiceUnavailable, newTooManyRequests, newInternalError]
    <;> (try decide)
    <;> (by_cases hres : s.resource = Gen.C04.rateLimitExemptResource <;> simp [hres, hr] <;> decide)

/-- the model of the chain computes the closed-form decision table -/
theorem c04_decision_table (s : Scenario) : serve s = table s := by
  unfold serve table withRequestInfo withUpstreamInfo withAuthentication withImpersonation withDispatcher
  rw [c04_dispatcher_table]
  cases hri : s.requestInfoOK <;> cases hip : s.hostIsIP <;> cases hck : s.clusterKnown <;> cases hda : s.denyAll <;> cases hau : s.authOK
    <;> cases him : s.imp
    <;> simp [terminateWithError, errorNegotiated, suggestsClientDelay, newServiceUnavailable, newTooManyRequests,
          newForbidden, newUnauthorized]
    <;> decide

/-- the answers a terminated request can get -/
def wellFormedAnswer (a : Answer) : Prop :=
  a.body.kind = kStatus ∧ a.body.apiVersion = kV1 ∧ a.body.status = kFailure ∧ a.body.code = a.httpCode

/-- every answer the gateway writes through `TerminateWithError` / `ErrorNegotiated` is a well-formed `Status` whose
    code is the HTTP code -/
theorem c04_terminated_wellformed (s : Scenario) (a : Answer) (h : serve s = .terminated a) : wellFormedAnswer a := by
  rw [c04_decision_table] at h
  unfold table tableDispatch at h
  unfold wellFormedAnswer
  repeat' split at h
  all_goals first
    | (injection h with h; subst h; exact ⟨rfl, rfl, rfl, rfl⟩)
    | cases h

/-- … and, seen as an observation with nothing forwarded, satisfies the harness's judges -/
theorem c04_terminated_judges (s : Scenario) (a : Answer) (h : serve s = .terminated a) :
    wellFormed (obsOfAnswer a) = true ∧ matchesRow a (obsOfAnswer a) = true := by
  obtain ⟨h1, h2, h3, h4⟩ := c04_terminated_wellformed s a h
  simp [wellFormed, matchesRow, obsOfAnswer, h1, h2, h3, h4]

/-- the rows, one by one -/
theorem c04_row_unknown_cluster (s : Scenario) (h0 : s.requestInfoOK = true) (h1 : s.hostIsIP = false) (h2 : s.clusterKnown = false) :
    ∃ a, serve s = .terminated a ∧ a.httpCode = 503 ∧ a.retryAfter = some Gen.C04.unavailableRetryAfter := by
  rw [c04_decision_table]; unfold table tableDispatch; simp [h0, h1, h2]

theorem c04_row_deny_all (s : Scenario) (h0 : s.requestInfoOK = true) (h1 : s.hostIsIP = false) (h2 : s.clusterKnown = true) (h3 : s.denyAll = true) :
    ∃ a, serve s = .terminated a ∧ a.httpCode = 429 ∧ a.retryAfter = none := by
  rw [c04_decision_table]; unfold table tableDispatch; simp [h0, h1, h2, h3]

theorem c04_row_unauthenticated (s : Scenario) (h0 : s.requestInfoOK = true) (h1 : s.hostIsIP = false) (h2 : s.clusterKnown = true)
    (h3 : s.denyAll = false) (h4 : s.authOK = false) :
    ∃ a, serve s = .terminated a ∧ a.httpCode = 401 := by
  rw [c04_decision_table]; unfold table tableDispatch; simp [h0, h1, h2, h3, h4]

theorem c04_row_impersonation_refused (s : Scenario) (h0 : s.requestInfoOK = true) (h1 : s.hostIsIP = false) (h2 : s.clusterKnown = true)
    (h3 : s.denyAll = false) (h4 : s.authOK = true) (h5 : s.imp = .refused) :
    ∃ a, serve s = .terminated a ∧ a.httpCode = 403 := by
  rw [c04_decision_table]; unfold table tableDispatch; simp [h0, h1, h2, h3, h4, h5]

theorem c04_row_no_policy (s : Scenario) (h0 : s.requestInfoOK = true) (h1 : s.hostIsIP = false) (h2 : s.clusterKnown = true)
    (h3 : s.denyAll = false) (h4 : s.authOK = true) (h5 : s.imp = .none ∨ s.imp = .allowed) (h6 : s.policyMatches = false) :
    ∃ a, serve s = .terminated a ∧ a.httpCode = 500 := by
  rw [c04_decision_table]; unfold table tableDispatch
  rcases h5 with h5 | h5 <;> simp [h0, h1, h2, h3, h4, h5, h6]

theorem c04_row_rate_limited (s : Scenario) (h0 : s.requestInfoOK = true) (h1 : s.hostIsIP = false) (h2 : s.clusterKnown = true)
    (h3 : s.denyAll = false) (h4 : s.authOK = true) (h5 : s.imp = .none ∨ s.imp = .allowed) (h6 : s.policyMatches = true)
    (h7 : s.acquireOK = false) :
    ∃ a, serve s = .terminated a ∧ a.httpCode = 429 ∧
      a.retryAfter = (if s.resource = Gen.C04.rateLimitExemptResource then none else some Gen.C04.retryAfter) := by
  rw [c04_decision_table]; unfold table tableDispatch
  rcases h5 with h5 | h5 <;> simp [h0, h1, h2, h3, h4, h5, h6, h7]

theorem c04_row_no_ready_endpoint (s : Scenario) (h0 : s.requestInfoOK = true) (h1 : s.hostIsIP = false) (h2 : s.clusterKnown = true)
    (h3 : s.denyAll = false) (h4 : s.authOK = true) (h5 : s.imp = .none ∨ s.imp = .allowed) (h6 : s.policyMatches = true)
    (h7 : s.acquireOK = true) (h8 : s.popOK = false) :
    ∃ a, serve s = .terminated a ∧ a.httpCode = 503 ∧ a.retryAfter = some Gen.C04.unavailableRetryAfter := by
  rw [c04_decision_table]; unfold table tableDispatch
  rcases h5 with h5 | h5 <;> simp [h0, h1, h2, h3, h4, h5, h6, h7, h8]

/-- a request is forwarded exactly when no row terminates it -/
theorem c04_forward_iff (s : Scenario) :
    serve s = .forward ↔ (s.requestInfoOK = true ∧ s.hostIsIP = false ∧ s.clusterKnown = true ∧ s.denyAll = false ∧ s.authOK = true
      ∧ (s.imp = .none ∨ s.imp = .allowed) ∧ s.policyMatches = true ∧ s.acquireOK = true ∧ s.popOK = true) := by
  rw [c04_decision_table]; unfold table tableDispatch
  cases hri : s.requestInfoOK <;> cases hip : s.hostIsIP <;> cases hck : s.clusterKnown <;> cases hda : s.denyAll <;> cases hau : s.authOK
    <;> cases him : s.imp <;> cases hpm : s.policyMatches <;> cases haq : s.acquireOK <;> cases hpo : s.popOK
    <;> simp

/-- malformed impersonation headers (no `Impersonate-User`) are answered with a 500 `Status` (repaired by e67e36e;
    it used to be `text/plain`) -/
theorem c04_row_impersonation_malformed (s : Scenario) (h0 : s.requestInfoOK = true) (h1 : s.hostIsIP = false) (h2 : s.clusterKnown = true)
    (h3 : s.denyAll = false) (h4 : s.authOK = true) (h5 : s.imp = .malformed) :
    ∃ a, serve s = .terminated a ∧ a.httpCode = 500 ∧ a.body.reason = kInternalError := by
  rw [c04_decision_table]; unfold table tableDispatch; simp [h0, h1, h2, h3, h4, h5]

/-- **FULL statement (was refuted by finding C04-requestinfo-error-plain-500 before bd02b39): every request is forwarded,
    handed to the control plane (IP-literal Host), or answered with a well-formed API `Status`** — there is no other outcome,
    whether or not the RequestInfo resolves (since e67e36e, 1375191 and bd02b39: malformed impersonation and an unresolvable
    RequestInfo get a Status, non-UTF-8 resources no longer drop the connection). -/
theorem c04_terminated_status (s : Scenario) :
    serve s = .forward ∨ serve s = .notProxied ∨ ∃ a, serve s = .terminated a ∧ wellFormedAnswer a := by
  cases h : serve s with
  | forward => exact Or.inl rfl
  | notProxied => exact Or.inr (Or.inl rfl)
  | terminated a => exact Or.inr (Or.inr ⟨a, rfl, c04_terminated_wellformed s a h⟩)

theorem c04_every_outcome (s : Scenario) :
    serve s = .forward ∨ serve s = .notProxied ∨ ∃ a, serve s = .terminated a ∧ wellFormedAnswer a :=
  c04_terminated_status s

/-- the row: an unresolvable RequestInfo (`GET /api/v1/proxy`, `/api/v1/watch`) is a 500 `Status`, whatever else holds -/
theorem c04_row_requestinfo_error (s : Scenario) (h0 : s.requestInfoOK = false) :
    ∃ a, serve s = .terminated a ∧ a.httpCode = 500 ∧ a.retryAfter = none ∧ a.body.reason = kInternalError := by
  rw [c04_decision_table]; unfold table; simp [h0]

/-- only an IP-literal Host is handed to the control plane -/
theorem c04_not_proxied_iff (s : Scenario) :
    serve s = .notProxied ↔ (s.requestInfoOK = true ∧ s.hostIsIP = true ∧ s.authOK = true ∧ (s.imp = .none ∨ s.imp = .allowed)) := by
  rw [c04_decision_table]; unfold table tableDispatch
  cases hri : s.requestInfoOK <;> cases hip : s.hostIsIP <;> cases hck : s.clusterKnown <;> cases hda : s.denyAll <;> cases hau : s.authOK
    <;> cases him : s.imp <;> cases hpm : s.policyMatches <;> cases haq : s.acquireOK <;> cases hpo : s.popOK
    <;> simp

/-! ## regenerated facts: the structure the models were written against -/

/-- the filter order `serve` composes: request info → termination metrics → extra request info → upstream info →
    reader/writer wrapper → authentication → impersonation → dispatcher, cache control outside -/
theorem c04_chain_order : chainOrderOK Gen.C04.proxyChain = true := by decide

/-- in `dispatcher.ServeHTTP` every terminating call is immediately followed by `return`, and the proxy call is the
    last step: every early return precedes forwarding, nothing is forwarded on a terminated path -/
theorem c04_dispatcher_early_returns : skeletonOK Gen.C04.dispatcherSteps = true := by decide

theorem c04_upstreamInfo_early_returns : skeletonOK Gen.C04.upstreamInfoSteps = true := by decide

/-- the dispatcher and the upstream-info filter still have the shape the model mirrors: the error constructor of every
    branch in order, the position of `TryAcquire`, the deferred `Release`, `Pop` (`shapeOf`: reasons and context guards are
    not compared) -/
theorem c04_dispatcher_shape : shapeOf Gen.C04.dispatcherSteps = shapeOf expectedDispatcherSteps := by decide
theorem c04_upstreamInfo_shape : shapeOf Gen.C04.upstreamInfoSteps = shapeOf expectedUpstreamInfoSteps := by decide

/-- `WithRequestInfo` is the gateway's own filter: a resolver error is written with `ErrorNegotiated(NewInternalError)` and
    followed by `return`; the chain hands it the serializer (third argument) -/
theorem c04_requestInfo_shape :
    Gen.C04.requestInfoSteps = expectedRequestInfoSteps ∧ skeletonOK Gen.C04.requestInfoSteps = true ∧
    Gen.C04.requestInfoCallArgs = 3 := by decide

/-- what `dispatcher.ServeHTTP` hands to the proxy as the escaped path, by role (whatever the helper functions are called and
    however the URL is built): the RawPath of the upstream URL is a same-file function of the incoming RawPath, and that
    function leaves alone letters, digits and the regenerated punctuation — which `c04_escape_table` proves to be net/url's
    own test. (The byte-for-byte behaviour is tied by the end-to-end streams on every run.) -/
theorem c04_location_rawpath : Gen.C04.locationRawPathEscaped = true ∧ Gen.C04.validPathAlnum = true := by decide

/-- end-to-end names the gateway must never treat as hop-by-hop -/
theorem c04_hop_list_sound :
    ∀ k ∈ [kXFF, kUserAgent, kAuthorization, kContentType, kCacheControl, kAcceptEncoding, kContentLength, kDate],
      k ∉ specHop := by decide

/-! ## non-vacuity -/

/-- the hypotheses of `c04_request_fidelity` hold of a concrete request with an escaped slash, a query with a
    duplicate key and a malformed pair, a `Connection`-listed header and a `Te` header -/
example :
    let r : Req := { method := [71, 69, 84], target := [47, 97, 37, 50, 70, 98, 63, 98, 61, 50, 38, 97, 61, 49, 38, 97, 61, 37, 122],
                     host := [104], lines := [(kConnection, [120, 45, 102]), ([120, 45, 102], [49]), (kTe, kTrailers)],
                     body := [], remoteIP := some [49] }
    hasPrefixSlash (cut 63 r.target).1 = true ∧ validEncoded (cut 63 r.target).1 = true
      ∧ unescape .path (cut 63 r.target).1 = some [47, 97, 47, 98]
      ∧ isUpgradeRequest (afterAuthentication (parseHeaders r.lines)) = false := by decide

/-- a forward scenario and a terminated one exist -/
example : serve ⟨true, false, true, false, true, .none, true, true, [], true⟩ = .forward := by decide
example : serve ⟨true, false, true, false, true, .none, true, false, [], true⟩
    = .terminated ⟨429, some 1, ⟨kStatus, kV1, kFailure, kTooManyRequests, 429⟩⟩ := by decide

end KG.Props.C04
