import KG.Lemmas.K8sStore
/-!
# C19 — API-backed limiter store: acknowledged state survives crashes, per shard

Model: `KG.Model.K8sStore` (`pkg/ratelimiter/store/k8s/cache_store.go` over the local cache and an API stand-in with
a fault script consumed call by call; crash points = the API after every call). Judge: `KG.Spec.K8sStore`.

The property, for EVERY history of operations (incl. restarts = crashes between operations), EVERY fault script,
EVERY crash point, every iteration order of the cache, every shard function:

* `c19_durable` — at every crash point the API honours every claim the history has made so far
  (`KG.Spec.K8sStore.judge`): a condition whose write-through `Save` was acknowledged is persisted with that spec
  and status until somebody saves/deletes it again (or another writer removes it); after `Stop`/`Flush` answered
  nil every local condition of the shard is persisted; a condition whose `Delete`/`DeleteUpstream` was
  acknowledged is absent — during and after every later flush, save of other conditions, load, restart — until it
  is saved again (no resurrection). Calls of other goroutines landing inside a running flush are part of the
  histories, as far as the store mutex lets them (`allowedHist`; lock facts regenerated from the source:
  `genLocks_good`).
* `c19_ack_persisted`, `c19_delete_durable`, `c19_deleteUpstream_durable`, `c19_stop_flushes` — the same facts at the
  moment the operation answers, without any assumption on the state.
* `c19_load_exact`, `c19_crash_points_nodup` — a fresh store that `Load`s at any crash point holds exactly the
  persisted conditions of its shard.
* `c19_save_inside_flush_refuted`, `c19_delete_inside_flush_refuted` — what the two repairs of `/repo` (53e64a0,
  4930fff) prevent: were a write-through `Save` / a `Delete` able to run inside a flush, the property would fail.
-/
namespace KG.Props.C19
open KG KG.Model.K8sStore KG.Spec.K8sStore KG.Lemmas.K8sStore

/-- The lock facts extracted from the current source: flush, `Delete`, `DeleteUpstream` and the write-through
    `Save` hold the store mutex. (Fails to check when one of these locks is removed.) -/
theorem genLocks_good : GoodLocks genLocks := ⟨rfl, rfl, rfl, rfl⟩

/-- The served API stores the status submitted to the main resource (the control plane registers
    `ratelimitconditions` with `subStatus = false`), as `Api.write` assumes. (Fails to check when the registry wiring
    gives the resource a status-subresource strategy: every acknowledged Save would then lose its status.) -/
theorem api_persists_status : servedKeepsStatus = true := rfl

/-- with these locks, what can land inside a running flush is a periodic `Save` (cache only) -/
theorem c19_only_periodic_saves_inside (wt : Bool) (intr : Op) (h : allowedIntr genLocks wt intr = true) :
    ∃ k c, intr = .save k c ∧ wt = false :=
  allowed_save genLocks_good h

/-- **Main theorem.** `up` is any function giving the upstream of a condition name (the limiter's names are
    `<upstream>.<instance>` / `<upstream>.state`): every operation uses the condition's upstream as cache key, and
    the API starts with conditions named that way, each name once. -/
theorem c19_durable (sh : Str → Nat) (up : Str → Str) (L : Locks) (hL : GoodLocks L)
    (shard : Nat) (wt : Bool) (steps : Nat) (api0 : Api) (script : List Fault) (ops : List OpI)
    (hapi : ApiWf up api0) (hops : ∀ op ∈ ops, OpIWf up op) (hallowed : allowedHist L wt ops = true) :
    ∀ p ∈ checkAll sh (newStore shard wt steps) Ghost.empty ⟨api0, script, []⟩ ops, judge p.1 p.2 = true := by
  intro p hp
  rw [judge_iff]
  apply checkAll_ok sh up hL ops (newStore shard wt steps) Ghost.empty ⟨api0, script, []⟩ _ hops hallowed p hp
  refine ⟨⟨?_, ?_⟩, ⟨?_, ?_⟩, ?_, ?_, hapi⟩
  · intro h hh; cases hh
  · intro n hn; cases hn
  · intro h hh; cases hh
  · intro n hn; cases hn
  · intro e he; cases he
  · intro e he; cases he

/-- the main theorem for the store as it is in `/repo` now -/
theorem c19_durable_repo (sh : Str → Nat) (up : Str → Str)
    (shard : Nat) (wt : Bool) (steps : Nat) (api0 : Api) (script : List Fault) (ops : List OpI)
    (hapi : ApiWf up api0) (hops : ∀ op ∈ ops, OpIWf up op) (hallowed : allowedHist genLocks wt ops = true) :
    ∀ p ∈ checkAll sh (newStore shard wt steps) Ghost.empty ⟨api0, script, []⟩ ops, judge p.1 p.2 = true :=
  c19_durable sh up genLocks genLocks_good shard wt steps api0 script ops hapi hops hallowed

/-! ## At the moment the operation answers (no assumption on the state) -/

/-- Write-through: `Save` answers nil ⇒ the API holds that condition's spec and status (whatever the state,
    the fault script, the retries taken). -/
theorem c19_ack_persisted (sh : Str → Nat) (st st' : Store) (k : Str) (c : Cond) (w w' : World)
    (hwt : st.cfg.writeThrough = true) (h : save sh st k c w = (st', w', .ok)) :
    holdsData w'.api c.name c.data = true := by
  rw [holdsData_iff]
  unfold save at h
  split at h
  · cases h
  · cases hC : createOrUpdate st.cfg.steps c w with
    | mk w1 r =>
    rw [hC] at h
    obtain ⟨_, _, hok⟩ := createOrUpdate_spec _ c w w1 r hC
    cases r with
    | error e => simp only [] at h; cases h
    | ok c' =>
      simp only [] at h
      cases h
      exact (hok c' rfl).1

/-- … and what it caches is that condition -/
theorem c19_ack_cached (sh : Str → Nat) (st st' : Store) (k : Str) (c : Cond) (w w' : World)
    (hwt : st.cfg.writeThrough = true) (h : save sh st k c w = (st', w', .ok)) :
    ∃ c', lget k c.name st'.loc = some c' ∧ c'.data = c.data := by
  unfold save at h
  split at h
  · cases h
  · cases hC : createOrUpdate st.cfg.steps c w with
    | mk w1 r =>
    rw [hC] at h
    obtain ⟨_, _, hok⟩ := createOrUpdate_spec _ c w w1 r hC
    cases r with
    | error e => simp only [] at h; cases h
    | ok c' =>
      simp only [] at h
      cases h
      obtain ⟨_, hn, hd⟩ := hok c' rfl
      refine ⟨c', ?_, hd⟩
      simp [lget, lput, sameKey, List.find?, hn]

/-- The limiter's pattern for conditions it keeps (`<upstream>.state`, reported conditions): `Get` the stored
    pointer, change it in place, `Save` that pointer. Write-through, answer nil ⇒ the API holds the condition AS
    EDITED (the content at the time of the acknowledgement) — a `Save` may not skip the write because the argument
    "equals" what is cached: the cached object IS the argument. -/
theorem c19_ack_persisted_stored (sh : Str → Nat) (st st' : Store) (k n : Str) (a b c : Nat) (w w' : World)
    (hwt : st.cfg.writeThrough = true) (h : step sh st (.saveStored k n a b c) w = (st', w', .ok)) :
    ∃ st1 c', edited st k n a b c = some (st1, c') ∧ c'.name = n ∧ c'.spec = a ∧ c'.status = b ∧
      holdsData w'.api n c'.data = true := by
  simp only [step] at h
  cases hE : edited st k n a b c with
  | none => rw [hE] at h; cases h
  | some p =>
    obtain ⟨st1, c'⟩ := p
    rw [hE] at h
    simp only [] at h
    obtain ⟨c0, _, _, hn', _, hcfg, _, _⟩ := edited_some hE
    have hsp : c'.spec = a ∧ c'.status = b := by
      unfold edited at hE
      cases hg : lget k n st.loc with
      | none => rw [hg] at hE; cases hE
      | some c1 =>
        rw [hg] at hE
        simp only [Option.some.injEq, Prod.mk.injEq] at hE
        rw [← hE.2]
        exact ⟨rfl, rfl⟩
    have := c19_ack_persisted sh st1 st' k c' w w' (by rw [hcfg]; exact hwt) h
    rw [hn'] at this
    exact ⟨st1, c', rfl, hn', hsp.1, hsp.2, this⟩

/-- a `Save` that answers an error (or refuses a condition of another shard) leaves the cache as it was -/
theorem c19_failed_save_not_cached (sh : Str → Nat) (st st' : Store) (k : Str) (c : Cond) (w w' : World) (res : Res)
    (hres : res ≠ .ok) (h : save sh st k c w = (st', w', res)) : st' = st := by
  unfold save at h
  split at h
  · cases h; rfl
  · split at h
    · split at h
      · cases h; rfl
      · cases h; exact absurd rfl hres
    · cases h; exact absurd rfl hres

/-- `Delete` answers nil ⇒ the condition is not in the API -/
theorem c19_delete_durable (st st' : Store) (k n : Str) (w w' : World) (h : delete st k n w = (st', w', .ok)) :
    w'.api.get n = none ∧ lget k n st'.loc = none := by
  unfold delete at h
  cases hD : delLoop n st.cfg.steps w with
  | mk w1 r =>
  rw [hD] at h
  obtain ⟨_, _, hok⟩ := delLoop_spec n _ w w1 r hD
  cases r with
  | error e => simp only [] at h; cases h
  | ok u =>
    simp only [] at h
    cases h
    refine ⟨(hok rfl).2, ?_⟩
    simp only [lget, Option.map_eq_none_iff, List.find?_eq_none]
    intro e he
    have := (mem_ldel.1 he).2
    simpa [sameKey] using this

/-- `DeleteUpstream` answers nil ⇒ none of its conditions is in the API, and the cache has none under that key -/
theorem c19_deleteUpstream_durable (st st' : Store) (k : Str) (ord : List (Str × Str)) (w w' : World)
    (h : deleteUpstream st k ord w = (st', w', .ok)) :
    (∀ e ∈ llistUp k st.loc, w'.api.get e.2.name = none) ∧ llistUp k st'.loc = [] := by
  unfold deleteUpstream at h
  cases hD : delAll st.cfg.steps (arrange ord (llistUp k st.loc)) w with
  | mk w1 r =>
  rw [hD] at h
  obtain ⟨_, _, hok⟩ := delAll_spec _ _ w w1 r hD
  cases r with
  | error e => simp only [] at h; cases h
  | ok u =>
    simp only [] at h
    cases h
    refine ⟨fun e he => hok rfl e (mem_arrange.2 he), ?_⟩
    simp [llistUp, ldelUp, List.filter_filter]

/-- an operation that answers an error claims nothing, and the cache keeps what it had -/
theorem c19_failed_delete_keeps_cache (st st' : Store) (k n : Str) (w w' : World) (e : Err)
    (h : delete st k n w = (st', w', .err e)) : st' = st := by
  unfold delete at h
  split at h <;> cases h
  rfl

/-- `Stop` of a store that was not stopped answers nil ⇒ every local condition of the shard is persisted with its
    spec and status (write-through or periodic; for every visiting order and fault script). `Coherent`: the cache
    does not hold two different conditions under one name (true of every reachable cache: `Inv.coh`). -/
theorem c19_stop_flushes (sh : Str → Nat) (st st' : Store) (ord : List (Str × Str)) (w w' : World)
    (hst : st.stopped = false) (hcoh : Coherent st.loc) (h : stop sh st ord w = (st', w', .ok)) :
    (∀ e ∈ st.loc, sh e.2.upstream = st.cfg.shard → holdsData w'.api e.2.name e.2.data = true) ∧ st'.stopped = true := by
  unfold stop at h
  rw [if_neg (by simp [hst])] at h
  cases hS : syncAll sh st.cfg.shard st.cfg.steps (arrange ord st.loc) w with
  | mk w1 r =>
  rw [hS] at h
  obtain ⟨_, _, hok⟩ := syncAll_spec sh _ _ _ w w1 r hS
  cases r with
  | error e => simp only [] at h; cases h
  | ok u =>
    simp only [] at h
    cases h
    refine ⟨fun e he hown => ?_, rfl⟩
    rw [holdsData_iff]
    exact hok rfl (hcoh.sub (fun e he => mem_arrange.1 he)) e (mem_arrange.2 he) hown

/-- the same for an explicit `Flush` (what the periodic goroutine runs) -/
theorem c19_flush_flushes (sh : Str → Nat) (st st' : Store) (ord : List (Str × Str)) (w w' : World)
    (hcoh : Coherent st.loc) (h : flush sh st ord w = (st', w', .ok)) :
    ∀ e ∈ st.loc, sh e.2.upstream = st.cfg.shard → holdsData w'.api e.2.name e.2.data = true := by
  unfold flush at h
  cases hS : syncAll sh st.cfg.shard st.cfg.steps (arrange ord st.loc) w with
  | mk w1 r =>
  rw [hS] at h
  obtain ⟨_, _, hok⟩ := syncAll_spec sh _ _ _ w w1 r hS
  cases r with
  | error e => simp only [] at h; cases h
  | ok u =>
    simp only [] at h
    cases h
    intro e he hown
    rw [holdsData_iff]
    exact hok rfl (hcoh.sub (fun e he => mem_arrange.1 he)) e (mem_arrange.2 he) hown

/-! ## What the next holder of a shard loads -/

theorem loadAll_mem (sh : Str → Nat) (shard : Nat) : ∀ (items : List Cond) (l : Loc),
    items.Pairwise (fun c d => ¬ c.name = d.name) → (∀ e ∈ l, ∀ c ∈ items, ¬ e.2.name = c.name) →
    ∀ e, e ∈ loadAll sh shard items l ↔ e ∈ l ∨ ∃ c ∈ items, sh c.upstream = shard ∧ e = (c.upstream, c) := by
  intro items
  induction items with
  | nil => intro l _ _ e; simp [loadAll]
  | cons c rest ih =>
    intro l hp hd e
    obtain ⟨hc, hrest⟩ := List.pairwise_cons.1 hp
    simp only [loadAll]
    split
    · rename_i hsh
      rw [ih l hrest (fun e he c' hc' => hd e he c' (List.mem_cons_of_mem _ hc')) e]
      constructor
      · rintro (h | ⟨c', hc', hown, he⟩)
        · exact .inl h
        · exact .inr ⟨c', List.mem_cons_of_mem _ hc', hown, he⟩
      · rintro (h | ⟨c', hc', hown, he⟩)
        · exact .inl h
        · rcases List.mem_cons.1 hc' with rfl | hc'
          · exact absurd hown hsh
          · exact .inr ⟨c', hc', hown, he⟩
    · rename_i hsh
      have hown : sh c.upstream = shard := by simpa using hsh
      rw [ih (lput c.upstream c l) hrest (by
        intro e he c' hc'
        rcases mem_lput.1 he with rfl | ⟨he, _⟩
        · exact hc c' hc'
        · exact hd e he c' (List.mem_cons_of_mem _ hc')) e]
      constructor
      · rintro (h | ⟨c', hc', hown', he⟩)
        · rcases mem_lput.1 h with rfl | ⟨h, _⟩
          · exact .inr ⟨c, List.mem_cons_self .., hown, rfl⟩
          · exact .inl h
        · exact .inr ⟨c', List.mem_cons_of_mem _ hc', hown', he⟩
      · rintro (h | ⟨c', hc', hown', he⟩)
        · exact .inl (mem_lput.2 (.inr ⟨h, fun hh => hd e h c (List.mem_cons_self ..) hh.2⟩))
        · rcases List.mem_cons.1 hc' with rfl | hc'
          · exact .inl (mem_lput.2 (.inl he))
          · exact .inr ⟨c', hc', hown', he⟩

/-- "A server that gains a shard loads exactly the persisted conditions of that shard, and nothing of other
    shards": a fresh store whose `Load` answers nil caches exactly `persistedOf shard` of the API it listed, each
    condition under its upstream. (`ApiNodup`: every crash point of every history has it, `c19_crash_points_nodup`.) -/
theorem c19_load_exact (sh : Str → Nat) (shard : Nat) (wt : Bool) (steps : Nat) (w w' : World) (st' : Store)
    (hn : ApiNodup w.api) (h : load sh (newStore shard wt steps) w = (st', w', .ok)) :
    w'.api = w.api ∧ ∀ e, e ∈ st'.loc ↔ e.1 = e.2.upstream ∧ e.2 ∈ persistedOf sh shard w.api := by
  unfold load at h
  cases hL : apiList w with
  | mk w1 r =>
  rw [hL] at h
  obtain ⟨_, _, hsame, hitems⟩ := apiList_spec w w1 r hL
  cases r with
  | error e => simp only [] at h; cases h
  | ok items =>
    have hi := hitems items rfl
    simp only [] at h
    cases h
    refine ⟨hsame, fun e => ?_⟩
    simp only [newStore]
    rw [loadAll_mem sh shard items [] (hi ▸ hn) (fun e he => by cases he) e, hi]
    simp only [persistedOf, List.mem_filter, decide_eq_true_eq]
    constructor
    · rintro (h | ⟨c, hc, hown, rfl⟩)
      · cases h
      · exact ⟨rfl, hc, hown⟩
    · rintro ⟨hk, hc, hown⟩
      exact .inr ⟨e.2, hc, hown, Prod.ext hk rfl⟩

theorem loadAll_keeps (sh : Str → Nat) (shard : Nat) : ∀ (items : List Cond) (l : Loc) (e : Str × Cond),
    e ∈ l → (∀ c ∈ items, ¬ c.name = e.2.name) → e ∈ loadAll sh shard items l := by
  intro items
  induction items with
  | nil => intro l e he _; exact he
  | cons c rest ih =>
    intro l e he hne
    simp only [loadAll]
    split
    · exact ih l e he (fun c' h' => hne c' (List.mem_cons_of_mem _ h'))
    · apply ih _ e _ (fun c' h' => hne c' (List.mem_cons_of_mem _ h'))
      exact mem_lput.2 (.inr ⟨he, fun hh => hne c (List.mem_cons_self ..) hh.2.symm⟩)

theorem loadAll_covers (sh : Str → Nat) (shard : Nat) : ∀ (items : List Cond) (l : Loc),
    items.Pairwise (fun c d => ¬ c.name = d.name) →
    ∀ c ∈ items, sh c.upstream = shard → (c.upstream, c) ∈ loadAll sh shard items l := by
  intro items
  induction items with
  | nil => intro l _ c hc; cases hc
  | cons x rest ih =>
    intro l hp c hc hown
    obtain ⟨hx, hrest⟩ := List.pairwise_cons.1 hp
    simp only [loadAll]
    rcases List.mem_cons.1 hc with rfl | hc
    · rw [if_neg (by simpa using hown)]
      exact loadAll_keeps sh shard rest _ _ (mem_lput.2 (.inl rfl)) (fun c' h' hn => hx c' h' hn.symm)
    · split
      · exact ih l hrest c hc hown
      · exact ih _ hrest c hc hown

/-- **`Load` wins over what the cache held.** Whatever the store cached before (e.g. a periodic `Save` that reached a
    store handed out before it was loaded — the `startLeading` window), after `Load` answered nil EVERY persisted
    condition of the shard is cached exactly as persisted: the state of the previous holder is never shadowed by
    something newer-looking that was not persisted. -/
theorem c19_load_covers (sh : Str → Nat) (st st' : Store) (w w' : World)
    (hn : ApiNodup w.api) (h : load sh st w = (st', w', .ok)) :
    ∀ c ∈ persistedOf sh st.cfg.shard w.api, (c.upstream, c) ∈ st'.loc := by
  unfold load at h
  cases hL : apiList w with
  | mk w1 r =>
  rw [hL] at h
  obtain ⟨_, _, _, hitems⟩ := apiList_spec w w1 r hL
  cases r with
  | error e => simp only [] at h; cases h
  | ok items =>
    have hi := hitems items rfl
    simp only [] at h
    cases h
    intro c hc
    simp only [persistedOf, List.mem_filter, decide_eq_true_eq] at hc
    exact loadAll_covers sh st.cfg.shard items st.loc (hi ▸ hn) c (hi ▸ hc.1) hc.2

/-- a `Load` that fails leaves the fresh store empty (the limiter then drops the store) -/
theorem c19_load_failed (sh : Str → Nat) (shard : Nat) (wt : Bool) (steps : Nat) (w w' : World) (st' : Store) (e : Err)
    (h : load sh (newStore shard wt steps) w = (st', w', .err e)) : st'.loc = [] := by
  unfold load at h
  split at h <;> cases h
  rfl

/-- at whatever point the previous holder crashed: every crash point of every history (any operations, any
    intruders, any fault script) keeps names unique, so `c19_load_exact` applies to it -/
theorem c19_crash_points_nodup (sh : Str → Nat) : ∀ (ops : List OpI) (st : Store) (w : World),
    ApiNodup w.api → (∀ p ∈ w.trace, ApiNodup p.api) →
    (∀ p ∈ (runAll sh st w ops).2.trace, ApiNodup p.api) ∧ ApiNodup (runAll sh st w ops).2.api := by
  intro ops
  induction ops with
  | nil => intro st w h1 h2; exact ⟨h2, h1⟩
  | cons op ops ih =>
    intro st w h1 h2
    cases hS : stepI sh st op w with
    | mk st' rest =>
    obtain ⟨w', res, ir⟩ := rest
    simp only [runAll, hS]
    obtain ⟨pts, hr⟩ := stepI_run sh hS
    obtain ⟨hp, ha⟩ := path_nodup hr.2 h1
    apply ih st' w' ha
    intro p hp'
    rw [hr.1] at hp'
    rcases List.mem_append.1 hp' with hp' | hp'
    · exact hp p (List.mem_reverse.1 hp')
    · exact h2 p hp'

/-! ## No resurrection, spelled out for one flush -/

/-- A flush (any visiting order, any faults) does not create a condition that is neither in the API nor in the
    cache — at none of its crash points. With `c19_delete_durable` (after an acknowledged `Delete` the condition is
    in neither) and the store mutex (no deletion lands between the flush's snapshot and its writes: `genLocks_good`)
    this is "a deleted condition is not re-created by a flush"; `c19_durable` carries it through whole histories. -/
theorem c19_flush_does_not_resurrect (sh : Str → Nat) (st st' : Store) (ord : List (Str × Str)) (w w' : World) (res : Res)
    (n : Str) (hapi : w.api.get n = none) (hloc : ∀ e ∈ st.loc, ¬ e.2.name = n)
    (h : flush sh st ord w = (st', w', res)) :
    (∀ p ∈ newPts w w', p.api.get n = none) ∧ w'.api.get n = none := by
  unfold flush at h
  cases hS : syncAll sh st.cfg.shard st.cfg.steps (arrange ord st.loc) w with
  | mk w1 r =>
  rw [hS] at h
  obtain ⟨pts, hr, _⟩ := syncAll_spec sh _ _ _ w w1 r hS
  have hW : ∀ it, Wl (arrange ord st.loc) it → ¬ it.name = n := by
    rintro it ⟨e, he, hit⟩ hn
    exact hloc e (mem_arrange.1 he) (hit.1.symm.trans hn)
  have h1 := path_absent_pts hr.2 hW hapi
  have h2 := path_absent hr.2 hW hapi
  rw [← newPts_of_run hr] at h1
  cases r <;> (simp only [] at h; cases h; exact ⟨h1, h2⟩)

/-- after an acknowledged `Delete` by the limiter (key = the name's upstream) no cached condition carries the name -/
theorem c19_delete_uncached (up : Str → Str) (st st' : Store) (k n : Str) (w w' : World)
    (hwf : LocWf up st.loc) (hk : k = up n) (h : delete st k n w = (st', w', .ok)) : ∀ e ∈ st'.loc, ¬ e.2.name = n := by
  unfold delete at h
  split at h
  · cases h
  · cases h
    intro e he hn
    obtain ⟨hel, hne⟩ := mem_ldel.1 he
    exact hne ⟨by rw [(hwf e hel).1, hn, hk], hn⟩

/-- **No resurrection, through whole histories.** After `Delete(k, n)` answered nil (issued as the limiter does:
    `k` is the upstream of the name), whatever follows — saves of other conditions, flushes with any visiting order
    (with other goroutines' calls inside them), stops, deletions, loads, restarts, under any fault script — `n` is
    in the API at none of the crash points, as long as nobody saves `n` again. (The deletion itself is an operation
    of the history, not a call inside a flush: that is what the store mutex guarantees, `genLocks_good`.) -/
theorem c19_no_resurrection (sh : Str → Nat) (up : Str → Str) (st st1 : Store) (w w1 : World) (k n : Str) (ops : List OpI)
    (hwf : LocWf up st.loc) (hk : k = up n) (hdel : delete st k n w = (st1, w1, .ok))
    (hnosave : ∀ op ∈ ops, ¬ savesNameI n op) :
    (∀ p ∈ newPts w1 (runAll sh st1 w1 ops).2, p.api.get n = none) ∧ (runAll sh st1 w1 ops).2.api.get n = none := by
  have habs : Abs n st1 w1.api := ⟨(c19_delete_durable st st1 k n w w1 hdel).1, c19_delete_uncached up st st1 k n w w1 hwf hk hdel⟩
  obtain ⟨pts, hr, h1, h2⟩ := runAll_abs sh ops st1 w1 habs hnosave
  rw [newPts_of_run hr]
  exact ⟨h1, h2.1⟩

/-- the same after `DeleteUpstream(k)`, for each of its conditions -/
theorem c19_no_resurrection_upstream (sh : Str → Nat) (up : Str → Str) (st st1 : Store) (w w1 : World) (k : Str)
    (ord : List (Str × Str)) (ops : List OpI) (hwf : LocWf up st.loc)
    (hdel : deleteUpstream st k ord w = (st1, w1, .ok)) (e : Str × Cond) (he : e ∈ llistUp k st.loc)
    (hnosave : ∀ op ∈ ops, ¬ savesNameI e.2.name op) :
    (∀ p ∈ newPts w1 (runAll sh st1 w1 ops).2, p.api.get e.2.name = none) ∧
      (runAll sh st1 w1 ops).2.api.get e.2.name = none := by
  have hapi := (c19_deleteUpstream_durable st st1 k ord w w1 hdel).1 e he
  have hloc : ∀ e' ∈ st1.loc, ¬ e'.2.name = e.2.name := by
    unfold deleteUpstream at hdel
    split at hdel
    · cases hdel
    · cases hdel
      intro e' he' hn
      obtain ⟨hel, hne⟩ := mem_ldelUp.1 he'
      obtain ⟨he0, hek⟩ := mem_llistUp.1 he
      exact hne (by rw [(hwf e' hel).1, hn, ← (hwf e he0).1, hek])
  obtain ⟨pts, hr, h1, h2⟩ := runAll_abs sh ops st1 w1 ⟨hapi, hloc⟩ hnosave
  rw [newPts_of_run hr]
  exact ⟨h1, h2.1⟩

/-! ## Why the locks are needed: kernel-checked witnesses -/

namespace Witness
def k : Str := [99]                                     -- upstream "c"
def n : Str := [99, 46, 105]                            -- condition "c.i"
def v1 : Cond := ⟨n, k, 1, 1, 0, 0⟩
def v2 : Cond := ⟨n, k, 2, 2, 0, 0⟩
def other : Cond := ⟨[99, 46, 115], k, 7, 7, 0, 0⟩       -- condition "c.s"
def sh : Str → Nat := fun _ => 0
def up : Str → Str := fun _ => k
def empty : Api := ⟨[], 1⟩
/-- write-through: `Save(v1)`; `Stop()` in whose window another goroutine's `Save(v2)` is acknowledged -/
def racingSave : List OpI := [.plain (.save k v1), .stopI [] 0 (.save k v2)]
/-- periodic: `Save(v1)`, `Flush()`; a `Flush()` in whose window another goroutine's `Delete` is acknowledged -/
def racingDelete : List OpI := [.plain (.save k v1), .plain (.flush []), .flushI [] 0 (.delete k n)]
/-- periodic, faults, a crash: allowed by the locks of the current source -/
def allowed : List OpI :=
  [.plain (.save k v1), .plain (.save k other), .flushI [] 1 (.save k v2), .plain (.delete k n), .plain (.flush []),
   .plain (.restart 0 true), .plain .load, .plain (.save k v1), .plain (.saveStored k n 9 9 1), .plain (.stop [])]
def faults : List Fault :=
  [.conflict, .transient, .notFound, .ok, .ok, .ok, .conflict, .ok, .ok, .ok, .ok, .ok, .conflict, .ok, .ok, .ok, .lost]
end Witness

theorem apiWf_empty {up : Str → Str} {n : Nat} : ApiWf up ⟨[], n⟩ :=
  ⟨fun c hc => (by cases hc), fun c hc => (by cases hc)⟩

open Witness in
/-- What 53e64a0 prevents. If a write-through `Save` could land inside a running flush, the property would fail:
    `Save(v1)` acknowledged, `Stop()` snapshots `{v1}`, `Save(v2)` is acknowledged inside the window, the flush
    writes `v1` over it — the acknowledged `v2` is not persisted. -/
theorem c19_save_inside_flush_refuted :
    ApiWf up empty ∧ (∀ op ∈ racingSave, OpIWf up op) ∧
    (checkAll sh (newStore 0 true 5) Ghost.empty ⟨empty, [], []⟩ racingSave).any (fun p => ! judge p.1 p.2) = true := by
  refine ⟨apiWf_empty, ?_, by decide⟩
  intro op hop
  simp only [racingSave, List.mem_cons, List.mem_nil_iff, or_false] at hop
  rcases hop with rfl | rfl <;> exact ⟨rfl, rfl⟩

open Witness in
/-- … and the locks of the current source do not allow that history -/
theorem c19_racing_save_not_allowed : allowedHist genLocks true Witness.racingSave = false := by decide

open Witness in
/-- What 4930fff prevents. If a `Delete` could land inside a running flush, the flush would re-create the deleted
    condition from its snapshot. -/
theorem c19_delete_inside_flush_refuted :
    ApiWf up empty ∧ (∀ op ∈ racingDelete, OpIWf up op) ∧
    (checkAll sh (newStore 0 false 5) Ghost.empty ⟨empty, [], []⟩ racingDelete).any (fun p => ! judge p.1 p.2) = true := by
  refine ⟨apiWf_empty, ?_, by decide⟩
  intro op hop
  simp only [racingDelete, List.mem_cons, List.mem_nil_iff, or_false] at hop
  rcases hop with rfl | rfl | rfl
  · exact ⟨rfl, rfl⟩
  · trivial
  · exact (rfl : k = up n)

open Witness in
theorem c19_racing_delete_not_allowed : allowedHist genLocks false Witness.racingDelete = false := by decide

/-! ## The hypotheses are satisfiable by a non-trivial history (non-vacuity) -/

open Witness in
/-- a history with retries, a lost reply, a vanished object, a periodic `Save` inside a flush, a deletion, a crash
    a new write-through holder and an in-place edit of a stored condition satisfies every hypothesis of `c19_durable_repo` … -/
example : ApiWf up empty ∧ (∀ op ∈ allowed, OpIWf up op) ∧ allowedHist genLocks false allowed = true := by
  refine ⟨apiWf_empty, ?_, by decide⟩
  intro op hop
  simp only [allowed, List.mem_cons, List.mem_nil_iff, or_false] at hop
  rcases hop with rfl | rfl | rfl | rfl | rfl | rfl | rfl | rfl | rfl | rfl
  · exact ⟨rfl, rfl⟩
  · exact ⟨rfl, rfl⟩
  · exact ⟨rfl, rfl⟩
  · exact (rfl : k = up n)
  · trivial
  · trivial
  · trivial
  · exact ⟨rfl, rfl⟩
  · exact (rfl : k = up n)
  · trivial

open Witness in
/-- … and its claims are not empty: at some crash point both a "persisted" and an "absent" claim are in force, at
    the end the condition re-saved and then edited in place (`saveStored`) is claimed persisted AS EDITED -/
example :
    let pts := checkAll sh (newStore 0 false 5) Ghost.empty ⟨empty, faults, []⟩ allowed
    pts.length = 27 ∧ pts.any (fun p => ! p.1.held.isEmpty && ! p.1.gone.isEmpty) = true ∧
    (pts.getLast?.map (fun p => p.1.held.any (fun h => h.1 == n && h.2.1 == (⟨k, 9, 9⟩ : Data) && h.2.2 == Why.ack))) = some true ∧
    pts.all (fun p => judge p.1 p.2) = true := by
  decide

end KG.Props.C19
