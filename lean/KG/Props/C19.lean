import KG.Spec.K8sStore
namespace KG.Props.C19
open KG KG.Model.K8sStore KG.Spec.K8sStore

/-- placeholder while the harness is brought up; replaced by the real theorems -/
theorem placeholder : judge Ghost.empty ⟨[], 1⟩ = true := by decide

end KG.Props.C19
