import KG.Model.RemoteLimiter
import KG.Spec.RemoteLimiter
namespace KG.Props.C09
open KG.Model.RemoteLimiter KG.Spec.RemoteLimiter

/-- the closure `bound` of `boundByGlobalLimit` lands in `[0, global]` whatever was answered -/
theorem bound_range (v g : Int) (hg : 0 ≤ g) : 0 ≤ bound v g ∧ bound v g ≤ g := by
  simp only [bound]
  constructor <;> (split <;> split <;> omega)

end KG.Props.C09
