import KG.Model.RemoteLimiter
import KG.Spec.RemoteLimiter
import KG.Lemmas.RemoteLimiter
/-!
# C09 — Gateway never exceeds the global limit; falls back to the local limit on failure

All theorems are about `KG.Model.RemoteLimiter` (the executable model the harness compares with the real
`upstreamLimiter`, wrappers and `clientSets`) and the judge `KG.Spec.RemoteLimiter` (the same function the harness
applies to the implementation's observations).

Quantification: every operation list `ops` whose schema syncs carry schemas accepted by validation
(`validSchema`: one type, `0 ≤ local ≤ global ≤ 2^31-1`) of one type `K`, and whose meter readings have a positive
denominator. EVERYTHING else is arbitrary: any number and order of reconcile halves, answered items of any type,
strategy and value (any `Int`, so in particular every int32), acquire results with any accept flag, limit, error
kind, request time (stale, zero, negative, reordered) and request tokens, heartbeats at arbitrary times, shard-count
changes, limit and strategy changes of the schema — and missing replies (absent operations).
-/
namespace KG.Props.C09
open KG.Model.RemoteLimiter KG.Spec.RemoteLimiter KG.Lemmas.RemoteLimiter KG.Gen.C09

/-- the operation lists the theorems quantify over -/
def Allowed (K : Kind) (ops : List Op) : Prop :=
  ∀ op ∈ ops, match op with
    | .schema s => validSchema s = true ∧ guessType s = K
    | .meter x => 0 < x.rateDen
    | _ => True

theorem zero_le_max : (0 : Int) ≤ maxInt32 := by decide

theorem allowed_ok {K : Kind} {ops : List Op} (h : Allowed K ops) : ∀ op ∈ ops, OpOK K op := by
  intro op hop
  have := h op hop
  cases op with
  | schema s => simp only at this; rw [← this.2]; exact VS_of_valid this.1
  | meter x => exact this
  | shards _ => trivial
  | sync _ _ _ _ => trivial
  | event => trivial
  | acquire _ => trivial
  | release _ => trivial
  | tick _ _ => trivial
  | hb _ _ _ => trivial
  | reconcileCount => trivial
  | restart => trivial
  | answer _ _ => trivial
  | setLimit _ => trivial

/-! ## 1. the whole judge, for every allowed operation list -/

/-- **Main theorem.** Whatever is answered, in whatever order: the model never panics, and the judge — every clause
    of the property: capacity within the configured global limit, type, fallback choice, local limit, readiness
    hysteresis, error fallback, recovery, stale replies ignored, granted quota applied — accepts the observation
    made after every single operation. -/
theorem c09_judge (K : Kind) (cfg : Cfg) (ops : List Op) (h : Allowed K ops) :
    (run cfg ops).2 = none ∧ (run cfg ops).1.length = ops.length ∧
      allGood (judgeAll cfg ops (run cfg ops).1) = true :=
  run_inv ops (initState cfg) {} (inv_init K cfg) (allowed_ok h)

/-! ## 2. capacity: never above the configured global limit -/

/-- every remote limiter ever observed (handed to requests or not) has the schema's type and is within any bound
    `G` that dominates the global limits of all schemas synced so far -/
theorem c09_cap (K : Kind) (cfg : Cfg) (G : Bound) (ops : List Op) (h : Allowed K ops)
    (hG : ∀ s, Op.schema s ∈ ops → BLe (globalOf s) G) (h0 : BLe {} G) :
    ∀ o ∈ (run cfg ops).1, ∀ l, o.rlim = some l → Lim.leb l G = true ∧ l.kind = K := by
  apply run_cap ops (initState cfg) {} (inv_init K cfg) ⟨h0, h0, fun s hs => by cases hs⟩
  intro op hop
  exact ⟨allowed_ok h op hop, fun s hs => hG s (hs ▸ hop)⟩

/-- **max-in-flight**: with global max-in-flight limits of at most `g`, the remote limiter's size is always in
    `[0, g]` — for one schema configuration `g` is its `globalMaxRequestsInflight.max` -/
theorem c09_cap_max_inflight (cfg : Cfg) (g : Int) (ops : List Op) (h : Allowed .mi ops)
    (hg : ∀ s, Op.schema s ∈ ops → ∀ x, s.gmi = some x → x ≤ g) (h0 : 0 ≤ g) :
    ∀ o ∈ (run cfg ops).1, ∀ l, o.rlim = some l → ∃ size, l = .mi size ∧ 0 ≤ size ∧ size ≤ g := by
  intro o ho l hl
  have hG : ∀ s, Op.schema s ∈ ops → BLe (globalOf s) ⟨g, maxInt32, maxInt32⟩ := by
    intro s hs
    have hv := h _ hs
    simp only at hv
    have hvs := VS_of_valid hv.1
    rw [hv.2] at hvs
    cases hvs with
    | mi st l0 g0 a0 a1 a2 =>
      have := hg _ hs g0 rfl
      exact ⟨by simpa [globalOf, Schema.globalMax] using this, Int.le_refl _, Int.le_refl _⟩
  have h00 : BLe {} ⟨g, maxInt32, maxInt32⟩ := ⟨h0, zero_le_max, zero_le_max⟩
  obtain ⟨a, b⟩ := c09_cap .mi cfg _ ops h hG h00 o ho l hl
  cases l with
  | mi size =>
    simp only [Lim.leb, Bool.and_eq_true, decide_eq_true_eq] at a
    exact ⟨size, rfl, a.1, a.2⟩
  | exempt _ => simp [Lim.kind] at b
  | tb _ _ => simp [Lim.kind] at b

/-- **token bucket**: with global buckets of at most `(gq, gb)`, the remote bucket always has
    `0 ≤ qps ≤ gq` and `0 ≤ burst ≤ gb` -/
theorem c09_cap_token_bucket (cfg : Cfg) (gq gb : Int) (ops : List Op) (h : Allowed .tb ops)
    (hg : ∀ s, Op.schema s ∈ ops → ∀ x, s.gtb = some x → x.qps ≤ gq ∧ x.burst ≤ gb) (h0 : 0 ≤ gq) (h1 : 0 ≤ gb) :
    ∀ o ∈ (run cfg ops).1, ∀ l, o.rlim = some l →
      ∃ q u, l = .tb q u ∧ 0 ≤ q ∧ q ≤ gq ∧ 0 ≤ u ∧ u ≤ gb := by
  intro o ho l hl
  have hG : ∀ s, Op.schema s ∈ ops → BLe (globalOf s) ⟨maxInt32, gq, gb⟩ := by
    intro s hs
    have hv := h _ hs
    simp only at hv
    have hvs := VS_of_valid hv.1
    rw [hv.2] at hvs
    cases hvs with
    | tb st q b gq0 gb0 a0 a1 a2 a3 a4 a5 =>
      have := hg _ hs ⟨gq0, gb0⟩ rfl
      exact ⟨Int.le_refl _, by simpa [globalOf, Schema.globalQps] using this.1,
        by simpa [globalOf, Schema.globalBurst] using this.2⟩
  have h00 : BLe {} ⟨maxInt32, gq, gb⟩ := ⟨zero_le_max, h0, h1⟩
  obtain ⟨a, b⟩ := c09_cap .tb cfg _ ops h hG h00 o ho l hl
  cases l with
  | tb q u =>
    simp only [Lim.leb, Bool.and_eq_true, decide_eq_true_eq] at a
    exact ⟨q, u, rfl, a.1.1.1, a.1.1.2, a.1.2, a.2⟩
  | exempt _ => simp [Lim.kind] at b
  | mi _ => simp [Lim.kind] at b

/-- what is handed to a request is the default limiter (no schema yet), the local limiter, or that remote limiter -/
theorem c09_handed (cfg : Cfg) (st : State) :
    (observe cfg st).choice = load cfg st ∧
    ((observe cfg st).choice = .remote → (observe cfg st).lim = (observe cfg st).rlim) ∧
    ((observe cfg st).choice = .loc → (observe cfg st).lim = st.cache.bind (·.loc.fc)) := by
  refine ⟨observe_choice cfg st, ?_, ?_⟩
  · intro h
    rw [observe_choice] at h
    rw [observe_lim, observe_rlim, h]
  · intro h
    rw [observe_choice] at h
    rw [observe_lim, h]

/-! ## 3. fallback to the local limiter -/

/-- `Load` hands out the remote limiter only if the rate limiter type is remote, the strategy is a global one, a
    client set exists, the limiter server is ready and the remote limiter has been synced -/
theorem c09_fallback_choice (cfg : Cfg) (st : State) (h : load cfg st = .remote) :
    ∃ c, st.cache = some c ∧ cfg.rateLimiter = .remote ∧ c.loc.config.strategy ≠ .empty ∧
      c.loc.config.strategy ≠ .loc ∧ cfg.hasCS = true ∧ isReady st = true ∧ c.remote.isSome = true := by
  unfold load at h
  cases hc : st.cache with
  | none => simp [hc] at h
  | some c =>
    simp only [hc] at h
    refine ⟨c, rfl, ?_⟩
    cases hr : cfg.rateLimiter <;> simp only [hr] at h <;> try (cases h)
    by_cases h1 : c.loc.config.strategy = .empty
    · simp [h1] at h
    by_cases h2 : c.loc.config.strategy = .loc
    · simp [h2] at h
    cases h3 : cfg.hasCS
    · simp [h1, h2, h3] at h
    cases h4 : isReady st
    · simp [h1, h2, h3, h4] at h
    cases h5 : c.remote.isSome
    · simp [h1, h2, h3, h4, h5] at h
    exact ⟨rfl, h1, h2, rfl, rfl, rfl⟩

/-- … and otherwise (schema known) it hands out the local limiter, never none -/
theorem c09_fallback_local (cfg : Cfg) (st : State) (c : Cache) (hc : st.cache = some c)
    (h : cfg.rateLimiter ≠ .remote ∨ c.loc.config.strategy = .empty ∨ c.loc.config.strategy = .loc ∨
         cfg.hasCS = false ∨ isReady st = false ∨ c.remote = none) :
    load cfg st = .loc := by
  unfold load
  simp only [hc]
  cases hr : cfg.rateLimiter with
  | loc => rfl
  | other => rfl
  | remote =>
    simp only []
    rcases h with h | h | h | h | h | h
    · exact (h hr).elim
    · simp [h]
    · simp [h]
    · simp [h]
    · simp [h]
    · simp [h]

/-- the limiter server is unknown (no shard count yet) or no heartbeat was ever answered: not ready -/
theorem c09_unknown_server_not_ready (st : State) (h : st.shardCount = 0 ∨ st.hb = none) : isReady st = false := by
  unfold isReady
  rcases h with h | h
  · simp [h]
  · simp [h]

/-- in every reachable state the local limiter enforces exactly the local limit of the schema in force -/
theorem c09_local_limit (K : Kind) (cfg : Cfg) (ops : List Op) (h : Allowed K ops) (st : State)
    (hst : exec {} ops = some st) (c : Cache) (hc : st.cache = some c) :
    validSchema c.loc.config = true ∧ c.loc.fc = some (limOf c.loc.config) := by
  have hG : ∀ op ∈ ops, OpOK K op ∧ ∀ s, op = .schema s → BLe (globalOf s) ⟨maxInt32, maxInt32, maxInt32⟩ := by
    intro op hop
    refine ⟨allowed_ok h op hop, fun s hs => ?_⟩
    subst hs
    have hv := h _ hop
    simp only at hv
    have hb := VS_globalOK (VS_of_valid hv.1)
    exact ⟨hb.mi1, hb.q1, hb.b1⟩
  obtain ⟨st', m', e1, e2, _⟩ := exec_inv (G := ⟨maxInt32, maxInt32, maxInt32⟩) ops (initState {}) {} (inv_init K {})
    ⟨⟨by decide, by decide, by decide⟩, ⟨by decide, by decide, by decide⟩, fun s hs => by cases hs⟩ hG
  have e1' : exec {} ops = some st' := e1
  rw [hst] at e1'
  have : st = st' := Option.some.inj e1'
  subst this
  obtain ⟨a, b⟩ := inv_local e2 hc
  exact ⟨(valid_of_VS a).1, b⟩

/-! ## 4. the count strategy: error fallback, recovery, stale replies -/

/-- shape of a max-in-flight count wrapper in every reachable state (`GInv`) -/
structure MIWOK (w : MIW) : Prop where
  r0 : 0 ≤ w.reserve
  r1 : w.reserve ≤ w.max
  m1 : w.max ≤ maxInt32
  inner : ∃ sz, w.inner = .mi sz

/-- a fresh error reply (any error but `RequestIDTooOld`, the time-out of `resetCheck` included) while the server was
    considered available resizes to `min(max(observed, local), max)` — within `[0, max]` — and marks the outage -/
theorem c09_error_fallback (w : MIW) (hw : MIWOK w) (loc : Schema) (l obs : Int) (hl : loc.mi = some l) (h0 : 0 ≤ l)
    (r : Reply) (hfresh : ¬ (r.rt > 0 ∧ r.rt ≤ w.lastAcquireTime)) (herr : r.err = .other) (hu : w.unavail = false) :
    ∃ w', w.setLimit loc obs r = .ok w' ∧ w'.unavail = true ∧ w'.inner = .mi (miFallback obs l w.max) ∧
      0 ≤ miFallback obs l w.max ∧ miFallback obs l w.max ≤ w.max ∧ w'.max = w.max := by
  obtain ⟨sz, hin⟩ := hw.inner
  have hf := miFallback_range (obs := obs) h0 (by have := hw.r0; have := hw.r1; omega : 0 ≤ w.max)
  refine ⟨{ w with inner := .mi (miFallback obs l w.max), unavail := true }, ?_, rfl, rfl, hf.1, hf.2, rfl⟩
  unfold MIW.setLimit
  rw [if_neg hfresh]
  simp only [herr, hu, Bool.not_false, if_true, hl, hin, resize_mi]
  have : (if (if obs < l then l else obs) > w.max then w.max else if obs < l then l else obs)
      = miFallback obs l w.max := rfl
  rw [this, toU32_id hf.1 (by have := hw.m1; omega)]

/-- further errors during the outage, `RequestIDTooOld`, and replies whose request time is not newer than the last
    applied one change nothing -/
theorem c09_stale_ignored (w : MIW) (loc : Schema) (obs : Int) (r : Reply)
    (h : (r.rt > 0 ∧ r.rt ≤ w.lastAcquireTime) ∨ r.err = .tooOld ∨ (r.err = .other ∧ w.unavail = true)) :
    w.setLimit loc obs r = .ok w := by
  unfold MIW.setLimit
  by_cases hst : r.rt > 0 ∧ r.rt ≤ w.lastAcquireTime
  · rw [if_pos hst]
  · rw [if_neg hst]
    rcases h with h | h | h
    · exact (hst h).elim
    · simp [h]
    · simp [h.1, h.2]

/-- **recovery**: the next fresh accepted reply ends the outage and sets the capacity to the clamp of the granted
    limit to `[reserve, max]` -/
theorem c09_recover (w : MIW) (hw : MIWOK w) (loc : Schema) (obs : Int) (r : Reply)
    (hfresh : ¬ (r.rt > 0 ∧ r.rt ≤ w.lastAcquireTime)) (herr : r.err = .none) (ha : r.accept = true) :
    ∃ w', w.setLimit loc obs r = .ok w' ∧ w'.unavail = false ∧
      w'.inner = .mi (clampAccept r.limit w.reserve w.max) ∧
      w.reserve ≤ clampAccept r.limit w.reserve w.max ∧ clampAccept r.limit w.reserve w.max ≤ w.max ∧
      w'.lastAcquireTime = r.rt := by
  obtain ⟨sz, hin⟩ := hw.inner
  have hc := clampAccept_range (limit := r.limit) hw.r0 hw.r1
  have hlow : w.reserve ≤ clampAccept r.limit w.reserve w.max := by
    have := hw.r1
    simp only [clampAccept]
    by_cases h : r.limit < w.reserve
    · simp only [h, if_true]; split <;> omega
    · simp only [h, if_false]; split <;> omega
  refine ⟨{ w with unavail := false, overLimited := 0, acquired := clampAccept r.limit w.reserve w.max,
                   inner := .mi (clampAccept r.limit w.reserve w.max), lastAcquireTime := r.rt },
    ?_, rfl, rfl, hlow, hc.2, rfl⟩
  unfold MIW.setLimit
  rw [if_neg hfresh]
  simp only [herr, ha, if_true, hin, resize_mi]
  have : (if (if r.limit < w.reserve then w.reserve else r.limit) > w.max then w.max
      else if r.limit < w.reserve then w.reserve else r.limit) = clampAccept r.limit w.reserve w.max := rfl
  rw [this, toU32_id hc.1 (by have := hw.m1; omega)]

/-- `min(limit, max)` floored at 0: what a refused report applies -/
def refusedLimit (limit wmax : Int) : Int :=
  if (if limit > wmax then wmax else limit) < 0 then 0 else (if limit > wmax then wmax else limit)

/-- a refused report: the limit is applied bounded to `[0, max]` -/
theorem c09_refusal_bounded (w : MIW) (hw : MIWOK w) (loc : Schema) (obs : Int) (r : Reply)
    (hfresh : ¬ (r.rt > 0 ∧ r.rt ≤ w.lastAcquireTime)) (herr : r.err = .none) (ha : r.accept = false) :
    ∃ w', w.setLimit loc obs r = .ok w' ∧ w'.inner = .mi (refusedLimit r.limit w.max) ∧
      0 ≤ refusedLimit r.limit w.max ∧ refusedLimit r.limit w.max ≤ w.max ∧ w'.unavail = w.unavail := by
  obtain ⟨sz0, hin⟩ := hw.inner
  have hn := nonAccept_range (limit := r.limit) (by have := hw.r0; have := hw.r1; omega : 0 ≤ w.max)
  refine ⟨{ w with overLimited := 1, acquired := refusedLimit r.limit w.max, inner := .mi (refusedLimit r.limit w.max), lastAcquireTime := r.rt }, ?_, rfl, hn.1, hn.2, rfl⟩
  unfold MIW.setLimit
  rw [if_neg hfresh]
  simp only [herr, ha, Bool.false_eq_true, if_false, hin, resize_mi]
  have : (if (if r.limit > w.max then w.max else r.limit) < 0 then 0 else if r.limit > w.max then w.max else r.limit)
      = refusedLimit r.limit w.max := rfl
  rw [this] at hn ⊢
  rw [toU32_id hn.1 (by have := hw.m1; omega)]

/-- token bucket, recovery: an accepted reply during an outage restores the bucket `(m.qps, m.burst)` that was in
    force before it -/
theorem c09_recover_token_bucket (w : TBW) (loc : Schema) (mt : Meter) (r : Reply) (q u : Int)
    (hin : w.inner = .tb q u) (herr : r.err = .none) (ha : r.accept = true) (hu : w.unavail = true) :
    ∃ w' b, w.setLimit loc mt r = .ok (w', b) ∧ w'.unavail = false ∧ w'.inner = .tb w.qps w.burst := by
  have h : w.setLimit loc mt r = .ok ({ (w.noteRequest r).recover.addTokens r.limit with lastAcquireTime := r.rt },
      ({ (w.noteRequest r).recover.addTokens r.limit with lastAcquireTime := r.rt } : TBW).expectMore) := by
    unfold TBW.setLimit
    simp only [herr, ha, if_true]
  refine ⟨_, _, h, ?_, ?_⟩
  · simp [TBW.addTokens, TBW.recover, hu]
  · simp [TBW.addTokens, TBW.recover, hu, hin]

/-! ## 5. readiness hysteresis -/

/-- the heartbeat status after a history (latest first), from a missing status -/
def hbFold : List (Bool × Int) → Option HB
  | [] => none
  | (ok, now) :: rest => some (hbStep ((hbFold rest).getD {}) ok now)

theorem hbFold_inv : ∀ h, HBInv (hbFold h) h
  | [] => rfl
  | (ok, now) :: rest => hbStep_inv (hbFold_inv rest) ok now

/-- `setLeaderStatus` computes exactly the declarative readiness `specReady` of the heartbeat history -/
theorem c09_ready_spec (h : List (Bool × Int)) :
    (match hbFold h with | some x => x.ready | none => false) = specReady h := by
  have := hbFold_inv h
  cases hf : hbFold h with
  | none => rw [hf] at this; simp only [HBInv] at this; rw [this]; rfl
  | some x => rw [hf] at this; exact this.2.1

/-- up on the first success -/
theorem c09_ready_up (t : Int) (rest : List (Bool × Int)) : specReady ((true, t) :: rest) = true := rfl

/-- down only after MORE than `ServerHeartBeatTimeout` of consecutive failure: if a failed heartbeat at `now` turns a
    ready status not ready, the current run of failed heartbeats started at some `t0` with `now > t0 + timeout` -/
theorem c09_ready_down_only_after_timeout (now : Int) (rest : List (Bool × Int)) (hup : specReady rest = true)
    (hdown : specReady ((false, now) :: rest) = false) :
    ∃ t0, failRunStart ((false, now) :: rest) = some t0 ∧ now > t0 + serverHeartBeatTimeout := by
  rw [specReady_false, hup] at hdown
  refine ⟨(failRunStart rest).getD now, failRunStart_false now rest, ?_⟩
  simpa using hdown

/-- … and it does go down then, and stays up before -/
theorem c09_ready_down_iff (now : Int) (rest : List (Bool × Int)) (hup : specReady rest = true) :
    specReady ((false, now) :: rest) = false ↔ now > (failRunStart rest).getD now + serverHeartBeatTimeout := by
  rw [specReady_false, hup]; simp

/-- after MORE than the time-out of consecutive failure the status is not ready, whatever it was before -/
theorem c09_not_ready_after_timeout (now t0 : Int) (rest : List (Bool × Int))
    (hrun : failRunStart ((false, now) :: rest) = some t0) (hlong : now > t0 + serverHeartBeatTimeout) :
    specReady ((false, now) :: rest) = false := by
  rw [failRunStart_false] at hrun
  have : (failRunStart rest).getD now = t0 := Option.some.inj hrun
  rw [specReady_false, this]
  simp [hlong]

/-- **a server-info sync that does not change the leader does not touch readiness** (nor the leader): it fails, or
    publishes no endpoint for the cluster's shard, or re-publishes the known leader — the heartbeat status, and with
    it the running time-out of a failing leader, is exactly what it was; only the shard count is taken over -/
theorem c09_sync_same_leader_keeps_status (st : State) (fail : Bool) (n : Nat) (leader : Option Nat) (now : Int)
    (h : fail = true ∨ leader = none ∨ leader = some st.leader) :
    ∃ st', step st (.sync fail n leader now) = .ok st' ∧ st'.hb = st.hb ∧ st'.leader = st.leader ∧
      st'.cache = st.cache ∧ st'.meter = st.meter ∧ (fail = true → st'.shardCount = st.shardCount) ∧
      (fail = false → st'.shardCount = n) := by
  cases fail with
  | true => exact ⟨{ st with clock := now }, rfl, rfl, rfl, rfl, rfl, fun _ => rfl, fun h => (by cases h)⟩
  | false =>
    rcases h with h | h | h
    · cases h
    · subst h; exact ⟨_, rfl, rfl, rfl, rfl, rfl, fun h => (by cases h), fun _ => rfl⟩
    · subst h
      refine ⟨{ st with shardCount := n, clock := now }, by simp [step], rfl, rfl, rfl, rfl, fun h => (by cases h),
        fun _ => rfl⟩

/-- … so the judge's heartbeat history — and every theorem above about it — ignores such syncs, while a CHANGED
    leader is a success at that time (`clientSets.sync` calls `setLeaderStatus(shard, leader, true)` only then) -/
theorem c09_sync_history (m : Mon) (fail : Bool) (n : Nat) (leader : Option Nat) (now : Int) (o : Obs) :
    (m.next (.sync fail n leader now) o).hist =
      (match leader with
       | some l => if fail = false ∧ m.leader ≠ l then (true, now) :: m.hist else m.hist
       | none => m.hist) := by
  cases fail <;> cases leader <;> simp [Mon.next, leaderChange]
  rename_i l
  by_cases h : m.leader = l <;> simp [h]

/-- `failRunStart` is the time of the oldest heartbeat of the maximal run of failures at the head of the history:
    every heartbeat since then failed -/
theorem failRun_all_failed : ∀ (h : List (Bool × Int)) (t0 : Int), failRunStart h = some t0 →
    ∃ run rest, h = run ++ rest ∧ run ≠ [] ∧ (∀ x ∈ run, x.1 = false) ∧ (run.getLast?.map (·.2)) = some t0 ∧
      (∀ x, rest.head? = some x → x.1 = true)
  | [], t0, h => by simp [failRunStart] at h
  | (true, t) :: rest, t0, h => by simp [failRunStart] at h
  | (false, t) :: rest, t0, h => by
    rw [failRunStart_false] at h
    cases hr : failRunStart rest with
    | some t1 =>
      obtain ⟨run, rest', e1, e2, e3, e4, e5⟩ := failRun_all_failed rest t1 hr
      rw [hr] at h
      simp only [Option.getD_some, Option.some.injEq] at h
      subst h
      refine ⟨(false, t) :: run, rest', by rw [e1]; rfl, by simp, ?_, ?_, e5⟩
      · intro x hx
        rcases List.mem_cons.1 hx with rfl | hx
        · rfl
        · exact e3 x hx
      · cases run with
        | nil => exact (e2 rfl).elim
        | cons a as => simpa [List.getLast?_cons_cons] using e4
    | none =>
      rw [hr] at h
      simp only [Option.getD_none, Option.some.injEq] at h
      subst h
      refine ⟨[(false, t)], rest, rfl, by simp, by simp, rfl, ?_⟩
      intro x hx
      cases rest with
      | nil => simp at hx
      | cons y ys =>
        simp only [List.head?_cons, Option.some.injEq] at hx
        subst hx
        obtain ⟨ys1, ys2⟩ := y
        cases ys1 with
        | true => rfl
        | false => rw [failRunStart_false] at hr; cases hr

/-! ## 6. the request side: the instance keeps asking, so recovery does happen -/

/-- a count wrapper (the only ones with a counter) -/
def IsCount : GFC → Prop
  | .empty _ => False
  | _ => True

/-- **the instance keeps asking**: more than 2 s (unix seconds) after the counter's last sync a max-in-flight counter
    always sends a request, and a token-bucket counter does unless an event is pending — degraded or not, idle or
    not, reserve full or not (the zero-token resync) -/
theorem c09_request_when_due (g : GFC) (hg : IsCount g) (cnt : Counter) (mt : Meter) (infl now : Int)
    (hdue : unixS now - cnt.lastSync > 2) (hev : (∃ w, g = .miw w) ∨ cnt.event = false) :
    ∃ hits, requestOf g cnt mt infl now = some hits := by
  cases hreq : requestOf g cnt mt infl now with
  | some hits => exact ⟨hits, rfl⟩
  | none =>
    rcases requestOf_due (Int.le_refl _) hdue hreq with ⟨l, rfl⟩ | ⟨⟨w, rfl⟩, he⟩
    · exact hg.elim
    · rcases hev with ⟨w', h⟩ | h
      · cases h
      · rw [h] at he; cases he

theorem recover_unavail (w : TBW) : w.recover.unavail = false := by
  unfold TBW.recover
  cases h : w.unavail <;> simp [h]

/-- what an accepted answer does to a count wrapper: it is available afterwards — unless it is a max-in-flight wrapper
    and the answer is stale (request time not after the last applied one), which leaves it as it was -/
theorem setLimit_accept (g : GFC) (hg : IsCount g) (loc : Schema) (mt : Meter) (hits now : Int) (a : TickAnswer)
    (ha : a.accept = true) (he : a.err = .none) :
    ∃ g' b, gfcSetLimit (g.addAcquiring hits) loc mt (tickReply a hits now) = .ok (g', b) ∧ IsCount g' ∧
      (g'.unavail = false ∨ (g'.unavail = g.unavail ∧ ∃ w, g = .miw w ∧ now > 0 ∧ now ≤ w.lastAcquireTime)) := by
  cases g with
  | empty l => exact hg.elim
  | miw w =>
    by_cases hst : now > 0 ∧ now ≤ w.lastAcquireTime
    · refine ⟨.miw w, false, ?_, trivial, Or.inr ⟨rfl, w, rfl, hst.1, hst.2⟩⟩
      simp [GFC.addAcquiring, gfcSetLimit, MIW.setLimit, tickReply, hst.1, hst.2, bind, Except.bind, pure, Except.pure]
    · cases hres : w.setLimit loc mt.maxInflight (tickReply a hits now) with
      | error e => simp [MIW.setLimit, tickReply, hst, he, ha] at hres
      | ok w' =>
        refine ⟨.miw w', false, ?_, trivial, Or.inl ?_⟩
        · simp [GFC.addAcquiring, gfcSetLimit, hres, bind, Except.bind, pure, Except.pure]
        · simp only [MIW.setLimit, tickReply, if_neg hst, he, ha, if_true, Except.ok.injEq] at hres
          rw [← hres]; rfl
  | tbw w =>
    cases hres : ({ w with tokenInflight := i32add w.tokenInflight hits } : TBW).setLimit loc mt (tickReply a hits now) with
    | error e => simp [TBW.setLimit, tickReply, he, ha] at hres
    | ok r =>
      obtain ⟨w', b⟩ := r
      refine ⟨.tbw w', b, ?_, trivial, Or.inl ?_⟩
      · simp [GFC.addAcquiring, gfcSetLimit, hres, bind, Except.bind, pure, Except.pure]
      · simp only [TBW.setLimit, tickReply, he, ha, if_true, Except.ok.injEq, Prod.mk.injEq] at hres
        rw [← hres.1]
        simp only [GFC.unavail, TBW.addTokens, recover_unavail]


/-- one round answered with accept, on any state that holds a count wrapper: afterwards the wrapper is available if it
    was, or if a request was sent and the answer is not stale -/
theorem tick_accept (st : State) (c : Cache) (rm : Remote) (g : GFC) (hc : st.cache = some c)
    (hr : c.remote = some rm) (hf : rm.fc = some g) (hg : IsCount g) (now : Int) (a : TickAnswer)
    (ha : a.accept = true) (he : a.err = .none) :
    ∃ st' c' rm' g', step st (.tick now (some a)) = .ok st' ∧ st'.cache = some c' ∧ c'.remote = some rm' ∧
      rm'.fc = some g' ∧ IsCount g' ∧ st'.meter = st.meter ∧
      ((requestOf g c.cnt st.meter st.inflight now = none ∧ g' = g ∧ c'.cnt = { c.cnt with event := false }) ∨
       ((∃ hits, requestOf g c.cnt st.meter st.inflight now = some hits) ∧
        (g'.unavail = false ∨ (g'.unavail = g.unavail ∧ ∃ w, g = .miw w ∧ now > 0 ∧ now ≤ w.lastAcquireTime)))) := by
  cases hreq : requestOf g c.cnt st.meter st.inflight now with
  | none =>
    exact ⟨tickQuiet st c now, _, rm, g, by simp [step, hc, hr, hf, hreq], rfl, hr, hf, hg, rfl,
      Or.inl ⟨rfl, rfl, rfl⟩⟩
  | some hits =>
    obtain ⟨g', b, h1, h2, h3⟩ := setLimit_accept g hg c.loc.config st.meter hits now a ha he
    exact ⟨tickSent st c rm g' { event := false, lastSync := unixS now } now hits, _, _, g',
      by simp [step, hc, hr, hf, hreq, h1], rfl, rfl, rfl, h2, rfl, Or.inr ⟨⟨hits, rfl⟩, h3⟩⟩

/-- **recovery, as liveness by steps.** From ANY state that holds a count wrapper — degraded, idle, reserve full —:
    if two rounds of the counter manager come more than 2 s (unix seconds) after the counter's last sync and every
    request the instance sends is answered with accept (the first answer not being stale for a max-in-flight wrapper,
    i.e. time moves forward), then after those two rounds the limiter server is considered available again — the
    instance DID send a request (the zero-token resync), at the latest in the second round (a token-bucket counter
    with a pending event and nothing to ask for consumes the event in the first). With `c09_judge` (clause
    `c09.recover-not-applied`) the capacity then is the server-granted one. The worker runs a round at least every
    `MaxIdealDuration` (900 ms), so this is within 3 s + 2 rounds of the server's recovery. -/
theorem c09_recovery_liveness (st : State) (c : Cache) (rm : Remote) (g : GFC) (hc : st.cache = some c)
    (hr : c.remote = some rm) (hf : rm.fc = some g) (hg : IsCount g) (t1 t2 : Int) (a1 a2 : TickAnswer)
    (h1 : a1.accept = true ∧ a1.err = .none) (h2 : a2.accept = true ∧ a2.err = .none)
    (hd1 : unixS t1 - c.cnt.lastSync > 2) (hd2 : unixS t2 - c.cnt.lastSync > 2)
    (hfresh : ∀ w, g = .miw w → ¬ (t1 > 0 ∧ t1 ≤ w.lastAcquireTime)) :
    ∃ st' c' rm' g', exec st [.tick t1 (some a1), .tick t2 (some a2)] = some st' ∧ st'.cache = some c' ∧
      c'.remote = some rm' ∧ rm'.fc = some g' ∧ IsCount g' ∧ g'.unavail = false := by
  obtain ⟨s1, c1, r1, g1, e1, e2, e3, e4, e5, e6, e7⟩ := tick_accept st c rm g hc hr hf hg t1 a1 h1.1 h1.2
  -- after the first round: recovered, or (token bucket with a pending event) unchanged with the event consumed
  have second : (g1.unavail = false) ∨ (g1 = g ∧ c1.cnt = { c.cnt with event := false } ∧ ∃ w, g = .tbw w) := by
    rcases e7 with ⟨hn, hgg, hcnt⟩ | ⟨_, hav | ⟨_, w, hw, hst⟩⟩
    · right
      refine ⟨hgg, hcnt, ?_⟩
      cases g with
      | empty l => exact hg.elim
      | miw w =>
        obtain ⟨hits, hh⟩ := c09_request_when_due (.miw w) hg c.cnt st.meter st.inflight t1 hd1 (Or.inl ⟨w, rfl⟩)
        rw [hn] at hh; cases hh
      | tbw w => exact ⟨w, rfl⟩
    · exact Or.inl hav
    · exact (hfresh w hw hst).elim
  obtain ⟨s2, c2, r2, g2, f1, f2, f3, f4, f5, f6, f7⟩ := tick_accept s1 c1 r1 g1 e2 e3 e4 e5 t2 a2 h2.1 h2.2
  refine ⟨s2, c2, r2, g2, by simp [exec, e1, f1], f2, f3, f4, f5, ?_⟩
  rcases second with hav | ⟨hgg, hcnt, w, hw⟩
  · -- available before the second round: it stays so
    rcases f7 with ⟨_, hgg2, _⟩ | ⟨_, h | ⟨h, _⟩⟩
    · rw [hgg2]; exact hav
    · exact h
    · rw [h]; exact hav
  · -- the second round is due, no event pending: the zero-token resync is sent and answered
    subst hgg hw
    have hdue2 : unixS t2 - c1.cnt.lastSync > 2 := by rw [hcnt]; exact hd2
    obtain ⟨hits, hh⟩ := c09_request_when_due (.tbw w) trivial c1.cnt s1.meter s1.inflight t2 hdue2 (Or.inr (by rw [hcnt]))
    rcases f7 with ⟨hn, _, _⟩ | ⟨_, h | ⟨_, w', hw', _⟩⟩
    · rw [hn] at hh; cases hh
    · exact h
    · cases hw'

/-! ## 7. requests in flight across limit changes; tokens are asked for when there is demand -/

/-- **which syncs rebuild the limiter.** A `remoteWrapper.Sync` whose item has the type and the strategy of the limiter
    inside the wrapper NEVER builds a new limiter, whatever the values (limits, global limits) are: a changed limit is
    applied by resizing in place. (The other direction is `c09_rebuild_cases`.) -/
theorem c09_limit_change_resizes_in_place (r : Remote) (g : GFC) (s : Schema) (i : Item) (hf : r.fc = some g)
    (hk : g.inner.kind = itemType i) (hs : r.strategy = i.strategy)
    (hv : (i.mi.isSome ∧ g.inner.kind = .mi) ∨ (i.tb.isSome ∧ g.inner.kind = .tb)) :
    remoteRecreates r s i = false := by
  unfold remoteRecreates
  simp only [hf]
  split
  · rfl
  · have h1 : ¬ (g.inner.kind ≠ itemType i ∨ r.strategy ≠ i.strategy) := by
      intro h; rcases h with h | h
      · exact h hk
      · exact h hs
    rw [if_neg h1]
    rcases hv with h | h
    · rw [if_pos h]
    · by_cases h2 : i.mi.isSome = true ∧ g.inner.kind = .mi
      · rw [if_pos h2]
      · rw [if_neg h2, if_pos h]

/-- a new limiter is built only when there is none yet, or the type or the strategy changes (or the item carries no
    value of its own type) -/
theorem c09_rebuild_cases (r : Remote) (s : Schema) (i : Item) (h : remoteRecreates r s i = true) :
    r.fc = none ∨ ∃ g, r.fc = some g ∧ (g.inner.kind ≠ itemType i ∨ r.strategy ≠ i.strategy ∨
      ¬ ((i.mi.isSome ∧ g.inner.kind = .mi) ∨ (i.tb.isSome ∧ g.inner.kind = .tb))) := by
  cases hf : r.fc with
  | none => exact Or.inl rfl
  | some g =>
    refine Or.inr ⟨g, rfl, ?_⟩
    by_cases hk : g.inner.kind = itemType i
    · by_cases hs : r.strategy = i.strategy
      · refine Or.inr (Or.inr ?_)
        intro hv
        rw [c09_limit_change_resizes_in_place r g s i hf hk hs hv] at h
        cases h
      · exact Or.inr (Or.inl hs)
    · exact Or.inl hk

/-- **a new limiter object (an empty bucket) only when there is none or the TYPE differs**: a changed limit, a changed
    strategy — the schema's or whatever the server answers — never replaces the limiter that counts the requests in
    flight (`newFlowControl` keeps it, resizes it and wraps it anew) -/
theorem c09_new_bucket_cases (r : Remote) (s : Schema) (i : Item) (h : remoteNewBucket r s i = true) :
    r.fc = none ∨ ∃ g, r.fc = some g ∧ g.inner.kind ≠ itemType i := by
  simp only [remoteNewBucket, Bool.and_eq_true] at h
  cases hf : r.fc with
  | none => exact Or.inl rfl
  | some g =>
    rw [hf] at h
    exact Or.inr ⟨g, rfl, by simpa using h.2⟩

/-- **the count survives every sync that keeps the limiter**: resize in place AND rebuild of the same type leave the
    limiter object (`remInner`), its bucket's count (`remCount`) and the wrapper (`remOuter`) alone; after a sync that
    does not rebuild the limiter is the old one, resized at most; only a NEW limiter object (`remoteNewBucket`) has a
    new identity (`remInner + 1`) and an EMPTY bucket -/
theorem c09_sync_flight (c c' : Cache) (i : Item) (nowS : Int) (r : Remote) (hr : c.remote = some r)
    (hg : ∃ g, r.fc = some g) (h : cacheRemoteSync c i nowS = .ok c') :
    (remoteNewBucket r c.loc.config i = false → c'.fl = c.fl) ∧
    (remoteRecreates r c.loc.config i = false → ∃ g, r.fc = some g ∧
        (c'.remote.bind (·.fc) = some g ∨ ∃ n b, c'.remote.bind (·.fc) = some (g.resize n b))) ∧
    (remoteNewBucket r c.loc.config i = true →
        c'.fl = { c.fl with remInner := c.fl.remInner + 1, remCount := 0 }) := by
  unfold cacheRemoteSync at h
  simp only [hr, Option.getD_some, Option.isNone_some] at h
  cases hs : remoteSync r c.loc.config i with
  | error e => simp [hs, bind, Except.bind] at h
  | ok r' =>
    simp only [hs, bind, Except.bind, pure, Except.pure, Except.ok.injEq] at h
    subst h
    refine ⟨fun hn => by simp [hn, flightAfterSync], fun hn => ?_, fun hn => by simp [hn, flightAfterSync]⟩
    obtain ⟨g, k1, k2⟩ := remoteSync_norecreate hn hs (Or.inr hg)
    refine ⟨g, k1, ?_⟩
    rcases k2 with k | ⟨n, b, k⟩
    · exact Or.inl (by simp [k])
    · exact Or.inr ⟨n, b, by simp [k]⟩

/-- the judge's declarative "this operation rebuilds the wrapper" / "puts a new limiter object into it" are the model's
    conditions in every reachable state (`Inv` holds in all of them: `exec_inv`); there a new object appears only when
    there was no remote wrapper at all -/
theorem c09_rebuilds_spec {K : Kind} {cfg : Cfg} {st : State} {m : Mon} {c : Cache} {s : Schema} {op : Op} {i : Item}
    (hi : Lemmas.RemoteLimiter.Inv K cfg st m) (hcache : st.cache = some c) (hsch : m.schema = some s)
    (heff : effective m op = true) (hitem : syncItem m op = some i) (hT : itemType i = K) :
    rebuilds m op = remoteRecreates (c.remote.getD {}) s i ∧
    newBucket m op = remoteNewBucket (c.remote.getD {}) s i ∧
    (remoteNewBucket (c.remote.getD {}) s i = true → c.remote = none) :=
  ⟨rebuilds_eq hi hcache hsch heff hitem hT, newBucket_eq hi hcache hsch heff hitem hT⟩

/-- **in-flight accounting.** In every reachable state (`Inv`; the monitor `m` has seen the same operations) — no
    exemption: across every resize, limit change, strategy change (the schema's or an answered one), outage and
    recovery — the count of the remote max-in-flight bucket IS the number of unfinished requests it admitted, and a
    new request is admitted by it only if these, the new one included, are within the bound in force (`m.ob`: the
    schema's global limit, or the largest global limit since the outage began). -/
theorem c09_inflight_admission {K : Kind} {cfg : Cfg} {st : State} {m : Mon} (hi : Lemmas.RemoteLimiter.Inv K cfg st m)
    (c : Cache) (hc : st.cache = some c) :
    (c.remote.isSome = true → c.fl.remCount = (st.handles.countP (flagOf c) : Int)) ∧
    ∀ id, st.handles.any (·.id == id) = false → load cfg st = .remote → isMI (observe cfg st).rlim = true →
      (acquireStep st id).lastAdmit = some true → (st.handles.countP (flagOf c) : Int) + 1 ≤ m.ob.mi := by
  refine ⟨(hi.fl.cur c hc).1, ?_⟩
  intro id hnew hld hmi hadm
  obtain ⟨st', h1, _, h3⟩ := step_acquire hi id
  have hst : st' = acquireStep st id := by
    simp only [step, Except.ok.injEq] at h1; exact h1.symm
  subst hst
  have hany : m.held.any (·.1 == id) = false := by rw [hi.fl.held, heldOf_any]; exact hnew
  simp only [exactTrans, judgeAcquire, observe_admitted, hadm, hany, hi.prev, observe_choice, hld, hmi,
    Bool.not_false, true_and] at h3
  rw [hi.fl.held, hc, heldOf_countP] at h3
  by_cases hle : (st.handles.countP (flagOf c) : Int) + 1 ≤ m.ob.mi
  · exact hle
  · simp [hle] at h3

/-- **tokens ARE requested when there is demand and room** (any token-bucket count wrapper, any meter): with an event
    pending and `reserve − tokens − tokenInflight > 0` — at least one batch, or the last answer older than
    `batchAcquireMaxDuration` — the round asks for more than zero tokens -/
theorem c09_tokens_requested_on_demand (w : TBW) (cnt : Counter) (mt : Meter) (infl now : Int)
    (hev : cnt.event = true) (hroom : i32sub (i32sub w.reserve w.tokens) w.tokenInflight > 0) (hb : w.tokenBatch ≥ 1)
    (hor : i32sub (i32sub w.reserve w.tokens) w.tokenInflight ≥ w.tokenBatch ∨
      now - w.lastAcquireTime ≥ batchAcquireMaxDuration) :
    ∃ hits, requestOf (.tbw w) cnt mt infl now = some hits ∧ hits > 0 :=
  ⟨_, demand_hits hev hroom hb hor⟩

/-- **every answered request gives its tokens back to the accounting, failed or not**: whatever the answer to a
    request for `hits` tokens is — accept, refusal, any error — `tokenInflight` afterwards is what it was before the
    request (`+hits` by `AddAcquiring`, `−hits` by `SetLimit`); so failed acquires cannot use up the room of
    `c09_tokens_requested_on_demand` -/
theorem c09_answer_returns_tokens (w w' : TBW) (loc : Schema) (mt : Meter) (a : TickAnswer) (hits now : Int) (b : Bool)
    (h : ({ w with tokenInflight := i32add w.tokenInflight hits } : TBW).setLimit loc mt (tickReply a hits now) = .ok (w', b)) :
    w'.tokenInflight = i32add (i32add w.tokenInflight hits) (toI32 (-hits)) := by
  rw [tbw_setLimit_tokenInflight h]
  simp [TBW.noteRequest, tickReply]

/-! ## 8. every (re)configuration between valid schemas: the TYPE may change too -/

/-- operation lists whose schema syncs carry ANY schema accepted by validation — max-in-flight or token bucket, the
    type, the strategy and the limits may all change between syncs; everything else arbitrary as in `Allowed` -/
def AllowedAny (ops : List Op) : Prop :=
  ∀ op ∈ ops, match op with
    | .schema s => validSchema s = true
    | .meter x => 0 < x.rateDen
    | _ => True

theorem allowed_any {K : Kind} {ops : List Op} (h : Allowed K ops) : AllowedAny ops := by
  intro op hop
  have := h op hop
  cases op <;> first | exact this.1 | exact this | trivial

theorem allowedAny_ok {ops : List Op} (h : AllowedAny ops) : ∀ op ∈ ops, OpOK' op := by
  intro op hop
  have := h op hop
  cases op with
  | schema s => exact ⟨_, VS_of_valid this⟩
  | meter x => exact this
  | shards _ => trivial
  | sync _ _ _ _ => trivial
  | event => trivial
  | acquire _ => trivial
  | release _ => trivial
  | tick _ _ => trivial
  | hb _ _ _ => trivial
  | reconcileCount => trivial
  | restart => trivial
  | answer _ _ => trivial
  | setLimit _ => trivial

/-- **Main theorem, every reconfiguration.** For every operation list over valid schemas of ANY type: the model never
    panics — no error reply, time-out or answer in any window after a type change does — and the judge accepts the
    observation after every operation: in particular (`c09.answer-type-mismatch`, `c09.fallback-choice`) no limiter of
    another type than the schema in force is ever handed out, (`c09.inflight-exceeds-global`) the in-flight clause
    holds without exemption, and (`c09.local-limit-not-enforced`) the local limiter is the new schema's at once. -/
theorem c09_judge_any (cfg : Cfg) (ops : List Op) (h : AllowedAny ops) :
    (run cfg ops).2 = none ∧ (run cfg ops).1.length = ops.length ∧
      allGood (judgeAll cfg ops (run cfg ops).1) = true :=
  run_inv' ops .mi (initState cfg) {} (inv_init .mi cfg) (allowedAny_ok h)

/-- … and every remote limiter ever observed is within any bound `G` that dominates the global limits of all the
    schemas synced -/
theorem c09_cap_any (cfg : Cfg) (G : Bound) (ops : List Op) (h : AllowedAny ops)
    (hG : ∀ s, Op.schema s ∈ ops → BLe (globalOf s) G) (h0 : BLe {} G) :
    ∀ o ∈ (run cfg ops).1, ∀ l, o.rlim = some l → Lim.leb l G = true := by
  apply run_cap' ops .mi (initState cfg) {} (inv_init .mi cfg) ⟨h0, h0, fun s hs => by cases hs⟩
  intro op hop
  exact ⟨allowedAny_ok h op hop, fun s hs => hG s (hs ▸ hop)⟩

/-- **a type change drops the remote limiter**: from a cache whose local limiter is the (valid) schema's, a valid
    schema of another type gives the new schema's local limiter and NO remote wrapper — whatever it held; `Load` hands
    out the local limiter until a remote one of the new type has been built -/
theorem c09_type_change_stops_remote (cfg : Cfg) (st : State) (c : Cache) (s : Schema) (hc : st.cache = some c)
    (hold : validSchema c.loc.config = true) (hfc : c.loc.fc = some (limOf c.loc.config)) (hs : validSchema s = true)
    (hne : guessType s ≠ guessType c.loc.config) :
    ∃ st' c', step st (.schema s) = .ok st' ∧ st'.cache = some c' ∧ c'.remote = none ∧
      c'.loc = { config := s, fc := some (limOf s) } ∧ load cfg st' = .loc := by
  obtain ⟨hls, hlr⟩ := localSync_kind (VS_of_valid hold) (VS_of_valid hs) (fun e => hne e.symm) rfl hfc
  refine ⟨_, _, by simp only [step, hc, hls]; rfl, rfl, rfl, rfl, ?_⟩
  simp only [load]
  cases cfg.rateLimiter <;> simp

/-- **no reply can panic**: whatever the local configuration is by now (the schema's type may have changed under the
    wrapper), `SetLimit` of both count wrappers is total -/
theorem c09_setLimit_total (loc : Schema) (mt : Meter) (r : Reply) :
    (∀ w : MIW, ∃ w', w.setLimit loc mt.maxInflight r = .ok w') ∧ (∀ w : TBW, ∃ x, w.setLimit loc mt r = .ok x) := by
  constructor
  · intro w
    unfold MIW.setLimit
    split
    · exact ⟨_, rfl⟩
    · cases r.err with
      | tooOld => exact ⟨_, rfl⟩
      | none => simp only []; split <;> exact ⟨_, rfl⟩
      | other => simp only []; split <;> exact ⟨_, rfl⟩
  · intro w
    unfold TBW.setLimit
    cases r.err with
    | tooOld => exact ⟨_, rfl⟩
    | none => exact ⟨_, rfl⟩
    | other =>
      simp only []
      split
      · cases loc.tb <;> exact ⟨_, rfl⟩
      · exact ⟨_, rfl⟩

/-! ## non-vacuity: the hypotheses are satisfiable by concrete, non-trivial runs; the judge is not trivially true -/

/-- max-in-flight 10 / global 100, global-count strategy -/
def exSchema : Schema := { strategy := .count, mi := some 10, gmi := some 100 }
def exCfg : Cfg := { rateLimiter := .remote, hasCS := true }

/-- configure, learn the shard count, first heartbeat, reconcile, a granted limit far above the global limit, a
    negative refusal, a server error with 300 observed in flight, a stale reply, recovery, failed heartbeats for longer than the time-out -/
def exOps : List Op :=
  [ .schema exSchema, .shards 1, .hb true 0 false, .reconcileCount,
    .setLimit { accept := true, limit := 5000, rt := 10 },
    .setLimit { accept := false, limit := -300, rt := 11 },
    .meter { maxInflight := 300, rateNum := 0, rateDen := 1 },
    .setLimit { err := .other, rt := 12 },
    .setLimit { accept := true, limit := 7, rt := 5 },
    .setLimit { accept := true, limit := 7, rt := 13 },
    .hb false 1 false, .hb false (serverHeartBeatTimeout + 2) false ]

theorem exOps_allowed : Allowed .mi exOps := by
  intro op hop
  simp only [exOps, List.mem_cons, List.not_mem_nil, or_false] at hop
  rcases hop with rfl | rfl | rfl | rfl | rfl | rfl | rfl | rfl | rfl | rfl | rfl | rfl <;> simp [exSchema, validSchema, guessType, maxInt32]

/-- the run hands out: local (not ready), local, remote with the reserve 2, …, the clamp 100, 0, the fallback 100 with
    the outage flag, unchanged by the stale reply, 7 after recovery, then local again once the heartbeats time out -/
example : (run exCfg exOps).1.map (fun o => (o.choice, o.lim, o.unavail)) =
    [ (.loc, some (.mi 10), false), (.loc, some (.mi 10), false), (.loc, some (.mi 10), false),
      (.remote, some (.mi 2), false), (.remote, some (.mi 100), false), (.remote, some (.mi 0), false),
      (.remote, some (.mi 0), false), (.remote, some (.mi 100), true), (.remote, some (.mi 100), true),
      (.remote, some (.mi 7), false), (.remote, some (.mi 7), false), (.loc, some (.mi 10), false) ] := by decide

example : allGood (judgeAll exCfg exOps (run exCfg exOps).1) = true := (c09_judge .mi exCfg exOps exOps_allowed).2.2

/-- replace the limiter in the `k`-th observation -/
def tamper (k : Nat) (l : Lim) (obs : List Obs) : List Obs :=
  obs.mapIdx fun i o => if i = k then { o with lim := some l, rlim := some l } else o

/-- the judge is not trivially true: it rejects what the pristine code did — the granted 5000 applied unclamped,
    `uint32(-300)`, an unbounded error fallback (300 in flight), a stale reply applied, and a wrong-typed limiter -/
example : (judgeAll exCfg exOps (tamper 4 (.mi 5000) (run exCfg exOps).1))[4]? = some ["c09.cap-exceeds-global"] := by decide
/-- … a granted 5000 (global 100) that leaves the instance at 50: the quota did not take effect -/
example : (judgeAll exCfg exOps (tamper 4 (.mi 50) (run exCfg exOps).1))[4]? = some ["c09.recover-not-applied"] := by decide
example : allGood (judgeAll exCfg exOps (tamper 5 (.mi 4294966996) (run exCfg exOps).1)) = false := by decide
example : (judgeAll exCfg exOps (tamper 7 (.mi 300) (run exCfg exOps).1))[7]? = some ["c09.cap-exceeds-global"] := by decide
/-- the error fallback is judged from the property's text — finite, of the schema's type, within the global limit — not
    by the code's formula: exactly the local limit 10 (instead of `min(max(300 observed, 10), 100) = 100`) is accepted,
    no limit at all is not -/
example : (judgeAll exCfg exOps (tamper 7 (.mi 10) (run exCfg exOps).1))[7]? = some [] := by decide
example : (judgeAll exCfg exOps (tamper 7 (.exempt 0) (run exCfg exOps).1))[7]? = some ["c09.answer-type-mismatch", "c09.error-fallback"] := by decide
example : (judgeAll exCfg exOps (tamper 8 (.mi 7) (run exCfg exOps).1))[8]? = some ["c09.stale-reply-applied"] := by decide
example : (judgeAll exCfg exOps (tamper 3 (.tb 1000000 1000000) (run exCfg exOps).1))[3]? = some ["c09.answer-type-mismatch"] := by decide
example : (judgeAll exCfg exOps (tamper 3 (.exempt 0) (run exCfg exOps).1))[3]? = some ["c09.answer-type-mismatch"] := by decide

/-- … and handing out the remote limiter while the heartbeats have timed out -/
example : (judgeAll exCfg exOps ((run exCfg exOps).1.mapIdx fun i o => if i = 11 then { o with choice := .remote } else o))[11]?
    = some ["c09.fallback-choice", "c09.fallback-choice"] := by decide

/-- token bucket, allocate strategy: answers −5/3, 5000/100000 and 0/0 are applied as (0,3), (100,200), (0,0) -/
def exTB : Schema := { strategy := .alloc, tb := some ⟨10, 20⟩, gtb := some ⟨100, 200⟩ }
def exOpsTB : List Op :=
  [ .schema exTB, .shards 2, .hb true 5 false,
    .answer true { strategy := .alloc, tb := some ⟨-5, 3⟩ },
    .answer true { strategy := .alloc, tb := some ⟨5000, 100000⟩ },
    .answer true { strategy := .alloc, mi := some 1000000 },
    .answer true { strategy := .alloc },
    .answer true { strategy := .alloc, tb := some ⟨0, 0⟩ } ]

theorem exOpsTB_allowed : Allowed .tb exOpsTB := by
  intro op hop
  simp only [exOpsTB, List.mem_cons, List.not_mem_nil, or_false] at hop
  rcases hop with rfl | rfl | rfl | rfl | rfl | rfl | rfl | rfl <;> simp [exTB, validSchema, guessType, maxInt32]

example : (run exCfg exOpsTB).1.map (fun o => (o.choice, o.lim)) =
    [ (.loc, some (.tb 10 20)), (.loc, some (.tb 10 20)), (.loc, some (.tb 10 20)),
      (.remote, some (.tb 0 3)), (.remote, some (.tb 100 200)), (.remote, some (.tb 100 200)),
      (.remote, some (.tb 100 200)), (.remote, some (.tb 0 0)) ] := by decide

/-- partial failure: the leader (1) fails its heartbeats for longer than the time-out while the server info keeps
    publishing it: local limiter again; a new leader (2) is published: ready at once -/
def exOpsSync : List Op :=
  [ .schema exSchema, .sync false 1 (some 1) 0, .reconcileCount,
    .hb false 1 false, .sync false 1 (some 1) 2, .hb false 3 false, .sync false 1 (some 1) (serverHeartBeatTimeout + 1),
    .hb false (serverHeartBeatTimeout + 2) false, .sync false 1 (some 1) (serverHeartBeatTimeout + 3),
    .sync true 0 none (serverHeartBeatTimeout + 4), .sync false 1 (some 2) (serverHeartBeatTimeout + 5) ]

example : (run exCfg exOpsSync).1.map (fun o => (o.choice, o.ready, o.leader)) =
    [ (.loc, false, 0), (.loc, true, 1), (.remote, true, 1), (.remote, true, 1), (.remote, true, 1), (.remote, true, 1),
      (.remote, true, 1), (.loc, false, 1), (.loc, false, 1), (.loc, false, 1), (.remote, true, 2) ] := by decide

/-- the judge rejects an implementation that stays ready because the sync re-marked the published leader ready -/
example : (judgeAll exCfg exOpsSync ((run exCfg exOpsSync).1.mapIdx fun i o =>
      if i = 7 then { o with ready := true, choice := .remote, lim := o.rlim } else o))[7]?
    = some ["c09.ready-hysteresis", "c09.fallback-choice"] := by decide

/-- the request side, token bucket 10/20 of global 100/200 under the count strategy: the server fills the reserve (5),
    the instance is idle, the reset check times out (degraded: 10/10), the server is back: the round 1 s later sends
    nothing (not due), the round 12 s after the last answer sends the zero-token resync and recovery follows -/
def exTBCount : Schema := { strategy := .count, tb := some ⟨10, 20⟩, gtb := some ⟨100, 200⟩ }
def exOpsTick : List Op :=
  [ .schema exTBCount, .sync false 1 (some 1) 0, .reconcileCount,
    .tick 3000000000 (some { accept := true, limit := 1000 }),
    .setLimit { err := .other },
    .tick 4000000000 (some { accept := true, limit := 1000 }),
    .tick 15000000000 (some { accept := true, limit := 1000 }),
    .tick 15900000000 (some { accept := true, limit := 1000 }) ]

example : (run exCfg exOpsTick).1.map (fun o => (o.lim, o.unavail, o.tokens, o.req)) =
    [ (some (.tb 10 20), false, 0, none), (some (.tb 10 20), false, 0, none), (some (.tb 100 200), false, 0, none),
      (some (.tb 100 200), false, 5, some 1), (some (.tb 10 10), true, 5, some 1), (some (.tb 10 10), true, 5, none),
      (some (.tb 100 200), false, 10, some 0), (some (.tb 100 200), false, 10, none) ] := by decide

/-- the judge rejects an instance that stays silent (and degraded) when the resync is due -/
example : (judgeAll exCfg exOpsTick ((run exCfg exOpsTick).1.mapIdx fun i o =>
      if i = 6 then { o with req := none, unavail := true, lim := some (.tb 10 10), rlim := some (.tb 10 10) } else o))[6]?
    = some ["c09.no-request-when-due"] := by decide

/-- requests in flight across a global-limit change: global 4, the server grants everything, four requests are
    admitted and the fifth refused; the global limit becomes 3 (resized in place: the four stay counted): refused with
    four and with three in flight, admitted again with two -/
def exS4 : Schema := { strategy := .count, mi := some 2, gmi := some 4 }
def exS3 : Schema := { strategy := .count, mi := some 2, gmi := some 3 }
def exOpsFlight : List Op :=
  [ .schema exS4, .sync false 1 (some 1) 0, .reconcileCount, .setLimit { accept := true, limit := 100, rt := 10 },
    .acquire 1, .acquire 2, .acquire 3, .acquire 4, .acquire 5,
    .schema exS3, .reconcileCount, .setLimit { accept := true, limit := 100, rt := 20 },
    .acquire 6, .release 1, .acquire 7, .release 2, .acquire 8 ]

example : (run exCfg exOpsFlight).1.map (fun o => (o.lim, o.admitted)) =
    [ (some (.mi 2), none), (some (.mi 2), none), (some (.mi 1), none), (some (.mi 4), none),
      (some (.mi 4), some true), (some (.mi 4), some true), (some (.mi 4), some true), (some (.mi 4), some true),
      (some (.mi 4), some false), (some (.mi 4), some false), (some (.mi 1), some false), (some (.mi 3), some false),
      (some (.mi 3), some false), (some (.mi 3), some false), (some (.mi 3), some false), (some (.mi 3), some false),
      (some (.mi 3), some true) ] := by decide

/-- the judge rejects an implementation that forgot the four requests when the limit changed (a rebuilt bucket admits
    the fifth: 5 in flight > global 3) -/
example : (judgeAll exCfg exOpsFlight ((run exCfg exOpsFlight).1.mapIdx fun i o =>
      if i = 12 then { o with admitted := some true } else o))[12]? = some ["c09.inflight-exceeds-global"] := by decide

/-- failed acquires, then the server is back and refuses more quota: every round with demand keeps asking for a token
    (the failed requests' tokens were returned to the accounting) -/
def exOpsLeak : List Op :=
  [ .schema exTBCount, .sync false 1 (some 1) 0, .reconcileCount,
    .event, .tick 1000000000 (some { err := .other }),
    .event, .tick 2000000000 (some { err := .other }),
    .event, .tick 3000000000 (some { accept := true, limit := 0 }),
    .event, .tick 4000000000 (some { accept := true, limit := 0 }) ]

example : (run exCfg exOpsLeak).1.map (fun o => (o.lim, o.unavail, o.wreserve, o.tokens, o.req)) =
    [ (some (.tb 10 20), false, 0, 0, none), (some (.tb 10 20), false, 0, 0, none),
      (some (.tb 100 200), false, 5, 0, none), (some (.tb 100 200), false, 5, 0, none),
      (some (.tb 10 10), true, 5, 0, some 1), (some (.tb 10 10), true, 5, 0, some 1),
      (some (.tb 10 10), true, 5, 0, some 1), (some (.tb 10 10), true, 5, 0, some 1),
      (some (.tb 100 200), false, 5, 0, some 1), (some (.tb 100 200), false, 5, 0, some 1),
      (some (.tb 100 200), false, 5, 0, some 1) ] := by decide

/-- the judge rejects an instance that, with demand and room in the reserve, asks for zero tokens or sends nothing -/
example : (judgeAll exCfg exOpsLeak ((run exCfg exOpsLeak).1.mapIdx fun i o =>
      if i = 10 then { o with req := some 0 } else o))[10]? = some ["c09.no-tokens-requested-on-demand"] := by decide
example : (judgeAll exCfg exOpsLeak ((run exCfg exOpsLeak).1.mapIdx fun i o =>
      if i = 10 then { o with req := none } else o))[10]? = some ["c09.no-tokens-requested-on-demand"] := by decide

/-- the schema's TYPE changes (max-in-flight 2/4 → token bucket 5/10 → max-in-flight, count): the remote limiter of the
    old type is gone at once (local limiter of the new schema), an old-typed answer is ignored, an answer of the new
    type builds the new remote limiter; an error reply after the last change does not panic (fallback to local 2) -/
def exSA : Schema := { strategy := .alloc, mi := some 2, gmi := some 4 }
def exSB : Schema := { strategy := .alloc, tb := some ⟨5, 5⟩, gtb := some ⟨10, 10⟩ }
def exOpsKind : List Op :=
  [ .schema exSA, .sync false 1 (some 1) 0, .answer true { strategy := .alloc, mi := some 4 },
    .schema exSB, .answer true { strategy := .alloc, mi := some 4 }, .answer true { strategy := .alloc, tb := some ⟨10, 10⟩ },
    .schema { exSA with strategy := .count }, .reconcileCount, .setLimit { err := .other, rt := 5 } ]

theorem exOpsKind_allowed : AllowedAny exOpsKind := by
  intro op hop
  simp only [exOpsKind, List.mem_cons, List.not_mem_nil, or_false] at hop
  rcases hop with rfl | rfl | rfl | rfl | rfl | rfl | rfl | rfl | rfl <;> simp [exSA, exSB, validSchema, guessType, maxInt32]

example : (run exCfg exOpsKind).2 = none ∧ (run exCfg exOpsKind).1.map (fun o => (o.choice, o.lim, o.rlim)) =
    [ (.loc, some (.mi 2), none), (.loc, some (.mi 2), none), (.remote, some (.mi 4), some (.mi 4)),
      (.loc, some (.tb 5 5), none), (.loc, some (.tb 5 5), none), (.remote, some (.tb 10 10), some (.tb 10 10)),
      (.loc, some (.mi 2), none), (.remote, some (.mi 1), some (.mi 1)), (.remote, some (.mi 2), some (.mi 2)) ] := by decide

example : allGood (judgeAll exCfg exOpsKind (run exCfg exOpsKind).1) = true := (c09_judge_any exCfg exOpsKind exOpsKind_allowed).2.2

/-- the judge rejects an implementation that keeps handing out the limiter of the old type after the change -/
example : (judgeAll exCfg exOpsKind ((run exCfg exOpsKind).1.mapIdx fun i o =>
      if i = 3 then { o with choice := .remote, lim := some (.mi 4), rlim := some (.mi 4) } else o))[3]?
    = some ["c09.answer-type-mismatch"] := by decide

/-- the strategy of the item changes — answered by the server (""), then the schema's own (allocate → count) — with four
    requests in flight under the global limit 4: the limiter is kept, the four stay counted, nothing more is admitted
    until one of them finishes -/
def exOpsStrategy : List Op :=
  [ .schema exSA, .sync false 1 (some 1) 0, .answer true { strategy := .alloc, mi := some 100 },
    .acquire 1, .acquire 2, .acquire 3, .acquire 4, .acquire 5,
    .answer true { strategy := .empty, mi := some 100 }, .acquire 6,
    .schema { exSA with strategy := .count }, .reconcileCount, .setLimit { accept := true, limit := 100, rt := 7 }, .acquire 7,
    .release 1, .acquire 8 ]

example : (run exCfg exOpsStrategy).1.map (fun o => (o.lim, o.admitted)) =
    [ (some (.mi 2), none), (some (.mi 2), none), (some (.mi 4), none),
      (some (.mi 4), some true), (some (.mi 4), some true), (some (.mi 4), some true), (some (.mi 4), some true),
      (some (.mi 4), some false), (some (.mi 4), some false), (some (.mi 4), some false), (some (.mi 4), some false),
      (some (.mi 1), some false), (some (.mi 4), some false), (some (.mi 4), some false), (some (.mi 4), some false),
      (some (.mi 4), some true) ] := by decide

/-- the judge rejects an implementation whose rebuilt limiter forgot the four (no exemption for strategy changes) -/
example : (judgeAll exCfg exOpsStrategy ((run exCfg exOpsStrategy).1.mapIdx fun i o =>
      if i = 9 then { o with admitted := some true } else o))[9]? = some ["c09.inflight-exceeds-global"] := by decide
example : (judgeAll exCfg exOpsStrategy ((run exCfg exOpsStrategy).1.mapIdx fun i o =>
      if i = 13 then { o with admitted := some true } else o))[13]? = some ["c09.inflight-exceeds-global"] := by decide

/-- the heartbeat hypotheses of the hysteresis theorems are satisfiable (whatever the regenerated time-out is): up on a
    success, still up after exactly the time-out of consecutive failure, down one nanosecond later -/
example : specReady [(false, serverHeartBeatTimeout), (false, 1), (false, 0), (true, 0)] = true := by decide
example : specReady [(false, serverHeartBeatTimeout + 1), (false, 1), (false, 0), (true, 0)] = false := by decide
example : failRunStart [(false, serverHeartBeatTimeout + 1), (false, 1), (false, 0), (true, 0)] = some 0 := by decide

end KG.Props.C09
