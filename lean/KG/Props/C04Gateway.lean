import KG.Lemmas.Gateway
import KG.Props.C01
import KG.Props.C02
import KG.Props.C03
import KG.Props.C05
import KG.Props.C10
import KG.Props.C14
/-!
# C04 × (C10, C12, C02, C01, C05, C06, C03, C14): the end-to-end statement about one request

`KG.Model.Gateway.serveRequest` composes the per-area models in the order of the real handler chain. The theorems here are
about EVERY configuration state, every oracle and every request (no reachability assumed unless a hypothesis says so), and
are corollaries of the per-area theorems:

* `gw_forwarded` — a request that reaches an upstream passed every stage: the host resolves to its cluster (C10), the
  bound cluster's own oracle authenticated the client and allowed the impersonation (C12, C02), the policy is the FIRST one
  with a matching rule and the flow-control schema and the upstream list are THAT policy's (C01), the schema admitted the
  request (C05, C06), the endpoint is of that list, enabled and healthy (C03), its cursor is the one of its ready list (C14);
* `gw_forwarded_server` — … and, in well-formed states, a current server of the cluster, not disabled by any entry (C03);
* `gw_forwarded_identity`, `gw_forwarded_acts_as` — the upstream receives exactly the gateway's identity fields for the
  authenticated (or authorised impersonated) user and nothing the client sent under those names (C02);
* `gw_forwarded_fidelity` — method, Host, body, path, query and every end-to-end header (C04);
* `gw_decision_table`, `gw_answered`, `gw_row_*` — otherwise the outcome is the row of C04's decision table for the first
  failing stage, a well-formed `Status`;
* frame facts: `gw_frame_*`; `gw_never_panics`; `gw_own_cluster_oracle` (C12: decisions never cross clusters).
-/
namespace KG.Props.C04.Gateway
open KG KG.Model.Gateway KG.Lemmas.Gateway

/-! ## a forwarded request passed every stage -/

/-- **Soundness of forwarding, stage by stage.** If a request is handed to an upstream then, in the state it met: -/
theorem gw_forwarded (env : Env) (s : State) (r : Request) (f : Forwarded) (h : (arrive env s r).2 = .forwarded f) :
    ∃ (ci : Model.Names.CI) (cl : Cluster) (ri : ReqInfo) (u : Model.Identity.Identity) (pol : Model.Match.PolicyCfg)
      (w' : Model.LocalLimiter.World) (e : Model.Endpoints.EP) (lb' : List (Model.Endpoints.Key × Nat)),
      -- C10: the host resolves, through the manager's map, to the ClusterInfo the request is bound to; it is proxied
      Model.Names.resolve lower s.mgr r.host = some (f.cluster, ci) ∧ s.clusters[f.cluster]? = some cl ∧
      r.hostIsIP = false ∧ cl.cfg.denyAll = false ∧ r.info = some ri ∧
      -- C12: THAT cluster's oracle authenticated the client …
      authenticate env (some f.cluster) r = some u ∧
      -- C02: … and allowed every impersonation it asked for; `f.ctxUser` is the user the gateway acts for
      (∃ h1, impersonation env (some f.cluster) r u = .pass h1 f.ctxUser) ∧
      -- C01: routed under the FIRST policy, in list order, that has a rule matching the request's attributes
      cl.cfg.policies[f.policy]? = some pol ∧
      KG.Spec.Match.policySpec (attrsOf ri f.ctxUser) pol.rules = true ∧
      (∀ j, j < f.policy → ∀ q, cl.cfg.policies[j]? = some q → KG.Spec.Match.policySpec (attrsOf ri f.ctxUser) q.rules = false) ∧
      -- C05 / C06: the flow-control schema of THAT policy admitted it (the token bucket's answer being the bucket's)
      f.schema = pol.flowControlSchemaName ∧
      Model.LocalLimiter.acquire s.lim cl.cfg.name f.schema (bucketAnswer s.lim s.buckets cl.cfg.name f.schema r.now).1 = .ok (w', true) ∧
      f.handle = s.lim.reqs.length ∧
      -- C03 / C14: the endpoint is what `Pop` answers on THAT policy's upstream list: present, the current object,
      -- enabled, healthy by its last report
      Model.Endpoints.pop cl.ep.eps cl.ep.lb (if pol.upstreamSubset = [] then allEndpoints cl r else pol.upstreamSubset)
        = (.picked f.endpoint.1 f.endpoint.2, lb') ∧
      f.endpoint.1 ∈ (if pol.upstreamSubset = [] then allEndpoints cl r else pol.upstreamSubset) ∧
      Model.Endpoints.load cl.ep.eps f.endpoint.1 = some e ∧ e.gen = f.endpoint.2 ∧ e.disabled = false ∧ e.healthy = true ∧
      f.closeWhenIdle = cl.cfg.closeWhenIdle := by
  obtain ⟨up, x, n, g, recv, ctx, _, _, hx, hserve, hpop, _, rfl, _⟩ := arrive_forwarded h
  obtain ⟨hb, hroute, hacq, hpopeq⟩ := dispatch_done hx
  obtain ⟨hri, hip, hres, hd, hau, himp⟩ := bound_some hb
  obtain ⟨⟨ci, hci⟩, hcl⟩ := resolve_some hres
  obtain ⟨pol, hpol, hm, hfirst, _, hups, _⟩ := KG.Props.C01.c01_match_attributes_some _ _ _ _ _ hroute
  obtain ⟨ha, hh, _⟩ := tryAcquire_ok hacq
  have hadm : x.acq.admitted = true := by
    have := ((KG.Props.C04.c04_forward_iff _).1 hserve).2.2.2.2.2.2.2.1
    rw [scenario_acquire, hx] at this
    exact this
  rw [hadm] at ha
  simp only [hadm, if_true] at hpopeq
  have hschema : schemaNameOf x.b.cl x.pk = pol.flowControlSchemaName := by simp [schemaNameOf, hpol]
  have hups' : x.pk.upstreams = (if pol.upstreamSubset = [] then allEndpoints x.b.cl r else pol.upstreamSubset) := hups
  have hpop1 : (Model.Endpoints.pop x.b.cl.ep.eps x.b.cl.ep.lb x.pk.upstreams).1 = .picked n g := by rw [← hpopeq]; exact hpop
  obtain ⟨e, he, hgen, hmem, hdis, hhl⟩ := KG.Props.C03.c03_pick_ready _ _ _ _ _ hpop1
  refine ⟨ci, x.b.cl, x.b.ri, x.b.requestor, pol, x.acq.lim, e, x.pop.2, hci, hcl, hip, hd, hri, hau, himp, hpol, hm, hfirst,
    hschema, ?_, hh, ?_, ?_, he, hgen, hdis, hhl, rfl⟩
  · simpa [hschema] using ha
  · rw [← hups', ← hpopeq, ← hpop]
  · rw [← hups']; exact hmem

/-! ### well-formed clusters: the endpoint map is C03's image of the cluster's own server list -/

/-- the endpoint map of a `ClusterInfo` is in C03's simulation with a history whose last Sync wrote the cluster's
    configuration (server list and subsets) -/
def ClusterWF (cl : Cluster) : Prop :=
  ∃ a : KG.Spec.Endpoints.Abs, KG.Lemmas.Endpoints.Sim cl.ep a ∧ a.servers = cl.cfg.servers ∧
    a.policies = cl.cfg.policies.map (·.upstreamSubset)

/-- in a well-formed cluster the forwarded request went to a CURRENT SERVER of the cluster the host resolves to, one that no
    entry of the spec marks disabled, whose last health report since it entered the list was healthy, and that is a member
    of the subset of the first matching policy when that policy has one (C03 through the composition) -/
theorem gw_forwarded_server (env : Env) (s : State) (r : Request) (f : Forwarded) (h : (arrive env s r).2 = .forwarded f)
    (cl : Cluster) (hcl : s.clusters[f.cluster]? = some cl) (hwf : ClusterWF cl) :
    f.endpoint.1 ∈ Model.Endpoints.serverNames cl.cfg.servers ∧
    KG.Spec.Endpoints.specDisabled cl.cfg.servers f.endpoint.1 = false ∧
    (∃ e, Model.Endpoints.load cl.ep.eps f.endpoint.1 = some e ∧ e.healthy = true) ∧
    (∀ pol, cl.cfg.policies[f.policy]? = some pol → pol.upstreamSubset ≠ [] → f.endpoint.1 ∈ pol.upstreamSubset) := by
  obtain ⟨ci, cl', ri, u, pol, w', e, lb', _, hcl', _, _, _, _, _, hpol, _, _, _, _, _, _, hmem, he, _, hdis, hhl, _⟩ :=
    gw_forwarded env s r f h
  rw [hcl] at hcl'; cases hcl'
  obtain ⟨a, hsim, hsrv, _⟩ := hwf
  have hdom := hsim.dom f.endpoint.1
  rw [he] at hdom
  have hin : f.endpoint.1 ∈ Model.Endpoints.serverNames cl.cfg.servers := by
    rw [← hsrv]
    simpa [KG.Spec.Endpoints.Abs.inServers] using hdom.symm
  obtain ⟨hd2, _, _, _⟩ := hsim.ep f.endpoint.1 e he
  refine ⟨hin, ?_, ⟨e, he, hhl⟩, ?_⟩
  · rw [← hsrv, ← hd2]; exact hdis
  · intro pol' hpol' hne
    rw [hpol] at hpol'; cases hpol'
    simpa [hne] using hmem

/-! ## the identity the upstream is told to act as (C02) -/

/-- Under every identity-bearing name (`Authorization`, the `Impersonate-` family) the upstream receives exactly what the
    gateway generates for the user it acts for with ITS credential for that cluster — nothing the client sent. -/
theorem gw_forwarded_identity (env : Env) (s : State) (r : Request) (f : Forwarded) (h : (arrive env s r).2 = .forwarded f)
    (cl : Cluster) (hcl : s.clusters[f.cluster]? = some cl) (n : Str) (hn : Model.Identity.isIdentityName n = true) :
    Model.Identity.values f.identity n =
      Model.Identity.values (Model.Identity.sendOver false (KG.Spec.Identity.gatewayHeaders cl.cfg.token false f.ctxUser)) n := by
  obtain ⟨up, x, n', g, recv, ctx, _, _, hx, _, _, hid, rfl, _⟩ := arrive_forwarded h
  obtain ⟨hb, _, _, _⟩ := dispatch_done hx
  obtain ⟨_, _, hres, _, _, h1, himp⟩ := bound_some hb
  obtain ⟨_, hcl'⟩ := resolve_some hres
  simp only at hcl
  rw [hcl] at hcl'; cases hcl'
  have hctx : ctx = x.b.ctxUser := identity_ctx hid himp
  subst hctx
  have := KG.Props.C02.c02_no_client_identity_header _ _ _ _ _ _ _ hid n hn
  rw [← this]
  exact values_identityEntries recv n hn

/-- … and that user is the one the bound cluster's oracle authenticated, or — when the client asked to impersonate —
    exactly the identity it asked for (Kubernetes' semantics of the impersonation headers), every derived check having been
    allowed by the SAME cluster's oracle; a malformed request for impersonation is never forwarded. -/
theorem gw_forwarded_acts_as (env : Env) (s : State) (r : Request) (f : Forwarded) (h : (arrive env s r).2 = .forwarded f) :
    ∃ u, authenticate env (some f.cluster) r = some u ∧
      ((KG.Spec.Identity.impersonationRequested r.lines = false ∧ f.ctxUser = u) ∨
       (KG.Spec.Identity.impersonationRequested r.lines = true ∧ KG.Spec.Identity.malformed r.lines = false ∧
        KG.Spec.Identity.allAllowed (env.authz (some f.cluster) u) r.lines = true ∧
        f.ctxUser = KG.Spec.Identity.requestedIdentity r.lines)) := by
  obtain ⟨up, x, n', g, recv, ctx, _, _, hx, _, _, hid, rfl, _⟩ := arrive_forwarded h
  obtain ⟨hb, _, _, _⟩ := dispatch_done hx
  obtain ⟨_, _, _, _, hau, h1, himp⟩ := bound_some hb
  have hctx : ctx = x.b.ctxUser := identity_ctx hid himp
  subst hctx
  exact ⟨x.b.requestor, hau, KG.Props.C02.c02_forwarded_identity _ _ _ _ _ _ _ hid⟩

/-! ## what the upstream receives of the request itself (C04) -/

/-- method, Host and body are the client's; a valid escaped path arrives byte for byte; the query parses to the same
    multimap; under every name that is not identity-bearing the upstream sees what C04's specification demands
    (end-to-end headers in order, hop-by-hop and `Connection`-listed ones gone, `X-Forwarded-For` extended). -/
theorem gw_forwarded_fidelity (env : Env) (s : State) (r : Request) (f : Forwarded) (h : (arrive env s r).2 = .forwarded f)
    (P : Str) (hp : Model.Forward.hasPrefixSlash (Model.Forward.cut 63 r.target).1 = true)
    (hv : Model.Forward.validEncoded (Model.Forward.cut 63 r.target).1 = true)
    (hd : Model.Forward.unescape .path (Model.Forward.cut 63 r.target).1 = some P)
    (hnu : Model.Forward.isUpgradeRequest (Model.Forward.afterAuthentication (Model.Forward.parseHeaders r.lines)) = false) :
    f.up.method = r.method ∧ f.up.host = r.host ∧ f.up.body = r.body ∧
    (Model.Forward.cut 63 f.up.target).1 = (Model.Forward.cut 63 r.target).1 ∧
    (∀ k, Model.Forward.valuesOf k (Model.Forward.parseQuery (Model.Forward.cut 63 f.up.target).2) =
          Model.Forward.valuesOf k (Model.Forward.parseQuery (Model.Forward.cut 63 r.target).2)) ∧
    (∀ k, Model.Identity.isIdentityName k = false →
      f.up.headers.values k =
        KG.Spec.Forward.reqHdrExpected (Model.Forward.afterAuthentication (Model.Forward.parseHeaders r.lines)) r.remoteIP k) := by
  obtain ⟨up, x, n', g, recv, ctx, _, hfwd, _, _, _, _, rfl, _⟩ := arrive_forwarded h
  obtain ⟨u, hu, h1, h2, h3, h4, h5, h6⟩ := KG.Props.C04.c04_request_fidelity r.toForward P hp hv hd hnu
  rw [hfwd] at hu; cases hu
  refine ⟨h1, h2, h3, h4, h5, ?_⟩
  intro k hk
  rw [values_endToEnd up k hk]
  exact h6 k

/-! ## otherwise: the row of the decision table for the first failing stage -/

/-- the outcome, seen as an outcome of C04's chain model -/
def kindOf : Outcome → Option Model.Forward.Outcome
  | .forwarded _ => some .forward
  | .proxyError => some .forward          -- forwarding began (the transport then refused the generated fields)
  | .terminated a => some (.terminated a)
  | .notProxied => some .notProxied
  | .plainError c => some (.plainError c)
  | .badRequest => none
  | .panic _ => none

/-- **Every outcome is the row of C04's decision table** (closed form: the first condition that holds decides) for the
    flags the stages computed — for every state whose limiters are well-formed (`Inv`: reachable from `install`), every
    request net/http accepts. -/
theorem gw_decision_table (env : Env) (s : State) (r : Request) (hinv : Inv s)
    (hp : Model.Identity.parse r.lines ≠ none) (hf : Model.Forward.forwardRequest r.toForward ≠ none) :
    kindOf (arrive env s r).2 = some (KG.Spec.Forward.table (scenario env s r)) := by
  rw [← KG.Props.C04.c04_decision_table]
  obtain ⟨hdr, hparse⟩ := Option.ne_none_iff_exists'.mp hp
  obtain ⟨up, hfwd⟩ := Option.ne_none_iff_exists'.mp hf
  unfold arrive
  simp only [hparse, hfwd]
  split
  · rename_i e he; exact absurd he (dispatch_never_panics hinv r e)
  · split
    · rename_i hs; simp [kindOf, hs]
    · rename_i c hs; simp [kindOf, hs]
    · rename_i a hs
      split <;> simp [kindOf, hs]
    · rename_i hs
      obtain ⟨x, n, g, hx, _, hpop⟩ := forward_dispatch hinv hs
      simp only [hx, hpop]
      split <;> simp [kindOf, hs]

/-- a request the gateway answers itself gets the table's row, a well-formed `Status` whose code is the HTTP code; as an
    observation (nothing forwarded) it satisfies C04's judges -/
theorem gw_answered (env : Env) (s : State) (r : Request) (a : Model.Forward.Answer) (h : (arrive env s r).2 = .terminated a) :
    KG.Spec.Forward.table (scenario env s r) = .terminated a ∧ KG.Props.C04.wellFormedAnswer a ∧
    KG.Spec.Forward.wellFormed (KG.Spec.Forward.obsOfAnswer a) = true := by
  obtain ⟨hs, _⟩ := arrive_terminated h
  exact ⟨by rw [← KG.Props.C04.c04_decision_table]; exact hs, KG.Props.C04.c04_terminated_wellformed _ _ hs,
    (KG.Props.C04.c04_terminated_judges _ _ hs).1⟩

end KG.Props.C04.Gateway
