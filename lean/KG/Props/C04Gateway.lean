import KG.Lemmas.Gateway
import KG.Props.C01
import KG.Props.C02
import KG.Props.C03
import KG.Props.C05
import KG.Props.C10
import KG.Props.C14
/-!
# C04 × (C10, C12, C02, C01, C05, C06, C03, C14): the end-to-end statement about one request

`KG.Model.Gateway.serveRequest` composes the per-area models in the order of the real handler chain. The theorems here are
about EVERY configuration state, every oracle and every request (no reachability assumed unless a hypothesis says so), and
are corollaries of the per-area theorems:

* `gw_forwarded` — a request that reaches an upstream passed every stage: the host resolves to its cluster (C10), the
  bound cluster's own oracle authenticated the client and allowed the impersonation (C12, C02), the policy is the FIRST one
  with a matching rule and the flow-control schema and the upstream list are THAT policy's (C01), the schema admitted the
  request (C05, C06), the endpoint is of that list, enabled and healthy (C03), its cursor is the one of its ready list (C14);
* `gw_forwarded_server` — … and, in well-formed states, a current server of the cluster, not disabled by any entry (C03);
* `gw_forwarded_identity`, `gw_forwarded_acts_as` — the upstream receives exactly the gateway's identity fields for the
  authenticated (or authorised impersonated) user and nothing the client sent under those names (C02);
* `gw_forwarded_fidelity` — method, Host, body, path, query and every end-to-end header (C04);
* `gw_decision_table`, `gw_answered`, `gw_row_*` — otherwise the outcome is the row of C04's decision table for the first
  failing stage, a well-formed `Status`;
* frame facts: `gw_frame_*`; `gw_never_panics`; `gw_own_cluster_oracle` (C12: decisions never cross clusters).
-/
namespace KG.Props.C04.Gateway
open KG KG.Model.Gateway KG.Lemmas.Gateway

/-! ## a forwarded request passed every stage -/

/-- **Soundness of forwarding, stage by stage.** If a request is handed to an upstream then, in the state it met: -/
theorem gw_forwarded (env : Env) (s : State) (r : Request) (f : Forwarded) (h : (arrive env s r).2 = .forwarded f) :
    ∃ (ci : Model.Names.CI) (cl : Cluster) (ri : ReqInfo) (u : Model.Identity.Identity) (pol : Model.Match.PolicyCfg)
      (w' : Model.LocalLimiter.World) (e : Model.Endpoints.EP) (lb' : List (Model.Endpoints.Key × Nat)),
      -- C10: the host resolves, through the manager's map, to the ClusterInfo the request is bound to; it is proxied
      Model.Names.resolve lower s.mgr r.host = some (f.cluster, ci) ∧ s.clusters[f.cluster]? = some cl ∧
      r.hostIsIP = false ∧ cl.cfg.denyAll = false ∧ r.info = some ri ∧
      -- C12: THAT cluster's oracle authenticated the client …
      authenticate env (some f.cluster) r = some u ∧
      -- C02: … and allowed every impersonation it asked for; `f.ctxUser` is the user the gateway acts for
      (∃ h1, impersonation env (some f.cluster) r u = .pass h1 f.ctxUser) ∧
      -- C01: routed under the FIRST policy, in list order, that has a rule matching the request's attributes
      cl.cfg.policies[f.policy]? = some pol ∧
      KG.Spec.Match.policySpec (attrsOf ri f.ctxUser) pol.rules = true ∧
      (∀ j, j < f.policy → ∀ q, cl.cfg.policies[j]? = some q → KG.Spec.Match.policySpec (attrsOf ri f.ctxUser) q.rules = false) ∧
      -- C05 / C06: the flow-control schema of THAT policy admitted it (the token bucket's answer being the bucket's)
      f.schema = pol.flowControlSchemaName ∧
      Model.LocalLimiter.acquire s.lim cl.cfg.name f.schema (bucketAnswer s.lim s.buckets cl.cfg.name f.schema r.now).1 = .ok (w', true) ∧
      f.handle = s.lim.reqs.length ∧
      -- C03 / C14: the endpoint is what `Pop` answers on THAT policy's upstream list: present, the current object,
      -- enabled, healthy by its last report
      Model.Endpoints.pop cl.ep.eps cl.ep.lb (if pol.upstreamSubset = [] then allEndpoints cl r else pol.upstreamSubset)
        = (.picked f.endpoint.1 f.endpoint.2, lb') ∧
      f.endpoint.1 ∈ (if pol.upstreamSubset = [] then allEndpoints cl r else pol.upstreamSubset) ∧
      Model.Endpoints.load cl.ep.eps f.endpoint.1 = some e ∧ e.gen = f.endpoint.2 ∧ e.disabled = false ∧ e.healthy = true ∧
      f.closeWhenIdle = cl.cfg.closeWhenIdle := by
  obtain ⟨up, x, n, g, recv, ctx, _, _, hx, hserve, hpop, _, rfl, _⟩ := arrive_forwarded h
  obtain ⟨hb, hroute, hacq, hpopeq⟩ := dispatch_done hx
  obtain ⟨hri, hip, hres, hd, hau, himp⟩ := bound_some hb
  obtain ⟨⟨ci, hci⟩, hcl⟩ := resolve_some hres
  obtain ⟨pol, hpol, hm, hfirst, _, hups, _⟩ := KG.Props.C01.c01_match_attributes_some _ _ _ _ _ hroute
  obtain ⟨ha, hh, _⟩ := tryAcquire_ok hacq
  have hadm : x.acq.admitted = true := by
    have := ((KG.Props.C04.c04_forward_iff _).1 hserve).2.2.2.2.2.2.2.1
    rw [scenario_acquire, hx] at this
    exact this
  rw [hadm] at ha
  simp only [hadm, if_true] at hpopeq
  have hschema : schemaNameOf x.b.cl x.pk = pol.flowControlSchemaName := by simp [schemaNameOf, hpol]
  have hups' : x.pk.upstreams = (if pol.upstreamSubset = [] then allEndpoints x.b.cl r else pol.upstreamSubset) := hups
  have hpop1 : (Model.Endpoints.pop x.b.cl.ep.eps x.b.cl.ep.lb x.pk.upstreams).1 = .picked n g := by rw [← hpopeq]; exact hpop
  obtain ⟨e, he, hgen, hmem, hdis, hhl⟩ := KG.Props.C03.c03_pick_ready _ _ _ _ _ hpop1
  refine ⟨ci, x.b.cl, x.b.ri, x.b.requestor, pol, x.acq.lim, e, x.pop.2, hci, hcl, hip, hd, hri, hau, himp, hpol, hm, hfirst,
    hschema, ?_, hh, ?_, ?_, he, hgen, hdis, hhl, rfl⟩
  · simpa [hschema] using ha
  · rw [← hups', ← hpopeq, ← hpop]
  · rw [← hups']; exact hmem

/-! ### well-formed clusters: the endpoint map is C03's image of the cluster's own server list -/

/-- in a well-formed cluster the forwarded request went to a CURRENT SERVER of the cluster the host resolves to, one that no
    entry of the spec marks disabled, whose last health report since it entered the list was healthy, and that is a member
    of the subset of the first matching policy when that policy has one (C03 through the composition) -/
theorem gw_forwarded_server (env : Env) (s : State) (r : Request) (f : Forwarded) (h : (arrive env s r).2 = .forwarded f)
    (cl : Cluster) (hcl : s.clusters[f.cluster]? = some cl) (hwf : ClusterWF cl) :
    f.endpoint.1 ∈ Model.Endpoints.serverNames cl.cfg.servers ∧
    KG.Spec.Endpoints.specDisabled cl.cfg.servers f.endpoint.1 = false ∧
    (∃ e, Model.Endpoints.load cl.ep.eps f.endpoint.1 = some e ∧ e.healthy = true) ∧
    (∀ pol, cl.cfg.policies[f.policy]? = some pol → pol.upstreamSubset ≠ [] → f.endpoint.1 ∈ pol.upstreamSubset) := by
  obtain ⟨ci, cl', ri, u, pol, w', e, lb', _, hcl', _, _, _, _, _, hpol, _, _, _, _, _, _, hmem, he, _, hdis, hhl, _⟩ :=
    gw_forwarded env s r f h
  rw [hcl] at hcl'; cases hcl'
  obtain ⟨a, hsim, hsrv, _⟩ := hwf
  have hdom := hsim.dom f.endpoint.1
  rw [he] at hdom
  have hin : f.endpoint.1 ∈ Model.Endpoints.serverNames cl.cfg.servers := by
    rw [← hsrv]
    simpa [KG.Spec.Endpoints.Abs.inServers] using hdom.symm
  obtain ⟨hd2, _, _, _⟩ := hsim.ep f.endpoint.1 e he
  refine ⟨hin, ?_, ⟨e, he, hhl⟩, ?_⟩
  · rw [← hsrv, ← hd2]; exact hdis
  · intro pol' hpol' hne
    rw [hpol] at hpol'; cases hpol'
    simpa [hne] using hmem

/-! ## the identity the upstream is told to act as (C02) -/

/-- Under every identity-bearing name (`Authorization`, the `Impersonate-` family) the upstream receives exactly what the
    gateway generates for the user it acts for with ITS credential for that cluster — nothing the client sent. -/
theorem gw_forwarded_identity (env : Env) (s : State) (r : Request) (f : Forwarded) (h : (arrive env s r).2 = .forwarded f)
    (cl : Cluster) (hcl : s.clusters[f.cluster]? = some cl) (n : Str) (hn : Model.Identity.isIdentityName n = true) :
    Model.Identity.values f.identity n =
      Model.Identity.values (Model.Identity.sendOver false (KG.Spec.Identity.gatewayHeaders cl.cfg.token false f.ctxUser)) n := by
  obtain ⟨up, x, n', g, recv, ctx, _, _, hx, _, _, hid, rfl, _⟩ := arrive_forwarded h
  obtain ⟨hb, _, _, _⟩ := dispatch_done hx
  obtain ⟨_, _, hres, _, _, h1, himp⟩ := bound_some hb
  obtain ⟨_, hcl'⟩ := resolve_some hres
  simp only at hcl
  rw [hcl] at hcl'; cases hcl'
  have hctx : ctx = x.b.ctxUser := identity_ctx hid himp
  subst hctx
  have := KG.Props.C02.c02_no_client_identity_header _ _ _ _ _ _ _ hid n hn
  rw [← this]
  exact values_identityEntries recv n hn

/-- … and that user is the one the bound cluster's oracle authenticated, or — when the client asked to impersonate —
    exactly the identity it asked for (Kubernetes' semantics of the impersonation headers), every derived check having been
    allowed by the SAME cluster's oracle; a malformed request for impersonation is never forwarded. -/
theorem gw_forwarded_acts_as (env : Env) (s : State) (r : Request) (f : Forwarded) (h : (arrive env s r).2 = .forwarded f) :
    ∃ u, authenticate env (some f.cluster) r = some u ∧
      ((KG.Spec.Identity.impersonationRequested r.lines = false ∧ f.ctxUser = u) ∨
       (KG.Spec.Identity.impersonationRequested r.lines = true ∧ KG.Spec.Identity.malformed r.lines = false ∧
        KG.Spec.Identity.allAllowed (env.authz (some f.cluster) u) r.lines = true ∧
        f.ctxUser = KG.Spec.Identity.requestedIdentity r.lines)) := by
  obtain ⟨up, x, n', g, recv, ctx, _, _, hx, _, _, hid, rfl, _⟩ := arrive_forwarded h
  obtain ⟨hb, _, _, _⟩ := dispatch_done hx
  obtain ⟨_, _, _, _, hau, h1, himp⟩ := bound_some hb
  have hctx : ctx = x.b.ctxUser := identity_ctx hid himp
  subst hctx
  exact ⟨x.b.requestor, hau, KG.Props.C02.c02_forwarded_identity _ _ _ _ _ _ _ hid⟩

/-! ## what the upstream receives of the request itself (C04) -/

/-- For EVERY forwarded request with a slash-led path that is not an upgrade request: method, Host and body are the
    client's; the escaped path is the client's with exactly the bytes no URL may carry percent-escaped
    (`escapeInvalidPathBytes`; the identity on a valid path, next theorem); the query parses to the same multimap; under
    every name that is not identity-bearing the upstream sees what C04's specification demands (end-to-end headers in
    order, hop-by-hop and `Connection`-listed ones gone, `X-Forwarded-For` extended). -/
theorem gw_forwarded_fidelity (env : Env) (s : State) (r : Request) (f : Forwarded) (h : (arrive env s r).2 = .forwarded f)
    (hp : Model.Forward.hasPrefixSlash (Model.Forward.cut 63 r.target).1 = true)
    (hnu : Model.Forward.isUpgradeRequest (Model.Forward.afterAuthentication (Model.Forward.parseHeaders r.lines)) = false) :
    f.up.method = r.method ∧ f.up.host = r.host ∧ f.up.body = r.body ∧
    (Model.Forward.cut 63 f.up.target).1 = Model.Forward.escapeInvalidPathBytes (Model.Forward.cut 63 r.target).1 ∧
    (∀ k, Model.Forward.valuesOf k (Model.Forward.parseQuery (Model.Forward.cut 63 f.up.target).2) =
          Model.Forward.valuesOf k (Model.Forward.parseQuery (Model.Forward.cut 63 r.target).2)) ∧
    (∀ k, Model.Identity.isIdentityName k = false →
      f.up.headers.values k =
        KG.Spec.Forward.reqHdrExpected (Model.Forward.afterAuthentication (Model.Forward.parseHeaders r.lines)) r.remoteIP k) := by
  obtain ⟨up, x, n', g, recv, ctx, _, hfwd, _, _, _, _, rfl, _⟩ := arrive_forwarded h
  obtain ⟨P, hd⟩ := KG.Props.C04.c04_forwarded_decodes r.toForward up hfwd
  obtain ⟨u, hu, h1, h2, h3, h4, h5, h6⟩ := KG.Props.C04.c04_request_fidelity r.toForward P hp hd hnu
  rw [hfwd] at hu; cases hu
  refine ⟨h1, h2, h3, h4, h5, ?_⟩
  intro k hk
  rw [values_endToEnd up k hk]
  exact h6 k

/-- … a valid escaped path arrives byte for byte -/
theorem gw_forwarded_path_valid (env : Env) (s : State) (r : Request) (f : Forwarded) (h : (arrive env s r).2 = .forwarded f)
    (hp : Model.Forward.hasPrefixSlash (Model.Forward.cut 63 r.target).1 = true)
    (hv : Model.Forward.validEncoded (Model.Forward.cut 63 r.target).1 = true)
    (hnu : Model.Forward.isUpgradeRequest (Model.Forward.afterAuthentication (Model.Forward.parseHeaders r.lines)) = false) :
    (Model.Forward.cut 63 f.up.target).1 = (Model.Forward.cut 63 r.target).1 := by
  rw [(gw_forwarded_fidelity env s r f h hp hnu).2.2.2.1, KG.Lemmas.Forward.escapeInvalid_id _ hv]

/-! ## otherwise: the row of the decision table for the first failing stage -/

/-- the outcome, seen as an outcome of C04's chain model -/
def kindOf : Outcome → Option Model.Forward.Outcome
  | .forwarded _ => some .forward
  | .proxyError => some .forward          -- forwarding began (the transport then refused the generated fields)
  | .terminated a => some (.terminated a)
  | .notProxied => some .notProxied
  | .badRequest => none
  | .panic _ => none

/-- **Every outcome is the row of C04's decision table** (closed form: the first condition that holds decides) for the
    flags the stages computed — for every state whose limiters are well-formed (`Inv`: reachable from `install`), every
    request net/http accepts. -/
theorem gw_decision_table (env : Env) (s : State) (r : Request) (hinv : Inv s)
    (hp : Model.Identity.parse r.lines ≠ none) (hf : Model.Forward.forwardRequest r.toForward ≠ none) :
    kindOf (arrive env s r).2 = some (KG.Spec.Forward.table (scenario env s r)) := by
  rw [← KG.Props.C04.c04_decision_table]
  obtain ⟨hdr, hparse⟩ := Option.ne_none_iff_exists'.mp hp
  obtain ⟨up, hfwd⟩ := Option.ne_none_iff_exists'.mp hf
  unfold arrive
  simp only [hparse, hfwd]
  split
  · rename_i e he; exact absurd he (dispatch_never_panics hinv r e)
  · split
    · rename_i hs; simp [kindOf, hs]
    · rename_i a hs
      split <;> simp [kindOf, hs]
    · rename_i hs
      obtain ⟨x, n, g, hx, _, hpop⟩ := forward_dispatch hinv hs
      simp only [hx, hpop]
      split <;> simp [kindOf, hs]

/-- a request the gateway answers itself gets the table's row, a well-formed `Status` whose code is the HTTP code; as an
    observation (nothing forwarded) it satisfies C04's judges -/
theorem gw_answered (env : Env) (s : State) (r : Request) (a : Model.Forward.Answer) (h : (arrive env s r).2 = .terminated a) :
    KG.Spec.Forward.table (scenario env s r) = .terminated a ∧ KG.Props.C04.wellFormedAnswer a ∧
    KG.Spec.Forward.wellFormed (KG.Spec.Forward.obsOfAnswer a) = true := by
  obtain ⟨hs, _⟩ := arrive_terminated h
  exact ⟨by rw [← KG.Props.C04.c04_decision_table]; exact hs, KG.Props.C04.c04_terminated_wellformed _ _ hs,
    (KG.Props.C04.c04_terminated_judges _ _ hs).1⟩

theorem kindOf_terminated {o : Outcome} {a : Model.Forward.Answer} (h : kindOf o = some (.terminated a)) : o = .terminated a := by
  cases o <;> simp [kindOf] at h
  subst h; rfl

/-- **never a panic**: from every state whose limiters are well-formed (in particular every state reachable from
    `install`, `gw_install_inv`), no request makes the gateway panic and the model never leaves its own branches -/
theorem gw_never_panics (env : Env) (s : State) (r : Request) (hinv : Inv s) (e : String) : (arrive env s r).2 ≠ .panic e := by
  intro h
  by_cases hp : Model.Identity.parse r.lines = none
  · rw [arrive_badRequest (Or.inl hp)] at h; cases h
  · by_cases hf : Model.Forward.forwardRequest r.toForward = none
    · rw [arrive_badRequest (Or.inr hf)] at h; cases h
    · have := gw_decision_table env s r hinv hp hf
      rw [h] at this; simp [kindOf] at this

/-- the invariant holds after `install` and is kept by every operation of a sequence -/
theorem gw_install_inv (cfgs : List ClusterCfg) : Inv (install cfgs) := inv_install cfgs

theorem gw_run_inv (env : Env) (x : Run) (h : Inv x.s) (ops : List Op) : Inv (run env x ops).1.s := inv_run x h ops

/-- … so along EVERY sequence of requests (held or not), completions and health reports on ANY installed configuration no
    operation panics -/
theorem gw_run_never_panics (env : Env) (cfgs : List ClusterCfg) (ops : List Op) (e : String) :
    Out.served (.panic e) ∉ (run env (Run.init (install cfgs)) ops).2 := by
  suffices h : ∀ (x : Run), Inv x.s → Out.served (.panic e) ∉ (run env x ops).2 from h _ (inv_install cfgs)
  induction ops with
  | nil => intro x _; simp [run]
  | cons op ops ih =>
    intro x hx
    simp only [run, List.mem_cons, not_or]
    refine ⟨?_, ih _ (inv_step hx op)⟩
    cases op with
    | request r hold =>
      simp only [step]
      by_cases hh : hold = true
      · simp only [hh, if_true]
        intro heq
        have : (arrive env x.s r).2 = .panic e := by
          split at heq <;> (injection heq with heq; exact heq.symm)
        exact gw_never_panics env x.s r hx e this
      · simp only [hh, Bool.false_eq_true, if_false]
        intro heq
        injection heq with heq
        have : (arrive env x.s r).2 = .panic e := by
          unfold serveRequest at heq
          dsimp only at heq
          split at heq
          · rename_i f hf; rw [hf] at heq; cases heq
          · exact heq.symm
        exact gw_never_panics env x.s r hx e this
    | finish k => simp only [step]; split <;> simp
    | setHealth p ep healthy => simp [step]

/-! ### the rows, by the first stage that fails (each with what it leaves of the state) -/

/-- the host resolves to no cluster: 503 with Retry-After; nothing else is consulted, nothing changes -/
theorem gw_row_unknown_host (env : Env) (s : State) (r : Request) (hinv : Inv s)
    (hp : Model.Identity.parse r.lines ≠ none) (hf : Model.Forward.forwardRequest r.toForward ≠ none)
    (hi : r.info ≠ none) (hip : r.hostIsIP = false) (hres : resolveCluster s r = none) :
    ∃ a, (arrive env s r).2 = .terminated a ∧ a.httpCode = 503 ∧ a.retryAfter = some Gen.C04.unavailableRetryAfter ∧
      (arrive env s r).1 = s := by
  have ht := gw_decision_table env s r hinv hp hf
  have hinfo : r.info.isSome = true := by cases hh : r.info with | none => exact absurd hh hi | some _ => rfl
  have : KG.Spec.Forward.table (scenario env s r) =
      .terminated ⟨503, some Gen.C04.unavailableRetryAfter, ⟨Model.Forward.kStatus, Model.Forward.kV1, Model.Forward.kFailure, Model.Forward.kServiceUnavailable, 503⟩⟩ := by
    simp [KG.Spec.Forward.table, scenario_info, scenario_ip, scenario_known, hinfo, hip, hres]
  rw [this] at ht
  refine ⟨_, kindOf_terminated ht, rfl, rfl, arrive_state_of_not_done ?_⟩
  intro x hx
  obtain ⟨hb, _⟩ := dispatch_done hx
  obtain ⟨_, _, hres', _⟩ := bound_some hb
  rw [hres] at hres'; cases hres'

/-- the cluster's DenyAllRequests gate: 429 without Retry-After, before any authentication; nothing changes -/
theorem gw_row_deny_all (env : Env) (s : State) (r : Request) (hinv : Inv s)
    (hp : Model.Identity.parse r.lines ≠ none) (hf : Model.Forward.forwardRequest r.toForward ≠ none)
    (hi : r.info ≠ none) (hip : r.hostIsIP = false) (p : Nat) (cl : Cluster) (hres : resolveCluster s r = some (p, cl))
    (hd : cl.cfg.denyAll = true) :
    ∃ a, (arrive env s r).2 = .terminated a ∧ a.httpCode = 429 ∧ a.retryAfter = none ∧ (arrive env s r).1 = s := by
  have ht := gw_decision_table env s r hinv hp hf
  have hinfo : r.info.isSome = true := by cases hh : r.info with | none => exact absurd hh hi | some _ => rfl
  have : KG.Spec.Forward.table (scenario env s r) =
      .terminated ⟨429, none, ⟨Model.Forward.kStatus, Model.Forward.kV1, Model.Forward.kFailure, Model.Forward.kTooManyRequests, 429⟩⟩ := by
    have h4 : (scenario env s r).denyAll = true := by simp [scenario, hres, hd]
    simp [KG.Spec.Forward.table, scenario_info, scenario_ip, scenario_known, hinfo, hip, hres, h4]
  rw [this] at ht
  refine ⟨_, kindOf_terminated ht, rfl, rfl, arrive_state_of_not_done ?_⟩
  intro x hx
  obtain ⟨hb, _⟩ := dispatch_done hx
  obtain ⟨_, _, hres', hd', _⟩ := bound_some hb
  rw [hres] at hres'; cases hres'
  rw [hd] at hd'; cases hd'

/-- no policy of the bound cluster has a rule matching the request (C01: `policySpec` false for all): 500, and NO limiter is
    touched — flow control is only ever acquired for a matched policy -/
theorem gw_row_no_policy (env : Env) (s : State) (r : Request) (hinv : Inv s)
    (hp : Model.Identity.parse r.lines ≠ none) (hf : Model.Forward.forwardRequest r.toForward ≠ none)
    (b : Bound) (hb : bound? env s r = some b)
    (hno : ∀ pol ∈ b.cl.cfg.policies, KG.Spec.Match.policySpec (attrsOf b.ri b.ctxUser) pol.rules = false) :
    ∃ a, (arrive env s r).2 = .terminated a ∧ a.httpCode = 500 ∧ a.body.reason = Model.Forward.kInternalError ∧
      (arrive env s r).1 = s := by
  have hroute : route b.cl r b.ri b.ctxUser = none := (KG.Props.C01.c01_match_attributes_none _ _ _ _).2 hno
  have hd : dispatch env s r = .noPolicy b := by unfold dispatch; simp [hb, hroute]
  have ht := gw_decision_table env s r hinv hp hf
  obtain ⟨h1, h2, h3, h4, h5, h6⟩ := scenario_of_bound hb
  have h7 : (scenario env s r).policyMatches = false := by rw [scenario_policy, hd]
  have : KG.Spec.Forward.table (scenario env s r) =
      .terminated ⟨500, none, ⟨Model.Forward.kStatus, Model.Forward.kV1, Model.Forward.kFailure, Model.Forward.kInternalError, 500⟩⟩ := by
    rcases h6 with h6 | h6 <;> simp [KG.Spec.Forward.table, KG.Spec.Forward.tableDispatch, h1, h2, h3, h4, h5, h6, h7]
  rw [this] at ht
  refine ⟨_, kindOf_terminated ht, rfl, rfl, arrive_state_of_not_done ?_⟩
  intro x hx; rw [hd] at hx; cases hx

/-- the schema of the first matching policy refuses: 429 — with Retry-After unless the resource is `events` — and NO
    round-robin cursor moves (`TryAcquire` comes before `Pop`); endpoints, names and configuration are untouched -/
theorem gw_row_rate_limited (env : Env) (s : State) (r : Request) (hinv : Inv s)
    (hp : Model.Identity.parse r.lines ≠ none) (hf : Model.Forward.forwardRequest r.toForward ≠ none)
    (x : Dispatched) (hx : dispatch env s r = .done x) (ha : x.acq.admitted = false) :
    ∃ a, (arrive env s r).2 = .terminated a ∧ a.httpCode = 429 ∧
      a.retryAfter = (if (scenario env s r).resource = Gen.C04.rateLimitExemptResource then none else some Gen.C04.retryAfter) ∧
      (arrive env s r).1.clusters = s.clusters ∧ (arrive env s r).1.mgr = s.mgr ∧ (arrive env s r).1.lim = x.acq.lim := by
  obtain ⟨hb, _⟩ := dispatch_done hx
  have ht := gw_decision_table env s r hinv hp hf
  obtain ⟨h1, h2, h3, h4, h5, h6⟩ := scenario_of_bound hb
  have h7 : (scenario env s r).policyMatches = true := by rw [scenario_policy, hx]
  have h8 : (scenario env s r).acquireOK = false := by rw [scenario_acquire, hx]; exact ha
  have : KG.Spec.Forward.table (scenario env s r) =
      .terminated ⟨429, if (scenario env s r).resource = Gen.C04.rateLimitExemptResource then none else some Gen.C04.retryAfter,
        ⟨Model.Forward.kStatus, Model.Forward.kV1, Model.Forward.kFailure, Model.Forward.kTooManyRequests, 429⟩⟩ := by
    rcases h6 with h6 | h6 <;> simp [KG.Spec.Forward.table, KG.Spec.Forward.tableDispatch, h1, h2, h3, h4, h5, h6, h7, h8]
  rw [this] at ht
  have hterm := kindOf_terminated ht
  obtain ⟨_, hst⟩ := arrive_terminated hterm
  rw [hx] at hst
  simp only [ha, Bool.false_eq_true, if_false] at hst
  refine ⟨_, hterm, rfl, rfl, ?_, ?_, ?_⟩
  · rw [hst]; exact stateAfterDispatch_refused hx ha
  · rw [hst]; rfl
  · rw [hst]; rfl

/-- admitted, but the policy's upstream list holds no enabled, healthy endpoint (C03): 503 with Retry-After; the slot is
    given back by the deferred `Release` and no cursor moves -/
theorem gw_row_no_ready (env : Env) (s : State) (r : Request) (hinv : Inv s)
    (hp : Model.Identity.parse r.lines ≠ none) (hf : Model.Forward.forwardRequest r.toForward ≠ none)
    (x : Dispatched) (hx : dispatch env s r = .done x) (ha : x.acq.admitted = true) (hn : x.pop.1 = .noReady) :
    ∃ a, (arrive env s r).2 = .terminated a ∧ a.httpCode = 503 ∧ a.retryAfter = some Gen.C04.unavailableRetryAfter ∧
      (∀ n, n ∈ x.pk.upstreams → ∀ e, Model.Endpoints.load x.b.cl.ep.eps n = some e → e.isReady = false) ∧
      (arrive env s r).1.clusters = s.clusters ∧
      (arrive env s r).1.lim = (Model.LocalLimiter.release x.acq.lim x.acq.handle).1 := by
  obtain ⟨hb, _, _, hpop⟩ := dispatch_done hx
  simp only [ha, if_true] at hpop
  have ht := gw_decision_table env s r hinv hp hf
  obtain ⟨h1, h2, h3, h4, h5, h6⟩ := scenario_of_bound hb
  have h7 : (scenario env s r).policyMatches = true := by rw [scenario_policy, hx]
  have h8 : (scenario env s r).acquireOK = true := by rw [scenario_acquire, hx]; exact ha
  have h9 : (scenario env s r).popOK = false := by rw [scenario_pop, hx]; simp [hn]
  have : KG.Spec.Forward.table (scenario env s r) =
      .terminated ⟨503, some Gen.C04.unavailableRetryAfter,
        ⟨Model.Forward.kStatus, Model.Forward.kV1, Model.Forward.kFailure, Model.Forward.kServiceUnavailable, 503⟩⟩ := by
    rcases h6 with h6 | h6 <;> simp [KG.Spec.Forward.table, KG.Spec.Forward.tableDispatch, h1, h2, h3, h4, h5, h6, h7, h8, h9]
  rw [this] at ht
  have hterm := kindOf_terminated ht
  obtain ⟨_, hst⟩ := arrive_terminated hterm
  rw [hx] at hst
  simp only [ha, if_true] at hst
  have hno : (Model.Endpoints.pop x.b.cl.ep.eps x.b.cl.ep.lb x.pk.upstreams).1 = .noReady := by rw [← hpop]; exact hn
  have hlb : x.pop.2 = x.b.cl.ep.lb := by
    rw [hpop]
    rcases KG.Lemmas.Endpoints.pop_cases x.b.cl.ep.eps x.b.cl.ep.lb x.pk.upstreams with ⟨_, h'⟩ | ⟨e, _, h'⟩
    · rw [KG.Lemmas.Endpoints.pop_none _ _ _ h']
    · rw [h'] at hno; cases hno
  obtain ⟨_, _, hres, _⟩ := bound_some hb
  obtain ⟨_, hcl⟩ := resolve_some hres
  refine ⟨_, hterm, rfl, rfl, KG.Lemmas.Endpoints.pop_noReady hno, ?_, ?_⟩
  · rw [hst, finish_clusters, stateAfterDispatch_clusters, hlb]
    exact setCursor_self _ _ _ hcl
  · rw [hst]; rfl

/-! ## frame facts: what one request leaves alone -/

/-- C10 / C11 / C03: a request never changes the manager (names), any cluster's configuration, endpoint objects, their
    health or the Sync counter — whatever its outcome; only cursors, limiters and buckets can move -/
theorem gw_frame_static (env : Env) (s : State) (r : Request) :
    (arrive env s r).1.mgr = s.mgr ∧
    (arrive env s r).1.clusters.map (fun cl => (cl.cfg, cl.ep.eps, cl.ep.epoch, cl.ep.policies, cl.ep.pickers)) =
      s.clusters.map (fun cl => (cl.cfg, cl.ep.eps, cl.ep.epoch, cl.ep.policies, cl.ep.pickers)) := by
  have hg : ∀ (x : Dispatched), (stateAfterDispatch s x).clusters.map (fun cl => (cl.cfg, cl.ep.eps, cl.ep.epoch, cl.ep.policies, cl.ep.pickers)) =
      s.clusters.map (fun cl => (cl.cfg, cl.ep.eps, cl.ep.epoch, cl.ep.policies, cl.ep.pickers)) := by
    intro x
    rw [stateAfterDispatch_clusters]
    exact setCursor_map _ (fun _ _ => rfl) _ _ _
  rcases arrive_state env s r with h | ⟨x, _, h | h⟩
  · rw [h]; exact ⟨rfl, rfl⟩
  · rw [h]; exact ⟨rfl, hg x⟩
  · rw [h]; exact ⟨rfl, hg x⟩

/-- C14: only the cursors of the cluster the request was bound to can move, and only when flow control admitted it
    ("a 429 does not consume a round-robin turn") -/
theorem gw_frame_cursors (env : Env) (s : State) (r : Request) :
    (arrive env s r).1.clusters = s.clusters ∨
    ∃ x, dispatch env s r = .done x ∧ x.acq.admitted = true ∧
      (∀ q, q ≠ x.b.p → (arrive env s r).1.clusters[q]? = s.clusters[q]?) ∧
      (arrive env s r).1.clusters[x.b.p]? = some { x.b.cl with ep := { x.b.cl.ep with lb := x.pop.2 } } := by
  rcases arrive_state env s r with h | ⟨x, hx, h⟩
  · left; rw [h]
  · by_cases ha : x.acq.admitted = true
    · right
      have hc : (arrive env s r).1.clusters = setCursor s.clusters x.b.p x.pop.2 := by
        rcases h with h | h <;> rw [h] <;> rfl
      obtain ⟨hb, _⟩ := dispatch_done hx
      obtain ⟨_, _, hres, _⟩ := bound_some hb
      obtain ⟨_, hcl⟩ := resolve_some hres
      refine ⟨x, hx, ha, ?_, ?_⟩
      · intro q hq; rw [hc, setCursor_get]; simp [hq]
      · rw [hc, setCursor_get]; simp [hcl]
    · left
      have ha' : x.acq.admitted = false := by simpa using ha
      rcases h with h | h <;> rw [h]
      · exact stateAfterDispatch_refused hx ha'
      · rw [finish_clusters]; exact stateAfterDispatch_refused hx ha'

/-- C05 / C06: a request that does not reach `TryAcquire` — any filter in front of the dispatcher answered, the host is an
    IP literal, or no policy matches — leaves every limiter, every bucket and every cursor alone -/
theorem gw_frame_unreached (env : Env) (s : State) (r : Request) (h : ∀ x, dispatch env s r ≠ .done x) :
    (arrive env s r).1 = s := arrive_state_of_not_done h

/-! ## C10 through the composition -/

/-- when the manager is reachable by handler invocations (C10: `Reachable`, e.g. after `install`), the host of a forwarded
    request — port stripped, lower-cased — is one of the CURRENT server names of the cluster it was forwarded for: no
    request is ever served by a cluster that does not claim its host -/
theorem gw_forwarded_host_is_claimed (env : Env) (s : State) (r : Request) (f : Forwarded)
    (h : (arrive env s r).2 = .forwarded f) (hm : KG.Props.C10.Reachable lower s.mgr) :
    ∃ ci, Model.Names.resolve lower s.mgr r.host = some (f.cluster, ci) ∧
      lower (Model.Names.hostWithoutPort lower r.host) ∈ Model.Names.loadServerNames lower ci := by
  obtain ⟨ci, _, _, _, _, _, _, _, hres, _⟩ := gw_forwarded env s r f h
  refine ⟨ci, hres, ?_⟩
  have hI := KG.Props.C10.c10_inv lower KG.Props.C10.c10_lower_idem s.mgr hm
  unfold Model.Names.resolve at hres
  obtain ⟨hlook, hheap⟩ := (KG.Lemmas.Names.get_some_iff lower s.mgr _ _ _).1 hres
  exact hI.mem _ _ _ hlook hheap

/-- `install` only ever applies C10's handler -/
theorem gw_install_mgr_reachable (cfgs : List ClusterCfg) : KG.Props.C10.Reachable lower (install cfgs).mgr := by
  unfold install
  suffices h : ∀ s : State, KG.Props.C10.Reachable lower s.mgr →
      KG.Props.C10.Reachable lower (cfgs.foldl (fun s c => (addCluster s c).1) s).mgr from h _ KG.Props.C10.Reachable.init
  induction cfgs with
  | nil => intro s hs; exact hs
  | cons c rest ih =>
    intro s hs
    apply ih
    unfold addCluster
    dsimp only
    cases hsync : Model.LocalLimiter.sync s.lim (lower c.name) c.schemas with
    | error e => split <;> exact hs
    | ok w =>
      split
      · exact KG.Props.C10.Reachable.step _ _ _ hs
      · exact hs
      · exact hs

/-! ## well-formed clusters: established by `install`, kept by every operation -/

def StateWF (s : State) : Prop := ∀ cl ∈ s.clusters, ClusterWF cl

theorem sim_congr {s1 s2 : Model.Endpoints.State} {a : KG.Spec.Endpoints.Abs} (h : KG.Lemmas.Endpoints.Sim s1 a)
    (h1 : s2.eps = s1.eps) (h2 : s2.epoch = s1.epoch) (h3 : s2.policies = s1.policies) (h4 : s2.pickers = s1.pickers) :
    KG.Lemmas.Endpoints.Sim s2 a :=
  ⟨by rw [h3]; exact h.policies, by rw [h4]; exact h.pickers, by rw [h2]; exact h.epoch, by rw [h1]; exact h.nodup,
   by rw [h1]; exact h.dom, by rw [h1]; exact h.ep, h.rep⟩

theorem wf_init : StateWF State.init := by intro cl hcl; cases hcl

theorem wf_addCluster {s : State} (h : StateWF s) (cfg : ClusterCfg) : StateWF (addCluster s cfg).1 := by
  unfold addCluster
  dsimp only
  cases hsync : Model.LocalLimiter.sync s.lim (lower cfg.name) cfg.schemas with
  | error e => split <;> exact h
  | ok w =>
    split
    · intro cl hcl
      simp only [List.mem_append, List.mem_singleton] at hcl
      rcases hcl with hcl | hcl
      · exact h cl hcl
      · subst hcl
        have hs := (KG.Lemmas.Endpoints.sim_step KG.Lemmas.Endpoints.sim_init
          (.sync cfg.servers (cfg.policies.map (·.upstreamSubset)))).2
        exact ⟨_, hs, rfl, rfl⟩
    · exact h
    · exact h

theorem wf_install (cfgs : List ClusterCfg) : StateWF (install cfgs) := by
  unfold install
  suffices h : ∀ s, StateWF s → StateWF (cfgs.foldl (fun s c => (addCluster s c).1) s) from h _ wf_init
  induction cfgs with
  | nil => intro s hs; exact hs
  | cons c rest ih => intro s hs; exact ih _ (wf_addCluster hs c)

theorem wf_of_static {s s' : State} (h : StateWF s)
    (he : s'.clusters.map (fun cl => (cl.cfg, cl.ep.eps, cl.ep.epoch, cl.ep.policies, cl.ep.pickers)) =
      s.clusters.map (fun cl => (cl.cfg, cl.ep.eps, cl.ep.epoch, cl.ep.policies, cl.ep.pickers))) : StateWF s' := by
  intro cl' hcl'
  obtain ⟨i, hi, hget⟩ := List.mem_iff_getElem.mp hcl'
  have h1 : (s'.clusters.map (fun cl => (cl.cfg, cl.ep.eps, cl.ep.epoch, cl.ep.policies, cl.ep.pickers)))[i]? =
      some (cl'.cfg, cl'.ep.eps, cl'.ep.epoch, cl'.ep.policies, cl'.ep.pickers) := by
    rw [List.getElem?_map, List.getElem?_eq_getElem hi, hget]; rfl
  rw [he, List.getElem?_map] at h1
  cases hc : s.clusters[i]? with
  | none => rw [hc] at h1; cases h1
  | some cl =>
    rw [hc] at h1
    simp only [Option.map_some, Option.some.injEq, Prod.mk.injEq] at h1
    obtain ⟨e1, e2, e3, e4, e5⟩ := h1
    obtain ⟨a, hsim, hsrv, hpol⟩ := h cl (List.mem_of_getElem? hc)
    exact ⟨a, sim_congr hsim e2.symm e3.symm e4.symm e5.symm, by rw [← e1]; exact hsrv, by rw [← e1]; exact hpol⟩

theorem wf_arrive {env : Env} {s : State} (h : StateWF s) (r : Request) : StateWF (arrive env s r).1 :=
  wf_of_static h (gw_frame_static env s r).2

theorem wf_finish {s : State} (h : StateWF s) (i : Nat) : StateWF (finish s i) := h

theorem wf_setHealth {s : State} (h : StateWF s) (p : Nat) (ep : Str) (healthy : Bool) : StateWF (setHealth s p ep healthy) := by
  unfold setHealth
  cases hc : s.clusters[p]? with
  | none => exact h
  | some cl =>
    intro cl' hcl'
    simp only at hcl'
    rcases List.mem_or_eq_of_mem_set hcl' with hm | hm
    · exact h cl' hm
    · subst hm
      obtain ⟨a, hsim, hsrv, hpol⟩ := h cl (List.mem_of_getElem? hc)
      have hs := (KG.Lemmas.Endpoints.sim_step hsim (.updateStatus ep healthy)).2
      refine ⟨_, hs, ?_, ?_⟩
      · simp only [KG.Spec.Endpoints.absStep]; split <;> exact hsrv
      · simp only [KG.Spec.Endpoints.absStep]; split <;> exact hpol

/-- along every sequence on every installed configuration the clusters stay well-formed: the hypotheses of
    `gw_forwarded_server` are satisfied by every state the harness drives the model through -/
theorem gw_run_wf (env : Env) (cfgs : List ClusterCfg) (ops : List Op) :
    StateWF (run env (Run.init (install cfgs)) ops).1.s := by
  suffices h : ∀ (x : Run), StateWF x.s → StateWF (run env x ops).1.s from h _ (wf_install cfgs)
  induction ops with
  | nil => intro x hx; exact hx
  | cons op ops ih =>
    intro x hx
    apply ih
    cases op with
    | request r hold =>
      simp only [step]
      by_cases hh : hold = true
      · simp only [hh, if_true]
        split <;> exact wf_arrive hx r
      · simp only [hh, Bool.false_eq_true, if_false]
        unfold serveRequest
        dsimp only
        split
        · exact wf_finish (wf_arrive hx r) _
        · exact wf_arrive hx r
    | finish k => simp only [step]; split <;> first | exact hx | exact wf_finish hx _
    | setHealth p ep healthy => exact wf_setHealth hx p ep healthy

/-! ## C12 through the composition: decisions never cross clusters -/

theorem authenticate_congr {env env' : Env} {p : Option Nat} (h : ∀ tok, env.authn p tok = env'.authn p tok) (r : Request) :
    authenticate env p r = authenticate env' p r := by
  unfold authenticate; split <;> simp [h]

theorem impersonation_congr {env env' : Env} {p : Option Nat} (h : ∀ u q, env.authz p u q = env'.authz p u q) (r : Request)
    (u : Model.Identity.Identity) : impersonation env p r u = impersonation env' p r u := by
  unfold impersonation
  have : env.authz p u = env'.authz p u := funext (h u)
  rw [this]

/-- the cluster a request is bound to (none: IP-literal Host or unknown host) -/
def boundPtr (s : State) (r : Request) : Option Nat := if r.hostIsIP then none else (resolveCluster s r).map (·.1)

theorem bound_congr {env env' : Env} {s : State} {r : Request}
    (h1 : ∀ tok, env.authn (boundPtr s r) tok = env'.authn (boundPtr s r) tok)
    (h2 : ∀ u q, env.authz (boundPtr s r) u q = env'.authz (boundPtr s r) u q) : bound? env s r = bound? env' s r := by
  unfold bound?
  cases r.info with
  | none => rfl
  | some ri =>
    simp only
    cases hip : r.hostIsIP with
    | true => simp
    | false =>
      simp only [Bool.false_eq_true, if_false]
      cases hres : resolveCluster s r with
      | none => rfl
      | some pc =>
        obtain ⟨p, cl⟩ := pc
        have hp : boundPtr s r = some p := by simp [boundPtr, hip, hres]
        rw [hp] at h1 h2
        simp only
        rw [authenticate_congr h1 r]
        cases cl.cfg.denyAll <;> simp only [Bool.false_eq_true, if_false, if_true]
        cases authenticate env' (some p) r with
        | none => rfl
        | some u => simp only; rw [impersonation_congr h2 r u]

/-- **C12 lifted**: the outcome of a request, the request an upstream receives and the state afterwards depend on the oracles
    (authentication and impersonation authorisation) of the ONE cluster the request is bound to and of no other: two
    environments that agree on that cluster's oracles are indistinguishable, whatever the other clusters' oracles say about
    the same token or the same user. -/
theorem gw_own_cluster_oracle (env env' : Env) (s : State) (r : Request)
    (h1 : ∀ tok, env.authn (boundPtr s r) tok = env'.authn (boundPtr s r) tok)
    (h2 : ∀ u q, env.authz (boundPtr s r) u q = env'.authz (boundPtr s r) u q) :
    arrive env s r = arrive env' s r := by
  have hb := bound_congr h1 h2
  have hd : dispatch env s r = dispatch env' s r := by unfold dispatch; rw [hb]
  have hs : scenario env s r = scenario env' s r := by
    have e1 : authenticate env (boundPtr s r) r = authenticate env' (boundPtr s r) r := authenticate_congr h1 r
    unfold scenario
    simp only [hd]
    unfold boundPtr at e1
    rw [e1]
    cases authenticate env' (if r.hostIsIP = true then none else Option.map (fun x => x.fst) (resolveCluster s r)) r with
    | none => rfl
    | some u =>
      have := impersonation_congr h2 r u
      unfold boundPtr at this
      simp only [this]
  unfold arrive
  rw [hd, hs]
  cases hd' : dispatch env' s r with
  | done x =>
    have hx : dispatch env s r = .done x := by rw [hd, hd']
    obtain ⟨hbx, _⟩ := dispatch_done hx
    obtain ⟨_, hip, hres, _⟩ := bound_some hbx
    have hp : boundPtr s r = some x.b.p := by simp [boundPtr, hip, hres]
    have : env.authz (some x.b.p) x.b.requestor = env'.authz (some x.b.p) x.b.requestor := by
      funext q; rw [← hp]; exact h2 _ q
    simp only [this]
  | notReached => rfl
  | noPolicy b => rfl
  | panic e => rfl

/-! ## C05 through the composition: no slot is ever leaked; C14: the cursor law -/

/-- **no leak, whatever the way out**: after ONE COMPLETE request — forwarded, refused by any filter, unmatched, rate
    limited, left without endpoint, refused by the transport — the limiters are again related to a bookkeeping that has, for
    EVERY cluster and schema, exactly the in-flight requests it had before. So the demand of C05's judge for the next request
    (`Spec.LocalLimiter.demandExact`: admitted iff fewer than M unfinished) is what it was: a request costs a slot only while it
    is in flight. -/
theorem gw_no_leak (env : Env) (s : State) (σ : KG.Spec.LocalLimiter.SState) (r : Request)
    (hrel : KG.Lemmas.LocalLimiter.Rel s.lim σ) :
    ∃ σ', KG.Lemmas.LocalLimiter.Rel (serveRequest env s r).1.lim σ' ∧ σ'.entries = σ.entries ∧
      ∀ c n, KG.Spec.LocalLimiter.demandExact σ' c n = KG.Spec.LocalLimiter.demandExact σ c n := by
  have hdem : ∀ σ' : KG.Spec.LocalLimiter.SState, σ'.entries = σ.entries →
      ∀ c n, KG.Spec.LocalLimiter.demandExact σ' c n = KG.Spec.LocalLimiter.demandExact σ c n := by
    intro σ' he c n; unfold KG.Spec.LocalLimiter.demandExact; rw [he]
  rcases serveRequest_state env s r with h | ⟨x, hx, ⟨h, ha⟩ | ⟨h, ha⟩⟩
  · rw [h]; exact ⟨σ, hrel, rfl, fun _ _ => rfl⟩
  · -- refused: nothing was taken
    obtain ⟨_, _, hacq, _⟩ := dispatch_done hx
    obtain ⟨hacq', _, _⟩ := tryAcquire_ok hacq
    obtain ⟨w', b, ha', _, hrel'⟩ := KG.Lemmas.LocalLimiter.acquire_step hrel x.b.cl.cfg.name (schemaNameOf x.b.cl x.pk)
      (bucketAnswer s.lim s.buckets x.b.cl.cfg.name (schemaNameOf x.b.cl x.pk) r.now).1
    rw [hacq'] at ha'
    injection ha' with ha'
    injection ha' with e1 e2
    rw [h]
    have hent : (KG.Spec.LocalLimiter.specAcquire σ x.b.cl.cfg.name (schemaNameOf x.b.cl x.pk) b).entries = σ.entries := by
      rw [← e2, ha]
      unfold KG.Spec.LocalLimiter.specAcquire
      simp
    exact ⟨_, by show KG.Lemmas.LocalLimiter.Rel x.acq.lim _; rw [e1]; exact hrel', hent, hdem _ hent⟩
  · -- taken and given back
    obtain ⟨_, _, hacq, _⟩ := dispatch_done hx
    obtain ⟨hacq', hh, _⟩ := tryAcquire_ok hacq
    obtain ⟨w', b, ha', _, hrel'⟩ := KG.Lemmas.LocalLimiter.acquire_step hrel x.b.cl.cfg.name (schemaNameOf x.b.cl x.pk)
      (bucketAnswer s.lim s.buckets x.b.cl.cfg.name (schemaNameOf x.b.cl x.pk) r.now).1
    rw [hacq'] at ha'
    injection ha' with ha'
    injection ha' with e1 e2
    rw [h]
    have hrel2 := KG.Lemmas.LocalLimiter.release_step hrel' x.acq.handle
    rw [← e2, ha] at hrel2
    have hlen : x.acq.handle = σ.reqs.length := by rw [hh, hrel.core.reqsLen]
    have hent := spec_roundtrip σ x.b.cl.cfg.name (schemaNameOf x.b.cl x.pk) (by
      intro e he hmem
      -- an in-flight index is the index of a request that exists
      have hdom := hrel.core.dom x.b.cl.cfg.name (schemaNameOf x.b.cl x.pk)
      rw [he] at hdom
      cases hc : s.lim.cache x.b.cl.cfg.name (schemaNameOf x.b.cl x.pk) with
      | none => rw [hc] at hdom; simp at hdom
      | some cache =>
        have := (hrel.core.infl _ _ cache e σ.reqs.length hc he).1 hmem
        have hlt := KG.Lemmas.LocalLimiter.holdsL_lt this
        rw [hrel.core.reqsLen] at hlt
        exact Nat.lt_irrefl _ hlt)
    rw [← hlen] at hent
    refine ⟨_, ?_, hent, hdem _ hent⟩
    show KG.Lemmas.LocalLimiter.Rel (Model.LocalLimiter.release x.acq.lim x.acq.handle).1 _
    rw [e1]
    exact hrel2

/-- **C14 through the composition**: a forwarded request whose policy's upstream list holds two or more ready endpoints
    took `ready[c mod k]` where `c` is the successor of the cursor of ITS ordered ready list in ITS cluster; afterwards that
    cursor is `c` and every other cursor of the cluster (and, `gw_frame_cursors`, of every other cluster) is what it was -/
theorem gw_cursor_law (env : Env) (s : State) (r : Request) (f : Forwarded) (h : (arrive env s r).2 = .forwarded f)
    (cl : Cluster) (hcl : s.clusters[f.cluster]? = some cl) (pol : Model.Match.PolicyCfg)
    (hpol : cl.cfg.policies[f.policy]? = some pol)
    (h2 : 2 ≤ (Model.Endpoints.readyList cl.ep.eps
      (if pol.upstreamSubset = [] then allEndpoints cl r else pol.upstreamSubset)).length) :
    ∃ cl', (arrive env s r).1.clusters[f.cluster]? = some cl' ∧ cl'.ep.eps = cl.ep.eps ∧
      Model.Endpoints.indexResult
        (Model.Endpoints.readyList cl.ep.eps (if pol.upstreamSubset = [] then allEndpoints cl r else pol.upstreamSubset))
        (Model.Endpoints.toU64 (Model.Endpoints.lbGet cl.ep.lb
          ((Model.Endpoints.readyList cl.ep.eps (if pol.upstreamSubset = [] then allEndpoints cl r else pol.upstreamSubset)).map
            Model.Endpoints.EP.id) + 1)) = .picked f.endpoint.1 f.endpoint.2 ∧
      Model.Endpoints.lbGet cl'.ep.lb
          ((Model.Endpoints.readyList cl.ep.eps (if pol.upstreamSubset = [] then allEndpoints cl r else pol.upstreamSubset)).map
            Model.Endpoints.EP.id) =
        Model.Endpoints.toU64 (Model.Endpoints.lbGet cl.ep.lb
          ((Model.Endpoints.readyList cl.ep.eps (if pol.upstreamSubset = [] then allEndpoints cl r else pol.upstreamSubset)).map
            Model.Endpoints.EP.id) + 1) ∧
      ∀ κ, κ ≠ (Model.Endpoints.readyList cl.ep.eps (if pol.upstreamSubset = [] then allEndpoints cl r else pol.upstreamSubset)).map
            Model.Endpoints.EP.id → Model.Endpoints.lbGet cl'.ep.lb κ = Model.Endpoints.lbGet cl.ep.lb κ := by
  obtain ⟨ci, cl0, ri, u, pol0, w', e, lb', _, hcl0, _, _, _, _, _, hpol0, _, _, _, _, _, hpopeq, _⟩ := gw_forwarded env s r f h
  rw [hcl] at hcl0; cases hcl0
  rw [hpol] at hpol0; cases hpol0
  obtain ⟨up, x, n, g, recv, ctx, _, _, hx, hserve, hpop, _, hfeq, hst⟩ := arrive_forwarded h
  obtain ⟨hb, _, _, hpopx⟩ := dispatch_done hx
  obtain ⟨_, _, hres, _⟩ := bound_some hb
  obtain ⟨_, hclx⟩ := resolve_some hres
  have hp : f.cluster = x.b.p := by rw [hfeq]
  rw [hp] at hcl
  rw [hcl] at hclx
  injection hclx with hclx
  obtain ⟨h1, h2', h3⟩ := KG.Props.C14.c14_cursor_law cl.ep.eps cl.ep.lb _ h2
  rw [hpopeq] at h1 h2' h3
  refine ⟨{ cl with ep := { cl.ep with lb := lb' } }, ?_, rfl, ?_, h2', h3⟩
  · rw [hst, stateAfterDispatch_clusters, hp, setCursor_get]
    simp only [if_true, hcl, Option.map_some]
    have hlb : x.pop.2 = lb' := by
      have hadm : x.acq.admitted = true := by
        have := ((KG.Props.C04.c04_forward_iff _).1 hserve).2.2.2.2.2.2.2.1
        rw [scenario_acquire, hx] at this
        exact this
      simp only [hadm, if_true] at hpopx
      rw [hpopx, ← hclx]
      obtain ⟨polx, hpolx, _, _, _, hups, _⟩ := KG.Props.C01.c01_match_attributes_some _ _ _ _ _ (dispatch_done hx).2.1
      have hfp : f.policy = x.pk.policy := by rw [hfeq]
      rw [hfp, hclx] at hpol
      rw [hpolx] at hpol
      injection hpol with hpol
      have hups' : x.pk.upstreams = (if polx.upstreamSubset = [] then allEndpoints x.b.cl r else polx.upstreamSubset) := hups
      rw [hups', hpol, ← hclx, hpopeq]
    rw [hlb]
  · rw [← h1]

/-- **C05's isolation through the composition**: ONE COMPLETE request — which touches at most the limiter of the schema of
    the first matching policy of the cluster it is bound to — does not change the answer a request under ANY OTHER
    (cluster, schema) pair would get: exhausting one tenant's or one policy's limit never causes a rejection elsewhere -/
theorem gw_isolation (env : Env) (s : State) (σ : KG.Spec.LocalLimiter.SState) (r : Request)
    (hrel : KG.Lemmas.LocalLimiter.Rel s.lim σ) (c n : Str) (tb : Bool)
    (hother : ∀ x, dispatch env s r = .done x → ¬ (x.b.cl.cfg.name = c ∧ schemaNameOf x.b.cl x.pk = n)) :
    Model.LocalLimiter.answer (serveRequest env s r).1.lim c n tb = Model.LocalLimiter.answer s.lim c n tb := by
  rcases serveRequest_state env s r with h | ⟨x, hx, hcase⟩
  · rw [h]
  · obtain ⟨_, _, hacq, _⟩ := dispatch_done hx
    obtain ⟨hacq', hh, _⟩ := tryAcquire_ok hacq
    have hno := hother x hx
    -- the arrival
    have hstep : (Model.LocalLimiter.step s.lim (.acquire x.b.cl.cfg.name (schemaNameOf x.b.cl x.pk)
        (bucketAnswer s.lim s.buckets x.b.cl.cfg.name (schemaNameOf x.b.cl x.pk) r.now).1)).1 = x.acq.lim := by
      simp only [Model.LocalLimiter.step, hacq']
    have h1 := KG.Lemmas.LocalLimiter.isolation_step hrel (.acquire x.b.cl.cfg.name (schemaNameOf x.b.cl x.pk)
        (bucketAnswer s.lim s.buckets x.b.cl.cfg.name (schemaNameOf x.b.cl x.pk) r.now).1) c n tb
        (by simpa [Model.LocalLimiter.addresses] using hno)
    rw [hstep] at h1
    rcases hcase with ⟨h, _⟩ | ⟨h, _⟩
    · rw [h]; exact h1
    · -- … and the completion
      rw [h]
      obtain ⟨w', b, ha', _, hrel'⟩ := KG.Lemmas.LocalLimiter.acquire_step hrel x.b.cl.cfg.name (schemaNameOf x.b.cl x.pk)
        (bucketAnswer s.lim s.buckets x.b.cl.cfg.name (schemaNameOf x.b.cl x.pk) r.now).1
      rw [hacq'] at ha'
      injection ha' with ha'
      injection ha' with e1 e2
      rw [← e1] at hrel'
      obtain ⟨obj, hreqs⟩ := acquire_reqs hacq'
      have h2 := KG.Lemmas.LocalLimiter.isolation_step hrel' (.release x.acq.handle) c n tb (by
        simp only [Model.LocalLimiter.addresses, hreqs, hh]
        simp only [List.getElem?_concat_length]
        exact hno)
      show Model.LocalLimiter.answer (Model.LocalLimiter.release x.acq.lim x.acq.handle).1 c n tb = _
      rw [← h1]
      exact h2

/-- **C06 through the composition**: the token buckets after a request are the buckets before, except — when the dispatcher
    called `TryAcquire` on a token-bucket limiter object `id` — that one bucket, which made exactly ONE step
    `Bucket.tryAcquire` at the request's clock reading (from a fresh bucket if the object was resized since its last use).
    So the calls a bucket sees along any sequence are exactly the requests routed to its limiter object, in order: C06's
    bounds (`c06_history`, `c06_upper_window`) apply to each bucket's sub-sequence. -/
theorem gw_frame_buckets (env : Env) (s : State) (r : Request) :
    (arrive env s r).1.buckets = s.buckets ∨
    ∃ x id q b, dispatch env s r = .done x ∧
      bucketFor s.lim x.b.cl.cfg.name (schemaNameOf x.b.cl x.pk) = some (id, q, b) ∧
      ∀ id', (arrive env s r).1.buckets.lookup id' =
        if id' = id then some ((bucketOf s.buckets id q b).tryAcquire arith r.now).2 else s.buckets.lookup id' := by
  rcases arrive_state env s r with h | ⟨x, hx, h⟩
  · left; rw [h]
  · have hb : (arrive env s r).1.buckets = x.acq.buckets := by
      rcases h with h | h <;> rw [h] <;> rfl
    obtain ⟨_, _, hacq, _⟩ := dispatch_done hx
    obtain ⟨_, _, hbk⟩ := tryAcquire_ok hacq
    rw [hbk] at hb
    unfold bucketAnswer at hb
    cases hf : bucketFor s.lim x.b.cl.cfg.name (schemaNameOf x.b.cl x.pk) with
    | none => left; rw [hb, hf]
    | some t =>
      obtain ⟨id, q, b⟩ := t
      right
      refine ⟨x, id, q, b, hx, hf, ?_⟩
      intro id'
      rw [hb, hf]
      exact lookup_setBucket _ _ _ _

/-! ## the end-to-end judge holds of the model

`KG.Spec.Gateway.judge` is what the harness applies to the REAL chain's observations. It is written with the per-area
specifications (C02 `expectedFor`/`judge`, C01 `firstMatchSpec`, C05 `demand`, C03 eligibility in the cluster's own spec,
C04 `table`); these theorems prove it of the composed model's own outputs, for every state whose limiters are related to
the judge's bookkeeping `σ` and whose clusters are well-formed (both hold along every sequence on every installed
configuration: `gw_run_inv`, `gw_run_wf`). -/

/-- the property's own demand on Retry-After holds of every row of the table (constants ≥ 1) -/
theorem table_retryAfter (sc : Model.Forward.Scenario) (a : Model.Forward.Answer) (h : KG.Spec.Forward.table sc = .terminated a) :
    KG.Spec.Forward.retryAfterDemanded (KG.Spec.Forward.obsOfAnswer a)
      (sc.requestInfoOK && !sc.hostIsIP && sc.clusterKnown && !sc.denyAll && sc.authOK
        && (sc.imp == Model.Forward.Imp.none || sc.imp == Model.Forward.Imp.allowed) && sc.policyMatches && !sc.acquireOK)
      sc.resource = true := by
  have hr := KG.Props.C04.retryAfter_pos
  have hu := KG.Props.C04.unavailableRetryAfter_pos
  have hev : Gen.C04.rateLimitExemptResource = [101, 118, 101, 110, 116, 115] := by decide
  unfold KG.Spec.Forward.table KG.Spec.Forward.tableDispatch at h
  cases hri : sc.requestInfoOK <;> cases hip : sc.hostIsIP <;> cases hck : sc.clusterKnown <;> cases hda : sc.denyAll <;>
    cases hau : sc.authOK <;> cases him : sc.imp <;> cases hpm : sc.policyMatches <;> cases haq : sc.acquireOK <;>
    cases hpo : sc.popOK <;> simp [hri, hip, hck, hda, hau, him, hpm, haq, hpo] at h <;>
    (subst h
     simp [KG.Spec.Forward.retryAfterDemanded, KG.Spec.Forward.obsOfAnswer, hev]
     try (first | omega | (split <;> simp_all <;> omega)))

/-- **answered requests**: for every request the model answers itself (any row — the 500 of a failed `WithRequestInfo` included —, an
    IP-literal host handed to the control plane), the judge — the table on the SPECIFICATION's flags, well-formedness, the
    Retry-After rule — accepts the model's output -/
theorem gw_judge_answered (env : Env) (s : State) (σ : KG.Spec.LocalLimiter.SState) (r : Request)
    (hrel : KG.Lemmas.LocalLimiter.Rel s.lim σ) (hwf : StateWF s)
    (hp : Model.Identity.parse r.lines ≠ none) (hf : Model.Forward.forwardRequest r.toForward ≠ none)
    (hnf : ∀ f, (arrive env s r).2 ≠ .forwarded f) (hnp : (arrive env s r).2 ≠ .proxyError)
    (obs : KG.Spec.Gateway.Obs) (ho : KG.Spec.Gateway.obsOf r (arrive env s r).2 = some obs) :
    KG.Spec.Gateway.judge env s σ r obs = [] := by
  have hinv : Inv s := ⟨σ, hrel⟩
  have hwf' : ∀ (p : Nat) (cl : Cluster), s.clusters[p]? = some cl → ClusterWF cl :=
    fun p cl h => hwf cl (List.mem_of_getElem? h)
  have ht := gw_decision_table env s r hinv hp hf
  rw [← table_spec_eq hrel hwf' hp] at ht
  cases hout : (arrive env s r).2 with
  | forwarded f => exact absurd hout (hnf f)
  | proxyError => exact absurd hout hnp
  | badRequest => rw [hout] at ht; simp [kindOf] at ht
  | panic e => rw [hout] at ht; simp [kindOf] at ht
  | notProxied =>
    rw [hout] at ht ho
    simp only [kindOf, Option.some.injEq] at ht
    simp only [KG.Spec.Gateway.obsOf, Option.some.injEq] at ho
    subst ho
    simp [KG.Spec.Gateway.judge, KG.Spec.Gateway.judgeAnswered, ← ht, KG.Spec.Gateway.cls]
  | terminated a =>
    rw [hout] at ht ho
    simp only [kindOf, Option.some.injEq] at ht
    simp only [KG.Spec.Gateway.obsOf, Option.some.injEq] at ho
    subst ho
    have hra := table_retryAfter _ a ht.symm
    obtain ⟨_, hwfa, hwo⟩ := gw_answered env s r a hout
    have hrow : KG.Spec.Forward.matchesRow a (KG.Spec.Forward.obsOfAnswer a) = true := by
      simp [KG.Spec.Forward.matchesRow, KG.Spec.Forward.obsOfAnswer]
    simp only [KG.Spec.Gateway.judge, if_true, KG.Spec.Gateway.judgeAnswered, ← ht, hwo, hrow, hra, KG.Spec.Gateway.cls,
      List.append_nil]

/-- **forwarded requests**: for every request the model hands to an upstream, every stage class of the judge stays
    silent on the model's output: the host resolves and is proxied, the identity is the expected one and the identity-bearing
    fields are exactly the gateway's (C02's judge, now unconditional: `c02_judge_model`), the policy is `firstMatchSpec`'s, the endpoint is in that policy's upstream list, a
    current server, eligible, and the schema admitted by C05's `demand` / C06's bucket. (The fidelity classes are C04's
    Boolean verdicts: `gw_forwarded_fidelity` proves them per key.) -/
theorem gw_judge_stages (env : Env) (s : State) (σ : KG.Spec.LocalLimiter.SState) (r : Request) (f : Forwarded)
    (hrel : KG.Lemmas.LocalLimiter.Rel s.lim σ) (hwf : StateWF s) (h : (arrive env s r).2 = .forwarded f)
    (obs : KG.Spec.Gateway.Obs) (ho : KG.Spec.Gateway.obsOf r (.forwarded f) = some obs) :
    KG.Spec.Gateway.judgeStages env s σ r obs = [] := by
  obtain ⟨up, x, n, g, recv, ctx, hparse, _, hx, hserve, hpop, hid, hfeq, _⟩ := arrive_forwarded h
  obtain ⟨hb, hroute, hacq, hpopeq⟩ := dispatch_done hx
  obtain ⟨hri, hip, hres, hd, hau, h1, himp⟩ := bound_some hb
  obtain ⟨_, hcl⟩ := resolve_some hres
  have hcwf : ClusterWF x.b.cl := hwf _ (List.mem_of_getElem? hcl)
  have hv := rawValid_of_parse hparse
  have hctx : ctx = x.b.ctxUser := identity_ctx hid himp
  subst hctx
  simp only [KG.Spec.Gateway.obsOf, Option.some.injEq] at ho
  subst ho
  -- what the specification expects: forward as the context user
  have hex : KG.Spec.Gateway.expectId env (some x.b.p) r = .forward x.b.ctxUser := by
    have := KG.Props.C02.c02_forwarded_only_as_expected _ _ _ _ _ _ _ hid
    unfold KG.Spec.Gateway.expectId
    rw [hau]
    exact this
  -- C02's judge on the identity-bearing fields
  have hjid : KG.Spec.Identity.judge x.b.cl.cfg.token false (.forward x.b.ctxUser) [f.identity] = [] := by
    have hj := KG.Props.C02.c02_judge_model x.b.cl.cfg.token r.lines (some x.b.requestor)
      (env.authz (some x.b.p) x.b.requestor) false
    rw [KG.Props.C02.c02_forwarded_only_as_expected _ _ _ _ _ _ _ hid, hid] at hj
    simp only [KG.Spec.Identity.judge, KG.Spec.Identity.upstreamOf, List.flatMap_cons, List.flatMap_nil, List.append_nil] at hj ⊢
    rw [hfeq]
    simp only [identityEntries]
    rw [KG.Props.C02.c02_judge_identity_part]
    exact hj
  -- C01: first matching policy; C05/C06: admitted; C03: the endpoint
  have hfirst := route_first hroute
  obtain ⟨pol, hpol, _, _, _, hups, _⟩ := KG.Props.C01.c01_match_attributes_some _ _ _ _ _ hroute
  have hups' : x.pk.upstreams = (if pol.upstreamSubset = [] then allEndpoints x.b.cl r else pol.upstreamSubset) := hups
  have hadm : x.acq.admitted = true := by
    have := ((KG.Props.C04.c04_forward_iff _).1 hserve).2.2.2.2.2.2.2.1
    rw [scenario_acquire, hx] at this
    exact this
  obtain ⟨ha, _, _⟩ := tryAcquire_ok hacq
  have hadmits : KG.Spec.Gateway.admits s σ x.b.cl.cfg.name (KG.Spec.Gateway.schemaOf x.b.cl x.pk.policy) r.now = true := by
    have := acquire_demand hrel ha
    rw [hadm] at this
    unfold KG.Spec.Gateway.admits
    exact this.symm
  simp only [hadm, if_true] at hpopeq
  have hpop1 : (Model.Endpoints.pop x.b.cl.ep.eps x.b.cl.ep.lb x.pk.upstreams).1 = .picked n g := by rw [← hpopeq]; exact hpop
  obtain ⟨e, he, _, hmem, hrdy⟩ := KG.Lemmas.Endpoints.pop_sound hpop1
  have helig := (ready_iff_eligible hcwf n).1 ⟨e, he, hrdy⟩
  have hsrv : (Model.Endpoints.serverNames x.b.cl.cfg.servers).contains n = true := by
    unfold KG.Spec.Gateway.eligible at helig
    simp only [Bool.and_eq_true] at helig
    exact helig.1.1
  have hin : (KG.Spec.Gateway.upstreamsOf x.b.cl x.pk.policy).contains n = true := by
    unfold KG.Spec.Gateway.upstreamsOf
    rw [hpol]
    simp only
    rw [hups'] at hmem
    by_cases hs : pol.upstreamSubset = []
    · simp only [hs, if_true] at hmem ⊢
      simp only [List.contains_eq_mem, decide_eq_true_eq, KG.Lemmas.Endpoints.mem_dedup]
      simpa using hsrv
    · simp only [hs, if_false] at hmem ⊢
      simpa using hmem
  have hn : f.endpoint.1 = n := by rw [hfeq]
  simp only [KG.Spec.Gateway.judgeStages, hri, hip, Bool.false_eq_true, if_false, hres, hd, hex, hjid, hfirst, hn, hin, hsrv,
    helig, hadmits, KG.Spec.Gateway.cls, Bool.not_false, if_true, List.map_nil, List.append_nil, decide_true]

/-! ## non-vacuity: a concrete configuration and sequence on which every hypothesis above is met non-trivially

Two clusters `a` (alias `x`; endpoints `e`, `f`; schema `m` = max-in-flight 1; policy 0 only for user `v` with subset `[f]`,
policy 1 catch-all with subset `[e, f]`, both under `m`) and `b` (alias `a`: REFUSED by C10's conflict rule, never served).
Token `t` is user `u` at cluster `a`. The sequence: both endpoints report healthy; a request is forwarded and HELD
(first matching policy is 1, round robin starts at `f`); the same request again is refused 429 (the slot is taken) and
does not move the cursor; the held one finishes; the next one is forwarded to `e`; an unknown token is 401; host `b`
(refused cluster) is 503; `e` turns unhealthy and `f` is picked; cluster `a` is reached under its alias `X:443`. -/
section NonVacuous

def star : List Str := [Model.Match.star]
def anyRule (users : List Str) : Model.Match.Rule :=
  { verbs := star, apiGroups := star, resources := star, resourceNames := [], users := users, serviceAccounts := [],
    userGroups := [], nonResourceURLs := star }

def exCfgA : ClusterCfg :=
  { name := [97], aliases := [[120]], denyAll := false, closeWhenIdle := false, loggingMode := [],
    policies := [{ rules := [anyRule [[118]]], flowControlSchemaName := [109], upstreamSubset := [[102]], logMode := [] },
                 { rules := [anyRule []], flowControlSchemaName := [109], upstreamSubset := [[101], [102]], logMode := [] }],
    schemas := [{ name := [109], strategy := [], exempt := false, mi := some 1, tb := none, gmi := none, gtb := none }],
    servers := [{ endpoint := [101], disabled := false }, { endpoint := [102], disabled := false }],
    token := [103, 119] }

def exCfgB : ClusterCfg := { exCfgA with name := [98], aliases := [[97]] }

def exEnv : Env :=
  { authn := fun p tok => if p = some 0 ∧ tok = [116] then some ⟨[117], [[103]], []⟩ else none,
    authz := fun _ _ _ => .allow }

def exReq (host : Str) (tok : Str) : Request :=
  { host := host, method := [71, 69, 84], target := [47, 120],
    lines := [(Model.Identity.hAuthorization, Model.Identity.bearerPrefix ++ tok)], body := [], remoteIP := some [49],
    info := some { verb := [103, 101, 116], isResource := false, apiGroup := [], resource := [], subresource := [], name := [], path := [47, 120] },
    hostIsIP := false, order := [], now := 0 }

def exOps : List Op :=
  [.setHealth 0 [101] true, .setHealth 0 [102] true,
   .request (exReq [97] [116]) true,            -- forwarded to f, held
   .request (exReq [97] [116]) false,           -- 429: the only slot is taken
   .finish 2,
   .request (exReq [97] [116]) false,           -- forwarded to e
   .request (exReq [97] [122]) false,           -- 401: unknown token
   .request (exReq [98] [116]) false,           -- 503: cluster b was refused
   .setHealth 0 [101] false,
   .request (exReq [97] [116]) false,           -- only f is ready
   .request (exReq [88, 58, 52, 52, 51] [116]) false]  -- "X:443": alias, other case, port

/-- (status, endpoint, policy) of an output; 200 = forwarded -/
def digest : Out → Nat × Str × Nat
  | .served (.forwarded f) => (200, f.endpoint.1, f.policy)
  | .served (.terminated a) => (a.httpCode, [], 0)
  | .served .notProxied => (1, [], 0)
  | .served .badRequest => (400, [], 0)
  | .served .proxyError => (502, [], 0)
  | .served (.panic _) => (999, [], 0)
  | .finished did => (if did then 2 else 3, [], 0)
  | .health => (0, [], 0)

example : (install [exCfgA, exCfgB]).clusters.length = 1 := by decide +kernel

example : (run exEnv (Run.init (install [exCfgA, exCfgB])) exOps).2.map digest =
    [(0, [], 0), (0, [], 0), (200, [102], 1), (429, [], 0), (2, [], 0), (200, [101], 1), (401, [], 0), (503, [], 0),
     (0, [], 0), (200, [102], 1), (200, [102], 1)] := by decide +kernel

/-- the forwarded request of the example carries the gateway's credential and the authenticated user, not the client's token -/
example : (match (arrive exEnv (setHealth (setHealth (install [exCfgA]) 0 [101] true) 0 [102] true) (exReq [97] [116])).2 with
    | .forwarded f => Model.Identity.values f.identity Model.Identity.hAuthorization == [Model.Identity.bearerPrefix ++ [103, 119]] &&
                      Model.Identity.values f.identity Model.Identity.hImpUser == [[117]] && f.up.target == [47, 120]
    | _ => false) = true := by decide +kernel

end NonVacuous

end KG.Props.C04.Gateway
