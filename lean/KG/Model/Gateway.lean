import KG.Model.Names
import KG.Model.Identity
import KG.Model.Match
import KG.Model.LocalLimiter
import KG.Model.TokenBucket
import KG.Model.Endpoints
import KG.Model.Forward
/-!
# The gateway's data plane for one request: the per-area models composed (DESIGN §2.7)

`serveRequest env s r` takes a concrete configuration state `s` (the cluster manager, every cluster's policies, feature
gates, flow-control limiters with their current state, endpoints with their readiness and round-robin cursors) and a
concrete request `r`, and COMPUTES the flags that `KG.Model.Forward.Scenario` takes as abstract inputs, stage by stage in
the order of `buildProxyHandlerChainFunc` / `dispatcher.ServeHTTP`:

| stage | Go | model used (imported, unchanged) |
|---|---|---|
| net/http accepts the request line and the header lines | `net/http` server | `Identity.parse`, `Forward.forwardRequest` |
| `WithRequestInfo` | k8s `RequestInfoFactory` | input `Request.info` (library, not modelled) |
| `WithExtraRequestInfo` + `WithUpstreamInfo` | `HostWithoutPort`, `manager.Get`, feature gates | `Names.resolve` (C10) |
| `WithAuthentication` | bearer token → the BOUND cluster's review | oracle `Env.authn` of that `ClusterInfo` (C12 without caches) |
| `WithNoLoggingImpersonation` | `buildImpersonationRequests`, authorizer | `Identity.impersonate` (C02), oracle `Env.authz` of that `ClusterInfo` |
| `cluster.MatchAttributes` | `MatchPolicies`, subset / `AllEndpoints()` | `Match.matchAttributes` (C01) |
| `flowcontrol.TryAcquire` / deferred `Release` | `upstreamLimiter.GetOrDefault`, max-in-flight counter, token bucket | `LocalLimiter.acquire/release` (C05), `TokenBucket.Bucket.tryAcquire` (C06) |
| `endpointPicker.Pop` | ready list, round-robin cursor | `Endpoints.pop` (C03, C14) |
| decision and answer | the filters' early returns, `TerminateWithError` | `Forward.serve : Scenario → Outcome` (C04) |
| the forwarded request | reverse proxy + transports | `Forward.forwardRequest` (C04), `Identity.serveWith` (C02; `Env.authz` is the authorizer the impersonation filter consults) |

The model threads state: a 429 leaves the cursors alone (`TryAcquire` comes before `Pop`), a request without a matching
policy never touches a limiter, an admitted request holds its slot until it finishes (`finish`), a token bucket ages with
the clock readings the requests carry.

Left out (see notes/Gateway.md): the caches and the endpoint pick of the REAL multi-cluster authenticator/authorizer (C12:
the oracle of the bound `ClusterInfo` is consulted directly), reconfiguration while requests are served (C10/C11/C05 per
area; here clusters are only added), remote/global flow control (C08/C09), upgrade tunnels, the response path.
-/
namespace KG.Model.Gateway
open KG

/-- `strings.ToLower` on the (ASCII) host and cluster names used here -/
abbrev lower : Str → Str := Names.asciiLower

/-- the arithmetic of the token bucket: exact rationals with the library's ns truncation and `Time.Sub` saturation -/
abbrev arith : TokenBucket.Arith := TokenBucket.Arith.ns

/-! ## configuration -/

/-- what `RequestInfoFactory.NewRequestInfo` + `GetAuthorizerAttributes` derive from method and path (k8s library: an input) -/
structure ReqInfo where
  verb : Str
  isResource : Bool
  apiGroup : Str
  resource : Str
  subresource : Str
  name : Str
  path : Str
deriving DecidableEq, Repr

/-- the parts of one `UpstreamCluster` object a request can tell -/
structure ClusterCfg where
  name : Str                              -- metadata.name
  aliases : List Str                      -- spec.secureServing.serverNames
  denyAll : Bool                          -- feature gate DenyAllRequests
  closeWhenIdle : Bool                    -- feature gate CloseConnectionWhenIdle
  loggingMode : Str                       -- spec.logging.mode
  policies : List Match.PolicyCfg         -- spec.dispatchPolicies
  schemas : List LocalLimiter.Schema      -- spec.flowControl.schemas
  servers : List Endpoints.Server         -- spec.servers
  token : Str                             -- spec.clientConfig.bearerToken (the gateway's credential at this cluster)
deriving Repr

/-- a `*ClusterInfo`: what `Sync` stored of the object, and its endpoint map / round-robin cursors (C03, C14) -/
structure Cluster where
  cfg : ClusterCfg
  ep : Endpoints.State
deriving Repr

structure State where
  /-- `clusters.Manager` (C10): heap of `ClusterInfo`s and the name map -/
  mgr : Names.Mgr
  /-- the `ClusterInfo` behind pointer `p` of `mgr.heap` -/
  clusters : List Cluster
  /-- every cluster's `upstreamLimiter` (C05), keyed by `ClusterInfo.Cluster` -/
  lim : LocalLimiter.World
  /-- the `rate.Limiter` behind a token-bucket limiter object (C06), keyed by the object's id in `lim.heap` -/
  buckets : List (Nat × TokenBucket.Bucket)

def State.init : State := { mgr := Names.Mgr.init, clusters := [], lim := LocalLimiter.World.init, buckets := [] }

/-- the upstream clusters as oracles (C12 without caches): what cluster `p`'s TokenReview says about a bearer token and
    what its SubjectAccessReview says about the authorizer attributes of an impersonation check of `requestor`. `none`: the request is not bound to
    a cluster (IP-literal host: the gateway's own control plane). -/
structure Env where
  authn : Option Nat → Str → Option Identity.Identity
  authz : Option Nat → Identity.Identity → Identity.Attrs → Identity.Decision

/-- `CreateClusterInfo(obj)` + registration by `syncUpstreamCluster` (bootstrap path only: `obj.Name` is not served yet).
    The conflict rules are C10's; a refused or failed object leaves everything unchanged. `none`: not modelled here
    (the name is already served: that is an update, C10/C11). -/
def addCluster (s : State) (cfg : ClusterCfg) : State × Option Names.Outcome :=
  let spec : Names.Spec := { aliases := cfg.aliases, cert := none, ca := none, bad := false }
  let r := Names.syncUpstreamCluster lower s.mgr cfg.name (some spec)
  match r.2 with
  | .created =>
    match LocalLimiter.sync s.lim (lower cfg.name) cfg.schemas with
    | .error _ => (s, some .createFailed)       -- `NewFlowControl` dereferences nil (global-only schema): the process panics
    | .ok w =>
      let ep := Endpoints.sync Endpoints.init cfg.servers (cfg.policies.map (·.upstreamSubset))
      ({ s with mgr := r.1, clusters := s.clusters ++ [{ cfg := { cfg with name := lower cfg.name }, ep := ep }], lim := w },
       some .created)
  | .refused => (s, some .refused)
  | _ => (s, none)

def install (cfgs : List ClusterCfg) : State := cfgs.foldl (fun s c => (addCluster s c).1) State.init

/-! ## a request -/

structure Request where
  host : Str
  method : Str
  target : Str
  lines : List (Str × Str)     -- header lines as received (Host excluded), `Authorization` included
  body : Str
  remoteIP : Option Str
  /-- `RequestInfoResolver.NewRequestInfo` (k8s library): `none` = it fails -/
  info : Option ReqInfo
  /-- `net.ParseIP(HostWithoutPort(host)) != nil` (Go library) -/
  hostIsIP : Bool
  /-- what `AllEndpoints()` answers for this request (Go map iteration order: the environment's choice) -/
  order : List Str
  /-- the clock reading of a token-bucket `TryAcquire` made for this request (ns since Go's zero time) -/
  now : Rat
deriving Repr

def Request.toForward (r : Request) : Forward.Req :=
  { method := r.method, target := r.target, host := r.host, lines := r.lines, body := r.body, remoteIP := r.remoteIP }

/-- the header map the filters see (`net/http` accepted the lines) -/
def headersOf (r : Request) : Identity.Headers := (Identity.parse r.lines).getD []

/-- the bearer token the authenticator reads: first `Authorization` value, `Bearer ` prefix -/
def bearerToken (h : Identity.Headers) : Option Str :=
  Identity.stripPrefix (Identity.hget h Identity.hAuthorization) Identity.bearerPrefix

/-- `WithExtraRequestInfo` + `WithUpstreamInfo`: the `ClusterInfo` the request is bound to (C10) -/
def resolveCluster (s : State) (r : Request) : Option (Nat × Cluster) :=
  match Names.resolve lower s.mgr r.host with
  | none => none
  | some (p, _) =>
    match s.clusters[p]? with
    | none => none
    | some cl => some (p, cl)

/-- `WithAuthentication`: the oracle of the bound cluster, asked about the client's bearer token -/
def authenticate (env : Env) (p : Option Nat) (r : Request) : Option Identity.Identity :=
  match bearerToken (headersOf r) with
  | none => none
  | some tok => env.authn p tok

/-- `WithNoLoggingImpersonation` (C02), the authorizer being the bound cluster's oracle -/
def impersonation (env : Env) (p : Option Nat) (r : Request) (u : Identity.Identity) : Identity.FilterOut :=
  Identity.impersonate (Identity.authnStrip (headersOf r)) u (env.authz p u)

/-- C04's four-valued view of the impersonation filter -/
def impKind (h : Identity.Headers) : Identity.FilterOut → Forward.Imp
  | .internalError => .malformed
  | .forbidden => .refused
  | .pass _ _ => if Identity.buildImpersonationRequests h = some [] then .none else .allowed

/-- `filters.GetAuthorizerAttributes`: the context user (after impersonation) and the RequestInfo -/
def attrsOf (ri : ReqInfo) (u : Identity.Identity) : Match.Attrs :=
  { verb := ri.verb, user := u.name, groups := u.groups, isResource := ri.isResource, apiGroup := ri.apiGroup,
    resource := ri.resource, subresource := ri.subresource, name := ri.name, path := ri.path }

/-- `AllEndpoints()`: the environment's enumeration of the endpoint map (the model's own order when the environment's
    answer is not an enumeration of it) -/
def allEndpoints (cl : Cluster) (r : Request) : List Str :=
  let names := cl.ep.eps.map (·.name)
  if r.order.isPerm names then r.order else names

/-- `cluster.MatchAttributes` (C01) -/
def route (cl : Cluster) (r : Request) (ri : ReqInfo) (u : Identity.Identity) : Option Match.Picker :=
  Match.matchAttributes (attrsOf ri u) cl.cfg.policies (allEndpoints cl r) cl.cfg.loggingMode

/-- `policy.FlowControlSchemaName` of the matched policy, as handed to `GetFlowSchema` (raw: "" = the default limiter) -/
def schemaNameOf (cl : Cluster) (pk : Match.Picker) : Str :=
  match cl.cfg.policies[pk.policy]? with
  | some p => p.flowControlSchemaName
  | none => []

/-! ## flow control (C05 + C06) -/

def setBucket : List (Nat × TokenBucket.Bucket) → Nat → TokenBucket.Bucket → List (Nat × TokenBucket.Bucket)
  | [], id, b => [(id, b)]
  | (i, b') :: rest, id, b => if i = id then (id, b) :: rest else (i, b') :: setBucket rest id b

/-- the `rate.Limiter` state behind limiter object `id`, whose `(qps, burst)` in force are `(q, b)`: a fresh bucket when
    the object has not been used yet or has been resized since (`Resize` builds a new limiter iff the numbers changed) -/
def bucketOf (bs : List (Nat × TokenBucket.Bucket)) (id q b : Nat) : TokenBucket.Bucket :=
  match bs.lookup id with
  | none => TokenBucket.Bucket.new q b
  | some bk => (bk.resize q b).2

/-- the limiter object a request for `(cluster c, schema n)` is handed, if it is a token bucket: id, qps, burst -/
def bucketFor (w : LocalLimiter.World) (c n : Str) : Option (Nat × Nat × Nat) :=
  match LocalLimiter.getOrDefault w c n with
  | some (some id) =>
    match w.heap id with
    | some (.bucket q b) => some (id, q, b)
    | _ => none
  | _ => none

structure Acquired where
  lim : LocalLimiter.World
  buckets : List (Nat × TokenBucket.Bucket)
  /-- index of this request in `lim.reqs`: what its deferred `Release` is addressed to -/
  handle : Nat
  admitted : Bool

/-- the token bucket's part of `TryAcquire`: its answer (true when the limiter handed out is not a token bucket) and the
    buckets afterwards -/
def bucketAnswer (lim : LocalLimiter.World) (buckets : List (Nat × TokenBucket.Bucket)) (c n : Str) (now : Rat) :
    Bool × List (Nat × TokenBucket.Bucket) :=
  match bucketFor lim c n with
  | some (id, q, b) =>
    let r := (bucketOf buckets id q b).tryAcquire arith now
    (r.1, setBucket buckets id r.2)
  | none => (true, buckets)

/-- `flowcontrol := endpointPicker.FlowControl(); flowcontrol.TryAcquire()`; an error is a Go panic (nil limiter) -/
def tryAcquire (lim : LocalLimiter.World) (buckets : List (Nat × TokenBucket.Bucket)) (c n : Str) (now : Rat) :
    Except String Acquired :=
  match LocalLimiter.acquire lim c n (bucketAnswer lim buckets c n now).1 with
  | .error e => .error e
  | .ok (w, b) => .ok { lim := w, buckets := (bucketAnswer lim buckets c n now).2, handle := lim.reqs.length, admitted := b }

/-! ## the dispatcher's work on the state -/

/-- what the filters in front of the dispatcher established -/
structure Bound where
  p : Nat
  cl : Cluster
  ri : ReqInfo
  requestor : Identity.Identity
  ctxUser : Identity.Identity

def bound? (env : Env) (s : State) (r : Request) : Option Bound :=
  match r.info with
  | none => none
  | some ri =>
    if r.hostIsIP then none else
    match resolveCluster s r with
    | none => none
    | some (p, cl) =>
      if cl.cfg.denyAll then none else
      match authenticate env (some p) r with
      | none => none
      | some u =>
        match impersonation env (some p) r u with
        | .pass _ ctx => some { p := p, cl := cl, ri := ri, requestor := u, ctxUser := ctx }
        | _ => none

/-- what `dispatcher.ServeHTTP` did before the proxy call: matched policy, `TryAcquire`, and — only when admitted — `Pop` -/
structure Dispatched where
  b : Bound
  pk : Match.Picker
  acq : Acquired
  pop : Endpoints.PopOut × List (Endpoints.Key × Nat)

inductive Disp
  | notReached                       -- a filter in front answered, or the request is not proxied
  | noPolicy (b : Bound)             -- `ErrNoRouterRuleMatches`: nothing acquired, nothing popped
  | panic (msg : String)             -- nil limiter: not reachable from `install` (theorem)
  | done (d : Dispatched)

def dispatch (env : Env) (s : State) (r : Request) : Disp :=
  match bound? env s r with
  | none => .notReached
  | some b =>
    match route b.cl r b.ri b.ctxUser with
    | none => .noPolicy b
    | some pk =>
      match tryAcquire s.lim s.buckets b.cl.cfg.name (schemaNameOf b.cl pk) r.now with
      | .error e => .panic e
      | .ok acq =>
        .done { b := b, pk := pk, acq := acq,
                pop := if acq.admitted then Endpoints.pop b.cl.ep.eps b.cl.ep.lb pk.upstreams else (.noReady, b.cl.ep.lb) }

def setCursor (cs : List Cluster) (p : Nat) (lb : List (Endpoints.Key × Nat)) : List Cluster :=
  match cs[p]? with
  | none => cs
  | some cl => cs.set p { cl with ep := { cl.ep with lb := lb } }

/-- the state when the proxy call starts (or the dispatcher answered): limiter acquired, cursor advanced -/
def stateAfterDispatch (s : State) (d : Dispatched) : State :=
  { s with lim := d.acq.lim, buckets := d.acq.buckets, clusters := setCursor s.clusters d.b.p d.pop.2 }

/-- the deferred `flowcontrol.Release()` of the request with limiter handle `h` -/
def finish (s : State) (h : Nat) : State := { s with lim := (LocalLimiter.release s.lim h).1 }

/-! ## the flags of C04's `Scenario`, computed -/

def scenario (env : Env) (s : State) (r : Request) : Forward.Scenario :=
  let cl? := resolveCluster s r
  let p? : Option Nat := if r.hostIsIP then none else cl?.map (·.1)
  let auth := authenticate env p? r
  let imp : Forward.Imp :=
    match auth with
    | none => .none
    | some u => impKind (Identity.authnStrip (headersOf r)) (impersonation env p? r u)
  let d := dispatch env s r
  { requestInfoOK := r.info.isSome,
    hostIsIP := r.hostIsIP,
    clusterKnown := cl?.isSome,
    denyAll := match cl? with | some (_, cl) => cl.cfg.denyAll | none => false,
    authOK := auth.isSome,
    imp := imp,
    policyMatches := match d with | .noPolicy _ => false | _ => true,
    acquireOK := match d with | .done x => x.acq.admitted | _ => true,
    resource := match r.info with | some ri => (if ri.isResource then ri.resource else []) | none => [],
    popOK := match d with
      | .done x => (match x.pop.1 with | .picked _ _ => true | _ => false)
      | _ => true }

/-! ## outcome -/

/-- a request handed to an upstream -/
structure Forwarded where
  cluster : Nat                        -- the `ClusterInfo` it was bound to
  policy : Nat                         -- index of the policy it was routed under
  schema : Str                         -- flow-control schema name of that policy ("" = default)
  endpoint : Str × Nat                 -- the endpoint object picked: (name, generation)
  handle : Nat                         -- its limiter handle (released by `finish`)
  ctxUser : Identity.Identity          -- the user the gateway acts for
  up : Forward.UpReq                   -- method, target, Host, end-to-end headers, body (C04)
  identity : Identity.Headers          -- the identity-bearing header fields the upstream receives (C02)
  closeWhenIdle : Bool                 -- `Connection: close` is set on the response
deriving Repr

inductive Outcome
  | badRequest                          -- net/http refuses the request line or a header line (400): no handler runs
  | notProxied                          -- IP-literal Host: handed to the gateway's own control plane
  | terminated (a : Forward.Answer)     -- answered by the gateway with a Status
  | proxyError                          -- forwarding began, the transport refused the generated header fields: 502, nothing sent
  | forwarded (f : Forwarded)
  | panic (msg : String)                -- not reachable from `install` (theorem `gw_never_panics`)
deriving Repr

/-- is this (canonical) header name one of C02's -/
def identityEntries (h : Identity.Headers) : Identity.Headers := h.filter (fun e => Identity.isIdentityName e.1)

/-- the end-to-end part of the upstream request: C04's request minus the identity-bearing names (which are C02's) -/
def endToEnd (u : Forward.UpReq) : Forward.UpReq :=
  { u with headers := u.headers.filter (fun e => !Identity.isIdentityName e.1) }

/-- A request arrives and is served up to the point where its answer is determined: the state after the dispatcher's
    `TryAcquire` / `Pop`, the outcome, and — for a forwarded request — nothing released yet (`Forwarded.handle`). A request
    answered by the dispatcher after `TryAcquire` (503: no ready endpoint; 502) has run its deferred `Release` already. -/
def arrive (env : Env) (s : State) (r : Request) : State × Outcome :=
  match Identity.parse r.lines, Forward.forwardRequest r.toForward with
  | some _, some up =>
    match dispatch env s r with
    | .panic e => (s, .panic e)
    | d =>
      match Forward.serve (scenario env s r) with
      | .notProxied => (s, .notProxied)
      | .terminated a =>
        match d with
        | .done x =>
          let s1 := stateAfterDispatch s x
          (if x.acq.admitted then finish s1 x.acq.handle else s1, .terminated a)
        | _ => (s, .terminated a)
      | .forward =>
        match d with
        | .done x =>
          let s1 := stateAfterDispatch s x
          match x.pop.1 with
          | .picked n g =>
            match Identity.serveWith x.b.cl.cfg.token r.lines (some x.b.requestor) (env.authz (some x.b.p) x.b.requestor) false with
            | .forwarded recv _ =>
              (s1, .forwarded { cluster := x.b.p, policy := x.pk.policy, schema := schemaNameOf x.b.cl x.pk, endpoint := (n, g),
                                handle := x.acq.handle, ctxUser := x.b.ctxUser, up := endToEnd up,
                                identity := identityEntries recv, closeWhenIdle := x.b.cl.cfg.closeWhenIdle })
            | _ => (finish s1 x.acq.handle, .proxyError)
          | _ => (s, .panic "model: forward without an endpoint")
        | _ => (s, .panic "model: forward without dispatch")
  | _, _ => (s, .badRequest)

/-- One request from arrival to its end (the upstream answers at once): `arrive`, then the deferred `Release`. -/
def serveRequest (env : Env) (s : State) (r : Request) : State × Outcome :=
  let a := arrive env s r
  match a.2 with
  | .forwarded f => (finish a.1 f.handle, a.2)
  | _ => a

/-! ## sequences -/

inductive Op
  /-- a request arrives; `hold`: its upstream withholds the answer until `finish` -/
  | request (r : Request) (hold : Bool)
  /-- the held request of op number `k` ends (its deferred `Release` runs) -/
  | finish (k : Nat)
  /-- a health report for an endpoint of `ClusterInfo` `p` (`EndpointInfo.UpdateStatus`) -/
  | setHealth (p : Nat) (ep : Str) (healthy : Bool)
deriving Repr

inductive Out
  | served (o : Outcome)
  | finished (did : Bool)
  | health
deriving Repr

structure Run where
  s : State
  /-- held requests: op number ↦ limiter handle -/
  held : List (Nat × Nat)
  /-- number of ops executed -/
  n : Nat

def Run.init (s : State) : Run := { s := s, held := [], n := 0 }

def setHealth (s : State) (p : Nat) (ep : Str) (healthy : Bool) : State :=
  match s.clusters[p]? with
  | none => s
  | some cl => { s with clusters := s.clusters.set p { cl with ep := (Endpoints.step cl.ep (.updateStatus ep healthy)).1 } }

def step (env : Env) (x : Run) : Op → Run × Out
  | .request r hold =>
    if hold then
      let a := arrive env x.s r
      match a.2 with
      | .forwarded f => ({ s := a.1, held := (x.n, f.handle) :: x.held, n := x.n + 1 }, .served a.2)
      | _ => ({ x with s := a.1, n := x.n + 1 }, .served a.2)
    else
      let a := serveRequest env x.s r
      ({ x with s := a.1, n := x.n + 1 }, .served a.2)
  | .finish k =>
    match x.held.lookup k with
    | none => ({ x with n := x.n + 1 }, .finished false)
    | some h => ({ s := finish x.s h, held := x.held.filter (fun e => e.1 != k), n := x.n + 1 }, .finished true)
  | .setHealth p ep healthy => ({ x with s := setHealth x.s p ep healthy, n := x.n + 1 }, .health)

def run (env : Env) : Run → List Op → Run × List Out
  | x, [] => (x, [])
  | x, op :: ops =>
    let r := step env x op
    let t := run env r.1 ops
    (t.1, r.2 :: t.2)

end KG.Model.Gateway
