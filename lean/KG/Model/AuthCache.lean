import KG.Base.Json
import KG.Gen.C12
/-!
# Model of the multi-cluster token authenticator and SubjectAccessReview authorizer (C12)

Mirrors
* `pkg/clusters/manager.go` (`Get`, `AddWithKey`, `Delete`, `DeleteWithStop`, `DeleteAll`) and
  `pkg/clusters/clientprovider.go` (`ClientFor` = `Get` + `PickOne`), `pkg/clusters/clusterinfo.go` (`PickOne`/`Pop`),
* `pkg/gateway/authentication/token/webhook/tokenreview.go` (`AuthenticateToken`, `authenticateTokenForHost`)
  on top of `k8s.io/apiserver/pkg/authentication/token/cache` (`cachedTokenAuthenticator`, `Expiring`: an entry
  is live while `now < expiry`) and `plugin/pkg/authenticator/token/webhook` (status → `(resp, ok, err)`),
* `pkg/gateway/authorization/webhook/subjectaccessreview.go` (`Authorize`, `subjectAccessReviewFromAttributes`,
  `shouldCache`) on top of `k8s.io/apimachinery/pkg/util/cache.LRUExpireCache` (live while `now ≤ expiry`).

A `*ClusterInfo` is an instance number (`Inst`): a re-created cluster is a new instance. The upstream clusters are
oracles `tokO inst token time` / `sarO inst spec time` (arbitrary, time varying, may fail); the time of an answer is
the moment it arrives at the gateway. A request is a sequence of *small steps* (`Step`), one per access to shared
state, so that manager events, clean-up goroutines, clock ticks and the steps of other requests can be interleaved
arbitrarily between them:

  token:  `tokBegin`  ClientFor(host)                         (tokenreview.go: first `ClientFor`)
          `tokCache`  caches.Load / LoadOrStore of key (host, cluster)  (or the cache-less path when both TTLs are 0)
          `tokLookup` cachedTokenAuthenticator: cache.get
          `tokReview` the closure: ClientFor(host) again, `current != cluster` check, endpoint picked, review sent
          `tokFinish` the answer arrives: errors are returned (never cached), others stored per TTL and returned
  sar:    `sarBegin`  ClientFor(host) (cluster AND client of the review), `sarCache`, `sarLookup`, `sarFinish`.

A cache object is identified by `(host, inst, gen)`: the key it was created under plus a generation number, because
`caches.Delete(key)` (clean-up goroutine after the cluster stopped) only unlinks the object — a request in flight keeps
using the object it loaded. Entries carry the ghost field `storedAt`.
-/
namespace KG.Model.AuthCache
open KG

abbrev Inst := Nat
abbrev Time := Nat
abbrev Rid := Nat

/-! ## strings -/

/-- `strings.ToLower` on ASCII bytes (hosts are generated in ASCII). -/
def lowerByte (b : UInt8) : UInt8 := if 65 ≤ b ∧ b ≤ 90 then b + 32 else b
def toLower (s : Str) : Str := s.map lowerByte

/-! ## the host of a request (pkg/gateway/endpoints/request/requestinfo.go, pkg/gateway/net) -/

def indexOfByte (s : Str) (b : UInt8) : Option Nat := s.findIdx? (· == b)

def lastIndexOfByte (s : Str) (b : UInt8) : Option Nat :=
  match indexOfByte s.reverse b with
  | none => none
  | some i => some (s.length - 1 - i)

def hasByte (s : Str) (b : UInt8) : Bool := s.any (· == b)

/-- the host part of `net.SplitHostPort(hostport)`, `none` when it returns an error
    (58 = ':', 91 = '[', 93 = ']') -/
def splitHost (hp : Str) : Option Str :=
  match lastIndexOfByte hp 58 with
  | none => none                                         -- missing port in address
  | some i =>
    if hp.head? = some 91 then
      match indexOfByte hp 93 with
      | none => none                                     -- missing ']' in address
      | some e =>
        if e + 1 = hp.length then none                   -- missing port
        else if e + 1 = i then
          if hasByte (hp.drop 1) 91 then none            -- unexpected '['
          else if hasByte (hp.drop (e + 1)) 93 then none -- unexpected ']'
          else some ((hp.take e).drop 1)
        else none                                        -- too many colons / missing port
    else
      if hasByte (hp.take i) 58 then none                -- too many colons
      else if hasByte hp 91 then none
      else if hasByte hp 93 then none
      else some (hp.take i)

/-- `net.HostWithoutPort(req.Host)`: what `NewExtraRequestInfo` stores as `Hostname` -/
def hostWithoutPort (hostport : Str) : Str :=
  let l := toLower hostport
  match splitHost l with
  | some h => h
  | none => l

/-! ## clusters, endpoints, manager -/

structure Endpoint where
  name : Str
  healthy : Bool
  disabled : Bool
deriving DecidableEq, Repr

/-- `endpointStatus.IsReady`: `!Disabled && Healthy` -/
def Endpoint.isReady (e : Endpoint) : Bool := !e.disabled && e.healthy

inductive ErrKind
  | notFound   -- ErrClusterNotFound
  | noReady    -- ErrNoReadyEndpoints
  | moved      -- "host … does not belong to cluster … any more" (the host changed hands while the request was processed)
  | upstream   -- the review failed (transport error, or status.Error of a TokenReview)
  | both       -- "webhook subject access review returned both allow and deny response"
  | other      -- any other refusal (never produced by the model; lets the judge be asked about a stricter implementation)
deriving DecidableEq, Repr

/-! ## token authentication -/

/-- what a cluster answers to a TokenReview -/
inductive TokAns
  | ok (user : Str)   -- status.authenticated = true
  | no                -- status.authenticated = false, no status.error
  | err               -- Create failed, or status.error is set
deriving DecidableEq, Repr

/-- `(resp, ok, err)` of `AuthenticateToken` -/
inductive TokRes
  | authenticated (user : Str)
  | unauthenticated
  | error (k : ErrKind)
deriving DecidableEq, Repr

/-- `WebhookTokenAuthenticator.AuthenticateToken` on the review's status -/
def TokAns.res : TokAns → TokRes
  | .ok u => .authenticated u
  | .no => .unauthenticated
  | .err => .error .upstream

def TokRes.isError : TokRes → Bool
  | .error _ => true
  | _ => false

/-- `cacheErrs` argument of `tokencache.New` in tokenreview.go -/
def cacheErrs : Bool := KG.Gen.C12.tokenCacheErrs == "true"

structure Cfg where
  successTTL : Nat
  failureTTL : Nat
  allowTTL : Nat
  denyTTL : Nat
  /-- `AuthenticateToken` refuses a request whose `info.UpstreamCluster` (set by WithUpstreamInfo, the cluster the
      dispatcher proxies to) is not the cluster `ClientFor(host)` returns now (read from the source: `KG.Gen.C12`) -/
  bindTok : Bool := false
  /-- the same for `Authorize` -/
  bindSar : Bool := false
  /-- the dispatcher proxies to `info.UpstreamCluster` (the cluster the request was bound to) instead of resolving the
      host again at dispatch time (pkg/gateway/proxy/dispatcher/dispatcher.go, read from the source) -/
  bindDisp : Bool := false
deriving Repr

/-- `cachedTokenAuthenticator`: `ok && successTTL > 0` → successTTL; `!ok && failureTTL > 0` → failureTTL -/
def tokTTL (cfg : Cfg) : TokAns → Nat
  | .ok _ => cfg.successTTL
  | _ => cfg.failureTTL

structure TokEntry where
  ans : TokAns       -- the cached record
  expiry : Time
  storedAt : Time    -- ghost
deriving DecidableEq, Repr

/-! ## authorization -/

structure UserInfo where
  name : Str
  uid : Str
  groups : List Str
  extra : List (Str × List Str)
deriving DecidableEq, Repr

/-- `authorizer.Attributes` -/
structure Attrs where
  user : Option UserInfo
  verb : Str
  ns : Str
  apiGroup : Str
  apiVersion : Str
  resource : Str
  subresource : Str
  name : Str
  path : Str
  resourceRequest : Bool
deriving DecidableEq, Repr

structure ResAttrs where
  ns : Str
  verb : Str
  group : Str
  version : Str
  resource : Str
  subresource : Str
  name : Str
deriving DecidableEq, Repr

structure NonResAttrs where
  path : Str
  verb : Str
deriving DecidableEq, Repr

/-- `SubjectAccessReviewSpec`; its JSON is the cache key -/
structure Spec where
  user : Str
  uid : Str
  groups : List Str
  extra : List (Str × List Str)
  res : Option ResAttrs
  nonRes : Option NonResAttrs
deriving DecidableEq, Repr

/-- `subjectAccessReviewFromAttributes` -/
def specOf (a : Attrs) : Spec :=
  let u : UserInfo := match a.user with
    | some u => u
    | none => ⟨[], [], [], []⟩
  if a.resourceRequest then
    { user := u.name, uid := u.uid, groups := u.groups, extra := u.extra,
      res := some ⟨a.ns, a.verb, a.apiGroup, a.apiVersion, a.resource, a.subresource, a.name⟩, nonRes := none }
  else
    { user := u.name, uid := u.uid, groups := u.groups, extra := u.extra,
      res := none, nonRes := some ⟨a.path, a.verb⟩ }

/-- `shouldCache` -/
def shouldCache (a : Attrs) : Bool :=
  a.ns.length + a.verb.length + a.apiGroup.length + a.apiVersion.length + a.resource.length +
    a.subresource.length + a.name.length + a.path.length < KG.Gen.C12.maxControlledAttrCacheSize

structure SarStatus where
  allowed : Bool
  denied : Bool
  reason : Str
deriving DecidableEq, Repr

inductive SarAns
  | status (st : SarStatus)
  | err
deriving DecidableEq, Repr

inductive Decision
  | deny
  | allow
  | noOpinion
deriving DecidableEq, Repr

/-- `decisionOnError` of the constructor, read from the source -/
def decisionOnError : Decision :=
  if KG.Gen.C12.decisionOnError == "authorizer.DecisionDeny" then .deny
  else if KG.Gen.C12.decisionOnError == "authorizer.DecisionAllow" then .allow
  else .noOpinion

/-- `(decision, reason, err)` of `Authorize` -/
structure SarRes where
  decision : Decision
  reason : Str
  err : Option ErrKind
deriving DecidableEq, Repr

/-- the final `switch` of `Authorize` -/
def decideStatus (st : SarStatus) : SarRes :=
  if st.denied && st.allowed then ⟨.deny, st.reason, some .both⟩
  else if st.denied then ⟨.deny, st.reason, none⟩
  else if st.allowed then ⟨.allow, st.reason, none⟩
  else ⟨.noOpinion, st.reason, none⟩

/-- `return a.decisionOnError, "", err` -/
def sarErr (k : ErrKind) : SarRes := ⟨decisionOnError, [], some k⟩

def SarAns.res : SarAns → SarRes
  | .status st => decideStatus st
  | .err => sarErr .upstream

/-- `if r.Status.Allowed { allowCacheTTL } else { denyCacheTTL }` -/
def sarTTL (cfg : Cfg) (st : SarStatus) : Nat := if st.allowed then cfg.allowTTL else cfg.denyTTL

structure SarEntry where
  st : SarStatus
  expiry : Time
  storedAt : Time    -- ghost
deriving DecidableEq, Repr

/-! ## the world -/

/-- the upstream clusters and the gateway's configuration -/
structure Env where
  cfg : Cfg
  tokO : Inst → Str → Time → TokAns
  sarO : Inst → Spec → Time → SarAns

/-- key of the `caches` sync.Map: `cacheKey{host, cluster}` -/
structure CKey where
  host : Str
  inst : Inst
deriving DecidableEq, Repr

/-- identity of a cache object: the key it was created under and a generation number -/
structure CacheId where
  host : Str
  inst : Inst
  gen : Nat
deriving DecidableEq, Repr

inductive TokStage
  | resolved                                      -- ClientFor succeeded
  | haveCache (cid : CacheId)                     -- the cache object of (host, cluster) is loaded
  | missed (cid : Option CacheId)                 -- cache miss (none: cache-less path), the closure runs next
  | inFlight (cid : Option CacheId) (ep : Str) (ready : List Str)  -- review sent to endpoint `ep` (one of `ready`)
deriving DecidableEq, Repr

structure TokPend where
  rid : Rid
  host : Str
  tok : Str
  inst : Inst          -- `cluster` of the first ClientFor
  upstream : Option Inst  -- `info.UpstreamCluster` (none: the request did not pass WithUpstreamInfo); ghost unless `bindTok`
  stage : TokStage
deriving DecidableEq, Repr

inductive SarStage
  | resolved
  | haveCache (cid : CacheId)
  | inFlight (cid : CacheId)
deriving DecidableEq, Repr

structure SarPend where
  rid : Rid
  host : Str
  attrs : Attrs
  inst : Inst          -- `cluster` of ClientFor
  upstream : Option Inst  -- `info.UpstreamCluster`
  ep : Str             -- endpoint whose clientset `client` is
  ready : List Str     -- ready endpoints when it was picked (ghost)
  stage : SarStage
deriving DecidableEq, Repr

structure State where
  clock : Time := 0
  mgr : List (Str × Inst) := []                 -- manager.clusters (keys lower-cased)
  eps : List (Inst × Endpoint) := []            -- ClusterInfo.Endpoints of every instance
  stopped : List Inst := []                     -- instances whose context is cancelled
  nextRid : Rid := 0
  nextGen : Nat := 0
  tokMap : List (CKey × Nat) := []              -- authenticator.caches: key ↦ generation of the live object
  tokEntries : List (CacheId × Str × TokEntry) := []
  sarMap : List (CKey × Nat) := []
  sarEntries : List (CacheId × Spec × SarEntry) := []
  tokPend : List TokPend := []
  sarPend : List SarPend := []
deriving Repr

def init : State := {}

/-- where an answer came from (ghost) -/
inductive Src
  | none
  | fresh
  | cached (storedAt expiry : Time)
deriving DecidableEq, Repr

structure TokOut where
  rid : Rid
  host : Str
  tok : Str
  inst : Option Inst       -- cluster the request resolved to at `tokBegin`
  upstream : Option Inst   -- cluster the request was bound to by WithUpstreamInfo (where it is proxied)
  res : TokRes
  time : Time
  src : Src
  ep : Option Str          -- endpoint reviewed during this request
  ready : List Str         -- ready endpoints when that endpoint was picked
deriving DecidableEq, Repr

structure SarOut where
  rid : Rid
  host : Str
  attrs : Attrs
  inst : Option Inst
  upstream : Option Inst
  res : SarRes
  time : Time
  src : Src
  ep : Option Str
  ready : List Str
deriving DecidableEq, Repr

/-- what the dispatcher did with a request -/
structure DispOut where
  host : Str
  upstream : Option Inst   -- cluster the request was bound to by WithUpstreamInfo
  selected : Option Inst   -- cluster the dispatcher took (none: 503 "not being proxied")
  proxied : Option Inst    -- cluster that received the request (none: 503, also when no endpoint is ready)
  time : Time
deriving DecidableEq, Repr

inductive Out
  | tok (o : TokOut)
  | sar (o : SarOut)
  | disp (o : DispOut)
deriving DecidableEq, Repr

/-! ## manager -/

/-- `manager.Get` -/
def mgrGet (m : List (Str × Inst)) (name : Str) : Option Inst :=
  (m.find? (fun kv => decide (kv.1 = toLower name))).map (·.2)

/-- `manager.AddWithKey` -/
def mgrStore (m : List (Str × Inst)) (key : Str) (c : Inst) : List (Str × Inst) :=
  (toLower key, c) :: m.filter (fun kv => decide (kv.1 ≠ toLower key))

/-- `manager.Delete` (map part) -/
def mgrDelete (m : List (Str × Inst)) (name : Str) : List (Str × Inst) :=
  m.filter (fun kv => decide (kv.1 ≠ toLower name))

def epsOf (s : State) (c : Inst) : List Endpoint := (s.eps.filter (fun x => decide (x.1 = c))).map (·.2)

def readyOf (s : State) (c : Inst) : List Endpoint := (epsOf s c).filter (·.isReady)

/-- `ClusterInfo.PickOne`: no ready endpoint → error; otherwise one of the ready endpoints (round robin over an
    unordered map: `choice` is the environment's pick) -/
def pickOne (s : State) (c : Inst) (choice : Nat) : Option Endpoint :=
  let r := readyOf s c
  if r.isEmpty then none else r[choice % r.length]?

/-- `manager.ClientFor` -/
def clientFor (s : State) (host : Str) (choice : Nat) : Except ErrKind (Inst × Endpoint) :=
  match mgrGet s.mgr host with
  | none => .error .notFound
  | some c =>
    match pickOne s c choice with
    | none => .error .noReady
    | some e => .ok (c, e)

/-! ## environment steps -/

inductive Ev
  | tick (dt : Nat)
  | addWithKey (key : Str) (c : Inst)
  | delete (key : Str)
  | deleteWithStop (key : Str)
  | deleteAll
  | stop (c : Inst)
  | setEndpoint (c : Inst) (name : Str) (healthy disabled : Bool)
  | removeEndpoint (c : Inst) (name : Str)
  | dropTok (host : Str) (c : Inst)      -- clean-up goroutine of the token cache of (host, c): needs c stopped
  | dropSar (host : Str) (c : Inst)
  | dropStopped                          -- every clean-up goroutine of a stopped cluster has run
  | evictTok (cid : CacheId) (tok : Str) -- gc of the expiring cache: an entry disappears
  | evictSar (cid : CacheId) (spec : Spec)  -- LRU eviction
deriving DecidableEq, Repr

def evStep (s : State) : Ev → State
  | .tick dt => { s with clock := s.clock + dt }
  | .addWithKey key c => { s with mgr := mgrStore s.mgr key c }
  | .delete key => { s with mgr := mgrDelete s.mgr key }
  | .deleteWithStop key =>
    match mgrGet s.mgr key with
    | none => s
    | some c => { s with mgr := mgrDelete s.mgr key, stopped := c :: s.stopped }
  | .deleteAll => { s with mgr := [], stopped := s.mgr.map (·.2) ++ s.stopped }
  | .stop c => { s with stopped := c :: s.stopped }
  | .setEndpoint c name healthy disabled =>
    { s with eps := (c, ⟨name, healthy, disabled⟩) :: s.eps.filter (fun x => !(decide (x.1 = c) && decide (x.2.name = name))) }
  | .removeEndpoint c name =>
    { s with eps := s.eps.filter (fun x => !(decide (x.1 = c) && decide (x.2.name = name))) }
  | .dropTok host c =>
    if c ∈ s.stopped then { s with tokMap := s.tokMap.filter (fun kv => decide (kv.1 ≠ ⟨host, c⟩)) } else s
  | .dropSar host c =>
    if c ∈ s.stopped then { s with sarMap := s.sarMap.filter (fun kv => decide (kv.1 ≠ ⟨host, c⟩)) } else s
  | .dropStopped =>
    { s with tokMap := s.tokMap.filter (fun kv => !decide (kv.1.inst ∈ s.stopped)),
             sarMap := s.sarMap.filter (fun kv => !decide (kv.1.inst ∈ s.stopped)) }
  | .evictTok cid tok =>
    { s with tokEntries := s.tokEntries.filter (fun x => !(decide (x.1 = cid) && decide (x.2.1 = tok))) }
  | .evictSar cid spec =>
    { s with sarEntries := s.sarEntries.filter (fun x => !(decide (x.1 = cid) && decide (x.2.1 = spec))) }

/-! ## pending requests -/

def findTok (s : State) (rid : Rid) : Option TokPend := s.tokPend.find? (fun p => decide (p.rid = rid))
def setTok (s : State) (p : TokPend) : State :=
  { s with tokPend := p :: s.tokPend.filter (fun q => decide (q.rid ≠ p.rid)) }
def delTok (s : State) (rid : Rid) : State :=
  { s with tokPend := s.tokPend.filter (fun q => decide (q.rid ≠ rid)) }

def findSar (s : State) (rid : Rid) : Option SarPend := s.sarPend.find? (fun p => decide (p.rid = rid))
def setSar (s : State) (p : SarPend) : State :=
  { s with sarPend := p :: s.sarPend.filter (fun q => decide (q.rid ≠ p.rid)) }
def delSar (s : State) (rid : Rid) : State :=
  { s with sarPend := s.sarPend.filter (fun q => decide (q.rid ≠ rid)) }

def readyNames (s : State) (c : Inst) : List Str := (readyOf s c).map (·.name)

/-! ## token steps -/

def tokOutErr (s : State) (rid : Rid) (host tok : Str) (inst up : Option Inst) (k : ErrKind) : Out :=
  .tok { rid := rid, host := host, tok := tok, inst := inst, upstream := up, res := .error k, time := s.clock, src := .none,
         ep := none, ready := [] }

/-- does a request bound to `up` have to be refused when its host resolves to `c` now? -/
def boundElsewhere (bind : Bool) (up : Option Inst) (c : Inst) : Bool :=
  bind && up.isSome && decide (up ≠ some c)

/-- first `ClientFor(host)` of `AuthenticateToken`; `up` is `info.UpstreamCluster` -/
def tokBegin (env : Env) (s : State) (rid : Rid) (host tok : Str) (choice : Nat) (up : Option Inst) : State × List Out :=
  if rid < s.nextRid then (s, [])
  else
    let s := { s with nextRid := rid + 1 }
    match clientFor s host choice with
    | .error k => (s, [tokOutErr s rid host tok (mgrGet s.mgr host) up k])
    | .ok (c, _) =>
      if boundElsewhere env.cfg.bindTok up c then (s, [tokOutErr s rid host tok (some c) up .moved])
      else (setTok s ⟨rid, host, tok, c, up, .resolved⟩, [])

/-- `caches.Load(key)` / `LoadOrStore(key, tokencache.New(…))`, or the cache-less path when both TTLs are 0 -/
def tokCache (env : Env) (s : State) (rid : Rid) : State × List Out :=
  match findTok s rid with
  | some p =>
    match p.stage with
    | .resolved =>
      if env.cfg.failureTTL = 0 ∧ env.cfg.successTTL = 0 then
        (setTok s { p with stage := .missed none }, [])
      else
        match s.tokMap.find? (fun kv => decide (kv.1 = ⟨p.host, p.inst⟩)) with
        | some kv => (setTok s { p with stage := .haveCache ⟨p.host, p.inst, kv.2⟩ }, [])
        | none =>
          let g := s.nextGen
          (setTok { s with nextGen := g + 1, tokMap := (⟨p.host, p.inst⟩, g) :: s.tokMap }
              { p with stage := .haveCache ⟨p.host, p.inst, g⟩ }, [])
    | _ => (s, [])
  | none => (s, [])

def tokGet (s : State) (cid : CacheId) (tok : Str) : Option TokEntry :=
  (s.tokEntries.find? (fun x => decide (x.1 = cid) && decide (x.2.1 = tok))).map (·.2.2)

def tokPut (s : State) (cid : CacheId) (tok : Str) (e : TokEntry) : State :=
  { s with tokEntries := (cid, tok, e) :: s.tokEntries.filter (fun x => !(decide (x.1 = cid) && decide (x.2.1 = tok))) }

/-- `cachedTokenAuthenticator.AuthenticateToken`: `cache.get(key)`; `Expiring.Get`: live iff `now < expiry` -/
def tokLookup (s : State) (rid : Rid) : State × List Out :=
  match findTok s rid with
  | some p =>
    match p.stage with
    | .haveCache cid =>
      match tokGet s cid p.tok with
      | some e =>
        if s.clock < e.expiry then
          let out : Out := .tok { rid := rid, host := p.host, tok := p.tok, inst := some p.inst, upstream := p.upstream, res := e.ans.res,
                                  time := s.clock, src := .cached e.storedAt e.expiry, ep := none, ready := [] }
          (delTok s rid, [out])
        else (setTok s { p with stage := .missed (some cid) }, [])
      | none => (setTok s { p with stage := .missed (some cid) }, [])
    | _ => (s, [])
  | none => (s, [])

/-- the closure of `authenticateTokenForHost`: `ClientFor(host)` again, `current != cluster`, review sent -/
def tokReview (s : State) (rid : Rid) (choice : Nat) : State × List Out :=
  match findTok s rid with
  | some p =>
    match p.stage with
    | .missed cid =>
      match clientFor s p.host choice with
      | .error k => (delTok s rid, [tokOutErr s rid p.host p.tok (some p.inst) p.upstream k])
      | .ok (cur, e) =>
        if cur ≠ p.inst then (delTok s rid, [tokOutErr s rid p.host p.tok (some p.inst) p.upstream .moved])
        else (setTok s { p with stage := .inFlight cid e.name (readyNames s p.inst) }, [])
    | _ => (s, [])
  | none => (s, [])

/-- the review's answer arrives: `if !a.cacheErrs && err != nil { return nil, err }`, then the TTL switch -/
def tokFinish (env : Env) (s : State) (rid : Rid) : State × List Out :=
  match findTok s rid with
  | some p =>
    match p.stage with
    | .inFlight cid ep ready =>
      let ans := env.tokO p.inst p.tok s.clock
      let out : Out := .tok { rid := rid, host := p.host, tok := p.tok, inst := some p.inst, upstream := p.upstream, res := ans.res,
                              time := s.clock, src := .fresh, ep := some ep, ready := ready }
      let s1 := delTok s rid
      match cid with
      | none => (s1, [out])
      | some cid =>
        if ans = .err ∧ cacheErrs = false then (s1, [out])
        else if tokTTL env.cfg ans > 0 then
          (tokPut s1 cid p.tok ⟨ans, s.clock + tokTTL env.cfg ans, s.clock⟩, [out])
        else (s1, [out])
    | _ => (s, [])
  | none => (s, [])

/-! ## authorization steps -/

def sarOutErr (s : State) (rid : Rid) (host : Str) (attrs : Attrs) (inst up : Option Inst) (ep : Option Str) (k : ErrKind) : Out :=
  .sar { rid := rid, host := host, attrs := attrs, inst := inst, upstream := up, res := sarErr k, time := s.clock, src := .none,
         ep := ep, ready := [] }

/-- `cluster, client, err := a.clientProvider.ClientFor(host)` -/
def sarBegin (env : Env) (s : State) (rid : Rid) (host : Str) (attrs : Attrs) (choice : Nat) (up : Option Inst) : State × List Out :=
  if rid < s.nextRid then (s, [])
  else
    let s := { s with nextRid := rid + 1 }
    match clientFor s host choice with
    | .error k => (s, [sarOutErr s rid host attrs (mgrGet s.mgr host) up none k])
    | .ok (c, e) =>
      if boundElsewhere env.cfg.bindSar up c then (s, [sarOutErr s rid host attrs (some c) up none .moved])
      else (setSar s ⟨rid, host, attrs, c, up, e.name, readyNames s c, .resolved⟩, [])

/-- `caches.Load(ck)` / `LoadOrStore(ck, cache.NewLRUExpireCache(8192))` -/
def sarCache (s : State) (rid : Rid) : State × List Out :=
  match findSar s rid with
  | some p =>
    match p.stage with
    | .resolved =>
      match s.sarMap.find? (fun kv => decide (kv.1 = ⟨p.host, p.inst⟩)) with
      | some kv => (setSar s { p with stage := .haveCache ⟨p.host, p.inst, kv.2⟩ }, [])
      | none =>
        let g := s.nextGen
        (setSar { s with nextGen := g + 1, sarMap := (⟨p.host, p.inst⟩, g) :: s.sarMap }
            { p with stage := .haveCache ⟨p.host, p.inst, g⟩ }, [])
    | _ => (s, [])
  | none => (s, [])

def sarGet (s : State) (cid : CacheId) (spec : Spec) : Option SarEntry :=
  (s.sarEntries.find? (fun x => decide (x.1 = cid) && decide (x.2.1 = spec))).map (·.2.2)

def sarPut (s : State) (cid : CacheId) (spec : Spec) (e : SarEntry) : State :=
  { s with sarEntries := (cid, spec, e) :: s.sarEntries.filter (fun x => !(decide (x.1 = cid) && decide (x.2.1 = spec))) }

/-- `cache.Get(string(key))`; `LRUExpireCache.Get`: expired iff `now.After(expireTime)` -/
def sarLookup (s : State) (rid : Rid) : State × List Out :=
  match findSar s rid with
  | some p =>
    match p.stage with
    | .haveCache cid =>
      match sarGet s cid (specOf p.attrs) with
      | some e =>
        if s.clock ≤ e.expiry then
          let out : Out := .sar { rid := rid, host := p.host, attrs := p.attrs, inst := some p.inst, upstream := p.upstream,
                                  res := decideStatus e.st, time := s.clock, src := .cached e.storedAt e.expiry,
                                  ep := none, ready := [] }
          (delSar s rid, [out])
        else (setSar s { p with stage := .inFlight cid }, [])
      | none => (setSar s { p with stage := .inFlight cid }, [])
    | _ => (s, [])
  | none => (s, [])

/-- the SubjectAccessReview answer arrives -/
def sarFinish (env : Env) (s : State) (rid : Rid) : State × List Out :=
  match findSar s rid with
  | some p =>
    match p.stage with
    | .inFlight cid =>
      let ans := env.sarO p.inst (specOf p.attrs) s.clock
      let out : Out := .sar { rid := rid, host := p.host, attrs := p.attrs, inst := some p.inst, upstream := p.upstream, res := ans.res,
                              time := s.clock, src := .fresh, ep := some p.ep, ready := p.ready }
      let s1 := delSar s rid
      match ans with
      | .err => (s1, [out])
      | .status st =>
        if shouldCache p.attrs then
          (sarPut s1 cid (specOf p.attrs) ⟨st, s.clock + sarTTL env.cfg st, s.clock⟩, [out])
        else (s1, [out])
    | _ => (s, [])
  | none => (s, [])

/-! ## the dispatcher (last stage of the filter chain) -/

/-- `dispatcher.ServeHTTP`: `cluster := extraInfo.UpstreamCluster` (or, without the binding, the cluster the host
    resolves to now), `MatchAttributes` + `Pop` (a ready endpoint of THAT cluster), proxy. `up` is `info.UpstreamCluster`. -/
def dispatch (env : Env) (s : State) (host : Str) (up : Option Inst) (choice : Nat) : State × List Out :=
  let sel := if env.cfg.bindDisp then up else mgrGet s.mgr host
  let prox := match sel with
    | none => none
    | some c => (pickOne s c choice).map (fun _ => c)
  (s, [.disp ⟨host, up, sel, prox, s.clock⟩])

/-! ## the small-step system -/

inductive Step
  | ev (e : Ev)
  | tokBegin (rid : Rid) (host tok : Str) (choice : Nat) (up : Option Inst)
  | tokCache (rid : Rid)
  | tokLookup (rid : Rid)
  | tokReview (rid : Rid) (choice : Nat)
  | tokFinish (rid : Rid)
  | sarBegin (rid : Rid) (host : Str) (attrs : Attrs) (choice : Nat) (up : Option Inst)
  | sarCache (rid : Rid)
  | sarLookup (rid : Rid)
  | sarFinish (rid : Rid)
  | dispatch (host : Str) (up : Option Inst) (choice : Nat)
deriving DecidableEq, Repr

def step (env : Env) (s : State) : Step → State × List Out
  | .ev e => (evStep s e, [])
  | .tokBegin rid host tok ch up => tokBegin env s rid host tok ch up
  | .tokCache rid => tokCache env s rid
  | .tokLookup rid => tokLookup s rid
  | .tokReview rid ch => tokReview s rid ch
  | .tokFinish rid => tokFinish env s rid
  | .sarBegin rid host attrs ch up => sarBegin env s rid host attrs ch up
  | .sarCache rid => sarCache s rid
  | .sarLookup rid => sarLookup s rid
  | .sarFinish rid => sarFinish env s rid
  | .dispatch host up ch => dispatch env s host up ch

/-- run a list of small steps, collecting the answers given -/
def runSteps (env : Env) : State → List Step → State × List Out
  | s, [] => (s, [])
  | s, st :: rest =>
    let r := step env s st
    let r' := runSteps env r.1 rest
    (r'.1, r.2 ++ r'.2)

/-- a whole token request with nothing in between -/
def tokSteps (rid : Rid) (host tok : Str) (ch1 ch2 : Nat) (up : Option Inst := none) : List Step :=
  [.tokBegin rid host tok ch1 up, .tokCache rid, .tokLookup rid, .tokReview rid ch2, .tokFinish rid]

/-- a whole authorization request with nothing in between -/
def sarSteps (rid : Rid) (host : Str) (attrs : Attrs) (ch : Nat) (up : Option Inst := none) : List Step :=
  [.sarBegin rid host attrs ch up, .sarCache rid, .sarLookup rid, .sarFinish rid]

/-! ## scheduled requests (what the correspondence harness drives)

`Macro.tok hostport tok ch1 ch2 bound mid0 mid1 mid2` (`hostport` is the request's `Host` header; the steps get
`hostWithoutPort hostport`, as `NewExtraRequestInfo` does). A `bound` request first passes WithUpstreamInfo
(pkg/gateway/endpoints/filters/upstreaminfo.go): `info.UpstreamCluster := manager.Get(host)`, 503 when unknown; `mid0` runs
between that filter and the authenticator / authorizer. Then the request's steps with `mid1` run when the closure calls `ClientFor`
(between `tokLookup` and `tokReview`) and `mid2` run while the review is in flight (between `tokReview` and
`tokFinish`); `Macro.sar … mid`: `mid` runs while the review is in flight. `mid` lists may contain whole nested
requests. Every call of the authenticator / authorizer is preceded by `tick 1` (a real clock never stands still between two calls). -/
inductive Macro
  | ev (e : Ev)
  | tok (hostport tok : Str) (ch1 ch2 : Nat) (bound : Bool) (mid0 mid1 mid2 : List Macro)
  | sar (hostport : Str) (attrs : Attrs) (ch : Nat) (bound : Bool) (mid0 mid : List Macro)
  /-- one request through the whole chain: WithUpstreamInfo, `mid0`, authentication (`mid1`, `mid2` inside), `midA`,
      the impersonation check (if `attrs`; `mid` inside), `midD`, dispatcher. A stage is only reached when the previous
      one let the request pass (authenticated; allowed without error). `target` is the `Impersonate-User` header: the
      check is `impAttrs user target` for the user the authentication produced (`WithNoLoggingImpersonation`). -/
  | pipe (hostport tok : Str) (target : Option Str) (mid0 mid1 mid2 midA mid midD : List Macro)

structure Run where
  s : State
  outs : List Out
  steps : List Step     -- the small steps executed, in order

def Run.app (r : Run) (env : Env) (st : Step) : Run :=
  let x := step env r.s st
  ⟨x.1, r.outs ++ x.2, r.steps ++ [st]⟩

/-- did the authentication filter let request `rid` pass? (`WithAuthentication`: `!ok || err != nil` ⇒ 401) -/
def tokPassed (outs : List Out) (rid : Rid) : Bool :=
  outs.any fun o => match o with
    | .tok t => decide (t.rid = rid) && (match t.res with | .authenticated _ => true | _ => false)
    | _ => false

/-- the user the authentication filter put into the request context -/
def tokUser (outs : List Out) (rid : Rid) : Str :=
  (outs.findSome? fun o => match o with
    | .tok t => if t.rid = rid then (match t.res with | .authenticated u => some u | _ => none) else none
    | _ => none).getD []

/-- `actingAsAttributes` of `WithNoLoggingImpersonation` for `Impersonate-User: target` (kind User: group and version
    empty, resource "users") sent by `user` (the token webhook fills in the name only) -/
def impAttrs (user target : Str) : Attrs :=
  { user := some ⟨user, [], [], []⟩, verb := [105, 109, 112, 101, 114, 115, 111, 110, 97, 116, 101], ns := [], apiGroup := [], apiVersion := [],
    resource := [117, 115, 101, 114, 115], subresource := [], name := target, path := [], resourceRequest := true }

/-- did the impersonation filter let it pass? (`err != nil || decision != DecisionAllow` ⇒ 403) -/
def sarPassed (outs : List Out) (rid : Rid) : Bool :=
  outs.any fun o => match o with
    | .sar t => decide (t.rid = rid) && decide (t.res.decision = .allow) && t.res.err.isNone
    | _ => false

mutual
  def runMacro (env : Env) (r : Run) : Macro → Run
    | .ev e => r.app env (.ev e)
    | .tok hostport tok ch1 ch2 bound mid0 mid1 mid2 =>
      let host := hostWithoutPort hostport
      -- WithUpstreamInfo (only for `bound` requests): unknown host => 503, the request never reaches authentication
      if bound && (mgrGet r.s.mgr host).isNone then r
      else
        let up := if bound then mgrGet r.s.mgr host else none
        let r := runMacros env r mid0
        let r := r.app env (.ev (.tick 1))
        let rid := r.s.nextRid
        let r := ((r.app env (.tokBegin rid host tok ch1 up)).app env (.tokCache rid)).app env (.tokLookup rid)
        if (findTok r.s rid).isNone then r
        else
          let r := runMacros env r mid1
          let r := r.app env (.tokReview rid ch2)
          if (findTok r.s rid).isNone then r
          else
            let r := runMacros env r mid2
            r.app env (.tokFinish rid)
    | .sar hostport attrs ch bound mid0 mid =>
      let host := hostWithoutPort hostport
      if bound && (mgrGet r.s.mgr host).isNone then r
      else
        let up := if bound then mgrGet r.s.mgr host else none
        let r := runMacros env r mid0
        let r := r.app env (.ev (.tick 1))
        let rid := r.s.nextRid
        let r := ((r.app env (.sarBegin rid host attrs ch up)).app env (.sarCache rid)).app env (.sarLookup rid)
        if (findSar r.s rid).isNone then r
        else
          let r := runMacros env r mid
          r.app env (.sarFinish rid)
    | .pipe hostport tok target mid0 mid1 mid2 midA mid midD =>
      let host := hostWithoutPort hostport
      if (mgrGet r.s.mgr host).isNone then r
      else
        let up := mgrGet r.s.mgr host
        let r := runMacros env r mid0
        let r := r.app env (.ev (.tick 1))
        let rid := r.s.nextRid
        let r := ((r.app env (.tokBegin rid host tok 0 up)).app env (.tokCache rid)).app env (.tokLookup rid)
        let r := if (findTok r.s rid).isNone then r
          else
            let r := runMacros env r mid1
            let r := r.app env (.tokReview rid 0)
            if (findTok r.s rid).isNone then r
            else (runMacros env r mid2).app env (.tokFinish rid)
        if !tokPassed r.outs rid then r
        else
          let r := runMacros env r midA
          match target with
          | none => (runMacros env r midD).app env (.dispatch host up 0)
          | some tg =>
            let atr := impAttrs (tokUser r.outs rid) tg
            let r := r.app env (.ev (.tick 1))
            let rid2 := r.s.nextRid
            let r := ((r.app env (.sarBegin rid2 host atr 0 up)).app env (.sarCache rid2)).app env (.sarLookup rid2)
            let r := if (findSar r.s rid2).isNone then r
              else (runMacros env r mid).app env (.sarFinish rid2)
            if !sarPassed r.outs rid2 then r
            else (runMacros env r midD).app env (.dispatch host up 0)
  def runMacros (env : Env) (r : Run) : List Macro → Run
    | [] => r
    | m :: ms => runMacros env (runMacro env r m) ms
end

end KG.Model.AuthCache
