import KG.Model.Alloc
import KG.Model.RemoteLimiter
import KG.Model.Reclaim
/-!
# The closed loop "N gateway instances ⇄ sharded limiter server" (global-ALLOCATE strategy)

This model COMPOSES the finished per-area models; it does not re-model the areas:

* **C07 `KG.Model.Alloc`** — the recorded-quota bookkeeping of one upstream is literally an `Alloc.Srv`, and every
  change of it is an `Alloc.step` (`.report`, `.delete`, `.setLimit`): field `UpStore.srv`.
* **C09 `KG.Model.RemoteLimiter`** — every gateway keeps one `RemoteLimiter.State` per upstream (its
  `upstreamLimiter`), moved only by `RemoteLimiter.step` (`.schema`, `.answer`, `.hb`); what a request is handed
  is `RemoteLimiter.load` / `observe`. Nothing else of C09's state is looked at (`cache`, `isReady` only).
* **C18 `KG.Model.Reclaim`** — the heartbeat table has the shape of `Reclaim.State.hb`, the time-out test is
  `Reclaim.timedOut` on the regenerated `Reclaim.timeout`, the two clean-up passes select what `Reclaim.selects` /
  `Reclaim.unknown` select (instance label set by the SECOND report, leader guard of `deleteCondition`).
* **C13 `KG.Model.Shard`** — leadership guard of `UpdateRateLimitConditionStatus` / `UpstreamConditionHandler` /
  `deleteCondition`, `startLeading` (new store, `Load`, `syncUpstreamClustersForShard`), `stopLeading` (store
  discarded), `leaderCheck`; `shardOf` is a parameter (every theorem holds for every shard function).
* **C19 `KG.Model.K8sStore`** — the API-backed store in write-through mode (`syncPeriod = 0`): every acknowledged
  `Save`/`Delete` is in the API before it is in the cache, so the API objects of a held shard equal the cache
  (`Server.persist`); `Load` of the next holder brings them back. The local store loads nothing.

One flow-control schema (max in flight, strategy `globalAllocate`) per upstream; upstreams, gateway slots, gateway
identities and shards are natural numbers. Time is `Nat` milliseconds supplied by the ops.

The strategy arithmetic of `calculateNextQuota` (floats) is NOT part of this model: a report carries ARBITRARY
rationals `x`, `m` (the value left by the `switch`, the percent floor), exactly as in `Alloc.Op.report`; the
answer is the exact tail `Alloc.answer`. The executable twin used by the correspondence harness fills them from the
Float twin of C07 (`floatAnswer`, bit-identical to the Go code) with `x = m =` that answer, and reports whether the
exact tail reproduces it (`exact`): it does unless float rounding moved the answer out of the range of the tail.
-/
namespace KG.Model.LimiterLoop
open KG KG.Model

/-! ## association lists keyed by `Nat` (Go maps; order never observed) -/

def aget {α : Type} (l : List (Nat × α)) (k : Nat) : Option α :=
  match l with
  | [] => none
  | (j, v) :: rest => if j = k then some v else aget rest k

def adel {α : Type} (l : List (Nat × α)) (k : Nat) : List (Nat × α) := l.filter (fun p => p.1 != k)

def aset {α : Type} (l : List (Nat × α)) (k : Nat) (v : α) : List (Nat × α) := (k, v) :: adel l k

/-! ## the limiter server's store for ONE upstream (one schema) -/

/-- What the store of the upstream's shard holds for the upstream: C07's `Srv` (configured limit of the `.state`
    condition, its recorded sum, the recorded quota per instance) plus what C18 and the strategy arithmetic read. -/
structure UpStore where
  srv : Alloc.Srv
  /-- ghost: the largest limit in force since this record began (equals `srv.total` unless the limit was lowered) -/
  hi : Int
  /-- `RequestLevel` of the `.state` condition (feeds the strategy arithmetic only) -/
  recLevel : Int
  /-- instances whose stored condition carries the instance label: set from the previous stored condition, i.e. by
      the second and later reports (what the time-out pass selects by, C18) -/
  labelled : List Nat
  /-- the usage figure stored with each instance's condition (feeds the recorded request level only) -/
  used : List (Nat × Int)
deriving Repr

/-- `updateUpstreamStateCondition(nil, cluster)`: a fresh `.state` condition -/
def UpStore.fresh (t : Int) : UpStore := ⟨⟨t, 0, []⟩, t, 0, [], []⟩

/-- `updateUpstreamStateCondition` on an existing `.state` condition: the configured limit is replaced, the
    recorded status is kept -/
def UpStore.setLimit (e : UpStore) (t : Int) : UpStore :=
  { e with srv := Alloc.step e.srv (.setLimit t), hi := if e.hi < t then t else e.hi }

def UpStore.has (e : UpStore) (i : Nat) : Bool := (e.srv.quotas.lookup i).isSome

/-- the body of `UpdateRateLimitConditionStatus` past the guards: `calculateNextQuota` (exact tail of C07 on the
    strategy outputs `x`, `m`), save, `calculateUpstreamCondition`, save -/
def UpStore.report (e : UpStore) (i : Nat) (x m : Rat) (used lvl : Int) : UpStore :=
  { e with
    srv := Alloc.step e.srv (.report i x m)
    recLevel := lvl
    labelled := if e.has i then (if e.labelled.contains i then e.labelled else i :: e.labelled)
                else e.labelled.filter (· != i)
    used := aset e.used i used }

/-- `limitStore.Delete` of every instance condition whose instance satisfies `p` -/
def UpStore.drop (e : UpStore) (p : Nat → Bool) : UpStore :=
  { e with
    srv := { e.srv with quotas := e.srv.quotas.filter (fun q => !p q.1) }
    labelled := e.labelled.filter (fun i => !p i)
    used := e.used.filter (fun q => !p q.1) }

/-- the quota on record for instance `i` (0 without a record) -/
def UpStore.quotaOf (e : UpStore) (i : Nat) : Int := Alloc.lookupD e.srv.quotas i

/-! ## the limiter server -/

structure Server where
  /-- `limitOptions.LimitStore == "k8s"` (write-through) rather than `"local"` -/
  k8s : Bool
  /-- `ClientCache.clientHeartbeats`: instance ↦ time of its last heartbeat (ms) -/
  hb : List (Nat × Nat)
  /-- shards for which `leaderElector.IsLeader` answers true -/
  leaders : List Nat
  /-- keys of `limitStoreMap` -/
  stores : List Nat
  /-- contents of the stores in `limitStoreMap`: upstream ↦ what its shard's store holds for it -/
  ups : List (Nat × UpStore)
  /-- the `RateLimitCondition` objects in the API (k8s store only), by upstream -/
  api : List (Nat × UpStore)
  /-- the UpstreamCluster lister: upstream ↦ configured global limit -/
  listed : List (Nat × Int)
deriving Repr

/-- `time.Now().After(lastHeartbeat.Add(ClientHeartBeatTimeout))` — C18's test on C18's regenerated constant -/
def timedOut (now : Nat) (p : Nat × Nat) : Bool := decide (now > p.2 + Reclaim.timeout)

def Server.hbHas (s : Server) (i : Nat) : Bool := s.hb.any (·.1 == i)

section
variable (shardOf : Nat → Nat)

def Server.isLeader (s : Server) (k : Nat) : Bool := s.leaders.contains k
def Server.hasStore (s : Server) (k : Nat) : Bool := s.stores.contains k

/-- write-through: after an acknowledged change the API holds what the caches of the held shards hold; objects of
    shards not held are left alone -/
def Server.persist (s : Server) : Server :=
  if s.k8s then { s with api := s.ups ++ s.api.filter (fun p => (aget s.ups p.1).isNone) } else s

/-- `UpstreamConditionHandler(cluster)` for the lister's object of `u` -/
def Server.handle (s : Server) (u : Nat) : Server :=
  let k := shardOf u
  if !s.isLeader k then s
  else if !s.hasStore k then s
  else
    match aget s.listed u with
    | none => s          -- not in the lister: `DeleteUpstream` of nothing (removal of upstreams is not modelled)
    | some t =>
      let e := match aget s.ups u with
        | some e => e.setLimit t
        | none => UpStore.fresh t
      ({ s with ups := aset s.ups u e } : Server).persist

/-- `rateLimiter.startLeading(k)`: a new store, `Load()` (the API objects of the shard for the k8s store, nothing for
    the local one), `syncUpstreamClustersForShard(k)` -/
def Server.startLeading (s : Server) (k : Nat) : Server :=
  if s.hasStore k then s
  else
    let loaded := if s.k8s then s.api.filter (fun p => shardOf p.1 == k) else []
    let s1 : Server := { s with stores := k :: s.stores, ups := loaded ++ s.ups.filter (fun p => shardOf p.1 != k) }
    (s.listed.filter (fun p => shardOf p.1 == k)).foldl (fun st p => st.handle shardOf p.1) s1

/-- `rateLimiter.stopLeading(k)`: the store is flushed (write-through: nothing left to write) and discarded -/
def Server.stopLeading (s : Server) (k : Nat) : Server :=
  { s with stores := s.stores.filter (· != k), ups := s.ups.filter (fun p => shardOf p.1 != k) }

/-- `rateLimiter.leaderCheck()` -/
def Server.leaderCheck (s : Server) : Server :=
  let toStart := s.leaders.filter (fun k => !s.hasStore k)
  let s1 := toStart.foldl (fun st k => st.startLeading shardOf k) s
  let toStop := s1.stores.filter (fun k => !s.isLeader k)
  toStop.foldl (fun st k => st.stopLeading shardOf k) s1

def Server.elect (s : Server) (k : Nat) (b : Bool) : Server :=
  { s with leaders := if b then (if s.leaders.contains k then s.leaders else k :: s.leaders)
                      else s.leaders.filter (· != k) }

/-- `ClientCache.Heartbeat` -/
def Server.heartbeat (s : Server) (i : Nat) (t : Nat) : Server :=
  { s with hb := s.hb.filter (·.1 != i) ++ [(i, t)] }

/-- the instances the time-out pass at `now` declares dead -/
def Server.dead (s : Server) (now : Nat) : List Nat := (s.hb.filter (timedOut now)).map (·.1)

/-- `cleanupTimeoutClient` at wall-clock `now`, its goroutines run to completion: the dead instances leave the
    heartbeat table; in every store, the conditions LABELLED with a dead instance are deleted if this server leads
    the condition's shard (`deleteCondition`). The recorded sum of the `.state` condition is NOT recomputed. -/
def Server.cleanupTimeout (s : Server) (now : Nat) : Server :=
  let dead := s.dead now
  ({ s with
    hb := s.hb.filter (fun p => !timedOut now p)
    ups := s.ups.map (fun p =>
      (p.1, if s.isLeader (shardOf p.1) then p.2.drop (fun i => dead.contains i && p.2.labelled.contains i)
            else p.2)) } : Server).persist

/-- `cleanupUnknownCondition`: every instance condition whose instance is not in the heartbeat table is deleted if
    this server leads the condition's shard -/
def Server.cleanupUnknown (s : Server) : Server :=
  ({ s with
    ups := s.ups.map (fun p =>
      (p.1, if s.isLeader (shardOf p.1) then p.2.drop (fun i => !s.hbHas i) else p.2)) } : Server).persist

/-- the entry a report for `u` is served from: leader of the shard, store of the shard, `.state` condition -/
def Server.serving (s : Server) (u : Nat) : Option UpStore :=
  if s.isLeader (shardOf u) && s.hasStore (shardOf u) then aget s.ups u else none

/-- `UpdateRateLimitConditionStatus(u, condition of instance i)`: the server afterwards and the answered quota
    (`none`: refused — not the leader, no store, no `.state` condition / upstream lock) -/
def Server.report (s : Server) (u i : Nat) (x m : Rat) (used lvl : Int) : Server × Option Int :=
  match s.serving shardOf u with
  | none => (s, none)
  | some e =>
    let e' := e.report i x m used lvl
    (({ s with ups := aset s.ups u e' } : Server).persist, some (e'.quotaOf i))

end

/-! ## one gateway instance -/

/-- the C09 configuration of every `upstreamLimiter` of the loop: `rateLimiter = "remote"`, a client set -/
def gwCfg : RemoteLimiter.Cfg := {}

/-- a freshly started `upstreamLimiter` whose client set knows the shard count -/
def gwInit (nShards : Nat) : RemoteLimiter.State := { shardCount := nShards }

structure Gw where
  /-- `clientSets.ClientID()`: the identity it heartbeats and reports under -/
  id : Nat
  /-- the process is running -/
  alive : Bool
  /-- it reaches the limiter server -/
  net : Bool
  /-- upstream ↦ the state of its `upstreamLimiter` (C09). The process keeps one for every upstream of the loop from its
      start (the real one is created by the first schema sync, sharing the client set: it sees the heartbeat outcomes
      recorded before — in the model every limiter sees every heartbeat outcome from the start of the process; in the
      loop every shard is heartbeated in the same round with the same outcome) -/
  ups : List (Nat × RemoteLimiter.State)
  /-- monitor (ghost): the upstreams for which this process applied an answer since its view of the global limit last
      changed ("the gateway applied the last answer") -/
  fresh : List Nat
deriving Repr

/-- the limiters of a process that has just started: one per upstream of the loop -/
def freshUps (nShards nUp : Nat) : List (Nat × RemoteLimiter.State) := (List.range nUp).map (fun u => (u, gwInit nShards))

/-- the state of the `upstreamLimiter` for `u` (an upstream outside the loop: a fresh one, nothing ever happens to it) -/
def Gw.st (nShards : Nat) (g : Gw) (u : Nat) : RemoteLimiter.State := (aget g.ups u).getD (gwInit nShards)

/-- one C09 step (a panic — impossible for the schemas of the loop, see `KG.Lemmas.LimiterLoop.step_schema` /
    `step_answer` / `step_hb` — keeps the state) -/
def stepOr (st : RemoteLimiter.State) (op : RemoteLimiter.Op) : RemoteLimiter.State :=
  match RemoteLimiter.step st op with
  | .ok st' => st'
  | .error _ => st

/-- one C09 step of the `upstreamLimiter` for `u` (an upstream outside the loop is ignored) -/
def Gw.apply (nShards : Nat) (g : Gw) (u : Nat) (op : RemoteLimiter.Op) : Gw :=
  match aget g.ups u with
  | some st => { g with ups := aset g.ups u (stepOr st op) }
  | none => g

/-- one heartbeat outcome (`setLeaderStatus`) seen by every `upstreamLimiter` of the gateway: C09's `.hb` step -/
def Gw.heartbeat (g : Gw) (ok : Bool) (now : Int) : Gw :=
  { g with ups := g.ups.map (fun p => (p.1, stepOr p.2 (.hb ok now false))) }

/-- the schema a gateway syncs: local limit `l`, global limit `t`, strategy `globalAllocate` -/
def mkSchema (l t : Int) : RemoteLimiter.Schema := { strategy := .alloc, mi := some l, gmi := some t }

/-- the item of the server's answer: quota `n` -/
def mkItem (n : Int) : RemoteLimiter.Item := { strategy := .alloc, mi := some n }

/-- the gateway's own view of the global limit (`localConfig.GlobalMaxRequestsInflight.Max`) -/
def view (st : RemoteLimiter.State) : Option Int := st.cache.bind (·.loc.config.gmi)

/-- its local limit -/
def localLimit (st : RemoteLimiter.State) : Option Int := st.cache.bind (·.loc.config.mi)

/-- the quota it holds = `remoteConfig` = what `buildLimitConditions` reports (`none`: no remote limiter yet) -/
def raw (st : RemoteLimiter.State) : Option Int := st.cache.bind (fun c => c.remote.bind (fun r => r.remoteConfig.bind (·.mi)))

def limSize : RemoteLimiter.Lim → Int
  | .mi n => n
  | .exempt n => n
  | .tb q _ => q

/-- the size of its remote limiter (handed out or not) -/
def applied (st : RemoteLimiter.State) : Option Int := (RemoteLimiter.observe gwCfg st).rlim.map limSize

/-- does `GetOrDefault` hand out the remote limiter? -/
def usesRemote (st : RemoteLimiter.State) : Bool := RemoteLimiter.load gwCfg st == .remote

/-- the capacity it enforces: the size of the limiter `GetOrDefault` hands out (`none`: no schema, system default) -/
def enforced (st : RemoteLimiter.State) : Option Int := (RemoteLimiter.observe gwCfg st).lim.map limSize

/-! ## the loop -/

structure State where
  nShards : Nat
  /-- the upstreams of the loop are `0 … nUp−1` -/
  nUp : Nat
  srv : Server
  gws : List Gw
deriving Repr

def init (nShards nGw nUp : Nat) (k8s : Bool) : State :=
  { nShards := nShards
    nUp := nUp
    srv := ⟨k8s, [], [], [], [], [], []⟩
    gws := (List.range nGw).map (fun i => ⟨i, true, true, freshUps nShards nUp, []⟩) }

inductive Op
  /-- the UpstreamCluster object of `u` in the limiter server's lister now configures global limit `t` -/
  | list (u : Nat) (t : Int)
  /-- the upstream controller delivers `u` to `UpstreamConditionHandler` -/
  | handle (u : Nat)
  /-- gateway `g` syncs the schema of `u`: local limit `l`, global limit `t` (`upstreamLimiter.Sync`) -/
  | gwSchema (g u : Nat) (l t : Int)
  /-- one heartbeat round of gateway `g` at time `now` -/
  | hb (g : Nat) (now : Nat)
  /-- one reconcile of gateway `g` for `u`: `buildLimitConditions` (the quota it holds, taken from its own state),
      `UpdateRateLimitConditionStatus`, `updateFlowControls`. `x`, `m`: outputs of the strategy arithmetic;
      `used`: its usage; `lvl`: the recomputed request level of the upstream. -/
  | report (g u : Nat) (x m : Rat) (used lvl : Int)
  /-- the server's `sync()` at wall-clock `now`: time-out pass, then `leaderCheck` -/
  | tick (now : Nat)
  /-- the server's `cleanupUnknownCondition` -/
  | unknownPass
  /-- the elector's answer for shard `k` changes; the store follows at the next `leaderCheck` -/
  | elect (k : Nat) (b : Bool)
  /-- `OnStartedLeading(k)`: the elector says leader and `startLeading(k)` runs -/
  | gain (k : Nat)
  /-- `OnStoppedLeading(k)`: the elector says not leader and `stopLeading(k)` runs -/
  | lose (k : Nat)
  /-- the network between gateway `g` and the limiter server goes down / comes back -/
  | net (g : Nat) (b : Bool)
  /-- the gateway process dies -/
  | crash (g : Nat)
  /-- a new gateway process starts in slot `g` with identity `id` -/
  | ret (g id : Nat)

/-- the loop's clock is in milliseconds, C09's in nanoseconds -/
def msToNs (t : Nat) : Int := (t : Int) * 1000000

def State.gw (s : State) (g : Nat) : Option Gw := s.gws[g]?

def State.setGw (s : State) (g : Nat) (x : Gw) : State := { s with gws := s.gws.set g x }

section
variable (shardOf : Nat → Nat)

/-- a live gateway that has synced a schema for `u` runs the reconcile loop for it -/
def reports (n : Nat) (x : Gw) (u : Nat) : Bool := x.alive && (x.st n u).cache.isSome

def step (s : State) : Op → State
  | .list u t => { s with srv := { s.srv with listed := aset s.srv.listed u t } }
  | .handle u => { s with srv := s.srv.handle shardOf u }
  | .gwSchema g u l t =>
    match s.gw g with
    | none => s
    | some x =>
      if x.alive then
        let x' := x.apply s.nShards u (.schema (mkSchema l t))
        s.setGw g { x' with fresh := if view (x.st s.nShards u) = some t then x.fresh else x.fresh.filter (· != u) }
      else s
  | .hb g now =>
    match s.gw g with
    | none => s
    | some x =>
      if !x.alive then s
      else if x.net then
        { (s.setGw g (x.heartbeat true (msToNs now))) with srv := s.srv.heartbeat x.id now }
      else s.setGw g (x.heartbeat false (msToNs now))
  | .report g u x m used lvl =>
    match s.gw g with
    | none => s
    | some gw =>
      if !(reports s.nShards gw u && gw.net) then s
      else
        match s.srv.report shardOf u gw.id x m used lvl with
        | (_, none) => s          -- refused: `reconcile` logs the error, nothing is applied
        | (srv', some n) =>
          let gw' := gw.apply s.nShards u (.answer true (mkItem n))
          { (s.setGw g { gw' with fresh := if gw.fresh.contains u then gw.fresh else u :: gw.fresh }) with srv := srv' }
  | .tick now => { s with srv := (s.srv.cleanupTimeout shardOf now).leaderCheck shardOf }
  | .unknownPass => { s with srv := s.srv.cleanupUnknown shardOf }
  | .elect k b => { s with srv := s.srv.elect k b }
  | .gain k => { s with srv := (s.srv.elect k true).startLeading shardOf k }
  | .lose k => { s with srv := (s.srv.elect k false).stopLeading shardOf k }
  | .net g b =>
    match s.gw g with
    | none => s
    | some x => s.setGw g { x with net := b }
  | .crash g =>
    match s.gw g with
    | none => s
    | some x => s.setGw g { x with alive := false }
  | .ret g id =>
    match s.gw g with
    | none => s
    | some x => s.setGw g { x with id := id, alive := true, ups := freshUps s.nShards s.nUp, fresh := [] }

def run (s : State) (ops : List Op) : State := ops.foldl (step shardOf) s

end

/-! ## the executable twin: filling the strategy outputs from C07's Float twin of `calculateNextQuota`

What the script supplies for a report is the usage figure only; the quota claimed is the gateway's own
(`raw`), the request level is what `getRateLimitItemStatus` computes from both, the recorded sum / level / client
count are the server's. -/

/-- `int32(float64(inflight) / float64(remoteConfig.Max) * 100)`, 0 before the first answer -/
def levelOf (used : Int) (rawq : Option Int) : Int :=
  match rawq with
  | none => 0
  | some q => (Float.ofInt used / Float.ofInt q * 100).toInt32.toInt

/-- `calculateUpstreamCondition`: `int32(Σ used/total · 100)` over the stored conditions -/
def recLevelOf (total : Int) (used : List (Nat × Int)) : Int :=
  let lvl : Float := used.foldl (fun acc p => acc + Float.ofInt p.2 / Float.ofInt total) 0
  (lvl * 100).toInt32.toInt

/-- the inputs of `calculateNextQuota` for a report of instance `i` claiming `claim` with usage `used` -/
def floatIn (e : UpStore) (clients : Nat) (i : Nat) (claim used : Int) (rawq : Option Int) : Alloc.In :=
  { total := e.srv.total, totalBurst := 0, allocated := e.srv.recSum, upstreamLevel := e.recLevel,
    current := claim, recorded := e.quotaOf i, used := used, level := levelOf used rawq, clients := clients,
    tokenBucket := false }

/-- a script op: like `Op`, the report carrying the usage only -/
inductive SOp
  | op (o : Op)
  | report (g u : Nat) (used : Int)

/-- the model op a script op stands for in state `s`, and whether the exact tail reproduces the Float twin's answer
    (`none`: no report is served, or the Float twin panics) -/
def fill (shardOf : Nat → Nat) (s : State) : SOp → Op × Option Bool
  | .op o => (o, none)
  | .report g u used =>
    match s.gw g with
    | none => (.report g u 0 0 used 0, none)
    | some gw =>
      match s.srv.serving shardOf u with
      | none => (.report g u 0 0 used 0, none)
      | some e =>
        let rawq := raw (gw.st s.nShards u)
        match Alloc.calcNextQuota (F := Float) (floatIn e s.srv.hb.length gw.id (rawq.getD 0) used rawq) with
        | .error _ => (.report g u 0 0 used 0, none)
        | .ok (n, _) =>
          let lvl := recLevelOf e.srv.total (aset e.used gw.id used)
          (.report g u (n : Rat) (n : Rat) used lvl, some (Alloc.answer e.srv gw.id (n : Rat) (n : Rat) == n))

end KG.Model.LimiterLoop
