import KG.Base.Json
/-!
# Model of rule matching (C01, C17)

Mirrors, function by function,
* `pkg/apis/proxy/v1alpha1/evaluation_helpers.go` (`filterRules`, `simpleMatches`, the seven field matchers),
* `pkg/clusters/matcher.go` (`RuleMatches`, `PolicyMatches`, `MatchPolicies`),
* `plugin/admission/upstreamcluster/admission.go` (`filterRules`, `normalizeRules`).

Strings are byte lists (`Str`): Go's `==`, `r[0]=='-'`, `r[1:]`, `HasPrefix`, `HasSuffix`,
`TrimRight(s,"*")` are byte operations (`*`, `-`, `/`, `:` are ASCII).
-/
namespace KG.Model.Match
open KG

def star : Str := [42]          -- "*"
def dash : UInt8 := 45          -- '-'
def slash : UInt8 := 47         -- '/'

/-- `len(r) > 0 && r[0] == '-'` -/
def inverted : Str → Bool
  | c :: _ => c == dash
  | [] => false

/-- `r[1:]` of an inverted entry -/
def strip (x : Str) : Str := x.drop 1

structure Matcher where
  reverse : Bool
  value : Str
deriving DecidableEq, Repr

/-- The loop of `filterRules` (evaluation_helpers.go): accumulators `filtered`, `reversed`;
    `break` with `matchAll = true` at the first `"*"`. -/
def filterLoop : List Str → List Matcher → List Matcher → List Matcher × List Matcher × Bool
  | [], f, r => (f, r, false)
  | x :: xs, f, r =>
    if x = star then (f, r, true)
    else if inverted x then filterLoop xs f (r ++ [⟨true, strip x⟩])
    else filterLoop xs (f ++ [⟨false, x⟩]) r

/-- `filterRules(rules) (filtered []matcher, matchAll bool)` -/
def filterRules (rules : List Str) : List Matcher × Bool :=
  match filterLoop rules [] [] with
  | (f, r, all) => if f.length > 0 then (f, all) else (r, all)

/-- `simpleMatches(rules, requests, matchFn...)`; `extra v` is the (at most one) closure applied to the
    entry's value. The Go loop returns `!reverse` at the first hit and `reverse` otherwise. -/
def simpleMatches (rules requests : List Str) (extra : Str → Bool) : Bool :=
  match filterRules rules with
  | (filtered, all) =>
    if all then true
    else match filtered with
      | [] => false
      | m :: _ =>
        if filtered.any (fun v => requests.any (fun q => v.value == q) || extra v.value)
        then !m.reverse else m.reverse

/-- `strings.HasPrefix` -/
def hasPrefix : Str → Str → Bool
  | _, [] => true
  | [], _ :: _ => false
  | a :: s, b :: p => a == b && hasPrefix s p

def hasSuffix (s suf : Str) : Bool := hasPrefix s.reverse suf.reverse

/-- `strings.TrimRight(s, "*")` -/
def trimRightStar (s : Str) : Str := (s.reverse.dropWhile (· == 42)).reverse

/-- the glob closure shared by users and non-resource URLs:
    `HasSuffix(v,"*") && HasPrefix(request, TrimRight(v,"*"))` -/
def globMatch (v request : Str) : Bool :=
  hasSuffix v star && hasPrefix request (trimRightStar v)

structure SA where
  ns : Str
  name : Str
deriving DecidableEq, Repr

def saPrefix : Str := Str.ofString "system:serviceaccount:"
def makeSAUsername (ns name : Str) : Str := saPrefix ++ ns ++ [58] ++ name

structure Rule where
  verbs : List Str
  apiGroups : List Str
  resources : List Str
  resourceNames : List Str
  users : List Str
  serviceAccounts : List SA
  userGroups : List Str
  nonResourceURLs : List Str
deriving DecidableEq, Repr

/-- what `authorizer.Attributes` exposes to `RuleMatches` -/
structure Attrs where
  verb : Str
  user : Str
  groups : List Str
  isResource : Bool
  apiGroup : Str
  resource : Str
  subresource : Str
  name : Str
  path : Str
deriving DecidableEq, Repr

def verbMatches (verbs : List Str) (q : Str) : Bool := simpleMatches verbs [q] (fun _ => false)
def apiGroupMatches (gs : List Str) (q : Str) : Bool := simpleMatches gs [q] (fun _ => false)

def resourceMatches (rs : List Str) (combined sub : Str) : Bool :=
  simpleMatches rs [combined] (fun v => if sub.length == 0 then false else v == star ++ [slash] ++ sub)

def resourceNameMatches (ns : List Str) (q : Str) : Bool :=
  if ns.length == 0 then true else simpleMatches ns [q] (fun _ => false)

def userOrSAMatches (users : List Str) (sas : List SA) (q : Str) : Bool :=
  if users.length == 0 && sas.length == 0 then true
  else if simpleMatches users [q] (fun v => globMatch v q) then true
  else sas.any (fun sa => !(sa.ns.length == 0 || sa.name.length == 0) && makeSAUsername sa.ns sa.name == q)

def userGroupMatches (gs : List Str) (q : List Str) : Bool :=
  if gs.length == 0 then true else simpleMatches gs q (fun _ => false)

def nonResourceURLMatches (urls : List Str) (q : Str) : Bool :=
  match filterRules urls with
  | (filtered, all) =>
    if all then true
    else filtered.any (fun v => !v.reverse && (v.value == q || globMatch v.value q))

def combinedResource (a : Attrs) : Str :=
  if a.subresource.length > 0 then a.resource ++ [slash] ++ a.subresource else a.resource

/-- `RuleMatches` (pkg/clusters/matcher.go) -/
def ruleMatches (a : Attrs) (r : Rule) : Bool :=
  let basic := verbMatches r.verbs a.verb && userOrSAMatches r.users r.serviceAccounts a.user &&
    userGroupMatches r.userGroups a.groups
  if !basic then false
  else if a.isResource then
    apiGroupMatches r.apiGroups a.apiGroup && resourceMatches r.resources (combinedResource a) a.subresource &&
      resourceNameMatches r.resourceNames a.name
  else nonResourceURLMatches r.nonResourceURLs a.path

abbrev Policy := List Rule

def policyMatches (a : Attrs) (p : Policy) : Bool := p.any (ruleMatches a)

/-- `MatchPolicies`: index of the first matching policy. -/
def matchPolicies (a : Attrs) : List Policy → Option Nat
  | [] => none
  | p :: ps => if policyMatches a p then some 0 else (matchPolicies a ps).map (· + 1)

/-! ## `ClusterInfo.MatchAttributes` (pkg/clusters/clusterinfo.go): what a matched request is routed under -/

def logOn : Str := Str.ofString "on"
def logOff : Str := Str.ofString "off"
def systemDefault : Str := Str.ofString "system-default"

/-- `isLogEnabled(upstream, policy)` -/
def isLogEnabled (upstream policy : Str) : Bool :=
  if upstream == logOff || policy == logOff then false
  else if upstream == logOn || policy == logOn then true
  else false

/-- the fields of a `DispatchPolicy` that `MatchAttributes` reads -/
structure PolicyCfg where
  rules : Policy
  flowControlSchemaName : Str
  upstreamSubset : List Str
  logMode : Str
deriving Repr

structure Picker where
  policy : Nat               -- index of the policy the request is handled under
  flowControlName : Str
  upstreams : List Str
  enableLog : Bool
deriving Repr, DecidableEq

/-- `MatchAttributes`: `none` is `ErrNoRouterRuleMatches` -/
def matchAttributes (a : Attrs) (ps : List PolicyCfg) (allEndpoints : List Str) (loggingMode : Str) : Option Picker :=
  match matchPolicies a (ps.map (·.rules)) with
  | none => none
  | some i =>
    match ps[i]? with
    | none => none
    | some p => some
      { policy := i
        flowControlName := if p.flowControlSchemaName.length == 0 then systemDefault else p.flowControlSchemaName
        upstreams := if p.upstreamSubset.length != 0 then p.upstreamSubset else allEndpoints
        enableLog := isLogEnabled loggingMode p.logMode }

/-! ## Admission normaliser (plugin/admission/upstreamcluster/admission.go) -/

def normLoop : List Str → List Str → List Str → List Str × List Str × Bool
  | [], f, r => (f, r, false)
  | x :: xs, f, r =>
    if x = star then (f, r, true)
    else if inverted x then normLoop xs f (r ++ [x])
    else normLoop xs (f ++ [x]) r

/-- admission `filterRules(rules) []string` -/
def normField (rules : List Str) : List Str :=
  match normLoop rules [] [] with
  | (f, r, all) => if all then [star] else if f.length > 0 then f else r

def normalizeRule (r : Rule) : Rule :=
  { verbs := normField r.verbs, apiGroups := normField r.apiGroups, resources := normField r.resources,
    resourceNames := normField r.resourceNames, users := normField r.users,
    serviceAccounts := r.serviceAccounts, userGroups := normField r.userGroups,
    nonResourceURLs := normField r.nonResourceURLs }

end KG.Model.Match
