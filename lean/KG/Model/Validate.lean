import KG.Base.Json
import KG.Gen.C16
/-!
# Model of admission validation and of the code that consumes validated objects (C16)

Mirrors, function by function,
* `pkg/apis/proxy/v1alpha1/validation/validation.go` — every `Validate*` function reached from
  `ValidateUpstreamCluster` (`ValidateRule` is not called by the code and not called here; the list of callees is
  regenerated as `Gen.C16.specValidators`),
* `plugin/admission/upstreamcluster/admission.go` — `Validate` (feature-gate annotation, name conflicts),
* the gateway side: `pkg/clusters/util.go` (`buildClusterRESTConfig`), client-go's `TLSConfigFor`,
  `pkg/clusters/clusterinfo.go` (`CreateClusterInfo`, `Sync`, `syncFeatureGate`, `syncSecureServingConfigLocked`,
  `syncEndpoints`, `addOrUpdateEndpoint`), `pkg/flowcontrols/limiter.go` (`syncLocalFlowControls`),
  `pkg/flowcontrols/remote/flowcontrol_wrapper.go` (`localWrapper.Sync`, `remoteWrapper.Sync`, `newFlowControl`),
  `pkg/flowcontrols/flowcontrol/flowcontrol.go` (`GuessFlowControlSchemaType`, `NewFlowControl`, `Resize`),
  `pkg/flowcontrols/remote/global_flowcontrol.go` (`newFlowControlCounter`),
  `pkg/flowcontrols/remote/remote_allocation.go` (`updateGlobalCuntFlowControls`, `buildLimitConditions`,
  `updateFlowControls`), `pkg/gateway/controllers/upstream_controller.go` (`syncUpstreamCluster`),
* the limiter server: `pkg/ratelimiter/limiter/ratelimter.go` (`UpstreamConditionHandler`, `toFlowControlLimit`,
  `updateUpstreamStateCondition`, `UpdateRateLimitConditionStatus`, `calculateUpstreamCondition`),
  `pkg/ratelimiter/store/local/upstreamcondition.go` (`syncLocalFlowControls`),
  `pkg/ratelimiter/store/flowcontrol/global_flowcontrol.go` (`NewGlobalFlowControl`).

Conventions: Go's `len(x) == 0` / `len(x) > 0` are written `x = []` / `x ≠ []`; pointers are `Option`, every Go dereference is an explicit `deref` (a `none` is a Go panic), a returned
Go `error` is `Err.err`; `int32`→`uint32` conversions are `toU32`. External parsers are fields of `Env`
(parameters of every theorem); strings are byte lists.
-/
namespace KG.Model.Validate
open KG

/-! ## Errors, the monad -/

inductive Err where
  | panic (what : String)   -- a Go run-time panic (nil dereference)
  | err (what : String)     -- a returned `error` (or a requeue result of the controller)
deriving Repr, DecidableEq, Inhabited

abbrev M := Except Err

/-- `*p` -/
def deref {α : Type} (what : String) : Option α → M α
  | some a => pure a
  | none => throw (.panic ("nil pointer dereference: " ++ what))

def isPanic {α : Type} : M α → Bool
  | .error (.panic _) => true
  | _ => false

def isOk {α : Type} : M α → Bool
  | .ok _ => true
  | _ => false

/-- `uint32(x)` of an `int32` -/
def toU32 (x : Int) : Nat := (x % 4294967296).toNat

/-! ## field.ErrorList -/

inductive ErrType where
  | required | invalid | duplicate | forbidden
  | other       -- the remaining field.ErrorType values (only `ValidateObjectMeta` produces them)
deriving Repr, DecidableEq, Inhabited

structure FieldErr where
  typ : ErrType
  path : String
deriving Repr, DecidableEq, Inhabited

abbrev Errs := List FieldErr

def child (p c : String) : String := p ++ "." ++ c
def index (p : String) (i : Nat) : String := p ++ "[" ++ toString i ++ "]"
def key (p k : String) : String := p ++ "[" ++ k ++ "]"

def required (p : String) : FieldErr := ⟨.required, p⟩
def invalid (p : String) : FieldErr := ⟨.invalid, p⟩
def duplicate (p : String) : FieldErr := ⟨.duplicate, p⟩
def forbidden (p : String) : FieldErr := ⟨.forbidden, p⟩

/-- `if c { allErrs = append(allErrs, e) }` -/
def errIf (c : Bool) (e : FieldErr) : Errs := if c then [e] else []

/-! ## The environment: external parsers and oracles -/

/-- what the code reads of a `*url.URL` -/
structure URL where
  scheme : Str
  host : Str
deriving Repr, DecidableEq

structure Env where
  /-- `url.Parse(s)`; `none` = error -/
  urlParse : Str → Option URL
  /-- `tls.X509KeyPair(cert, key)` succeeds -/
  x509KeyPair : Str → Str → Bool
  /-- `certutil.ParseCertsPEM(data)` succeeds -/
  parseCertsPEM : Str → Bool
  /-- `features.DefaultMutableFeatureGate.DeepCopy().Set(v)`: `none` = error, `some b` = succeeds and
      `Enabled(GlobalRateLimiter) = b` afterwards -/
  featureGateSet : Str → Option Bool
  /-- `kubernetes.NewForConfig` accepts the endpoint as `Host` (`rest.DefaultServerURL`) -/
  restHostOK : Str → Bool
  /-- `strings.ToLower` -/
  lower : Str → Str
  /-- which element `sets.String.PopAny` returns from a two-element set (Go map iteration order) -/
  popFirst : Bool

/-! ## The object -/

structure TokenBucket where
  qps : Int
  burst : Int
deriving Repr, DecidableEq

/-- `FlowControlSchema`: the five members are pointers -/
structure Schema where
  name : Str
  strategy : Str
  exempt : Bool                          -- `Exempt != nil` (the struct has no fields)
  maxRequestsInflight : Option Int
  tokenBucket : Option TokenBucket
  globalMaxRequestsInflight : Option Int
  globalTokenBucket : Option TokenBucket
deriving Repr, DecidableEq

structure Server where
  endpoint : Str
  disabled : Option Bool
deriving Repr, DecidableEq

structure ClientConfig where
  insecure : Bool
  bearerToken : Str
  keyData : Str
  certData : Str
  caData : Str
  qps : Int
  burst : Int
  qpsDivisor : Int
deriving Repr, DecidableEq

structure SecureServing where
  keyData : Str
  certData : Str
  clientCAData : Str
  serverNames : List Str
deriving Repr, DecidableEq

structure Policy where
  strategy : Str
  upstreamSubset : List Str
  nRules : Nat                           -- `len(policy.Rules)`; rules themselves are not validated (C01/C17)
  flowControlSchemaName : Str
  logMode : Str
deriving Repr, DecidableEq

/-- an UpstreamCluster known to the lister (name conflicts) -/
structure Known where
  name : Str
  serverNames : List Str
deriving Repr, DecidableEq

/-- the life-cycle part of `ObjectMeta` (and the labels): what the API server presents of an object in the states it
    can be in - fresh, updated, terminating (`deletionTimestamp` set, finalizers pending), with any generation,
    resource version, managed fields, owner references. Their syntax is judged by `ValidateObjectMeta` (`metaErrs`);
    apart from that nothing in the validation or in a consumer reads them. -/
structure Lifecycle where
  terminating : Bool := false
  finalizers : List Str := []
  generation : Int := 0
  resourceVersion : Str := []
  managedFields : Nat := 0
  ownerReferences : Nat := 0
  labels : List (Str × Str) := []
deriving Repr, DecidableEq

structure Cluster where
  name : Str
  /-- the answer of `apivalidation.ValidateObjectMeta(&cluster.ObjectMeta, false, NameIsDNSSubdomain, metadata)` -/
  metaErrs : Errs
  /-- `nil` map vs map -/
  annotations : Option (List (Str × Str))
  servers : List Server
  clientConfig : ClientConfig
  secureServing : SecureServing
  schemas : List Schema
  loggingMode : Str
  policies : List Policy
  lifecycle : Lifecycle := {}
deriving Repr, DecidableEq

/-! ## String constants -/

def sHttp : Str := [104, 116, 116, 112]                          -- "http"
def sHttps : Str := [104, 116, 116, 112, 115]                    -- "https"
def sHttpPrefix : Str := [104, 116, 116, 112, 58, 47, 47]        -- "http://"
def sHttpsPrefix : Str := [104, 116, 116, 112, 115, 58, 47, 47]  -- "https://"
def sLogOn : Str := Str.ofString Gen.C16.logOn
def sLogOff : Str := Str.ofString Gen.C16.logOff
def sLocalLimit : Str := Str.ofString Gen.C16.localLimit
def sGlobalAllocateLimit : Str := Str.ofString Gen.C16.globalAllocateLimit
def sGlobalCountLimit : Str := Str.ofString Gen.C16.globalCountLimit
def sRoundRobin : Str := Str.ofString Gen.C16.roundRobin
def sFeatureGateKey : Str := Str.ofString Gen.C16.featureGateAnnotationKey

/-- `strings.HasPrefix` -/
def hasPrefix : Str → Str → Bool
  | _, [] => true
  | [], _ :: _ => false
  | a :: s, b :: p => a == b && hasPrefix s p

/-! ## validation.go -/

/-- `getURLScheme` -/
def getURLScheme (server : Str) : Str :=
  if hasPrefix server sHttpPrefix then sHttp
  else if hasPrefix server sHttpsPrefix then sHttps
  else []

/-- `sets.String.Insert` on a duplicate-free list -/
def setInsert (s : List Str) (x : Str) : List Str := if s.contains x then s else s ++ [x]

/-- `sets.String.PopAny`: `("", false)` on the empty set; with two elements the element returned depends on
    Go's map iteration order (`env.popFirst`) -/
def popAny (env : Env) : List Str → Str
  | [] => []
  | [a] => a
  | a :: b :: _ => if env.popFirst then a else b

/-- one iteration of the loop of `ValidateServers`: the errors and the scheme inserted into `schemes` -/
def validateServer (env : Env) (fldPath : String) (i : Nat) (s : Server) : Errs × Option Str :=
  let scheme := getURLScheme s.endpoint
  if scheme = [] then
    ([invalid (index (child fldPath "servers") i)], none)
  else match env.urlParse s.endpoint with
    | none => ([invalid (child (index fldPath i) "endpoint")], none)
    | some u =>
      if u.host = [] then ([invalid (child (index fldPath i) "endpoint")], none)
      else ([], some scheme)

/-- the loop of `ValidateServers` -/
def validateServersLoop (env : Env) (fldPath : String) : Nat → List Server → List Str → Errs × List Str
  | _, [], schemes => ([], schemes)
  | i, s :: rest, schemes =>
    let r := validateServer env fldPath i s
    let schemes' := match r.2 with
      | some sc => setInsert schemes sc
      | none => schemes
    let t := validateServersLoop env fldPath (i + 1) rest schemes'
    (r.1 ++ t.1, t.2)

structure ServersResult where
  upstreams : List Str
  scheme : Str
  errs : Errs

/-- `ValidateServers(servers, fldPath) (upstreams, scheme, errs)` -/
def validateServers (env : Env) (servers : List Server) (fldPath : String) : ServersResult :=
  let e0 := errIf (servers = []) (required (child fldPath "servers"))
  let l := validateServersLoop env fldPath 0 servers []
  let e2 := errIf (l.2.length > 1) (invalid (child fldPath "servers"))
  { upstreams := servers.map (·.endpoint), scheme := popAny env l.2, errs := e0 ++ l.1 ++ e2 }

/-- the `if scheme == "https"` block of `ValidateClientConfig` -/
def validateClientConfigHTTPS (c : ClientConfig) (fldPath : String) : Errs :=
  let hasToken := c.bearerToken ≠ []
  let hasKey := c.keyData ≠ []
  let hasCert := c.certData ≠ []
  errIf (!c.insecure && c.caData = []) (required (child fldPath "caData")) ++
  errIf (c.insecure && c.caData ≠ []) (forbidden (child fldPath "caData")) ++
  (if !hasToken && !hasKey && !hasCert then [required "spec.clientConfig"]
   else if hasKey || hasCert then
     errIf (!hasKey) (required (child fldPath "keyData")) ++ errIf (!hasCert) (required (child fldPath "certData"))
   else errIf (!hasToken) (required (child fldPath "bearerToken")))

/-- `ValidateClientConfig(scheme, clientconfig, fldPath)` -/
def validateClientConfig (env : Env) (scheme : Str) (c : ClientConfig) (fldPath : String) : Errs :=
  errIf (c.qps < 0) (invalid (child fldPath "qps")) ++
  errIf (c.burst < 0) (invalid (child fldPath "burst")) ++
  errIf (c.qpsDivisor < 0) (invalid (child fldPath "qpsDivisor")) ++
  errIf (c.qps > 0 && c.burst < c.qps) (invalid (child fldPath "burst")) ++
  (if scheme = sHttps then validateClientConfigHTTPS c fldPath else []) ++
  (if c.keyData ≠ [] && c.certData ≠ [] then
     (if env.x509KeyPair c.certData c.keyData then []
      else [invalid (child fldPath "certData"), invalid (child fldPath "keyData")])
   else []) ++
  (if c.caData ≠ [] then
     errIf (!env.parseCertsPEM c.caData) (invalid "spec.ClientConfig.CAData")
   else [])

/-- `ValidateSecureServing` -/
def validateSecureServing (env : Env) (s : SecureServing) (fldPath : String) : Errs :=
  (if s.certData ≠ [] && s.keyData ≠ [] then
     (if env.x509KeyPair s.certData s.keyData then []
      else [invalid (child fldPath "certData"), invalid (child fldPath "keyData")])
   else []) ++
  (if s.clientCAData ≠ [] then
     errIf (!env.parseCertsPEM s.clientCAData) (invalid (child fldPath "clientCAData"))
   else [])

/-- `validateTokenBucketFlowControlSchema(tokenBucket, fldPath)` (the pointer was dereferenced by the caller) -/
def validateTokenBucketFlowControlSchema (tb : TokenBucket) (fldPath : String) : Errs :=
  errIf (tb.qps ≤ 0) (invalid (child fldPath "qps")) ++
  errIf (tb.burst < tb.qps) (invalid (child fldPath "burst"))

/-- `ValidateFlowControlConfiguration`, the `MaxRequestsInflight` block: new `numConfig` and errors -/
def vfcMaxRequestsInflight (s : Schema) (fldPath : String) (numConfig : Nat) : M (Nat × Errs) :=
  if s.maxRequestsInflight.isSome then
    if numConfig > 0 then pure (numConfig, [forbidden (child fldPath "maxRequestsInflight")])
    else do
      let m ← deref "schema.MaxRequestsInflight" s.maxRequestsInflight
      pure (numConfig + 1, errIf (m < 0) (invalid (child (child fldPath "maxRequestsInflight") "max")))
  else pure (numConfig, [])

/-- the `GlobalMaxRequestsInflight` block (the value reported in both errors is `schema.GlobalMaxRequestsInflight.Max`) -/
def vfcGlobalMaxRequestsInflight (s : Schema) (fldPath : String) : M Errs :=
  if s.globalMaxRequestsInflight.isSome then do
    let g ← deref "schema.GlobalMaxRequestsInflight" s.globalMaxRequestsInflight
    let e1 := errIf (g < 0) (invalid (child (child fldPath "globalMaxRequestsInflight") "max"))
    if s.maxRequestsInflight.isNone then
      pure (e1 ++ [required (child fldPath "maxRequestsInflight")])
    else do
      let m ← deref "schema.MaxRequestsInflight" s.maxRequestsInflight
      pure (e1 ++ errIf (g < m) (invalid (child (child fldPath "globalMaxRequestsInflight") "max")))
  else pure []

/-- the `TokenBucket` block -/
def vfcTokenBucket (s : Schema) (fldPath : String) (numConfig : Nat) : M (Nat × Errs) :=
  if s.tokenBucket.isSome then
    if numConfig > 0 then pure (numConfig, [forbidden (child fldPath "tokenBucket")])
    else do
      let tb ← deref "schema.TokenBucket" s.tokenBucket
      pure (numConfig + 1, validateTokenBucketFlowControlSchema tb (child fldPath "tokenBucket"))
  else pure (numConfig, [])

/-- the `GlobalTokenBucket` block -/
def vfcGlobalTokenBucket (s : Schema) (fldPath : String) : M Errs :=
  if s.globalTokenBucket.isSome then do
    let g ← deref "schema.GlobalTokenBucket" s.globalTokenBucket
    let e1 := errIf (g.qps ≤ 0) (invalid (child (child fldPath "globalTokenBucket") "qps"))
    if s.tokenBucket.isNone then
      pure (e1 ++ [required (child fldPath "tokenBucket")])
    else do
      let tb ← deref "schema.TokenBucket" s.tokenBucket
      pure (e1 ++
        (if g.qps < tb.qps then [invalid (child (child fldPath "globalTokenBucket") "qps")]
         else if g.burst < tb.burst then [invalid (child (child fldPath "globalTokenBucket") "burst")]
         else []))
  else pure []

/-- `ValidateFlowControlConfiguration(schema, fldPath)` -/
def validateFlowControlConfiguration (s : Schema) (fldPath : String) : M Errs := do
  let n0 : Nat := if s.exempt then 1 else 0
  let (n1, e1) ← vfcMaxRequestsInflight s fldPath n0
  let e2 ← vfcGlobalMaxRequestsInflight s fldPath
  let (n2, e3) ← vfcTokenBucket s fldPath n1
  let e4 ← vfcGlobalTokenBucket s fldPath
  pure (e1 ++ e2 ++ e3 ++ e4 ++ errIf (n2 == 0) (required fldPath))

/-- the `switch fs.Strategy` of `ValidateFlowControl` -/
def strategyOK (st : Str) : Bool :=
  st = sLocalLimit || st = sGlobalAllocateLimit || st = sGlobalCountLimit || st = []

/-- the loop of `ValidateFlowControl`: `names` is `flowControlSchemaNames` -/
def validateFlowControlLoop (fldPath : String) : Nat → List Schema → List Str → M (List Str × Errs)
  | _, [], names => pure (names, [])
  | i, fs :: rest, names => do
    let p := index fldPath i
    let e1 :=
      if fs.name = [] then [required (child p "name")]
      else if names.contains fs.name then [duplicate (child p "name")]
      else []
    let names' := if fs.name = [] then names else setInsert names fs.name
    let e2 := errIf (!strategyOK fs.strategy) (invalid (child p "strategy"))
    let e3 ← validateFlowControlConfiguration fs p
    let (ns, es) ← validateFlowControlLoop fldPath (i + 1) rest names'
    pure (ns, e1 ++ e2 ++ e3 ++ es)

/-- `ValidateFlowControl(flowcontrol, fldPath) (names, errs)` -/
def validateFlowControl (schemas : List Schema) (fldPath : String) : M (List Str × Errs) :=
  validateFlowControlLoop (child fldPath "flowControlSchemas") 0 schemas []

def logModeOK (m : Str) : Bool := m = sLogOff || m = sLogOn || m = []

/-- `ValidateLoggingConfig` -/
def validateLoggingConfig (mode : Str) (fldPath : String) : Errs :=
  errIf (!logModeOK mode) (invalid (child fldPath "mode"))

/-- the loop over `policy.UpstreamSubset` -/
def validateSubset (upstreams : List Str) (fldPath : String) : Nat → List Str → Errs
  | _, [] => []
  | j, u :: rest =>
    errIf (!upstreams.contains u) (invalid (index (child fldPath "upstreamSubset") j)) ++
      validateSubset upstreams fldPath (j + 1) rest

/-- `ValidateDispatchPolicy(upstreams, flowControlSchemaNames, policy, fldPath)` -/
def validateDispatchPolicy (upstreams names : List Str) (p : Policy) (fldPath : String) : Errs :=
  errIf (p.strategy ≠ sRoundRobin) (invalid (child fldPath "strategy")) ++
  validateSubset upstreams fldPath 0 p.upstreamSubset ++
  errIf (p.flowControlSchemaName ≠ [] && !names.contains p.flowControlSchemaName)
    (invalid (child fldPath "flowControlSchemaName")) ++
  errIf (p.nRules == 0) (required (child fldPath "rules")) ++
  errIf (!logModeOK p.logMode) (invalid (child fldPath "mode"))

def validatePolicies (upstreams names : List Str) (fldPath : String) : Nat → List Policy → Errs
  | _, [] => []
  | i, p :: rest =>
    validateDispatchPolicy upstreams names p (index (child fldPath "dispatchPolicies") i) ++
      validatePolicies upstreams names fldPath (i + 1) rest

/-- `ValidateUpstreamClusterSpec(spec, fldPath)` -/
def validateUpstreamClusterSpec (env : Env) (c : Cluster) (fldPath : String) : M Errs := do
  let sr := validateServers env c.servers (child fldPath "servers")
  let e1 := validateClientConfig env sr.scheme c.clientConfig (child fldPath "clientConfig")
  let e2 := validateSecureServing env c.secureServing (child fldPath "secureServing")
  let (names, e3) ← validateFlowControl c.schemas (child fldPath "flowControl")
  let e4 := validateLoggingConfig c.loggingMode (child fldPath "logging")
  let e5 := errIf (c.policies = []) (required (child fldPath "dispatchPolicies"))
  let e6 := validatePolicies sr.upstreams names fldPath 0 c.policies
  pure (sr.errs ++ e1 ++ e2 ++ e3 ++ e4 ++ e5 ++ e6)

/-- `ValidateUpstreamCluster(cluster)` -/
def validateUpstreamCluster (env : Env) (c : Cluster) : M Errs := do
  let e ← validateUpstreamClusterSpec env c "spec"
  pure (c.metaErrs ++ e)

/-! ## plugin/admission/upstreamcluster: `Validate` -/

/-- Go map index: `m[k]`, `""` when absent (also on a nil map) -/
def mapGet : List (Str × Str) → Str → Str
  | [], _ => []
  | (k, v) :: rest, x => if k = x then v else mapGet rest x

/-- the `if cluster.Annotations != nil` block -/
def validateFeatureGate (env : Env) (c : Cluster) : Errs :=
  match c.annotations with
  | none => []
  | some m =>
    let featuregate := mapGet m sFeatureGateKey
    if featuregate ≠ [] then
      errIf (env.featureGateSet featuregate).isNone
        (invalid (key (child "metadata" "annotations") Gen.C16.featureGateAnnotationKey))
    else []

/-- the inner loops of the conflict check for one other cluster: `s` ranges over its name and server names -/
def conflictsWith (env : Env) (clusterName : Str) (serverNames : List Str) : List Str → Errs
  | [] => []
  | s :: rest =>
    errIf (env.lower clusterName = env.lower s) (invalid (child "metadata" "name")) ++
    (serverNames.filter (fun sn => env.lower sn = env.lower s)).map
      (fun _ => invalid (child (child "spec" "secureServing") "serverNames")) ++
    conflictsWith env clusterName serverNames rest

/-- the conflict check of `Validate` against the clusters known to the lister -/
def validateConflicts (env : Env) (c : Cluster) : List Known → Errs
  | [] => []
  | u :: rest =>
    let clusterName := env.lower c.name
    (if env.lower u.name = clusterName then []
     else conflictsWith env clusterName c.secureServing.serverNames (u.name :: u.serverNames)) ++
    validateConflicts env c rest

/-- `upstreamclusterPlugin.Validate` (the informer cache is ready, the lister does not fail):
    the aggregate is `nil` iff the list is empty -/
def validate (env : Env) (known : List Known) (c : Cluster) : M Errs := do
  let e ← validateUpstreamCluster env c
  pure (e ++ validateFeatureGate env c ++ validateConflicts env c known)


/-- `admission.Operation` (the plugin handles Create and Update) -/
inductive Operation where
  | create | update
  | statusUpdate      -- an update through the `status` subresource
deriving Repr, DecidableEq, Inhabited

/-- `upstreamclusterPlugin.Admit`: `SetDefaults_UpstreamCluster` gives every policy without strategy `RoundRobin`
    (the rule normalisation that follows is C17's subject; rules are not part of this model). Runs before `Validate`;
    does not read the old object. -/
def admitObject (c : Cluster) : Cluster :=
  { c with policies := c.policies.map (fun p => if p.strategy = [] then { p with strategy := sRoundRobin } else p) }

/-- `Admit` with the operation: requests on a subresource are ignored (`shouldIgnore`) -/
def admitAdmission (op : Operation) (c : Cluster) : Cluster :=
  match op with
  | .statusUpdate => c
  | _ => admitObject c

/-- the generic registry's `DefaultStatusRESTStrategy.PrepareForUpdate(obj, old)`: a write through the status
    subresource keeps the stored spec and labels and takes everything else - the annotations - from the request -/
def prepareForStatusUpdate (old new : Cluster) : Cluster :=
  { new with servers := old.servers, clientConfig := old.clientConfig, secureServing := old.secureServing,
             schemas := old.schemas, loggingMode := old.loggingMode, policies := old.policies,
             lifecycle := { new.lifecycle with labels := old.lifecycle.labels } }

/-- `upstreamclusterPlugin.Validate(ctx, attributes, o)` with the admission attributes spelled out: the operation
    and `a.GetOldObject()`; `c` is `a.GetObject()` (for a status write: after `PrepareForUpdate`). The code does not
    read the old object; the operation only matters through `shouldIgnore(a) && !isStatusUpdate(a)`: a status write
    is validated like every other update iff that is the guard (`Gen.C16.statusValidated`), else it is skipped. -/
def validateAdmission (env : Env) (known : List Known) (op : Operation) (_old : Option Cluster) (c : Cluster) : M Errs :=
  if op = .statusUpdate && !Gen.C16.statusValidated then pure []
  else validate env known c

/-! ## Generic loops -/

/-- a Go `for _, a := range l { ... }` whose body can panic / return an error and yields a value -/
def mapM' {α β : Type} (f : α → M β) : List α → M (List β)
  | [] => pure []
  | a :: l => do
    let b ← f a
    let bs ← mapM' f l
    pure (b :: bs)

/-- a Go `for _, a := range l { ... }` whose body updates a state -/
def foldM' {σ α : Type} (f : σ → α → M σ) : σ → List α → M σ
  | s, [] => pure s
  | s, a :: l => do
    let s' ← f s a
    foldM' f s' l

/-- association lists for Go maps keyed by string (`sync.Map`, `map[string]T`) -/
def alGet {β : Type} : List (Str × β) → Str → Option β
  | [], _ => none
  | (k, v) :: rest, x => if k = x then some v else alGet rest x

def alSet {β : Type} : List (Str × β) → Str → β → List (Str × β)
  | [], x, v => [(x, v)]
  | (k, w) :: rest, x, v => if k = x then (k, v) :: rest else (k, w) :: alSet rest x v

def alDel {β : Type} (l : List (Str × β)) (x : Str) : List (Str × β) := l.filter (fun kv => kv.1 ≠ x)

/-! ## pkg/flowcontrols/flowcontrol/flowcontrol.go -/

inductive FCType where
  | unknown | exempt | maxRequestsInflight | tokenBucket
deriving Repr, DecidableEq, Inhabited

/-- `GuessFlowControlSchemaType` -/
def guessFlowControlSchemaType (s : Schema) : FCType :=
  if s.exempt then .exempt
  else if s.maxRequestsInflight.isSome || s.globalMaxRequestsInflight.isSome then .maxRequestsInflight
  else if s.tokenBucket.isSome || s.globalTokenBucket.isSome then .tokenBucket
  else .exempt

/-- a limiter: `flowControl{max}` (`n`), `resizeableTokenBucket{qps, burst}` (`n`, `burst`), all `uint32` -/
structure FlowCtl where
  typ : FCType
  n : Nat
  burst : Nat
deriving Repr, DecidableEq, Inhabited

/-- `NewFlowControl(schema)` -/
def newFlowControl (s : Schema) : M FlowCtl :=
  match guessFlowControlSchemaType s with
  | .maxRequestsInflight => do
    let m ← deref "schema.MaxRequestsInflight" s.maxRequestsInflight
    pure ⟨.maxRequestsInflight, toU32 m, 0⟩
  | .tokenBucket => do
    let tb ← deref "schema.TokenBucket" s.tokenBucket
    pure ⟨.tokenBucket, toU32 tb.qps, toU32 tb.burst⟩
  | t => pure ⟨t, 0, 0⟩

/-- `Resize(n, burst)`: `flowControl.Resize` ignores `burst` -/
def FlowCtl.resize (f : FlowCtl) (n burst : Nat) : FlowCtl :=
  match f.typ with
  | .tokenBucket => { f with n := n, burst := burst }
  | _ => { f with n := n }

/-! ## limit items exchanged with the limiter server (`RateLimitItemConfiguration`, `RateLimitItemStatus`) -/

/-- `LimitItemDetail` -/
structure Detail where
  maxRequestsInflight : Option Int
  tokenBucket : Option TokenBucket
deriving Repr, DecidableEq, Inhabited

structure Item where
  name : Str
  strategy : Str
  detail : Detail
deriving Repr, DecidableEq, Inhabited

structure Status where
  name : Str
  detail : Detail
  requestLevel : Int
deriving Repr, DecidableEq, Inhabited

/-- `RateLimitCondition` of one gateway instance (or the upstream's `.state` condition) -/
structure Condition where
  items : List Item
  statuses : List Status
deriving Repr, DecidableEq, Inhabited

/-- `GetFlowControlTypeFromLimitItem` -/
def getFlowControlTypeFromLimitItem (d : Detail) : FCType :=
  if d.maxRequestsInflight.isSome then .maxRequestsInflight
  else if d.tokenBucket.isSome then .tokenBucket
  else .unknown

/-! ## pkg/flowcontrols/remote/flowcontrol_wrapper.go -/

/-- `EnableGlobalFlowControl(schema)` -/
def enableGlobalFlowControl (s : Schema) : Bool :=
  (s.strategy = sGlobalAllocateLimit || s.strategy = sGlobalCountLimit) &&
    (s.globalTokenBucket.isSome || s.globalMaxRequestsInflight.isSome)

/-- `remoteWrapper`: `fc` is the embedded `GlobalCounterFlowControl` (nil before the first `Sync`) -/
structure RemoteWrapper where
  fc : Option FlowCtl
  remoteConfig : Item
  appliedConfig : Item
deriving Repr, DecidableEq, Inhabited

/-- `flowControlCache` with its `localWrapper` (`fc` = the embedded `FlowControl`, nil before the first `Sync`;
    `localConfig`) and its `remoteWrapper` pointer -/
structure FlowControlCache where
  fc : Option FlowCtl
  localConfig : Schema
  remote : Option RemoteWrapper
deriving Repr, DecidableEq

def emptySchema : Schema := ⟨[], [], false, none, none, none, none⟩
def emptyItem : Item := ⟨[], [], ⟨none, none⟩⟩

/-- `NewFlowControlCache` -/
def newFlowControlCache : FlowControlCache := ⟨none, emptySchema, none⟩

/-- `localWrapper.Sync(schema)` -/
def localWrapperSync (w : FlowControlCache) (schema : Schema) : M FlowControlCache :=
  if schema = w.localConfig then pure w
  else
    let newType := guessFlowControlSchemaType schema
    match w.fc with
    | none => do
      let fc ← newFlowControl schema
      pure { w with localConfig := schema, fc := some fc }
    | some cur =>
      if cur.typ ≠ newType then do
        let fc ← newFlowControl schema
        pure { w with localConfig := schema, fc := some fc }
      else do
        let fc ← (match newType with
          | .maxRequestsInflight => do
            let m ← deref "schema.MaxRequestsInflight" schema.maxRequestsInflight
            pure (cur.resize (toU32 m) 0)
          | .tokenBucket => do
            let tb ← deref "schema.TokenBucket" schema.tokenBucket
            pure (cur.resize (toU32 tb.qps) (toU32 tb.burst))
          | _ => pure cur : M FlowCtl)
        pure { localConfig := schema, fc := some fc,
               remote := if enableGlobalFlowControl schema then w.remote else none }

def maxInt32 : Int := 2147483647

/-- `bound` of `boundByGlobalLimit` -/
def bound (v global : Int) : Int :=
  let v := if v > global then global else v
  if v < 0 then 0 else v

/-- `remoteWrapper.boundByGlobalLimit(limitItem)` -/
def boundByGlobalLimit (localConfig : Schema) (limitItem : Item) : Item :=
  let globalMax := match localConfig.globalMaxRequestsInflight with
    | some g => g
    | none => maxInt32
  let globalTB : TokenBucket := match localConfig.globalTokenBucket with
    | some g => g
    | none => ⟨maxInt32, maxInt32⟩
  { limitItem with detail :=
    { maxRequestsInflight := limitItem.detail.maxRequestsInflight.map (fun m => bound m globalMax),
      tokenBucket := limitItem.detail.tokenBucket.map
        (fun tb => ⟨bound tb.qps globalTB.qps, bound tb.burst globalTB.burst⟩) } }

/-- `toFlowControlSchema(limitItemConfig)` -/
def toFlowControlSchema (it : Item) : Schema :=
  match it.detail.maxRequestsInflight, it.detail.tokenBucket with
  | some m, _ => { emptySchema with name := it.name, strategy := it.strategy, maxRequestsInflight := some m }
  | none, some tb => { emptySchema with name := it.name, strategy := it.strategy, tokenBucket := some tb }
  | none, none => { emptySchema with name := it.name, strategy := it.strategy }

/-- `remoteWrapper.newFlowControl(limitItem, newType)` followed by `newFlowControlCounter`: the wrapper's limit
    (`max` / `qps`, `burst`) is recorded in `n`, `burst`; the inner limiter's burst reserve is C09's subject. -/
def remoteNewFlowControl (limitItem : Item) : M FlowCtl := do
  let fc ← newFlowControl (toFlowControlSchema limitItem)
  if limitItem.strategy ≠ sGlobalCountLimit then pure fc      -- emptyGlobalWrapper
  else match fc.typ with
    | .maxRequestsInflight => do
      let m ← deref "limitItem.MaxRequestsInflight" limitItem.detail.maxRequestsInflight
      pure (fc.resize (toU32 m) 0)
    | .tokenBucket => do
      let tb ← deref "limitItem.TokenBucket" limitItem.detail.tokenBucket
      pure (fc.resize (toU32 tb.qps) (toU32 tb.burst))
    | _ => do
      -- `default:` branch of newFlowControlCounter
      let tb ← deref "limitItem.TokenBucket" limitItem.detail.tokenBucket
      pure (fc.resize (toU32 tb.qps) (toU32 tb.burst))

/-- `remoteWrapper.Sync(limitItem)` -/
def remoteWrapperSync (localConfig : Schema) (r : RemoteWrapper) (limitItem : Item) : M RemoteWrapper :=
  let applied := boundByGlobalLimit localConfig limitItem
  if limitItem = r.remoteConfig && applied = r.appliedConfig then pure r
  else
    let newType := getFlowControlTypeFromLimitItem limitItem.detail
    match r.fc with
    | none => do
      let fc ← remoteNewFlowControl applied
      pure ⟨some fc, limitItem, applied⟩
    | some cur =>
      if cur.typ ≠ newType || r.remoteConfig.strategy ≠ limitItem.strategy then do
        let fc ← remoteNewFlowControl applied
        pure ⟨some fc, limitItem, applied⟩
      else if limitItem.detail.maxRequestsInflight.isSome && cur.typ = .maxRequestsInflight then do
        let m ← deref "applied.MaxRequestsInflight" applied.detail.maxRequestsInflight
        pure ⟨some (cur.resize (toU32 m) 0), limitItem, applied⟩
      else if limitItem.detail.tokenBucket.isSome && cur.typ = .tokenBucket then do
        let tb ← deref "applied.TokenBucket" applied.detail.tokenBucket
        pure ⟨some (cur.resize (toU32 tb.qps) (toU32 tb.burst)), limitItem, applied⟩
      else do
        let fc ← remoteNewFlowControl applied
        pure ⟨some fc, limitItem, applied⟩

/-- `EnableRemoteFlowControl()` then `FlowControl().Sync(item)` -/
def cacheRemoteSync (w : FlowControlCache) (item : Item) : M FlowControlCache := do
  let r := match w.remote with
    | some r => r
    | none => ⟨none, emptyItem, emptyItem⟩
  let r' ← remoteWrapperSync w.localConfig r item
  pure { w with remote := some r' }

/-! ## pkg/flowcontrols/limiter.go -/

/-- `upstreamLimiter`: `flowControls` (`FlowControlMap`) and `currentFlowControlSpec` -/
structure UpstreamLimiter where
  flowControls : List (Str × FlowControlCache)
  currentSpec : List Schema
deriving Repr, DecidableEq

/-- `f.flowControls.Load(name)`, else `NewFlowControlCache` (stored by the caller) -/
def loadOrNew (fcs : List (Str × FlowControlCache)) (name : Str) : FlowControlCache :=
  match alGet fcs name with
  | some fc => fc
  | none => newFlowControlCache

def syncOneSchema (fcs : List (Str × FlowControlCache)) (newSchema : Schema) : M (List (Str × FlowControlCache)) := do
  let fc' ← localWrapperSync (loadOrNew fcs newSchema.name) newSchema
  pure (alSet fcs newSchema.name fc')

/-- `upstreamLimiter.Sync` = `syncLocalFlowControls` (`Semantic.DeepEqual` treats nil and empty slices alike) -/
def upstreamLimiterSync (l : UpstreamLimiter) (schemas : List Schema) : M UpstreamLimiter :=
  if l.currentSpec = schemas then pure l
  else do
    let fcs ← foldM' syncOneSchema l.flowControls schemas
    let deleted := (l.currentSpec.map (·.name)).filter (fun n => !(schemas.map (·.name)).contains n)
    pure { flowControls := deleted.foldl alDel fcs, currentSpec := schemas }

/-! ## pkg/clusters: `buildClusterRESTConfig`, client-go `TLSConfigFor`, `ClusterInfo` -/

/-- `rest.TLSClientConfig` as set by `buildClusterRESTConfig` -/
structure TLSClientConfig where
  keyData : Str
  certData : Str
  caData : Str
  insecure : Bool
deriving Repr, DecidableEq

/-- `buildClusterRESTConfig(cluster)`: the part of `*rest.Config` that can make a consumer fail -/
def buildClusterRESTConfig (env : Env) (c : Cluster) : M (Option TLSClientConfig) := do
  let httpScheme ← (match c.servers with
    | [] => pure sHttps
    | server :: _ =>
      match env.urlParse server.endpoint with
      | none => throw (.err "failed to parse endpoint")
      | some u => pure u.scheme : M Str)
  if httpScheme = sHttps then
    pure (some ⟨c.clientConfig.keyData, c.clientConfig.certData, c.clientConfig.caData, c.clientConfig.insecure⟩)
  else pure none

/-- client-go v0.18 `transport.TLSConfigFor` on that config (`rootCertPool` ignores unparsable CA data) -/
def tlsConfigFor (env : Env) : Option TLSClientConfig → M Unit
  | none => pure ()
  | some t =>
    if t.caData ≠ [] && t.insecure then
      throw (.err "specifying a root certificates file with the insecure flag is not allowed")
    else if t.certData ≠ [] && t.keyData ≠ [] && !env.x509KeyPair t.certData t.keyData then
      throw (.err "tls: failed to load key pair")
    else pure ()

structure ClusterInfo where
  cluster : Str
  /-- `--ratelimiter=remote` -/
  globalRateLimiterRemote : Bool
  restTLS : Option TLSClientConfig
  /-- `featuregate.Enabled(GlobalRateLimiter)` -/
  gateGlobalRateLimiter : Bool
  /-- `upstreamLimiter.rateLimiter == "remote"` -/
  limiterRemote : Bool
  flowcontrol : UpstreamLimiter
  secureServing : SecureServing
  endpoints : List Str
  /-- `currentDispatchPolicies` -/
  policies : List Policy := []
deriving Repr, DecidableEq

def emptySecureServing : SecureServing := ⟨[], [], [], []⟩

/-- `NewEmptyClusterInfo` -/
def newEmptyClusterInfo (env : Env) (name : Str) (restTLS : Option TLSClientConfig) (remote : Bool) : ClusterInfo :=
  { cluster := env.lower name, globalRateLimiterRemote := remote, restTLS := restTLS, gateGlobalRateLimiter := false,
    limiterRemote := false, flowcontrol := ⟨[], []⟩, secureServing := emptySecureServing, endpoints := [] }

/-- `syncFeatureGate(annotations)`: the new value of `Enabled(GlobalRateLimiter)` -/
def syncFeatureGate (env : Env) (annotations : Option (List (Str × Str))) : M Bool :=
  let featuregate := match annotations with
    | some m => mapGet m sFeatureGateKey
    | none => []
  if featuregate = [] then pure false
  else match env.featureGateSet featuregate with
    | none => throw (.err "feature gate annotation does not parse")
    | some b => pure b

/-- `syncSecureServingConfigLocked(newSecureServing)` (the first `DeepEqual` compares a pointer with a value and
    never holds) -/
def syncSecureServingConfig (env : Env) (old new : SecureServing) : M SecureServing :=
  if old.clientCAData ≠ new.clientCAData && new.clientCAData ≠ [] && !env.parseCertsPEM new.clientCAData then
    throw (.err "unable to load client CA file")
  else if (old.keyData ≠ new.keyData || old.certData ≠ new.certData) &&
      !(new.keyData = [] || new.certData = []) && !env.x509KeyPair new.certData new.keyData then
    throw (.err "invalid serving cert keypair")
  else pure new

/-- `addOrUpdateEndpoint(endpoint, disabled)`: `rest.TransportFor`, `ResetTransport` (`newTransport`,
    `kubernetes.NewForConfig`) -/
def addOrUpdateEndpoint (env : Env) (restTLS : Option TLSClientConfig) (eps : List Str) (endpoint : Str) : M (List Str) :=
  if eps.contains endpoint then pure eps
  else do
    tlsConfigFor env restTLS
    tlsConfigFor env restTLS
    if !env.restHostOK endpoint then throw (.err "host must be a URL or a host:port pair")
    pure (eps ++ [endpoint])

/-- `syncEndpoints(servers)` -/
def syncEndpoints (env : Env) (restTLS : Option TLSClientConfig) (eps : List Str) (servers : List Server) : M (List Str) :=
  let wanted := servers.map (·.endpoint)
  let kept := eps.filter (fun e => wanted.contains e)
  foldM' (addOrUpdateEndpoint env restTLS) kept wanted

/-- `ClusterInfo.Sync(cluster)` -/
def ClusterInfo.sync (env : Env) (ci : ClusterInfo) (c : Cluster) : M ClusterInfo :=
  if ci.cluster ≠ env.lower c.name then pure ci
  else do
    let gate ← syncFeatureGate env c.annotations
    let limiterRemote := ci.globalRateLimiterRemote && gate       -- ResetLimiter(getFlowControlType(..))
    let fl ← upstreamLimiterSync ci.flowcontrol c.schemas
    let ss ← syncSecureServingConfig env ci.secureServing c.secureServing
    let eps ← syncEndpoints env ci.restTLS ci.endpoints c.servers
    pure { ci with gateGlobalRateLimiter := gate, limiterRemote := limiterRemote, flowcontrol := fl,
                   secureServing := ss, endpoints := eps, policies := c.policies }

/-- `CreateClusterInfo(cluster, healthCheck, rateLimiter, clientSets)` -/
def createClusterInfo (env : Env) (remote : Bool) (c : Cluster) : M ClusterInfo := do
  let restTLS ← buildClusterRESTConfig env c
  (newEmptyClusterInfo env c.name restTLS remote).sync env c

/-! ## what a dispatch policy resolves to (`ClusterInfo.MatchAttributes` once `MatchPolicies` chose the policy; which
    policy a request matches is C01's subject) -/

/-- `result.upstreams`: the policy's subset, else `c.AllEndpoints()` -/
def resolveUpstreams (ci : ClusterInfo) (p : Policy) : List Str :=
  if p.upstreamSubset ≠ [] then p.upstreamSubset else ci.endpoints

/-- `endpointPickStrategy.Pop` looks every upstream up with `s.cluster.Endpoints.Load(ep)`: the ones it can use -/
def loadedUpstreams (ci : ClusterInfo) (p : Policy) : List Str :=
  (resolveUpstreams ci p).filter (fun ep => ci.endpoints.contains ep)

/-- `c.GetFlowSchema(policy.FlowControlSchemaName)` = `upstreamLimiter.GetOrDefault` in local mode: the limiter of
    that name (`none` = the embedded interface is nil), the exempt `system-default` for no / an unknown name -/
def resolveFlowControl (ci : ClusterInfo) (p : Policy) : Option FlowCtl :=
  if p.flowControlSchemaName = [] then some ⟨.exempt, 0, 0⟩
  else match alGet ci.flowcontrol.flowControls p.flowControlSchemaName with
    | some w => w.fc
    | none => some ⟨.exempt, 0, 0⟩

/-! ## pkg/gateway/controllers/upstream_controller.go -/

/-- `clusters.Manager`: server name → the `ClusterInfo` registered under it -/
abbrev Manager := List (Str × ClusterInfo)

/-- `newServerNames` of `checkUpstreamServerNameConflict` / `LoadServerNames` -/
def serverNamesOf (env : Env) (name : Str) (ss : SecureServing) : List Str :=
  env.lower name :: ss.serverNames.map env.lower

/-- `checkServerNameConflict(clusterName, oldServerNames, newServerNames)`: `true` = conflict -/
def checkServerNameConflict (m : Manager) (clusterName : Str) (oldServerNames newServerNames : List Str) : Bool :=
  if oldServerNames = newServerNames then false
  else
    newServerNames.any (fun n => match alGet m n with
      | some ci => ci.cluster ≠ clusterName
      | none => false) ||
    (oldServerNames.filter (fun o => !newServerNames.contains o)).any (fun o => match alGet m o with
      | some ci => ci.cluster ≠ clusterName
      | none => false)

/-- `AddOrUpdateForServerNames(oldServerNames, clusterInfo)` -/
def addOrUpdateForServerNames (env : Env) (m : Manager) (oldServerNames : List Str) (ci : ClusterInfo) : M Manager :=
  let newServerNames := ci.cluster :: ci.secureServing.serverNames.map env.lower
  if oldServerNames = newServerNames then pure m
  else if checkServerNameConflict m ci.cluster oldServerNames newServerNames then throw (.err "server name conflict")
  else
    let m1 := (oldServerNames.filter (fun o => !newServerNames.contains o)).foldl
      (fun acc o => match alGet acc o with
        | some c => if c.cluster = ci.cluster then alDel acc o else acc
        | none => acc) m
    pure ((newServerNames.filter (fun n => !oldServerNames.contains n)).foldl (fun acc n => alSet acc n ci) m1)

/-- `syncUpstreamCluster(obj)` when the lister knows the object: the new manager, or `Err.err` for every outcome
    the code turns into a requeue (`Result{RequeueAfter: 5s}`), or a panic. The deferred clean-up calls
    `clusterInfo.Stop()` on the `nil` returned by a failed `CreateClusterInfo` unless it is guarded
    (`Gen.C16.stopGuarded`). -/
def syncUpstreamCluster (env : Env) (remote : Bool) (m : Manager) (c : Cluster) : M Manager :=
  let clusterName := env.lower c.name
  let newServerNames := serverNamesOf env c.name c.secureServing
  match alGet m clusterName with
  | none =>
    if checkServerNameConflict m clusterName [] newServerNames then throw (.err "requeue: server name conflict")
    else match createClusterInfo env remote c with
      | .error (.panic p) => throw (.panic p)
      | .error (.err e) =>
        if Gen.C16.stopGuarded then throw (.err ("requeue: failed to create cluster: " ++ e))
        else throw (.panic "nil pointer dereference: clusterInfo.Stop()")
      | .ok ci =>
        match addOrUpdateForServerNames env m [] ci with
        | .error e => throw e
        | .ok m' => pure m'
  | some info =>
    let oldServerNames := info.cluster :: info.secureServing.serverNames.map env.lower
    if checkServerNameConflict m clusterName oldServerNames newServerNames then
      throw (.err "requeue: server name conflict")
    else match info.sync env c with
      | .error (.panic p) => throw (.panic p)
      | .error (.err e) => throw (.err ("requeue: failed to sync cluster: " ++ e))
      | .ok info' =>
        match addOrUpdateForServerNames env m oldServerNames info' with
        | .error e => throw e
        | .ok m' => pure (m'.map (fun kv => if kv.2.cluster = info'.cluster then (kv.1, info') else kv))

/-- the manager of a gateway that already serves OTHER clusters: the controller's handler ran for each of them in
    turn (a cluster it refused - requeue - or whose name is already registered is not served) -/
def applyOthers (env : Env) (remote : Bool) : Manager → List Cluster → Manager
  | m, [] => m
  | m, u :: rest =>
    match alGet m (env.lower u.name) with
    | some _ => applyOthers env remote m rest
    | none =>
      match syncUpstreamCluster env remote m u with
      | .ok m' => applyOthers env remote m' rest
      | .error _ => applyOthers env remote m rest

/-- a cluster of which only the names matter (what the lister entry `Known` stands for) -/
def Known.toCluster (k : Known) : Cluster :=
  { name := k.name, metaErrs := [], annotations := none, servers := [],
    clientConfig := ⟨false, [], [], [], [], 0, 0, 0⟩, secureServing := ⟨[], [], [], k.serverNames⟩,
    schemas := [], loggingMode := [], policies := [] }

def Cluster.toKnown (c : Cluster) : Known := ⟨c.name, c.secureServing.serverNames⟩

/-! ## The limiter server: pkg/ratelimiter/limiter/ratelimter.go, store/local -/

/-- `toFlowControlLimit(schema)` -/
def toFlowControlLimit (s : Schema) : M Detail :=
  if s.globalMaxRequestsInflight.isSome then do
    let g ← deref "schema.GlobalMaxRequestsInflight" s.globalMaxRequestsInflight
    pure ⟨some g, none⟩
  else if s.globalTokenBucket.isSome then do
    let g ← deref "schema.GlobalTokenBucket" s.globalTokenBucket
    pure ⟨none, some g⟩
  else pure ⟨none, none⟩

/-- a Go map built by `for _, x := range l { m[x.Name] = x }`, then `m[name]`: the last entry wins -/
def lookupLast {β : Type} (nameOf : β → Str) (l : List β) (name : Str) : Option β :=
  (l.reverse.find? (fun x => nameOf x = name))

/-- a limiter of the server's store (`globalMaxInflight{max}`, `globalTokenBucket{qps,burst}`; `int32`) -/
structure GlobalFC where
  typ : FCType
  n : Int
  burst : Int
deriving Repr, DecidableEq, Inhabited

/-- the limiter server's state for one upstream: the `.state` condition, the instances' conditions, the store's
    flow controls and `currentFlowControlSpec` -/
structure Upstream where
  state : Condition
  instances : List (Str × Condition)
  flowControls : List (Str × GlobalFC)
  currentSpec : List Schema
deriving Repr, DecidableEq

def emptyUpstream : Upstream := ⟨⟨[], []⟩, [], [], []⟩

/-- the loop body of `updateUpstreamStateCondition` -/
def upstreamStateItem (oldStatuses : List Status) (s : Schema) : M (Item × Status) := do
  let limitItemDetail ← toFlowControlLimit s
  let st := match lookupLast (·.name) oldStatuses s.name with
    | some st => st
    | none => ⟨s.name, ⟨none, none⟩, 0⟩
  let st := if limitItemDetail.tokenBucket.isSome && st.detail.tokenBucket.isNone
    then { st with detail := { st.detail with tokenBucket := some ⟨0, 0⟩ } } else st
  let st := if limitItemDetail.maxRequestsInflight.isSome && st.detail.maxRequestsInflight.isNone
    then { st with detail := { st.detail with maxRequestsInflight := some 0 } } else st
  pure (⟨s.name, [], limitItemDetail⟩, st)

/-- `updateUpstreamStateCondition(upstreamCondition, cluster)` -/
def updateUpstreamStateCondition (old : Condition) (c : Cluster) : M Condition := do
  let l ← mapM' (upstreamStateItem old.statuses) c.schemas
  pure ⟨l.map (·.1), l.map (·.2)⟩

/-- `NewGlobalFlowControl(schema)` (`nil` when there is no global member) -/
def newGlobalFlowControl (s : Schema) : M (Option GlobalFC) :=
  if s.globalMaxRequestsInflight.isSome then do
    let g ← deref "schema.GlobalMaxRequestsInflight" s.globalMaxRequestsInflight
    pure (some ⟨.maxRequestsInflight, g, 0⟩)
  else if s.globalTokenBucket.isSome then do
    let g ← deref "schema.GlobalTokenBucket" s.globalTokenBucket
    pure (some ⟨.tokenBucket, g.qps, g.burst⟩)
  else pure none

/-- `ResizeGlobalFlowControl(fc, schema, upstream)` -/
def resizeGlobalFlowControl (fc : GlobalFC) (s : Schema) : M GlobalFC :=
  if s.globalMaxRequestsInflight.isSome then do
    let g ← deref "schema.GlobalMaxRequestsInflight" s.globalMaxRequestsInflight
    pure (match fc.typ with
      | .tokenBucket => { fc with n := g, burst := 0 }
      | _ => { fc with n := g })
  else if s.globalTokenBucket.isSome then do
    let g ← deref "schema.GlobalTokenBucket" s.globalTokenBucket
    pure (match fc.typ with
      | .tokenBucket => { fc with n := g.qps, burst := g.burst }
      | _ => { fc with n := g.qps })
  else pure fc

/-- the loop body of the store's `syncLocalFlowControls` -/
def storeSyncOne (fcs : List (Str × GlobalFC)) (newSchema : Schema) : M (List (Str × GlobalFC)) :=
  if newSchema.globalTokenBucket.isNone && newSchema.globalMaxRequestsInflight.isNone then pure fcs
  else
    let newType := guessFlowControlSchemaType newSchema
    match alGet fcs newSchema.name with
    | none => do
      match ← newGlobalFlowControl newSchema with
      | some fc => pure (alSet fcs newSchema.name fc)
      | none => pure fcs
    | some cur => do
      let fc ← (if cur.typ ≠ newType then do
          match ← newGlobalFlowControl newSchema with
          | some fc => pure fc
          | none => pure cur
        else pure cur : M GlobalFC)
      let fc' ← resizeGlobalFlowControl fc newSchema
      pure (alSet fcs newSchema.name fc')

/-- `upstreamCondition.syncLocalFlowControls(flowControls)` -/
def storeSyncFlowControls (u : Upstream) (schemas : List Schema) : M Upstream :=
  if u.currentSpec = schemas then pure u
  else do
    let fcs ← foldM' storeSyncOne u.flowControls schemas
    let newset := (schemas.filter (fun s => s.globalTokenBucket.isSome || s.globalMaxRequestsInflight.isSome)).map (·.name)
    let deleted := (u.currentSpec.map (·.name)).filter (fun n => !newset.contains n)
    pure { u with flowControls := deleted.foldl alDel fcs, currentSpec := schemas }

/-- `UpstreamConditionHandler(cluster)` on the shard leader, the lister knowing the cluster -/
def upstreamConditionHandler (u : Upstream) (c : Cluster) : M Upstream := do
  let st ← updateUpstreamStateCondition u.state c
  storeSyncFlowControls { u with state := st } c.schemas

/-- a new TERM: another replica (or the same one after losing the lease) starts leading the shard
    (`startLeading`: `NewLimitStore`, `Load()`, then `UpstreamConditionHandler` for every cluster of the shard). The
    API-backed store (`persist = true`) `Load()`s the conditions the previous leader flushed; the local store starts
    empty. The flow controls and `currentFlowControlSpec` live in memory only: they are gone in both. -/
def newTerm (persist : Bool) (u : Upstream) : Upstream :=
  if persist then { u with flowControls := [], currentSpec := [] } else emptyUpstream

/-- `calculateNextQuota`: which members of the answer are set. The numbers are C07's subject; `quota` is the
    oracle for `(next, burst)`. -/
def calculateNextQuota (quota : Str → Int × Int) (upstreamTotal : Item) (flowControlConfig : Item) : M Item :=
  if flowControlConfig.strategy = sGlobalCountLimit then
    pure { flowControlConfig with detail := upstreamTotal.detail }
  else
    match getFlowControlTypeFromLimitItem upstreamTotal.detail with
    | .maxRequestsInflight =>
      pure { flowControlConfig with detail := { flowControlConfig.detail with maxRequestsInflight := some (quota flowControlConfig.name).1 } }
    | .tokenBucket => do
      -- `burst = next / total * float64(upstreamTotal.LimitItemDetail.TokenBucket.Burst)`
      let _ ← deref "upstreamTotal.TokenBucket" upstreamTotal.detail.tokenBucket
      pure { flowControlConfig with detail := { flowControlConfig.detail with tokenBucket := some ⟨(quota flowControlConfig.name).1, (quota flowControlConfig.name).2⟩ } }
    | _ => pure flowControlConfig

/-- the loop body of `UpdateRateLimitConditionStatus` over `condition.Spec.LimitItemConfigurations` -/
def updateOneItem (quota : Str → Int × Int) (upstreamItems : List Item) (flowControlConfig : Item) : M (Option Item) :=
  match lookupLast (·.name) upstreamItems flowControlConfig.name with
  | none => pure none
  | some upstreamTotal =>
    let itemType := getFlowControlTypeFromLimitItem flowControlConfig.detail
    let upstreamItemType := getFlowControlTypeFromLimitItem upstreamTotal.detail
    if itemType ≠ .unknown && itemType ≠ upstreamItemType then
      throw (.err "upstream flow control item type not equal to instance item type")
    else do
      let newConfig ← calculateNextQuota quota upstreamTotal flowControlConfig
      match itemType with
      | .maxRequestsInflight => let _ ← deref "newConfig.MaxRequestsInflight" newConfig.detail.maxRequestsInflight
      | .tokenBucket => let _ ← deref "newConfig.TokenBucket" newConfig.detail.tokenBucket
      | _ => pure ()
      pure (some newConfig)

/-- the status loop of `calculateUpstreamCondition` for one instance condition: dereferences only -/
def levelOfStatus (upstreamItems : List Item) (st : Status) : M Unit :=
  match lookupLast (·.name) upstreamItems st.name with
  | none => pure ()
  | some flowControlConfig =>
    if st.detail.maxRequestsInflight.isSome then do
      let _ ← deref "flowControlConfig.MaxRequestsInflight" flowControlConfig.detail.maxRequestsInflight
      pure ()
    else if st.detail.tokenBucket.isSome then do
      let _ ← deref "flowControlConfig.TokenBucket" flowControlConfig.detail.tokenBucket
      pure ()
    else pure ()

/-- `UpdateRateLimitConditionStatus(upstream, condition)` on the shard leader; `known = false`: the upstream's
    `.state` condition does not exist (the handler has not run) -/
def updateRateLimitConditionStatus (quota : Str → Int × Int) (known : Bool) (u : Upstream) (inst : Str) (cond : Condition) :
    M (Condition × Upstream) :=
  if !known then throw (.err "ratelimitcondition not found")
  else do
    let l ← mapM' (updateOneItem quota u.state.items) cond.items
    let cond' : Condition := ⟨l.filterMap id, cond.statuses⟩
    let instances := alSet u.instances inst cond'
    -- calculateUpstreamCondition
    let _ ← mapM' (fun (kv : Str × Condition) => mapM' (levelOfStatus u.state.items) kv.2.statuses) instances
    pure (cond', { u with instances := instances })

/-! ## pkg/flowcontrols/remote/remote_allocation.go: one period of `reconcile.reconcile` -/

/-- the loop body of `updateGlobalCuntFlowControls` -/
def updateGlobalCountOne (kv : Str × FlowControlCache) : M (Str × FlowControlCache) :=
  let localConfig := kv.2.localConfig
  if localConfig.strategy ≠ sGlobalCountLimit then pure kv
  else if Gen.C16.countPathGuarded && !enableGlobalFlowControl localConfig then pure kv
  else do
    let itemConfig : Item := ⟨kv.1, localConfig.strategy,
      ⟨localConfig.globalMaxRequestsInflight, localConfig.globalTokenBucket⟩⟩
    let w ← cacheRemoteSync kv.2 itemConfig
    pure (kv.1, w)

/-- `getRateLimitItemConfiguration` and `getRateLimitItemStatus` for one flow control of `buildLimitConditions`;
    `used` is the metered in-flight count / rate -/
def limitConditionOne (used : Str → Int) (kv : Str × FlowControlCache) : M (Option (Item × Status)) :=
  let localConfig := kv.2.localConfig
  if localConfig.strategy ≠ sGlobalAllocateLimit then pure none
  else if !enableGlobalFlowControl localConfig then pure none
  else do
    let itemConfig : Item := ⟨kv.1, localConfig.strategy, match kv.2.remote with
      | none => ⟨none, none⟩
      | some r => r.remoteConfig.detail⟩
    -- flowControlCache.LocalFlowControl().Type(): a method call on the embedded (possibly nil) interface
    let lfc ← deref "localWrapper.FlowControl" kv.2.fc
    let typ ← (match kv.2.remote with
      | none => pure lfc.typ
      | some r => do
        let rfc ← deref "remoteWrapper.GlobalCounterFlowControl" r.fc
        pure rfc.typ : M FCType)
    match typ with
    | .maxRequestsInflight => do
      match kv.2.remote with
      | some r => let _ ← deref "Config().MaxRequestsInflight" r.remoteConfig.detail.maxRequestsInflight
      | none => pure ()
      pure (some (itemConfig, ⟨kv.1, ⟨some (used kv.1), none⟩, 0⟩))
    | .tokenBucket => do
      match kv.2.remote with
      | some r => let _ ← deref "Config().TokenBucket" r.remoteConfig.detail.tokenBucket
      | none => pure ()
      pure (some (itemConfig, ⟨kv.1, ⟨none, some ⟨used kv.1, used kv.1⟩⟩, 0⟩))
    | _ => pure (some (itemConfig, ⟨kv.1, ⟨none, none⟩, 0⟩))

/-- `buildLimitConditions()` -/
def buildLimitConditions (used : Str → Int) (fcs : List (Str × FlowControlCache)) : M Condition := do
  let l ← mapM' (limitConditionOne used) fcs
  let l := l.filterMap id
  pure ⟨l.map (·.1), l.map (·.2)⟩

/-- the loop body of `updateFlowControls(condition)` -/
def updateFlowControlsOne (fcs : List (Str × FlowControlCache)) (config : Item) : M (List (Str × FlowControlCache)) :=
  match alGet fcs config.name with
  | none => pure fcs
  | some fcCache =>
    if !enableGlobalFlowControl fcCache.localConfig then pure fcs
    else do
      let w ← cacheRemoteSync fcCache config
      pure (alSet fcs config.name w)

/-- one period of `reconcile.reconcile()` of a gateway whose limiter is in remote mode, against the limiter
    server `u` (both in one process here): `updateGlobalCuntFlowControls`, `buildLimitConditions`, the server's
    `UpdateRateLimitConditionStatus`, `updateFlowControls`. -/
def reconcileOnce (quota : Str → Int × Int) (used : Str → Int) (known : Bool) (inst : Str)
    (fcs : List (Str × FlowControlCache)) (u : Upstream) : M (List (Str × FlowControlCache) × Upstream) := do
  let fcs1 ← mapM' updateGlobalCountOne fcs
  let condition ← buildLimitConditions used fcs1
  let (ret, u') ← updateRateLimitConditionStatus quota known u inst condition
  let fcs2 ← foldM' updateFlowControlsOne fcs1 ret.items
  pure (fcs2, u')

/-- any number of reconcile periods -/
def reconcileLoop (quota : Str → Int × Int) (used : Str → Int) (inst : Str) :
    Nat → List (Str × FlowControlCache) × Upstream → M (List (Str × FlowControlCache) × Upstream)
  | 0, st => pure st
  | n + 1, st => do
    let st' ← reconcileOnce quota used true inst st.1 st.2
    reconcileLoop quota used inst n st'


/-! ## The limiter server applying an object and answering a first report -/

/-- the limiter server handles the object and answers a gateway instance that reports about it -/
def limiterApply (quota : Str → Int × Int) (used : Str → Int) (c : Cluster) (fcs : List (Str × FlowControlCache)) : M Upstream := do
  let u ← upstreamConditionHandler emptyUpstream c
  let condition ← buildLimitConditions used fcs
  let (_, u') ← updateRateLimitConditionStatus quota true u [1] condition
  pure u'

end KG.Model.Validate
