import KG.Base.Json
import KG.Gen.C07
/-!
# Model of the global-allocate strategy (C07)

`calcNextQuota` mirrors `calculateNextQuota` (pkg/ratelimiter/limiter/allocation.go) line by line, written once,
generically over an arithmetic `QArith F`:

* instance `Float` — executable, IEEE-754 double like Go's `float64`; this is what is compared with the Go code;
* instance `Rat`   — exact arithmetic; this is what the theorems are about.

The constants come from `KG.Gen.C07`, regenerated from the source on every run.
The tail of the function (floors, clamps, `Ceil`) is the separate definition `tail`, so that the theorems can
quantify over an ARBITRARY value `x` produced by the strategy arithmetic above it (hence they hold whatever
that arithmetic, or its rounding, computes).
-/
namespace KG.Model.Alloc
open KG

class QArith (F : Type) where
  ofInt : Int → F
  /-- an exact constant `num/den` converted the way Go converts an untyped constant to float64 -/
  ofConst : Nat × Nat → F
  add : F → F → F
  sub : F → F → F
  mul : F → F → F
  div : F → F → F
  lt : F → F → Bool
  le : F → F → Bool
  eq : F → F → Bool
  /-- `math.Ceil` -/
  ceil : F → F
  /-- `math.Round` (half away from zero) -/
  round : F → F
  /-- `int32(math.Sqrt(x))` -/
  isqrt : F → Int
  /-- `int32(x)`: truncation toward zero (in range) -/
  trunc : F → Int

instance : QArith Float where
  ofInt := Float.ofInt
  ofConst c := Float.ofNat c.1 / Float.ofNat c.2
  add := (· + ·)
  sub := (· - ·)
  mul := (· * ·)
  div := (· / ·)
  lt a b := decide (a < b)
  le a b := decide (a ≤ b)
  eq a b := a == b
  ceil := Float.ceil
  round := Float.round
  isqrt x := (Float.sqrt x).toInt32.toInt
  trunc x := x.toInt32.toInt

/-- truncation toward zero of a rational -/
def ratTrunc (x : Rat) : Int := if x < 0 then x.ceil else x.floor

/-- `math.Round`: half away from zero -/
def ratRound (x : Rat) : Int := if x < 0 then -((-x + 1/2 : Rat).floor) else (x + 1/2 : Rat).floor

instance : QArith Rat where
  ofInt i := (i : Rat)
  ofConst c := (c.1 : Rat) / (c.2 : Rat)
  add := (· + ·)
  sub := (· - ·)
  mul := (· * ·)
  div := (· / ·)
  lt a b := decide (a < b)
  le a b := decide (a ≤ b)
  eq a b := decide (a = b)
  ceil x := (x.ceil : Rat)
  round x := (ratRound x : Rat)
  isqrt x := (Nat.sqrt (ratTrunc x).toNat : Int)
  trunc := ratTrunc

section
variable {F : Type} [QArith F]
open QArith

/-- The tail of `calculateNextQuota` (after the `switch`): the percent floor `m = total*MinimumQuotaPercent`,
    the clamp to `recorded + remaining` (`recorded`: the quota on record for the reporter), the clamp to `total`, the minimum of 1, `math.Ceil`.
    `x` is the value of `next` computed by the strategy arithmetic. -/
def tailPre (x m recorded remaining total : F) : F :=
  let n1 := if lt x m then m else x
  let n2 := if lt remaining (sub n1 recorded) then add recorded remaining else n1
  let n3 := if lt total n2 then total else n2
  if lt n3 (ofInt 1) then ofInt 1 else n3

def tail (x m recorded remaining total : F) : F := ceil (tailPre x m recorded remaining total)

/-- inputs of one `calculateNextQuota` call for one flow-control item (all `int32` in Go) -/
structure In where
  total : Int          -- global limit of the schema (max, or qps)
  totalBurst : Int     -- global burst (token bucket only)
  allocated : Int      -- recorded sum of quotas (upstreamUsed)
  upstreamLevel : Int  -- upstreamUsed.RequestLevel
  current : Int        -- the quota the reporter says it holds (flowControlConfig)
  recorded : Int       -- the quota on record for the reporter (0 without a record)
  used : Int           -- the reporter's reported usage (flowControlStatus)
  level : Int          -- flowControlStatus.RequestLevel
  clients : Int        -- len(clients)
  tokenBucket : Bool   -- flow-control type
deriving Repr

inductive Err | divZero
deriving Repr, DecidableEq

/-- the strategy arithmetic: the value of `next` when the `switch` is left -/
def strategy (i : In) : Except Err F := do
  let current : F := ofInt i.current
  let used : F := ofInt i.used
  let total : F := ofInt i.total
  let allocated : F := ofInt i.allocated
  let remaining := sub total allocated
  let c100 : F := ofInt 100
  let level :=
    if le used current && decide (i.level > 100) then trunc (div (mul used c100) current) else i.level
  let allocatedPercent := mul (div allocated total) c100
  let expectTotalLevel := (i.upstreamLevel * 95).tdiv 100 + 5
  let minPercent0 := trunc (sub (ofInt 70) (div total c100))
  let minPercent := if minPercent0 < 60 then 60 else minPercent0
  let expectedAllocatePercent := (i.upstreamLevel * (100 - minPercent)).tdiv 100 + minPercent
  if expectedAllocatePercent = 0 then throw Err.divZero
  let targetLevel0 := (expectTotalLevel * 100).tdiv expectedAllocatePercent + isqrt (div (mul used c100) total)
  let targetLevel := if targetLevel0 > 100 then 100 else targetLevel0
  let reducingThreshold := if targetLevel > 50 then targetLevel - 5 else targetLevel
  let increasingThreshold := if targetLevel > 50 then targetLevel else targetLevel + 5
  let reduceP : F := ofConst KG.Gen.C07.reducePercent
  let incP : F := ofConst KG.Gen.C07.increasePercent
  if eq current (ofInt 0) then
    if i.clients ≤ 10 then pure (mul remaining (ofConst KG.Gen.C07.initialQuotaPercent))
    else pure (div remaining (ofInt i.clients))
  else if level = 0 then
    let upper := round (div (mul total (ofConst KG.Gen.C07.expectUtilizationPercent)) (ofInt i.clients))
    let eap : F := ofInt expectedAllocatePercent
    if lt allocatedPercent (sub eap (ofInt 5)) then
      let next := add current (mul remaining incP)
      pure (if lt upper next then upper else next)
    else if le eap allocatedPercent || lt upper current then
      let reduce0 := mul current reduceP
      let minReduce := div total (ofInt 50)
      let reduce1 := if lt (ofInt 0) reduce0 && lt reduce0 minReduce then minReduce else reduce0
      let reduce2 := if lt (ofInt 0) reduce1 && lt reduce1 (ofInt 1) then ofInt 1 else reduce1
      pure (sub current reduce2)
    else pure current
  else if level < reducingThreshold then
    let reduce0 := mul current reduceP
    let maxReduce := sub current used
    let reduce1 := if lt maxReduce reduce0 then maxReduce else reduce0
    let reduce2 := if lt (ofInt 0) reduce1 && lt reduce1 (ofInt 1) then ofInt 1 else reduce1
    pure (sub current reduce2)
  else if level ≥ increasingThreshold then
    let delta0 := mul current incP
    let delta := if level > 100 then mul delta0 (ofInt 2) else delta0
    pure (if lt delta remaining then add current delta else add current remaining)
  else pure current

/-- `calculateNextQuota` for the allocate strategy: `(next, burst)` as the `int32`s written into the answer. -/
def calcNextQuota (i : In) : Except Err (Int × Int) := do
  let x : F ← strategy i
  let total : F := ofInt i.total
  let next := tail x (mul total (ofConst KG.Gen.C07.minimumQuotaPercent)) (ofInt i.recorded)
    (sub total (ofInt i.allocated)) total
  let burst : F := if i.tokenBucket then mul (div next total) (ofInt i.totalBurst) else ofInt 0
  pure (trunc next, trunc (ceil burst))

end

/-! ## The server's bookkeeping for one schema over a history of reports (exact arithmetic)

The recorded state for one flow-control schema of one upstream: the quota on record for every instance, and the
configured global limit `T`. `UpdateRateLimitConditionStatus` answers a report of instance `i` with
`tail x m c (T − A) T` where `A` is the recorded sum (recomputed by `calculateUpstreamCondition` after every
save), `c` the quota ON RECORD for the reporter (`0` without a record — whatever quota the report itself claims
only feeds the strategy arithmetic) and `x`, `m` whatever the strategy arithmetic produced; the answer replaces the reporter's recorded quota.
Operations on one upstream are serialised by its mutex: each op is atomic. -/

structure Srv where
  total : Int
  /-- the sum on record in the upstream's `.state` condition: recomputed from the stored conditions after every
      report (`calculateUpstreamCondition`), NOT when a condition is deleted -/
  recSum : Int
  quotas : List (Nat × Int)   -- instance ↦ recorded quota
deriving Repr

def sumQ (l : List (Nat × Int)) : Int := (l.map (·.2)).sum
def onesQ (l : List (Nat × Int)) : Int := ((l.filter (·.2 == 1)).length : Int)
def lookupD (l : List (Nat × Int)) (i : Nat) : Int := (l.lookup i).getD 0

/-- the quota answered to an honest report, in exact arithmetic -/
def answer (s : Srv) (i : Nat) (x m : Rat) : Int :=
  (tailPre (F := Rat) x m (lookupD s.quotas i) ((s.total : Rat) - (s.recSum : Rat)) (s.total : Rat)).ceil

def setQuota : List (Nat × Int) → Nat → Int → List (Nat × Int)
  | [], i, q => [(i, q)]
  | (j, p) :: rest, i, q => if j = i then (i, q) :: rest else (j, p) :: setQuota rest i q

inductive Op
  | report (i : Nat) (x m : Rat)   -- any report; `x`,`m`: arbitrary outputs of the strategy arithmetic
  | delete (i : Nat)               -- the instance's condition is removed (clean-up of a dead instance, C18)
  | setLimit (t : Int)             -- the global limit is changed

def step (s : Srv) : Op → Srv
  | .report i x m =>
    let q := setQuota s.quotas i (answer s i x m)
    { s with quotas := q, recSum := sumQ q }
  | .delete i => { s with quotas := s.quotas.filter (·.1 != i) }
  | .setLimit t => { s with total := t }

def run (s : Srv) (ops : List Op) : Srv := ops.foldl step s

/-- the history invariant as a decidable judge (proved equivalent to `KG.Props.C07.Inv`) -/
def invB (s : Srv) : Bool :=
  decide (1 ≤ s.total) && s.quotas.all (fun p => decide (1 ≤ p.2)) &&
    decide (sumQ s.quotas ≤ s.total + onesQ s.quotas) && decide (sumQ s.quotas ≤ s.recSum)

/-! ## Executable twin of `UpdateRateLimitConditionStatus` for one schema (Float arithmetic)

What the correspondence harness drives through the real `rateLimiter`: reports carrying the quota the instance
claims to hold (`claim`; an honest instance claims the quota on record), its usage and request level; deletions
of an instance's condition; changes of the global limit; the number of heart-beating clients. The `.state`
condition's recorded sum and request level are recomputed after every report only, as in the code. -/

structure Inst where
  id : Nat
  quota : Int
  burst : Int
  used : Int
deriving Repr

structure HSrv where
  total : Int
  totalBurst : Int
  tokenBucket : Bool
  recSum : Int
  recLevel : Int
  clients : Int
  insts : List Inst
deriving Repr

inductive HOp
  | report (i : Nat) (claim : Option Int) (used level : Int)
  | delete (i : Nat)
  | setLimit (t b : Int)
  | clients (n : Int)
deriving Repr

def HSrv.quotaOf (s : HSrv) (i : Nat) : Int :=
  match s.insts.find? (·.id == i) with
  | some x => x.quota
  | none => 0

def upsert : List Inst → Inst → List Inst
  | [], x => [x]
  | y :: rest, x => if y.id == x.id then x :: rest else y :: upsert rest x

/-- `calculateUpstreamCondition`: recorded sum of quotas and `int32(Σ used/total · 100)` -/
def recompute (s : HSrv) : HSrv :=
  let sum := (s.insts.map (·.quota)).foldl (· + ·) 0
  let lvl : Float := s.insts.foldl (fun acc x => acc + Float.ofInt x.used / Float.ofInt s.total) 0
  { s with recSum := sum, recLevel := (lvl * 100).toInt32.toInt }

/-- one op; the output is `some (next, burst)` for an answered report -/
def hstep (s : HSrv) : HOp → Except Err (HSrv × Option (Int × Int))
  | .report i claim used level => do
    let c := claim.getD (s.quotaOf i)
    let (n, b) ← calcNextQuota (F := Float)
      { total := s.total, totalBurst := s.totalBurst, allocated := s.recSum, upstreamLevel := s.recLevel,
        current := c, recorded := s.quotaOf i, used := used, level := level, clients := s.clients, tokenBucket := s.tokenBucket }
    let s' := { s with insts := upsert s.insts { id := i, quota := n, burst := b, used := used } }
    pure (recompute s', some (n, b))
  | .delete i => pure ({ s with insts := s.insts.filter (·.id != i) }, none)
  | .setLimit t b => pure ({ s with total := t, totalBurst := b }, none)
  | .clients n => pure ({ s with clients := n }, none)

end KG.Model.Alloc
