import KG.Base.Json
import KG.Gen.C08
/-!
# Model of the limiter server's "global count" strategy (property C08)

Go sources mirrored here (current, repaired tree):

* `pkg/ratelimiter/store/flowcontrol/maxinflight.go`  — `globalMaxInflight.{add, SetState, Resize}`
* `pkg/ratelimiter/store/flowcontrol/tokenbucket.go`  — `globalTokenBucket.{TryAcquireN, Resize}` over
  `golang.org/x/time/rate` (`Limiter.advance`, `Limiter.reserveN` with `maxFutureReserve = 0`, i.e. `AllowN`)
* `pkg/ratelimiter/store/local/upstreamcondition.go`  — `syncLocalFlowControls`
* `pkg/ratelimiter/store/local/local.go`              — `DeleteInstanceState`, `GetFlowControl`
* `pkg/ratelimiter/limiter/ratelimter.go`             — `rateLimiter.DoAcquire`

Conventions: `int32` values are `Int`s; every Go `int32` operation that can wrap is written with
`wrap32` (two's complement), so the model is exact also when a sum leaves the `int32` range.
`int64` request ids are only compared, never computed with. A Go map is an association list searched
front to back (first match); `put` replaces the first match or appends, so keys stay distinct.
Time is an `Int` of nanoseconds handed in by the operation, `rate.Limit`/token amounts are `Rat`
(the `float64` rounding of x/time/rate is NOT modelled: DESIGN.md §3).

`SetState` holds `f.lock` (write lock) from its first to its last statement, so one `SetState` is one
step here (`setState`); the fine-grained system with the lock and the individual atomics as steps is
`Fine` below, and `KG.Lemmas.GlobalCount` relates the two.
-/
namespace KG.Model.GlobalCount
open KG

/-- Two's complement reduction to `int32`. -/
def wrap32 (x : Int) : Int := (x + 2147483648) % 4294967296 - 2147483648

/-- `x` is a value of Go type `int32`. -/
def InI32 (x : Int) : Prop := -2147483648 ≤ x ∧ x ≤ 2147483647
instance (x : Int) : Decidable (InI32 x) := by unfold InI32; infer_instance

/-! ## max-in-flight: `globalMaxInflight` -/

/-- `instanceState`. -/
structure Inst where
  count : Int
  requestId : Int
deriving DecidableEq, Repr, Inhabited

abbrev States := List (Str × Inst)

/-- first match, as a Go map lookup `m[k]` -/
def find (k : Str) : States → Option Inst
  | [] => none
  | (k', v) :: r => if k' = k then some v else find k r

/-- `delete(m, k)` -/
def erase (k : Str) : States → States
  | [] => []
  | (k', v) :: r => if k' = k then r else (k', v) :: erase k r

/-- `m[k] = v` (also the effect of updating through the stored pointer) -/
def put (k : Str) (v : Inst) : States → States
  | [] => [(k, v)]
  | (k', v') :: r => if k' = k then (k, v) :: r else (k', v') :: put k v r

/-- `globalMaxInflight` without name/type/lock. -/
structure G where
  max : Int
  count : Int
  states : States
deriving DecidableEq, Repr, Inhabited

/-- `newMaxInflightFlowControl` -/
def G.init (max : Int) : G := { max := max, count := 0, states := [] }

inductive Err where
  | none
  | requestIDTooOld
deriving DecidableEq, Repr, Inhabited

/-- `(accept bool, latest int32, err error)` -/
structure Reply where
  accept : Bool
  latest : Int
  err : Err
deriving DecidableEq, Repr, Inhabited

/-- `func (f *globalMaxInflight) add(n int32) int32`:
    `count := atomic.AddInt32(&f.count, n); max := atomic.LoadInt32(&f.max); return count - max` -/
def add (g : G) (n : Int) : G × Int :=
  let count := wrap32 (g.count + n)
  ({ g with count := count }, wrap32 (count - g.max))

/-- The part of `SetState` after the state object has been found or created: request-id test,
    swap, delta, add, roll back / applied-not-accepted / accepted. `state` is `*state` as stored in `g`. -/
def report (g : G) (inst : Str) (state : Inst) (requestId current : Int) : G × Reply :=
  if requestId > 0 ∧ requestId ≤ state.requestId then
    -- oldId := atomic.LoadInt64(&state.requestId); if requestId <= oldId { return false, current, RequestIDTooOld }
    (g, ⟨false, current, .requestIDTooOld⟩)
  else
    -- atomic.StoreInt64(&state.requestId, requestId)   (only when requestId > 0)
    let state : Inst := if requestId > 0 then { state with requestId := requestId } else state
    -- old := atomic.SwapInt32(&state.count, current)
    let old := state.count
    let state : Inst := { state with count := current }
    -- delta := current - old
    let delta := wrap32 (current - old)
    -- overflowed := f.add(delta)
    let (g, overflowed) := add g delta
    if overflowed > 0 ∧ delta > 0 then
      -- atomic.AddInt32(&state.count, -delta); f.add(-delta); return false, old, nil
      let state : Inst := { state with count := wrap32 (state.count + wrap32 (-delta)) }
      let (g, _) := add g (wrap32 (-delta))
      ({ g with states := put inst state g.states }, ⟨false, old, .none⟩)
    else if overflowed > 0 ∨ (overflowed = 0 ∧ current > 0) then
      ({ g with states := put inst state g.states }, ⟨false, current, .none⟩)
    else
      ({ g with states := put inst state g.states }, ⟨true, current, .none⟩)

/-- `func (f *globalMaxInflight) SetState(instance string, requestId int64, current int32)`,
    one critical section of `f.lock`. -/
def setState (g : G) (inst : Str) (requestId current : Int) : G × Reply :=
  -- state, ok := f.instanceStates[instance]
  match find inst g.states with
  | some state =>
    if current < 0 then
      -- delete(f.instanceStates, instance); f.add(-state.count); return false, -1, nil
      let g : G := { g with states := erase inst g.states }
      let (g, _) := add g (wrap32 (-state.count))
      (g, ⟨false, -1, .none⟩)
    else report g inst state requestId current
  | none =>
    if current < 0 then (g, ⟨false, -1, .none⟩)
    else
      -- state = &instanceState{}; f.instanceStates[instance] = state
      let state : Inst := ⟨0, 0⟩
      report { g with states := put inst state g.states } inst state requestId current

/-- `func (f *globalMaxInflight) Resize(n int32, burst int32) bool` -/
def resize (g : G) (n : Int) : G × Bool :=
  if g.max ≠ n then ({ g with max := n }, true) else (g, false)

/-- Σ of the registered per-instance counts (what `DebugInfo` prints as `total`, before wrapping). -/
def sumStates : States → Int
  | [] => 0
  | (_, v) :: r => v.count + sumStates r

/-- operations of the sequential / atomic-step system on one max-in-flight flow control -/
inductive Op where
  | set (inst : Str) (requestId current : Int)   -- a report (`current ≥ 0`) or a removal (`current < 0`)
  | resize (n : Int)
deriving DecidableEq, Repr, Inhabited

def step (g : G) : Op → G
  | .set i r c => (setState g i r c).1
  | .resize n => (resize g n).1

def run (g : G) (ops : List Op) : G := ops.foldl step g

/-! ## Fine-grained system: the mutex and every shared-memory access of `SetState`/`Resize` as steps

Threads run `SetState` / `Resize` calls. Shared memory is a `G` plus the owner of `f.lock`.
`SetState`: `Lock` · lookup/delete/create · id load · id store · swap · `AddInt32(&f.count)` ·
`LoadInt32(&f.max)` · [`AddInt32(&state.count)` · `AddInt32(&f.count)` · `LoadInt32(&f.max)`] · `Unlock`.
`Resize`: plain read of `f.max` · `atomic.StoreInt32(&f.max)`, neither under the lock.
Only the exclusion property of `sync.RWMutex.Lock` is assumed (a `Lock` step is enabled only when no
thread owns the lock). -/

/-- where a thread is inside the call it is executing -/
inductive Pc where
  | idle
  /-- `SetState` called, `f.lock.Lock()` not yet returned -/
  | wantLock (inst : Str) (requestId current : Int)
  /-- lock held, nothing done yet -/
  | locked (inst : Str) (requestId current : Int)
  /-- removal path: map entry deleted, `state` in hand, `f.add(-state.count)` pending -/
  | rmDeleted (state : Inst)
  /-- removal path / any path: only `Unlock` left -/
  | unlocking (reply : Reply)
  /-- report path: state object found or created and registered under `inst` -/
  | haveState (inst : Str) (requestId current : Int)
  /-- request id loaded and found new: store pending -/
  | idChecked (inst : Str) (requestId current : Int)
  /-- request id stored: swap pending -/
  | idStored (inst : Str) (requestId current : Int)
  /-- `old := Swap(&state.count, current)` done: `AddInt32(&f.count, delta)` pending -/
  | swapped (inst : Str) (requestId current old : Int)
  /-- `AddInt32(&f.count, delta)` done, result `count`: `LoadInt32(&f.max)` pending -/
  | added (inst : Str) (requestId current old delta count : Int)
  /-- rollback: `AddInt32(&state.count, -delta)` pending -/
  | rollback1 (inst : Str) (old delta : Int)
  /-- rollback: `f.add(-delta)` pending (its two atomics change/read nothing that is used) -/
  | rollback2 (old delta : Int)
  /-- `Resize(n)`: `f.max != n` was true, the store is pending -/
  | resizeStore (n : Int)
deriving DecidableEq, Repr, Inhabited

structure Fine where
  g : G
  /-- index of the thread that owns `f.lock` -/
  owner : Option Nat
  pcs : List Pc
deriving DecidableEq, Repr, Inhabited

def setPc (pcs : List Pc) (t : Nat) (p : Pc) : List Pc := pcs.set t p

/-- what thread `t` (at `pc`) does in its next shared-memory step; `call` is the call it starts when idle.
    `none`: not enabled (blocked on the lock, or idle with nothing to call). -/
def fineStep (s : Fine) (t : Nat) (call : Option Op) : Option Fine :=
  match s.pcs[t]? with
  | none => none
  | some pc =>
    let goto (g : G) (owner : Option Nat) (p : Pc) : Option Fine :=
      some { g := g, owner := owner, pcs := setPc s.pcs t p }
    match pc with
    | .idle =>
      match call with
      | none => none
      | some (.set i r c) => goto s.g s.owner (.wantLock i r c)
      | some (.resize n) =>
        -- `if f.max != n` (plain read)
        if s.g.max ≠ n then goto s.g s.owner (.resizeStore n) else goto s.g s.owner .idle
    | .resizeStore n => goto { s.g with max := n } s.owner .idle
    | .wantLock i r c =>
      match s.owner with
      | none => goto s.g (some t) (.locked i r c)
      | some _ => none
    | .locked i r c =>
      match find i s.g.states with
      | some state =>
        if c < 0 then goto { s.g with states := erase i s.g.states } s.owner (.rmDeleted state)
        else goto s.g s.owner (.haveState i r c)
      | none =>
        if c < 0 then goto s.g s.owner (.unlocking ⟨false, -1, .none⟩)
        else goto { s.g with states := put i ⟨0, 0⟩ s.g.states } s.owner (.haveState i r c)
    | .rmDeleted state =>
      -- f.add(-state.count): the load of max that follows is not used
      goto { s.g with count := wrap32 (s.g.count + wrap32 (-state.count)) } s.owner (.unlocking ⟨false, -1, .none⟩)
    | .haveState i r c =>
      if r > 0 then
        -- oldId := atomic.LoadInt64(&state.requestId)
        match find i s.g.states with
        | none => none   -- unreachable: the owner found or registered the state itself
        | some st =>
          if r ≤ st.requestId then goto s.g s.owner (.unlocking ⟨false, c, .requestIDTooOld⟩)
          else goto s.g s.owner (.idChecked i r c)
      else goto s.g s.owner (.idStored i r c)
    | .idChecked i r c =>
      match find i s.g.states with
      | none => none
      | some st => goto { s.g with states := put i { st with requestId := r } s.g.states } s.owner (.idStored i r c)
    | .idStored i r c =>
      match find i s.g.states with
      | none => none
      | some st =>
        goto { s.g with states := put i { st with count := c } s.g.states } s.owner (.swapped i r c st.count)
    | .swapped i r c old =>
      let delta := wrap32 (c - old)
      let count := wrap32 (s.g.count + delta)
      goto { s.g with count := count } s.owner (.added i r c old delta count)
    | .added i _ c old delta count =>
      -- max := atomic.LoadInt32(&f.max); overflowed := count - max
      let overflowed := wrap32 (count - s.g.max)
      if overflowed > 0 ∧ delta > 0 then goto s.g s.owner (.rollback1 i old delta)
      else if overflowed > 0 ∨ (overflowed = 0 ∧ c > 0) then goto s.g s.owner (.unlocking ⟨false, c, .none⟩)
      else goto s.g s.owner (.unlocking ⟨true, c, .none⟩)
    | .rollback1 i old delta =>
      match find i s.g.states with
      | none => none
      | some st =>
        goto { s.g with states := put i { st with count := wrap32 (st.count + wrap32 (-delta)) } s.g.states }
          s.owner (.rollback2 old delta)
    | .rollback2 old delta =>
      goto { s.g with count := wrap32 (s.g.count + wrap32 (-delta)) } s.owner (.unlocking ⟨false, old, .none⟩)
    | .unlocking _ => goto s.g none .idle

/-! ## server token bucket: `globalTokenBucket` over `rate.Limiter` -/

/-- `rate.Limiter` (`limit`, `burst`, `tokens`, `last`); `last = none` is the zero `time.Time` of a new
    limiter. `qps`/`burst` are the `int32` configuration values. -/
structure Bucket where
  qps : Int
  burst : Int
  tokens : Rat
  last : Option Int
deriving DecidableEq, Repr, Inhabited

/-- `rate.NewLimiter(rate.Limit(qps), int(burst))` -/
def Bucket.init (qps burst : Int) : Bucket := { qps := qps, burst := burst, tokens := 0, last := none }

def nsPerSec : Rat := 1000000000

/-- `Limit.tokensFromDuration` for a duration of `d` nanoseconds -/
def tokensFromNs (qps : Int) (d : Int) : Rat := (d : Rat) * (qps : Rat) / nsPerSec

def ratMin (a b : Rat) : Rat := if b < a then b else a

/-- `Limiter.advance(now)`: `(last, tokens)` (the returned `now` is the argument). For `qps > 0`
    (validation rejects anything else) a new limiter's first advance fills the bucket. -/
def advance (b : Bucket) (now : Int) : Option Int × Rat :=
  match b.last with
  | none => (none, (b.burst : Rat))
  | some l =>
    let last := if now < l then now else l
    (some last, ratMin (b.burst : Rat) (b.tokens + tokensFromNs b.qps (now - last)))

/-- `Limiter.AllowN(now, n)` = `reserveN(now, n, 0).ok` with its state update. -/
def allowN (b : Bucket) (now : Int) (n : Int) : Bucket × Bool :=
  let (last, tokens) := advance b now
  let tokens := tokens - (n : Rat)
  -- waitDuration > 0 exactly when tokens < 0 (up to the nanosecond truncation that is not modelled)
  let ok := decide (n ≤ b.burst) && decide (0 ≤ tokens)
  if ok then ({ b with last := some now, tokens := tokens }, true)
  else ({ b with last := last }, false)

/-- `globalTokenBucket.Resize(n, burst)` -/
def bucketResize (b : Bucket) (qps burst : Int) : Bucket × Bool :=
  if b.qps ≠ qps ∨ b.burst ≠ burst then (Bucket.init qps burst, true) else (b, false)

/-- The token-bucket arm of `DoAcquire`: `for i := 0; i < 4; i++ { accept = TryAcquireN(token); if accept
    { limit = token; break }; token = token / 2; if token <= 0 { break } }`. `nows` are the clock readings
    of the successive `TryAcquireN` calls: one is consumed per try, so the loop bound is the length of the
    list (`acquireOne` hands in `KG.Gen.C08.tbTries` = 4 readings; the divisor is `KG.Gen.C08.tbDivisor` = 2,
    both re-read from the Go source on every check). -/
def tbLoop (b : Bucket) (token : Int) : List Int → Bucket × Bool × Int
  | [] => (b, false, 0)
  | now :: nows =>
    let (b', ok) := allowN b now token
    if ok then (b', true, token)
    else
      let token := token / KG.Gen.C08.tbDivisor   -- token ≥ 0 here: Go's truncated division = floor division
      if token ≤ 0 then (b', false, 0) else tbLoop b' token nows

/-! ## the flow controls of one upstream in the local store, and `DoAcquire` -/

inductive FC where
  | mif (g : G)
  | tb (b : Bucket)
deriving Repr, Inhabited

inductive FCType where
  | maxRequestsInflight
  | tokenBucket
deriving DecidableEq, Repr

def FC.type : FC → FCType
  | .mif _ => .maxRequestsInflight
  | .tb _ => .tokenBucket

/-- `FlowControlSchema` restricted to its name and the two global configurations. -/
structure Schema where
  name : Str
  gmif : Option Int            -- GlobalMaxRequestsInflight.Max
  gtb : Option (Int × Int)     -- GlobalTokenBucket.{QPS, Burst}
deriving DecidableEq, Repr, Inhabited

abbrev FCs := List (Str × FC)

def findFC (k : Str) : FCs → Option FC
  | [] => none
  | (k', v) :: r => if k' = k then some v else findFC k r

def eraseFC (k : Str) : FCs → FCs
  | [] => []
  | (k', v) :: r => if k' = k then r else (k', v) :: eraseFC k r

def putFC (k : Str) (v : FC) : FCs → FCs
  | [] => [(k, v)]
  | (k', v') :: r => if k' = k then (k, v) :: r else (k', v') :: putFC k v r

/-- `upstreamCondition` of the local store: `flowControls` and `currentFlowControlSpec`. -/
structure Store where
  fcs : FCs
  spec : List Schema
  /-- `rateLimiter.clientCache`: the instances with a heartbeat on record -/
  clients : List Str := []
  /-- the instances (`Spec.Instance`) of the rate-limit conditions kept in the store -/
  conds : List Str := []
deriving Repr, Inhabited

def Store.empty : Store := { fcs := [], spec := [] }

/-- `flowcontrol.NewGlobalFlowControl(schema)` for a schema with at least one global configuration -/
def newFC (s : Schema) : Option FC :=
  match s.gmif, s.gtb with
  | some m, _ => some (.mif (G.init m))
  | none, some (q, b) => some (.tb (Bucket.init q b))
  | none, none => none

/-- `flowcontrol.ResizeGlobalFlowControl(fc, schema, _)`; the flow control has the schema's type -/
def resizeFC (fc : FC) (s : Schema) : FC :=
  match s.gmif, s.gtb, fc with
  | some m, _, .mif g => .mif (resize g m).1
  | some _, _, .tb b => .tb b   -- globalTokenBucket.Resize(max, 0) cannot happen: types agree
  | none, some (q, bu), .tb b => .tb (bucketResize b q bu).1
  | none, some _, .mif g => .mif g
  | none, none, fc => fc

/-- one iteration of the loop over `flowControls.Schemas` in `syncLocalFlowControls` -/
def syncOne (fcs : FCs) (s : Schema) : FCs :=
  match newFC s with
  | none => fcs   -- neither global configuration: `continue`
  | some fresh =>
    -- newType := GuessFlowControlSchemaType(newSchema) (no Exempt / local fields in the modelled schemas)
    let newType : FCType := if s.gmif.isSome then .maxRequestsInflight else .tokenBucket
    match findFC s.name fcs with
    | none => putFC s.name fresh fcs
    | some fc =>
      if fc.type ≠ newType then putFC s.name fresh fcs   -- the following Resize of the fresh object is a no-op
      else putFC s.name (resizeFC fc s) fcs

/-- names of the schemas that get a flow control (`newset`) -/
def newNames (spec : List Schema) : List Str :=
  (spec.filter fun s => (newFC s).isSome).map (·.name)

/-- `upstreamCondition.syncLocalFlowControls` -/
def sync (st : Store) (spec : List Schema) : Store :=
  if st.spec = spec then st
  else
    let fcs := spec.foldl syncOne st.fcs
    let deleted := (st.spec.map (·.name)).filter fun n => !(newNames spec).contains n
    { st with fcs := deleted.foldl (fun f n => eraseFC n f) fcs, spec := spec }

/-- `localStore.DeleteInstanceState(instance)`: `fc.SetState(instance, -1, -1)` on every flow control -/
def deleteInstanceState (st : Store) (inst : Str) : Store :=
  { st with fcs := st.fcs.map fun (n, fc) =>
      match fc with
      | .mif g => (n, .mif (setState g inst (-1) (-1)).1)
      | .tb b => (n, .tb b) }

/-! ### the server's own removal paths: heartbeat time-out sweep and clean-up of conditions of unknown clients -/

/-- `rateLimiter.Heartbeat(instance)` -/
def heartbeat (st : Store) (inst : Str) : Store :=
  if st.clients.contains inst then st else { st with clients := st.clients ++ [inst] }

/-- a condition of `inst` is saved in the store -/
def saveCondition (st : Store) (inst : Str) : Store :=
  if st.conds.contains inst then st else { st with conds := st.conds ++ [inst] }

/-- `rateLimiter.cleanupTimeoutClient` when exactly the clients in `stale` are past `ClientHeartBeatTimeout`: each of
    them that is on record is dropped from the cache, its conditions are deleted and `DeleteInstanceState` removes its
    state from every flow control — the state of THAT instance, by its exact identity. -/
def sweepTimeout (st : Store) (stale : List Str) : Store :=
  let gone := st.clients.filter fun c => stale.contains c
  let st1 := gone.foldl deleteInstanceState st
  { st1 with clients := st.clients.filter (fun c => !stale.contains c),
             conds := st.conds.filter (fun c => !gone.contains c) }

/-- `rateLimiter.cleanupUnknownCondition` (every upstream known): the conditions of instances without a heartbeat on
    record are deleted (not those with an empty instance) and the state of these instances is removed -/
def cleanupUnknown (st : Store) : Store :=
  let gone := st.conds.filter fun c => !st.clients.contains c && !c.isEmpty
  let st1 := gone.foldl deleteInstanceState st
  { st1 with conds := st.conds.filter (fun c => !gone.contains c) }

inductive AcqErr where
  | none
  | notFound          -- GetFlowControl failed
  | negativeTokens    -- "tokens cannot be negative"
  | requestIDTooOld
deriving DecidableEq, Repr, Inhabited

/-- `RateLimitAcquireResult` (without the echoed name) -/
structure AcqResult where
  accept : Bool
  limit : Int
  err : AcqErr
deriving DecidableEq, Repr, Inhabited

/-- the closure run for one entry of `acquireRequest.Spec.Requests` -/
def acquireOne (st : Store) (inst : Str) (requestId : Int) (name : Str) (tokens : Int) (nows : List Int) :
    Store × AcqResult :=
  match findFC name st.fcs with
  | none => (st, ⟨false, 0, .notFound⟩)
  | some fc =>
    if tokens < 0 then (st, ⟨false, 0, .negativeTokens⟩)
    else
      match fc with
      | .tb b =>
        let (b', accept, limit) := tbLoop b tokens (nows.take KG.Gen.C08.tbTries)
        ({ st with fcs := putFC name (.tb b') st.fcs }, ⟨accept, limit, .none⟩)
      | .mif g =>
        let (g', r) := setState g inst requestId tokens
        let st' := { st with fcs := putFC name (.mif g') st.fcs }
        match r.err with
        | .requestIDTooOld => (st', ⟨false, 0, .requestIDTooOld⟩)
        | .none => if r.accept then (st', ⟨true, tokens, .none⟩) else (st', ⟨false, r.latest, .none⟩)

/-- `rateLimiter.DoAcquire` on a leader with a limit store: the results in request order -/
def doAcquire (st : Store) (inst : Str) (requestId : Int) (nows : List Int) :
    List (Str × Int) → Store × List AcqResult
  | [] => (st, [])
  | (name, tokens) :: rest =>
    let (st1, r) := acquireOne st inst requestId name tokens nows
    let (st2, rs) := doAcquire st1 inst requestId nows rest
    (st2, r :: rs)

end KG.Model.GlobalCount
