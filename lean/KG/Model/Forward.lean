import KG.Base.Json
import KG.Gen.C04
/-!
# Model of forwarding and of gateway-terminated answers (C04)

Mirrors, function by function,
* `net/url` as used on the way (`shouldEscape`, `unescape`, `escape`, `validEncoded`, `setPath`, `EscapedPath`,
  `parseQuery`, `Values.Encode`) — standard library, modelled and correspondence-checked, not verified;
* `pkg/gateway/proxy/dispatcher/dispatcher.go` (`ServeHTTP`: the decision sequence and the construction of `location`),
* `pkg/gateway/proxy/dispatcher/upgradeaware.go` (`ServeHTTP`: trailing-slash rule, the upgrade test),
* `pkg/util/reverseproxy/reverseproxy.go` (`joinURLPath`, the director, `removeConnectionHeaders`, the hop-by-hop
  list — regenerated `KG.Gen.C04.hopHeaders` —, the `Te: trailers` rule, the upgrade re-add, `X-Forwarded-For`,
  `copyHeader` on the way back),
* `pkg/gateway/endpoints/filters/upstreaminfo.go`, `pkg/gateway/endpoints/response/termination.go`,
  `pkg/gateway/proxy/dispatcher/status.go` (`TerminateWithError`, `responseError`) and the filter order of
  `cmd/kube-gateway/app/proxy.go` (regenerated `KG.Gen.C04.proxyChain`).

Strings are byte lists. A header map (`http.Header`) is an association list from canonical names to value lists.
-/
namespace KG.Model.Forward
open KG

/-! ## constants (ASCII bytes) -/
def kConnection : Str := [67, 111, 110, 110, 101, 99, 116, 105, 111, 110]  -- "Connection"
def kTe : Str := [84, 101]  -- "Te"
def kTrailers : Str := [116, 114, 97, 105, 108, 101, 114, 115]  -- "trailers"
def kUpgrade : Str := [85, 112, 103, 114, 97, 100, 101]  -- "Upgrade"
def kXFF : Str := [88, 45, 70, 111, 114, 119, 97, 114, 100, 101, 100, 45, 70, 111, 114]  -- "X-Forwarded-For"
def kUserAgent : Str := [85, 115, 101, 114, 45, 65, 103, 101, 110, 116]  -- "User-Agent"
def kAuthorization : Str := [65, 117, 116, 104, 111, 114, 105, 122, 97, 116, 105, 111, 110]  -- "Authorization"
def kImpersonatePrefix : Str := [73, 109, 112, 101, 114, 115, 111, 110, 97, 116, 101, 45]  -- "Impersonate-"
def kContentLength : Str := [67, 111, 110, 116, 101, 110, 116, 45, 76, 101, 110, 103, 116, 104]  -- "Content-Length"
def kAcceptEncoding : Str := [65, 99, 99, 101, 112, 116, 45, 69, 110, 99, 111, 100, 105, 110, 103]  -- "Accept-Encoding"
def kCacheControl : Str := [67, 97, 99, 104, 101, 45, 67, 111, 110, 116, 114, 111, 108]  -- "Cache-Control"
def kNoCachePrivate : Str := [110, 111, 45, 99, 97, 99, 104, 101, 44, 32, 112, 114, 105, 118, 97, 116, 101]  -- "no-cache, private"
def kClose : Str := [99, 108, 111, 115, 101]  -- "close"
def kDate : Str := [68, 97, 116, 101]  -- "Date"
def kContentType : Str := [67, 111, 110, 116, 101, 110, 116, 45, 84, 121, 112, 101]  -- "Content-Type"
def kCommaSpace : Str := [44, 32]  -- ", "
def kUpgradeLower : Str := [117, 112, 103, 114, 97, 100, 101]  -- "upgrade"
def kStar : Str := [42]  -- "*"
def kTooManyRequests : Str := [84, 111, 111, 77, 97, 110, 121, 82, 101, 113, 117, 101, 115, 116, 115]  -- "TooManyRequests"
def kServiceUnavailable : Str := [83, 101, 114, 118, 105, 99, 101, 85, 110, 97, 118, 97, 105, 108, 97, 98, 108, 101]  -- "ServiceUnavailable"
def kInternalError : Str := [73, 110, 116, 101, 114, 110, 97, 108, 69, 114, 114, 111, 114]  -- "InternalError"
def kForbidden : Str := [70, 111, 114, 98, 105, 100, 100, 101, 110]  -- "Forbidden"
def kUnauthorized : Str := [85, 110, 97, 117, 116, 104, 111, 114, 105, 122, 101, 100]  -- "Unauthorized"
def kServerTimeout : Str := [83, 101, 114, 118, 101, 114, 84, 105, 109, 101, 111, 117, 116]  -- "ServerTimeout"
def kStatus : Str := [83, 116, 97, 116, 117, 115]  -- "Status"
def kFailure : Str := [70, 97, 105, 108, 117, 114, 101]  -- "Failure"
def kV1 : Str := [118, 49]  -- "v1"
def kWithDispatcher : Str := [87, 105, 116, 104, 68, 105, 115, 112, 97, 116, 99, 104, 101, 114]
def kWithImpersonation : Str := [87, 105, 116, 104, 78, 111, 76, 111, 103, 103, 105, 110, 103, 73, 109, 112, 101, 114, 115, 111, 110, 97, 116, 105, 111, 110]
def kWithAuthentication : Str := [87, 105, 116, 104, 65, 117, 116, 104, 101, 110, 116, 105, 99, 97, 116, 105, 111, 110]
def kWithUpstreamInfo : Str := [87, 105, 116, 104, 85, 112, 115, 116, 114, 101, 97, 109, 73, 110, 102, 111]
def kWithExtraRequestInfo : Str := [87, 105, 116, 104, 69, 120, 116, 114, 97, 82, 101, 113, 117, 101, 115, 116, 73, 110, 102, 111]
def kWithTerminationMetrics : Str := [87, 105, 116, 104, 84, 101, 114, 109, 105, 110, 97, 116, 105, 111, 110, 77, 101, 116, 114, 105, 99, 115]
def kWithRequestInfo : Str := [87, 105, 116, 104, 82, 101, 113, 117, 101, 115, 116, 73, 110, 102, 111]
def kWithRWWrapper : Str := [87, 105, 116, 104, 82, 101, 113, 117, 101, 115, 116, 82, 101, 97, 100, 101, 114, 87, 114, 105, 116, 101, 114, 87, 114, 97, 112, 112, 101, 114]
def kWithCacheControl : Str := [87, 105, 116, 104, 67, 97, 99, 104, 101, 67, 111, 110, 116, 114, 111, 108]

#guard kConnection == Str.ofString "Connection" && kTe == Str.ofString "Te" && kTrailers == Str.ofString "trailers"
#guard kUpgrade == Str.ofString "Upgrade" && kXFF == Str.ofString "X-Forwarded-For" && kUserAgent == Str.ofString "User-Agent"
#guard kAuthorization == Str.ofString "Authorization" && kImpersonatePrefix == Str.ofString "Impersonate-"
#guard kContentLength == Str.ofString "Content-Length" && kAcceptEncoding == Str.ofString "Accept-Encoding"
#guard kCacheControl == Str.ofString "Cache-Control" && kNoCachePrivate == Str.ofString "no-cache, private" && kClose == Str.ofString "close"
#guard kDate == Str.ofString "Date" && kContentType == Str.ofString "Content-Type" && kUpgradeLower == Str.ofString "upgrade"
#guard kTooManyRequests == Str.ofString "TooManyRequests" && kServiceUnavailable == Str.ofString "ServiceUnavailable"
#guard kInternalError == Str.ofString "InternalError" && kForbidden == Str.ofString "Forbidden" && kUnauthorized == Str.ofString "Unauthorized"
#guard kServerTimeout == Str.ofString "ServerTimeout" && kStatus == Str.ofString "Status" && kFailure == Str.ofString "Failure" && kV1 == Str.ofString "v1"
#guard kWithDispatcher == Str.ofString "WithDispatcher" && kWithImpersonation == Str.ofString "WithNoLoggingImpersonation"
#guard kWithAuthentication == Str.ofString "WithAuthentication" && kWithUpstreamInfo == Str.ofString "WithUpstreamInfo"
#guard kWithExtraRequestInfo == Str.ofString "WithExtraRequestInfo" && kWithTerminationMetrics == Str.ofString "WithTerminationMetrics"
#guard kWithRequestInfo == Str.ofString "WithRequestInfo" && kWithRWWrapper == Str.ofString "WithRequestReaderWriterWrapper"
#guard kWithCacheControl == Str.ofString "WithCacheControl"

/-! ## bytes -/
def isUpperAZ (c : UInt8) : Bool := decide (65 ≤ c) && decide (c ≤ 90)
def isLowerAZ (c : UInt8) : Bool := decide (97 ≤ c) && decide (c ≤ 122)
def isDigit (c : UInt8) : Bool := decide (48 ≤ c) && decide (c ≤ 57)
def isAlnum (c : UInt8) : Bool := isUpperAZ c || isLowerAZ c || isDigit c
/-- `lowerASCII` -/
def lowerB (c : UInt8) : UInt8 := if isUpperAZ c then c + 32 else c
def lowerStr (s : Str) : Str := s.map lowerB
def memB (c : UInt8) (l : List UInt8) : Bool := l.any (fun x => decide (x = c))

def hasPrefixSlash : Str → Bool
  | c :: _ => decide (c = 47)
  | [] => false
def hasSuffixSlash (s : Str) : Bool := hasPrefixSlash s.reverse

/-- `strings.Cut(s, sep)` for a one-byte separator: (before, after); after = "" when sep does not occur -/
def cut (sep : UInt8) : Str → Str × Str
  | [] => ([], [])
  | c :: rest => if c = sep then ([], rest) else ((c :: (cut sep rest).1), (cut sep rest).2)

/-- `strings.Split(s, sep)` for a one-byte separator (never empty) -/
def splitOn (sep : UInt8) : Str → List Str
  | [] => [[]]
  | c :: rest =>
    if c = sep then [] :: splitOn sep rest
    else match splitOn sep rest with
      | [] => [[c]]
      | s :: ss => (c :: s) :: ss

/-- `strings.Join(l, sep)` -/
def joinWith (sep : Str) : List Str → Str
  | [] => []
  | [x] => x
  | x :: y :: rest => x ++ sep ++ joinWith sep (y :: rest)

/-- `strings.Contains(s, sub)` -/
def isPrefixOfB : Str → Str → Bool
  | [], _ => true
  | _ :: _, [] => false
  | a :: as, b :: bs => decide (a = b) && isPrefixOfB as bs
def containsSub (sub : Str) : Str → Bool
  | [] => isPrefixOfB sub []
  | c :: rest => isPrefixOfB sub (c :: rest) || containsSub sub rest

/-! ## net/url -/
inductive Mode | path | query   -- encodePath, encodeQueryComponent
deriving DecidableEq, Repr

def ishex (c : UInt8) : Bool := isDigit c || (decide (97 ≤ c) && decide (c ≤ 102)) || (decide (65 ≤ c) && decide (c ≤ 70))
def unhex (c : UInt8) : UInt8 :=
  if isDigit c then c - 48
  else if decide (97 ≤ c) && decide (c ≤ 102) then c - 97 + 10
  else if decide (65 ≤ c) && decide (c ≤ 70) then c - 65 + 10
  else 0
/-- `"0123456789ABCDEF"[n]` for n < 16 -/
def upperhex (n : UInt8) : UInt8 := if n < 10 then 48 + n else 55 + n

/-- `shouldEscape(c, mode)` for the two modes used on this path -/
def shouldEscape (c : UInt8) (m : Mode) : Bool :=
  if isAlnum c then false
  else if memB c [45, 95, 46, 126] then false                              -- - _ . ~
  else if memB c [36, 38, 43, 44, 47, 58, 59, 61, 63, 64] then             -- $ & + , / : ; = ? @
    (match m with
     | .path => decide (c = 63)
     | .query => true)
  else true

/-- `unescape(s, mode)`; `none` = EscapeError -/
def unescape (m : Mode) : Str → Option Str
  | [] => some []
  | c :: rest =>
    if c = 37 then
      match rest with
      | a :: b :: rest' =>
        if ishex a && ishex b then (unescape m rest').map (fun r => ((unhex a <<< 4) ||| unhex b) :: r) else none
      | _ => none
    else (unescape m rest).map (fun r => (if c = 43 ∧ m = .query then 32 else c) :: r)

/-- `escape(s, mode)` -/
def escape (m : Mode) : Str → Str
  | [] => []
  | c :: rest =>
    if shouldEscape c m then
      if c = 32 ∧ m = .query then 43 :: escape m rest
      else 37 :: upperhex (c >>> 4) :: upperhex (c &&& 15) :: escape m rest
    else c :: escape m rest

/-- one byte of `validEncoded(s, encodePath)` -/
def validEncodedByte (c : UInt8) : Bool :=
  memB c [33, 36, 38, 39, 40, 41, 42, 43, 44, 59, 61, 58, 64, 91, 93, 37] || !shouldEscape c .path
def validEncoded (s : Str) : Bool := s.all validEncodedByte

/-- the `Path`/`RawPath` pair of a `url.URL` -/
structure URLPath where
  path : Str
  rawPath : Str
deriving DecidableEq, Repr

/-- `(*URL).setPath` -/
def setPath (p : Str) : Option URLPath :=
  match unescape .path p with
  | none => none
  | some path => some ⟨path, if p = escape .path path then [] else p⟩

/-- `(*URL).EscapedPath` -/
def escapedPath (u : URLPath) : Str :=
  if u.rawPath ≠ [] ∧ validEncoded u.rawPath = true ∧ unescape .path u.rawPath = some u.path then u.rawPath
  else if u.path = kStar then kStar
  else escape .path u.path

/-- `singleJoiningSlash` -/
def singleJoiningSlash (a b : Str) : Str :=
  if hasSuffixSlash a ∧ hasPrefixSlash b then a ++ b.drop 1
  else if ¬ hasSuffixSlash a ∧ ¬ hasPrefixSlash b then a ++ [47] ++ b
  else a ++ b

/-- `joinURLPath` (reverseproxy.go) -/
def joinURLPath (a b : URLPath) : URLPath :=
  if a.rawPath = [] ∧ b.rawPath = [] then ⟨singleJoiningSlash a.path b.path, []⟩
  else
    let apath := escapedPath a
    let bpath := escapedPath b
    if hasSuffixSlash apath ∧ hasPrefixSlash bpath then ⟨a.path ++ b.path.drop 1, apath ++ bpath.drop 1⟩
    else if ¬ hasSuffixSlash apath ∧ ¬ hasPrefixSlash bpath then ⟨a.path ++ [47] ++ b.path, apath ++ [47] ++ bpath⟩
    else ⟨a.path ++ b.path, apath ++ bpath⟩

/-- the path part of `location.String()` when the host is non-empty -/
def locationStringPath (u : URLPath) : Str :=
  let p := escapedPath u
  if p ≠ [] ∧ ¬ hasPrefixSlash p then 47 :: p else p

/-- the path of `URL.RequestURI()` -/
def requestURIPath (u : URLPath) : Str :=
  let r := escapedPath u
  if r = [] then [47] else r

/-- `valid` of `escapeInvalidPathBytes` (dispatcher.go, since 85b204e): letters, digits and the punctuation regenerated from
    the source (`KG.Gen.C04.validPathPunct`) — the bytes net/url accepts in `URL.RawPath` -/
def pathByteValid (c : UInt8) : Bool := isAlnum c || memB c Gen.C04.validPathPunct

/-- `escapeInvalidPathBytes`: percent-encode exactly the bytes net/url rejects in `RawPath`, leave everything else —
    existing escapes included — alone -/
def escapeInvalidPathBytes : Str → Str
  | [] => []
  | c :: rest =>
    if pathByteValid c then c :: escapeInvalidPathBytes rest
    else 37 :: upperhex (c >>> 4) :: upperhex (c &&& 15) :: escapeInvalidPathBytes rest

/-- From the `location` the dispatcher built to the request target the transport writes: `normalizeLocation` re-parses
    `location.String()` → `UpgradeAwareHandler.ServeHTTP` trailing-slash rule (`req.URL` is `location`) → director
    `joinURLPath(target, loc)` with an empty target path → `RequestURI()`. -/
def pathFromLocation (location : URLPath) : Option Str :=
  match setPath (locationStringPath location) with
  | none => none
  | some h =>
    let loc : URLPath :=
      ⟨if ¬ hasSuffixSlash h.path ∧ hasSuffixSlash location.path then h.path ++ [47] else h.path, h.rawPath⟩
    some (requestURIPath (joinURLPath ⟨[], []⟩ loc))

/-- The way of the request path: server parse (`setPath`) → `dispatcher.ServeHTTP` copies `Path` and
    `escapeInvalidPathBytes(RawPath)` into `location` → `pathFromLocation`. `none`: the server itself refuses the target (400). -/
def pathPipeline (p : Str) : Option Str :=
  match setPath p with
  | none => none
  | some u => pathFromLocation ⟨u.path, escapeInvalidPathBytes u.rawPath⟩

/-! ### query -/
/-- one `key[=value]` segment of `parseQuery`; `none` = skipped (empty, contains `;`, bad escape) -/
def parsePair (seg : Str) : Option (Str × Str) :=
  if memB 59 seg then none
  else if seg = [] then none
  else
    match unescape .query (cut 61 seg).1, unescape .query (cut 61 seg).2 with
    | some k, some v => some (k, v)
    | _, _ => none

/-- `url.ParseQuery` (errors ignored, as `URL.Query()` does): the accepted pairs in order.
    `Values` (a map from key to the list of its values in order) is determined by this list. -/
def parseQuery (q : Str) : List (Str × Str) := (splitOn 38 q).filterMap parsePair

/-- `Values[k]` -/
def valuesOf (k : Str) (ps : List (Str × Str)) : List Str := (ps.filter (fun e => decide (e.1 = k))).map (·.2)

/-- byte-wise `<` on strings (Go's string comparison) -/
def ltStr : Str → Str → Bool
  | [], [] => false
  | [], _ :: _ => true
  | _ :: _, [] => false
  | a :: as, b :: bs => if a < b then true else if b < a then false else ltStr as bs

/-- insert into a sorted key list -/
def insSorted (k : Str) : List Str → List Str
  | [] => [k]
  | x :: xs => if ltStr k x then k :: x :: xs else x :: insSorted k xs

/-- insert a map key: a key already present is not repeated -/
def insertKey (k : Str) (l : List Str) : List Str := if k ∈ l then l else insSorted k l

/-- the sorted distinct keys (`slices.Sort(keys)` over the map's keys) -/
def sortedKeys (ps : List (Str × Str)) : List Str := ps.foldr (fun e acc => insertKey e.1 acc) []

def encPair (k v : Str) : Str := escape .query k ++ [61] ++ escape .query v

/-- `Values.Encode` -/
def encodeQuery (ps : List (Str × Str)) : Str :=
  joinWith [38] ((sortedKeys ps).flatMap fun k => (valuesOf k ps).map fun v => encPair k v)

/-- the request target written by the transport, from the request target received -/
def targetPipeline (t : Str) : Option Str :=
  match pathPipeline (cut 63 t).1 with
  | none => none
  | some p =>
    let q := encodeQuery (parseQuery (cut 63 t).2)
    some (if q = [] then p else p ++ [63] ++ q)

/-! ## headers -/
abbrev Hdr := List (Str × List Str)

def Hdr.get? : Hdr → Str → Option (List Str)
  | [], _ => none
  | (k', vv) :: rest, k => if k' = k then some vv else Hdr.get? rest k
/-- `h[k]` with nil = `[]` -/
def Hdr.values (h : Hdr) (k : Str) : List Str := (h.get? k).getD []
/-- `h.Del(k)` (k canonical) -/
def Hdr.del (h : Hdr) (k : Str) : Hdr := h.filter (fun e => decide (e.1 ≠ k))
/-- `h.Set(k, v)` -/
def Hdr.set (h : Hdr) (k v : Str) : Hdr := h.del k ++ [(k, [v])]
/-- `h.Add(k, v)` -/
def Hdr.add : Hdr → Str → Str → Hdr
  | [], k, v => [(k, [v])]
  | (k', vv) :: rest, k, v => if k' = k then (k', vv ++ [v]) :: rest else (k', vv) :: Hdr.add rest k v
def Hdr.keys (h : Hdr) : List Str := h.map (·.1)

/-- `validHeaderFieldByte` (token bytes) -/
def validHeaderFieldByte (c : UInt8) : Bool :=
  isAlnum c || memB c [33, 35, 36, 37, 38, 39, 42, 43, 45, 46, 94, 95, 96, 124, 126]

def canonLoop : Bool → Str → Str
  | _, [] => []
  | upper, c :: rest =>
    let c' := if upper && isLowerAZ c then c - 32 else if !upper && isUpperAZ c then c + 32 else c
    c' :: canonLoop (decide (c' = 45)) rest

/-- `textproto.CanonicalMIMEHeaderKey`: names with a byte outside the token set are left alone -/
def canonKey (a : Str) : Str := if a.all validHeaderFieldByte then canonLoop true a else a

/-- the header map net/http builds from the header lines (Host is not part of it) -/
def parseHeaders (lines : List (Str × Str)) : Hdr := lines.foldl (fun h l => h.add (canonKey l.1) l.2) []

def isASCIISpace (c : UInt8) : Bool := memB c [32, 9, 10, 13]
/-- `textproto.TrimString` -/
def trimString (s : Str) : Str := ((s.dropWhile isASCIISpace).reverse.dropWhile isASCIISpace).reverse
def isOWS (c : UInt8) : Bool := memB c [32, 9]
def trimOWS (s : Str) : Str := ((s.dropWhile isOWS).reverse.dropWhile isOWS).reverse

/-- `httpguts.tokenEqual` -/
def tokenEqual (t1 t2 : Str) : Bool :=
  decide (t1.length = t2.length) && (t1.zip t2).all (fun ab => decide (ab.1 < 128) && decide (lowerB ab.1 = lowerB ab.2))
/-- `httpguts.HeaderValuesContainsToken` -/
def headerValuesContainsToken (values : List Str) (token : Str) : Bool :=
  values.any fun v => (splitOn 44 v).any fun part => tokenEqual (trimOWS part) token

/-- `httpstream.IsUpgradeRequest`: some `Connection` value contains "upgrade" (case-insensitively) -/
def isUpgradeRequest (h : Hdr) : Bool := (h.values kConnection).any fun v => containsSub kUpgradeLower (lowerStr v)

/-- `upgradeType` (reverseproxy.go) -/
def upgradeType (h : Hdr) : Str :=
  if headerValuesContainsToken (h.values kConnection) kUpgrade then
    (match h.values kUpgrade with | v :: _ => v | [] => [])
  else []

/-- the names listed in `Connection`, as `removeConnectionHeaders` deletes them (`h.Del(sf)` canonicalises) -/
def connectionTokens (h : Hdr) : List Str :=
  (h.values kConnection).flatMap fun f => (splitOn 44 f).filterMap fun sf =>
    let t := trimString sf
    if t = [] then none else some (canonKey t)

def delAll (ks : List Str) (h : Hdr) : Hdr := ks.foldl Hdr.del h

/-- `removeConnectionHeaders` -/
def removeConnectionHeaders (h : Hdr) : Hdr := delAll (connectionTokens h) h
/-- `for _, h := range hopHeaders { header.Del(h) }` -/
def removeHop (h : Hdr) : Hdr := delAll Gen.C04.hopHeaders h

/-- the director of `NewSingleHostReverseProxy`, header part -/
def director (h : Hdr) : Hdr := if (h.get? kUserAgent).isSome then h else h.set kUserAgent []

/-- the `X-Forwarded-For` step; `ip = none` when `net.SplitHostPort(req.RemoteAddr)` fails -/
def xffStep (h : Hdr) (ip : Option Str) : Hdr :=
  match ip with
  | none => h
  | some ip =>
    match h.get? kXFF with
    | some [] => h                                                     -- present with nil value: omit
    | some (p :: ps) => h.set kXFF (joinWith kCommaSpace (p :: ps) ++ kCommaSpace ++ ip)
    | none => h.set kXFF ip

/-- `removeConnectionHeaders(outreq.Header)` then `for _, h := range hopHeaders { outreq.Header.Del(h) }` -/
def stripHopByHop (out : Hdr) : Hdr := removeHop (removeConnectionHeaders out)

/-- `if HeaderValuesContainsToken(req.Header["Te"], "trailers") { outreq.Header.Set("Te", "trailers") }`
    (`h` is the header map of the incoming request, `out` the one being built) -/
def teStep (h out : Hdr) : Hdr :=
  if headerValuesContainsToken (h.values kTe) kTrailers then out.set kTe kTrailers else out

/-- `if reqUpType != "" { Set("Connection", "Upgrade"); Set("Upgrade", reqUpType) }` -/
def upgradeStep (reqUpType : Str) (out : Hdr) : Hdr :=
  if reqUpType ≠ [] then (out.set kConnection kUpgrade).set kUpgrade reqUpType else out

/-- Headers handed to `transport.RoundTrip` by `ReverseProxy.ServeHTTP`, from the headers the proxy handler received:
    director, `upgradeType`, strip, `Te` rule, upgrade re-add, `X-Forwarded-For` — in the order of the Go code. -/
def outHeaders (h : Hdr) (ip : Option Str) : Hdr :=
  xffStep (upgradeStep (upgradeType (director h)) (teStep h (stripHopByHop (director h)))) ip

/-- `copyHeader(dst, src)` -/
def copyHeader (dst src : Hdr) : Hdr := src.foldl (fun d e => e.2.foldl (fun d v => d.add e.1 v) d) dst

/-- response headers written to the client's `ResponseWriter`: what the filters put there before (`pre`), then the
    upstream's headers minus connection-listed and hop-by-hop ones, `Add`ed -/
def relayHeaders (pre up : Hdr) : Hdr := copyHeader pre (removeHop (removeConnectionHeaders up))

/-! ## one forwarded round trip -/
structure Req where
  method : Str
  target : Str               -- request target as received (origin form)
  host : Str
  lines : List (Str × Str)   -- header lines as received (Host excluded)
  body : Str
  remoteIP : Option Str
deriving Repr

structure UpReq where
  method : Str
  target : Str
  host : Str
  headers : Hdr
  body : Str
deriving Repr, DecidableEq

structure Resp where
  status : Nat
  headers : Hdr
  body : Str
deriving Repr, DecidableEq

/-- `WithAuthentication` on success: `req.Header.Del("Authorization")` -/
def afterAuthentication (h : Hdr) : Hdr := h.del kAuthorization

/-- what `transport.RoundTrip` is called with; `none`: the target is refused by net/http's server (400) -/
def forwardRequest (r : Req) : Option UpReq :=
  match targetPipeline r.target with
  | none => none
  | some t => some { method := r.method, target := t, host := r.host,
                     headers := outHeaders (afterAuthentication (parseHeaders r.lines)) r.remoteIP, body := r.body }

/-- headers the gateway's own filters set on the response before proxying: `WithCacheControl`, and `WithUpstreamInfo`
    under the CloseConnectionWhenIdle gate -/
def preHeaders (closeWhenIdle : Bool) : Hdr :=
  (if closeWhenIdle then [(kConnection, [kClose])] else []) ++ [(kCacheControl, [kNoCachePrivate])]

/-- net/http's client (`shouldClose(…, removeCloseHeader = true)` in `readTransfer`): a response whose `Connection`
    header contains the token `close` reaches the reverse proxy WITHOUT its `Connection` header (all values), so
    names listed there are not recognised as connection-listed. Standard library behaviour, modelled. -/
def transportResponseHeaders (up : Hdr) : Hdr :=
  if headerValuesContainsToken (up.values kConnection) kClose then up.del kConnection else up

/-- the response header map `transport.RoundTrip` returns, from the header lines the upstream wrote -/
def upstreamResponseHeaders (upLines : List (Str × Str)) : Hdr := transportResponseHeaders (parseHeaders upLines)

/-- `ReverseProxy.ServeHTTP` after the round trip: status, headers, body (trailers not modelled) -/
def relayResponse (closeWhenIdle : Bool) (upStatus : Nat) (upLines : List (Str × Str)) (upBody : Str) : Resp :=
  { status := upStatus, headers := relayHeaders (preHeaders closeWhenIdle) (upstreamResponseHeaders upLines), body := upBody }

/-! ## time: when the upstream answers, and the deadlines on the gateway's side

A forwarded request is sent with `EndpointInfo.ProxyTransport`: the `http.Transport` literal of `newTransport`
(pkg/clusters/endpoint.go) handed to `utilnet.SetTransportDefaults`, wrapped by `rest.HTTPWrappersForConfig` (credentials, user
agent: no time-out) and called DIRECTLY by the reverse proxy (`transport.RoundTrip`, no `http.Client`, so `rest.Config.Timeout`
— 5 s in `newRESTConfig`, meant for the health-check clientset — never applies to a forwarded request). Which time-outs the
literal sets is regenerated (`Gen.C04.transportFields`, `transportDurationsMs`). The chain has no time-out filter
(`WithTimeoutForNonLongRunningRequests` is commented out in proxy.go: "let upstream cluster handle it"; `Gen.C04.proxyChainNames`).
What remains bounds only the CONNECTION, not the answer: dial 5 s (`restDialerMs`; 30 s in the fallback dialer), TLS handshake
10 s, idle kept-alive connections 90 s (net/http's default through `SetTransportDefaults`). -/

/-- when the upstream writes, in milliseconds: after it has read the request, before the status line and header; between
    header and body; between consecutive pieces of the body -/
structure Timing where
  beforeStatus : Nat
  beforeBody : Nat
  gaps : List Nat
deriving Repr, DecidableEq

/-- the deadlines of the gateway's side for the ANSWER of a forwarded request. `http.Transport.ResponseHeaderTimeout` (from the
    request written to the response header read) is the only one net/http's transport has; `none` = the field is not set or 0 -/
structure Deadlines where
  responseHeader : Option Nat
deriving Repr, DecidableEq

def durationOf (name : String) : List (String × Nat) → Option Nat
  | [] => none
  | (k, d) :: rest => if k = name then (if d = 0 then none else some d) else durationOf name rest

/-- the deadlines of the code as it is: read off the regenerated transport literal -/
def codeDeadlines : Deadlines := ⟨durationOf "ResponseHeaderTimeout" Gen.C04.transportDurationsMs⟩

inductive Relay
  | relayed (r : Resp)     -- status, headers and the whole body of the upstream's answer, as `relayResponse` says
  | gatewayError           -- the transport gave up before the header: the gateway's own 502 `Status` (proxyErrorResponder),
                           -- NOTHING of the upstream's answer reaches the client
deriving Repr, DecidableEq

/-- `ReverseProxy.ServeHTTP` with time: `transport.RoundTrip` returns an error iff a response-header deadline exists and the
    upstream's header is not there in time; delays after the header have no deadline in net/http's transport -/
def relayTimed (dl : Deadlines) (t : Timing) (closeWhenIdle : Bool) (upStatus : Nat) (upLines : List (Str × Str)) (upBody : Str) : Relay :=
  match dl.responseHeader with
  | some d => if d ≤ t.beforeStatus then .gatewayError else .relayed (relayResponse closeWhenIdle upStatus upLines upBody)
  | none => .relayed (relayResponse closeWhenIdle upStatus upLines upBody)

/-- the fields of `http.Transport` that put a deadline on a response (Go 1.23, net/http/transport.go: `ResponseHeaderTimeout`;
    `ExpectContinueTimeout` only decides when the body is sent without a `100 Continue`, it ends nothing) -/
def responseDeadlineFields : List String := ["ResponseHeaderTimeout"]

/-- the filters that put a deadline on a request (k8s.io/apiserver and the gateway's copy) -/
def timeoutFilters : List String := ["WithTimeoutForNonLongRunningRequests", "?WithTimeoutForNonLongRunningRequests", "WithTimeout", "?WithTimeout",
  "WithRequestDeadline", "?WithRequestDeadline"]

/-! ## gateway-terminated answers -/
/-- the fields of an apimachinery `StatusError` that decide the answer -/
structure StatusErr where
  code : Nat
  reason : Str
  hasDetails : Bool
  retryAfterSeconds : Nat
deriving DecidableEq, Repr

def newTooManyRequests (retryAfter : Nat) : StatusErr := ⟨429, kTooManyRequests, true, retryAfter⟩
def newServiceUnavailable : StatusErr := ⟨503, kServiceUnavailable, false, 0⟩
def newInternalError : StatusErr := ⟨500, kInternalError, true, 0⟩
def newForbidden : StatusErr := ⟨403, kForbidden, true, 0⟩
def newUnauthorized : StatusErr := ⟨401, kUnauthorized, false, 0⟩

/-- `errors.SuggestsClientDelay` -/
def suggestsClientDelay (e : StatusErr) : Option Nat :=
  if e.hasDetails then
    if e.reason = kServerTimeout then some e.retryAfterSeconds
    else if e.retryAfterSeconds > 0 then some e.retryAfterSeconds
    else none
  else none

/-- the `Status` object written -/
structure StatusBody where
  kind : Str
  apiVersion : Str
  status : Str
  reason : Str
  code : Nat
deriving DecidableEq, Repr

structure Answer where
  httpCode : Nat
  retryAfter : Option Nat      -- the Retry-After response header
  body : StatusBody
deriving DecidableEq, Repr

/-- `responsewriters.ErrorNegotiated`, given the Retry-After header already set by the caller -/
def errorNegotiated (e : StatusErr) (retryAfterHeader : Option Nat) : Answer :=
  { httpCode := e.code,
    retryAfter := if e.hasDetails ∧ e.retryAfterSeconds > 0 then some e.retryAfterSeconds else retryAfterHeader,
    body := ⟨kStatus, kV1, kFailure, e.reason, e.code⟩ }

/-- `response.TerminateWithError` -/
def terminateWithError (e : StatusErr) : Answer :=
  let hdr : Option Nat :=
    if e.reason = kTooManyRequests ∨ e.code = 429 then suggestsClientDelay e          -- errors.IsTooManyRequests
    else if e.reason = kServiceUnavailable then some Gen.C04.unavailableRetryAfter      -- errors.IsServiceUnavailable
    else none
  errorNegotiated e hdr

inductive Imp | none | malformed | refused | allowed
deriving DecidableEq, Repr

/-- what decides the fate of a request -/
structure Scenario where
  requestInfoOK : Bool     -- `RequestInfoResolver.NewRequestInfo(req)` succeeds (it fails for `/api/v1/proxy`, `/api/v1/watch`)
  hostIsIP : Bool          -- `net.ParseIP(hostname) != nil`
  clusterKnown : Bool      -- `clusterManager.Get(hostname)`
  denyAll : Bool           -- feature gate DenyAllRequests
  authOK : Bool            -- the authenticator accepts the request
  imp : Imp                -- impersonation headers: none / malformed / refused by the authorizer / allowed
  policyMatches : Bool     -- `cluster.MatchAttributes`
  acquireOK : Bool         -- `flowcontrol.TryAcquire()`
  resource : Str           -- `requestAttributes.GetResource()`
  popOK : Bool             -- `endpointPicker.Pop()`
deriving DecidableEq, Repr

inductive Outcome
  | notProxied                          -- handed to the control-plane handler
  | terminated (a : Answer)             -- answered by the gateway with a Status
  | forward                             -- handed to the proxy handler
deriving DecidableEq, Repr

/-- `dispatcher.ServeHTTP` up to the proxy call -/
def dispatcher (s : Scenario) : Outcome :=
  if !s.policyMatches then .terminated (terminateWithError newInternalError)
  else if !s.acquireOK then
    .terminated (terminateWithError (newTooManyRequests (if s.resource ≠ Gen.C04.rateLimitExemptResource then Gen.C04.retryAfter else 0)))
  else if !s.popOK then .terminated (terminateWithError newServiceUnavailable)
  else .forward

/-- `WithDispatcher` -/
def withDispatcher (s : Scenario) : Outcome := if s.hostIsIP then .notProxied else dispatcher s

/-- `WithNoLoggingImpersonation` -/
def withImpersonation (s : Scenario) (next : Outcome) : Outcome :=
  match s.imp with
  | .malformed => .terminated (errorNegotiated newInternalError none)   -- `buildImpersonationRequests` error
  | .refused => .terminated (errorNegotiated newForbidden none)
  | _ => next

/-- `WithAuthentication` + `Unauthorized` -/
def withAuthentication (s : Scenario) (next : Outcome) : Outcome :=
  if s.authOK then next else .terminated (errorNegotiated newUnauthorized none)

/-- `WithUpstreamInfo` -/
def withUpstreamInfo (s : Scenario) (next : Outcome) : Outcome :=
  if s.hostIsIP then next
  else if !s.clusterKnown then .terminated (terminateWithError newServiceUnavailable)
  else if s.denyAll then .terminated (terminateWithError (newTooManyRequests 0))
  else next

/-- `WithRequestInfo` (the gateway's own filter since bd02b39): a resolver error is answered with a Status through
    `responsewriters.ErrorNegotiated(apierrors.NewInternalError(…))`, like every other request the gateway terminates -/
def withRequestInfo (s : Scenario) (next : Outcome) : Outcome :=
  if !s.requestInfoOK then .terminated (errorNegotiated newInternalError none) else next

/-- the chain in the order of `buildProxyHandlerChainFunc` (outermost first) -/
def serve (s : Scenario) : Outcome :=
  withRequestInfo s (withUpstreamInfo s (withAuthentication s (withImpersonation s (withDispatcher s))))

/-- position of a filter in the regenerated application order (innermost = 0) -/
def chainIdx (name : Str) (chain : List Str) : Option Nat :=
  match chain.findIdx? (fun x => decide (x = name)) with
  | some i => some i
  | none => none

/-- the order `serve` composes the filters in: request info, termination metrics and extra request info run before
    upstream info, which runs before authentication, impersonation, and the dispatcher; the reader/writer wrapper
    the dispatcher needs is installed; cache control is outside everything -/
def chainOrderOK (chain : List Str) : Bool :=
  match chainIdx kWithDispatcher chain, chainIdx kWithImpersonation chain, chainIdx kWithAuthentication chain,
        chainIdx kWithRWWrapper chain, chainIdx kWithUpstreamInfo chain, chainIdx kWithExtraRequestInfo chain,
        chainIdx kWithTerminationMetrics chain, chainIdx kWithRequestInfo chain, chainIdx kWithCacheControl chain with
  | some d, some i, some a, some rw, some u, some x, some t, some r, some c =>
    decide (d = 0) && decide (d < i) && decide (i < a) && decide (a < rw) && decide (rw < u) && decide (u < x)
      && decide (x < t) && decide (t < r) && decide (r < c)
  | _, _, _, _, _, _, _, _, _ => false

/-- In a control-flow skeleton every terminating call is immediately followed by `return`, and the forwarding call
    is the last step: nothing is forwarded on a terminated path and nothing is terminated after forwarding began. -/
def skeletonOK : List Gen.C04.Ev → Bool
  | [] => false
  | [.forward] => true
  | .term _ _ :: .ret :: rest => skeletonOK rest
  | .term _ _ :: _ => false
  | .forward :: .ret :: rest => skeletonOK rest      -- pass-through `handler.ServeHTTP(w, req); return`
  | .forward :: _ => false
  | _ :: rest => skeletonOK rest

/-- What of a skeleton the model depends on: the order of the steps and the error CONSTRUCTOR of every terminating call.
    Not compared: the reason strings (metric labels, unexported identifiers the property does not mention), and the guard
    clauses on values the chain itself put into the request context (`NewInternalError` with the reason
    `statusReasonInvalidRequestContext` + `return`): behind the chain they cannot fail, they are no rows of the decision
    table, and adding or removing one changes nothing the property speaks about. (`skeletonOK` is still demanded of the
    WHOLE regenerated skeleton, guards included.) -/
def shapeOf : List Gen.C04.Ev → List Gen.C04.Ev
  | .term "NewInternalError" "statusReasonInvalidRequestContext" :: .ret :: rest => shapeOf rest
  | .term c _ :: rest => .term c "" :: shapeOf rest
  | e :: rest => e :: shapeOf rest
  | [] => []

/-- the dispatcher skeleton the model `dispatcher` was written against -/
def expectedDispatcherSteps : List Gen.C04.Ev := [
  .term "NewInternalError" "statusReasonInvalidRequestContext", .ret,
  .term "NewInternalError" "statusReasonInvalidRequestContext", .ret,
  .term "NewInternalError" "statusReasonInvalidRequestContext", .ret,
  .term "NewServiceUnavailable" "statusReasonClusterNotBeingProxied", .ret,
  .term "NewInternalError" "statusReasonInvalidRequestContext", .ret,
  .matchPolicy,
  .term "NewInternalError" "normalizeErrToReason()", .ret,
  .acquire,
  .term "NewTooManyRequests(retryAfter)" "statusReasonRateLimited", .ret,
  .deferRelease,
  .pop,
  .term "NewServiceUnavailable" "statusReasonNoReadyEndpoints", .ret,
  .term "NewInternalError" "statusReasonInvalidEndpoint", .ret,
  .term "NewInternalError" "statusReasonInvalidRequestContext", .ret,
  .forward]

/-- the WithUpstreamInfo skeleton the model `withUpstreamInfo` was written against -/
def expectedUpstreamInfoSteps : List Gen.C04.Ev := [
  .forward, .ret,
  .lookupCluster,
  .term "NewServiceUnavailable" "response.TerminationReasonClusterNotBeingProxied", .ret,
  .denyAllGate,
  .term "NewTooManyRequests(0)" "response.TerminationReasonCircuitBreaker", .ret,
  .forward]

/-- the WithRequestInfo skeleton the model `withRequestInfo` was written against -/
def expectedRequestInfoSteps : List Gen.C04.Ev := [
  .term "NewInternalError" "ErrorNegotiated", .ret,
  .forward]

end KG.Model.Forward
