/-!
# Local token bucket (C06): model of the code path

    pkg/flowcontrols/flowcontrol/flowcontrol.go   resizeableTokenBucket {mu, rateLimiter, qps, burst}
        NewFlowControl (TokenBucket case), TryAcquire, Resize
    k8s.io/client-go@v0.18.10 util/flowcontrol/throttle.go   tokenBucketRateLimiter.TryAccept
        = limiter.AllowN(clock.Now(), 1)
    golang.org/x/time@v0.0.0-20190308202827 rate/rate.go   NewLimiter, AllowN, reserveN (maxFutureReserve = 0),
        advance, durationFromTokens, tokensFromDuration

Time is a number of **nanoseconds since Go's zero `time.Time`** (1 Jan of year 1, UTC): the limiter starts
with `last = time.Time{}`. `limit` is in tokens per second.

The model is written once over an arithmetic `Arith`:

* `Arith.ns`    — exact rationals **with** the two places where the library leaves the reals:
                  `durationFromTokens` truncates to whole nanoseconds (`time.Duration(1e9*seconds)`),
                  `Time.Sub` saturates at ±2^63-1 ns;
* `Arith.ideal` — exact rationals, no truncation, no saturation (the text-book bucket).

What is not in `Arith.ns` is only float64 rounding; the executable twin `KG.Model.TokenBucket.F` (below, over
`Float`, which is IEEE double) has the library's expressions operator by operator and is what is compared with Go.
-/
namespace KG.Model.TokenBucket

/-- The two non-real operations of the library. -/
structure Arith where
  /-- conversion of a (rational) number of nanoseconds to `time.Duration` -/
  tr : Rat → Rat
  /-- `Time.Sub`: the difference of two instants as a `time.Duration` -/
  sat : Rat → Rat

def maxDuration : Int := 9223372036854775807
def minDuration : Int := -9223372036854775808

/-- `time.Duration(x)` for a float `x`: truncation toward zero. -/
def truncZ (x : Rat) : Int := if 0 ≤ x then x.floor else -((-x).floor)

/-- `Time.Sub`'s overflow handling. -/
def satDur (d : Rat) : Rat :=
  if d > (maxDuration : Rat) then (maxDuration : Rat) else if d < (minDuration : Rat) then (minDuration : Rat) else d

def Arith.ns : Arith := { tr := fun x => ((truncZ x : Int) : Rat), sat := satDur }
def Arith.ideal : Arith := { tr := fun x => x, sat := fun x => x }

/-- `rate.Limiter`'s configuration: `limit` (tokens/s) and `burst`. -/
structure Params where
  limit : Rat
  burst : Int
deriving Repr

/-- `rate.Limiter`'s mutable part (`lastEvent` is only read by `Reservation.Cancel`, never on this path). -/
structure State where
  tokens : Rat
  last : Rat
deriving Repr

/-- `rate.NewLimiter(r, b)`: zero tokens and the zero time; the first `advance` fills the bucket. -/
def State.init : State := { tokens := 0, last := 0 }

/-- `Limit.durationFromTokens`: `seconds := tokens / limit; time.Nanosecond * time.Duration(1e9*seconds)`. -/
def durationFromTokens (A : Arith) (p : Params) (tokens : Rat) : Rat :=
  A.tr (1000000000 * (tokens / p.limit))

/-- `Limit.tokensFromDuration`: `d.Seconds() * limit`. -/
def tokensFromDuration (p : Params) (d : Rat) : Rat :=
  d / 1000000000 * p.limit

/-- `Limiter.advance(now)`: `(newLast, newTokens)` (the returned `now` is the argument). -/
def advance (A : Arith) (p : Params) (s : State) (now : Rat) : Rat × Rat :=
  let last := if now < s.last then now else s.last
  let maxElapsed := durationFromTokens A p ((p.burst : Rat) - s.tokens)
  let elapsed := A.sat (now - last)
  let elapsed := if elapsed > maxElapsed then maxElapsed else elapsed
  let delta := tokensFromDuration p elapsed
  let tokens := s.tokens + delta
  let tokens := if tokens > (p.burst : Rat) then (p.burst : Rat) else tokens
  (last, tokens)

/-- `Limiter.reserveN(now, n, 0).ok` and the new state (the `limit == Inf` shortcut needs
    `limit = math.MaxFloat64`, which no `float32` converts to). -/
def reserveN (A : Arith) (p : Params) (s : State) (now : Rat) (n : Int) : Bool × State :=
  let a := advance A p s now
  let tokens := a.2 - (n : Rat)
  let waitDuration := if tokens < 0 then durationFromTokens A p (-tokens) else 0
  let ok := decide (n ≤ p.burst) && decide (waitDuration ≤ 0)
  if ok then (true, { tokens := tokens, last := now }) else (false, { tokens := s.tokens, last := a.1 })

/-- `tokenBucketRateLimiter.TryAccept` at clock reading `now`. -/
def allow (A : Arith) (p : Params) (s : State) (now : Rat) : Bool × State := reserveN A p s now 1

/-- A sequence of `TryAccept` calls, `nows` being the clock readings in the order in which the calls
    take the limiter's lock. -/
def run (A : Arith) (p : Params) : State → List Rat → List Bool × State
  | s, [] => ([], s)
  | s, now :: rest =>
    let r := allow A p s now
    let q := run A p r.2 rest
    (r.1 :: q.1, q.2)

/-! ## `float32(qps)` -/

/-- `float64(float32(n))` for a natural number `n`: round to nearest, ties to even, 24 significant bits. -/
def f32 (n : Nat) : Nat :=
  if n ≤ 16777216 then n else
    let e := n.log2 - 23
    let q := n >>> e
    let r := n - (q <<< e)
    let half := 1 <<< (e - 1)
    let q' := if r > half || (r == half && q % 2 == 1) then q + 1 else q
    q' <<< e

/-! ## resizeableTokenBucket -/

/-- `resizeableTokenBucket`: the limiter and the `(qps, burst)` it was built from. -/
structure Bucket where
  qps : Nat
  burst : Nat
  lim : State
deriving Repr

/-- the `rate.Limiter` configuration built from `(qps, burst)`: `NewTokenBucketRateLimiter(float32(qps), int(burst))`. -/
def paramsOf (qps burst : Nat) : Params := { limit := (f32 qps : Rat), burst := (burst : Int) }

def Bucket.params (b : Bucket) : Params := paramsOf b.qps b.burst

/-- `NewFlowControl` for a token-bucket schema (`0 ≤ QPS, Burst < 2^31`, so the `uint32` conversions are the identity). -/
def Bucket.new (qps burst : Nat) : Bucket := { qps := qps, burst := burst, lim := State.init }

/-- `TryAcquire` whose critical section reads the clock at `now`
    (`if f.qps == 0 { return false }` comes first: the limiter is not consulted). -/
def Bucket.tryAcquire (A : Arith) (b : Bucket) (now : Rat) : Bool × Bucket :=
  if b.qps = 0 then (false, b) else
  let r := allow A b.params b.lim now
  (r.1, { b with lim := r.2 })

/-- `Resize(n, burst)`: a fresh limiter iff `(qps, burst)` changed. -/
def Bucket.resize (b : Bucket) (n burst : Nat) : Bool × Bucket :=
  if b.qps ≠ n ∨ b.burst ≠ burst then (true, Bucket.new n burst) else (false, b)

/-- One operation on a bucket (each is one critical section of `mu`). -/
inductive Op where
  | acquire (now : Rat)
  | resize (qps burst : Nat)
deriving Repr

/-- result of an operation: admitted / refused, or resized / unchanged -/
def Bucket.step (A : Arith) (b : Bucket) : Op → Bool × Bucket
  | .acquire now => b.tryAcquire A now
  | .resize q bu => b.resize q bu

def Bucket.runOps (A : Arith) : Bucket → List Op → List Bool × Bucket
  | b, [] => ([], b)
  | b, op :: rest =>
    let r := b.step A op
    let q := Bucket.runOps A r.2 rest
    (r.1 :: q.1, q.2)

/-! ## Which limiter is in force: `NewFlowControl`, `localWrapper.Sync`, `upstreamLimiter.Sync`

    pkg/flowcontrols/flowcontrol/flowcontrol.go   GuessFlowControlSchemaType, NewFlowControl, flowControl.Resize
    pkg/flowcontrols/remote/flowcontrol_wrapper.go localWrapper.Sync (rebuild on first use / type change, else Resize)
    pkg/flowcontrols/limiter.go                    upstreamLimiter.syncLocalFlowControls (create, sync, delete)

Only what decides WHICH limiter serves a schema name and with WHICH parameters is modelled; the behaviour of a
max-in-flight limiter is C05's subject. -/

inductive SType where
  | exempt | maxInflight | tokenBucket
deriving DecidableEq, Repr

/-- `FlowControlSchema` without its name: the five optional members and the strategy
    (0 `""`, 1 `local`, 2 `globalAllocate`, 3 `globalCount`). -/
structure Schema where
  exempt : Bool
  mi : Option Nat
  gmi : Option Nat
  tb : Option (Nat × Nat)
  gtb : Option (Nat × Nat)
  strategy : Nat
deriving DecidableEq, Repr

/-- `GuessFlowControlSchemaType` (same order of cases) -/
def guessType (s : Schema) : SType :=
  if s.exempt then .exempt
  else if s.mi.isSome || s.gmi.isSome then .maxInflight
  else if s.tb.isSome || s.gtb.isSome then .tokenBucket
  else .exempt

/-- the operations of a token bucket the configuration path uses (instantiated with the rational `Bucket` for the
    theorems and with the Float twin `F.FBucket` for the comparison with Go) -/
structure BOps (β : Type) where
  new : Nat → Nat → β
  /-- the bucket after `Resize(qps, burst)` -/
  resize : β → Nat → Nat → β
  qps : β → Nat
  burst : β → Nat

def ratOps : BOps Bucket :=
  { new := Bucket.new, resize := fun b q bu => (b.resize q bu).2, qps := (·.qps), burst := (·.burst) }

/-- the limiter a schema name is served by: `flowControl{InfinityTokenBucket}`, `flowControl{maxinflight.New(max)}`
    or `resizeableTokenBucket` -/
inductive Limiter (β : Type) where
  | exempt
  | mi (max : Nat)
  | tb (b : β)

def Limiter.type {β : Type} : Limiter β → SType
  | .exempt => .exempt
  | .mi _ => .maxInflight
  | .tb _ => .tokenBucket

/-- `NewFlowControl(schema)`; `none` = nil dereference (a `global*` member without its local member: the type is
    guessed from either, the parameters are read from the local one) -/
def newFlowControl {β : Type} (O : BOps β) (s : Schema) : Option (Limiter β) :=
  match guessType s with
  | .maxInflight => s.mi.map Limiter.mi
  | .tokenBucket => s.tb.map fun qb => Limiter.tb (O.new qb.1 qb.2)
  | .exempt => some Limiter.exempt

/-- `localWrapper`: the embedded limiter (nil before the first `Sync`) and `localConfig` -/
structure LocalWrapper (β : Type) where
  fc : Option (Limiter β)
  config : Option Schema

def LocalWrapper.empty {β : Type} : LocalWrapper β := { fc := none, config := none }

/-- `localWrapper.Sync(schema)`; `none` = nil dereference -/
def LocalWrapper.sync {β : Type} (O : BOps β) (w : LocalWrapper β) (s : Schema) : Option (LocalWrapper β) :=
  if w.config = some s then some w else      -- reflect.DeepEqual(schema, f.localConfig)
  match w.fc with
  | none => (newFlowControl O s).map fun l => { fc := some l, config := some s }
  | some l =>
    if l.type ≠ guessType s then (newFlowControl O s).map fun l => { fc := some l, config := some s } else
    match l with
    | .mi _ => s.mi.map fun m => { fc := some (.mi m), config := some s }        -- f.Resize(uint32(Max), 0)
    | .tb b => s.tb.map fun qb => { fc := some (.tb (O.resize b qb.1 qb.2)), config := some s }
    | .exempt => some { fc := some .exempt, config := some s }

/-- a flow-control spec: schema names (numbered) with their schemas, in order -/
abbrev Spec := List (Nat × Schema)

/-- `upstreamLimiter`: the spec synced last and the cache per schema name -/
structure UL (β : Type) where
  current : Spec
  caches : List (Nat × LocalWrapper β)

def UL.init {β : Type} : UL β := { current := [], caches := [] }

def setCache {β : Type} (n : Nat) (w : LocalWrapper β) : List (Nat × LocalWrapper β) → List (Nat × LocalWrapper β)
  | [] => [(n, w)]
  | x :: r => if x.1 = n then (n, w) :: r else x :: setCache n w r

/-- the loop over the new schemas: load or create the cache, `LocalFlowControl().Sync(schema)` -/
def syncLoop {β : Type} (O : BOps β) : List (Nat × LocalWrapper β) → Spec → Option (List (Nat × LocalWrapper β))
  | cs, [] => some cs
  | cs, (n, s) :: rest =>
    match ((cs.lookup n).getD LocalWrapper.empty).sync O s with
    | none => none
    | some w => syncLoop O (setCache n w cs) rest

/-- `syncLocalFlowControls`: nothing if the spec is unchanged; else sync every schema, then delete the caches of
    the names of the old spec that are gone -/
def UL.sync {β : Type} (O : BOps β) (u : UL β) (spec : Spec) : Option (UL β) :=
  if u.current = spec then some u else
  match syncLoop O u.caches spec with
  | none => none
  | some cs =>
    some { current := spec,
           caches := cs.filter fun x => !((u.current.lookup x.1).isSome && (spec.lookup x.1).isNone) }

/-- `Load(name)` with the local limiter in force: `LocalFlowControl().Current()` -/
def UL.load {β : Type} (u : UL β) (n : Nat) : Option (Limiter β) := (u.caches.lookup n).bind (·.fc)

/-- `GetOrDefault(name)` (what `MatchAttributes` → `GetFlowSchema` asks with the policy's `flowControlSchemaName`):
    only the EMPTY name (a policy that names no schema) gets the built-in exempt limiter outright; every other name
    is looked up by exactly that name — names are abstract and distinct here: the table is keyed by the exact name,
    no name is reserved or normalised — and only a miss falls back to the built-in one. -/
def UL.getOrDefault {β : Type} (u : UL β) (name : Option Nat) : Limiter β :=
  match name with
  | none => .exempt
  | some n => (u.load n).getD .exempt

def UL.runSyncs {β : Type} (O : BOps β) : UL β → List Spec → Option (UL β)
  | u, [] => some u
  | u, sp :: rest => match u.sync O sp with
    | none => none
    | some u' => UL.runSyncs O u' rest

/-- replace the bucket of the token-bucket limiter serving `n` (after a `TryAcquire`) -/
def UL.setBucket {β : Type} (u : UL β) (n : Nat) (b : β) : UL β :=
  match u.caches.lookup n with
  | some w => { u with caches := setCache n { w with fc := some (.tb b) } u.caches }
  | none => u

/-- `Load(name).TryAcquire()` when a token bucket serves `n` (`f` = the bucket's `TryAcquire` at the clock reading of
    this call); `none` when no token bucket serves `n` -/
def UL.acquireWith {β : Type} (f : β → Bool × β) (u : UL β) (n : Nat) : Option (Bool × UL β) :=
  match u.load n with
  | some (.tb b) => some ((f b).1, u.setBucket n (f b).2)
  | _ => none

/-- a history of a gateway's flow control for one upstream: reconfigurations and requests -/
inductive ULOp where
  | sync (spec : Spec)
  | acquire (n : Nat) (now : Rat)

/-- `none` = nil dereference in a `Sync` (illegal spec) -/
def UL.runOps (A : Arith) : UL Bucket → List ULOp → Option (UL Bucket)
  | u, [] => some u
  | u, .sync sp :: rest => match u.sync ratOps sp with
    | none => none
    | some u' => UL.runOps A u' rest
  | u, .acquire n now :: rest => match u.acquireWith (fun b => b.tryAcquire A now) n with
    | none => UL.runOps A u rest
    | some r => UL.runOps A r.2 rest

/-! ## The dispatcher's flow-control step

    pkg/gateway/proxy/dispatcher/dispatcher.go  ServeHTTP:
        flowcontrol := endpointPicker.FlowControl()
        if !flowcontrol.TryAcquire() { 429 (Retry-After unless the resource is "events"); return }
        defer flowcontrol.Release()        -- a no-op for a token bucket
        ... forward

What the server classified the request as is NOT consulted: every request the dispatch policy sends to a schema is
charged against that schema's limiter. -/

/-- what the server classifies a request as (RequestInfo / ExtraRequestInfo) -/
structure ReqShape where
  verb : Nat
  subresource : Nat
  resourceRequest : Bool
  longRunning : Bool
  upgrade : Bool
deriving Repr

/-- forwarded (`true`) or answered 429 (`false`), and the bucket afterwards -/
def dispatch (A : Arith) (b : Bucket) (_r : ReqShape) (now : Rat) : Bool × Bucket := b.tryAcquire A now

def dispatchRun (A : Arith) : Bucket → List (ReqShape × Rat) → List Bool × Bucket
  | b, [] => ([], b)
  | b, (r, now) :: rest =>
    let x := dispatch A b r now
    let q := dispatchRun A x.2 rest
    (x.1 :: q.1, q.2)

/-! ## Small-step system: callers, the mutex, the clock

`mu` is the `Option` in `Sys.crit`: at most one caller is between `mu.Lock()` and `mu.Unlock()` (Go's mutual
exclusion is trusted). Inside the critical section the caller reads the clock and then updates the limiter —
two separate steps, with arbitrary steps of the other callers and of the clock in between. -/

/-- where the caller holding `mu` is: `TryAccept` evaluates `clock.Now()` first, then `AllowN`. -/
inductive Phase where
  | held (start : Rat)
  | read (start now : Rat)
  | done (start now : Rat) (ok : Bool)
deriving Repr

/-- a finished `TryAcquire`: invoked at `start`, clock read `now`, returned `ok` at `fin`. -/
structure Done where
  start : Rat
  now : Rat
  fin : Rat
  ok : Bool
deriving Repr

structure Sys where
  clock : Rat
  lim : State
  crit : Option (Nat × Phase)
  /-- callers that have invoked `TryAcquire` and wait for `mu`: caller id and invocation time -/
  pending : List (Nat × Rat)
  /-- finished calls, most recent first -/
  log : List Done

def Sys.init (s : State) (clock : Rat) : Sys := { clock := clock, lim := s, crit := none, pending := [], log := [] }

inductive Step where
  /-- time passes (monotonic clock) -/
  | tick (d : Rat)
  /-- caller `i` invokes `TryAcquire` -/
  | call (i : Nat)
  /-- caller `i` gets `mu` -/
  | lock (i : Nat)
  /-- the holder evaluates `clock.Now()` -/
  | now
  /-- the holder runs `AllowN(now, 1)` -/
  | reserve
  /-- the holder unlocks and returns -/
  | ret
deriving Repr

def removeFirst (i : Nat) : List (Nat × Rat) → List (Nat × Rat)
  | [] => []
  | x :: xs => if x.1 = i then xs else x :: removeFirst i xs

/-- One step; `none` when the step is not enabled. -/
def Sys.step (A : Arith) (p : Params) (c : Sys) : Step → Option Sys
  | .tick d => if 0 ≤ d then some { c with clock := c.clock + d } else none
  | .call i => some { c with pending := (i, c.clock) :: c.pending }
  | .lock i =>
    match c.crit, c.pending.lookup i with
    | none, some st => some { c with crit := some (i, .held st), pending := removeFirst i c.pending }
    | _, _ => none
  | .now =>
    match c.crit with
    | some (i, .held st) => some { c with crit := some (i, .read st c.clock) }
    | _ => none
  | .reserve =>
    match c.crit with
    | some (i, .read st now) =>
      let r := allow A p c.lim now
      some { c with lim := r.2, crit := some (i, .done st now r.1) }
    | _ => none
  | .ret =>
    match c.crit with
    | some (_, .done st now ok) =>
      some { c with crit := none, log := { start := st, now := now, fin := c.clock, ok := ok } :: c.log }
    | _ => none

def Sys.exec (A : Arith) (p : Params) : Sys → List Step → Option Sys
  | c, [] => some c
  | c, s :: rest =>
    match c.step A p s with
    | none => none
    | some c' => Sys.exec A p c' rest

/-! ## The executable twin over `Float` (IEEE double): the library's expressions, operator by operator.
Instants are integers (ns since the zero time), as `time.Time` compares and subtracts them exactly. -/
namespace F

def two63 : Float := 9223372036854775808.0

/-- `time.Duration(x)` on amd64 (`CVTTSD2SQ`): truncation; NaN and out-of-range give `math.MinInt64`. -/
def goDuration (x : Float) : Int :=
  if x.isNaN || x ≥ two63 || x < -two63 then minDuration else x.toInt64.toInt

/-- `Duration.Seconds()`: `float64(d / Second) + float64(d % Second)/1e9` (Go's `/` and `%` truncate). -/
def seconds (d : Int) : Float :=
  Float.ofInt (d.tdiv 1000000000) + Float.ofInt (d.tmod 1000000000) / 1e9

def durationFromTokens (limit tokens : Float) : Int :=
  let seconds := tokens / limit
  goDuration (1e9 * seconds)

def tokensFromDuration (limit : Float) (d : Int) : Float := seconds d * limit

/-- `Time.Sub` -/
def sub (t u : Int) : Int :=
  let d := t - u
  if d > maxDuration then maxDuration else if d < minDuration then minDuration else d

structure FParams where
  limit : Float
  burst : Int

structure FState where
  tokens : Float
  last : Int

def FState.init : FState := { tokens := 0.0, last := 0 }

def advance (p : FParams) (s : FState) (now : Int) : Int × Float :=
  let last := if now < s.last then now else s.last
  let maxElapsed := durationFromTokens p.limit (Float.ofInt p.burst - s.tokens)
  let elapsed := sub now last
  let elapsed := if elapsed > maxElapsed then maxElapsed else elapsed
  let delta := tokensFromDuration p.limit elapsed
  let tokens := s.tokens + delta
  let burst := Float.ofInt p.burst
  let tokens := if tokens > burst then burst else tokens
  (last, tokens)

def reserveN (p : FParams) (s : FState) (now : Int) (n : Int) : Bool × FState :=
  let a := advance p s now
  let tokens := a.2 - Float.ofInt n
  let waitDuration : Int := if tokens < 0.0 then durationFromTokens p.limit (-tokens) else 0
  let ok := decide (n ≤ p.burst) && decide (waitDuration ≤ 0)
  if ok then (true, { tokens := tokens, last := now }) else (false, { tokens := s.tokens, last := a.1 })

/-- `float64(float32(qps))` -/
def limitOf (qps : Nat) : Float := (Float.ofNat qps).toFloat32.toFloat

def paramsOf (qps burst : Nat) : FParams := { limit := limitOf qps, burst := (burst : Int) }

structure FBucket where
  qps : Nat
  burst : Nat
  lim : FState

def FBucket.new (qps burst : Nat) : FBucket := { qps := qps, burst := burst, lim := FState.init }

inductive FOp where
  | acquire (now : Int)
  | resize (qps burst : Nat)

def FBucket.step (b : FBucket) : FOp → Bool × FBucket
  | .acquire now =>
    if b.qps = 0 then (false, b) else
    let r := reserveN (paramsOf b.qps b.burst) b.lim now 1
    (r.1, { b with lim := r.2 })
  | .resize q bu =>
    if b.qps ≠ q ∨ b.burst ≠ bu then (true, FBucket.new q bu) else (false, b)

def FBucket.runOps : FBucket → List FOp → List Bool × FBucket
  | b, [] => ([], b)
  | b, op :: rest =>
    let r := b.step op
    let q := FBucket.runOps r.2 rest
    (r.1 :: q.1, q.2)

def FBucket.resize (b : FBucket) (q bu : Nat) : FBucket := (b.step (.resize q bu)).2

end F

def floatOps : BOps F.FBucket :=
  { new := F.FBucket.new, resize := F.FBucket.resize, qps := (·.qps), burst := (·.burst) }

end KG.Model.TokenBucket
