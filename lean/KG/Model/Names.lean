import KG.Base.Json
/-!
# Model of tenant resolution (C10)

Mirrors, function by function,
* `pkg/clusters/manager.go` (`Get`, `AddWithKey`, `Delete`, `DeleteWithStop` = `doDelete`),
* `pkg/clusters/clusterinfo.go` (`LoadServerNames`, `LoadTLSConfig`, `LoadVerifyOptions`, the part of `Sync` /
  `syncSecureServingConfigLocked` that decides names and TLS material),
* `pkg/gateway/controllers/upstream_controller.go` (`syncUpstreamCluster` as it is after the fixes dfb1dc5 and
  9025070: it applies the lister's object and guards a nil `ClusterInfo`; `checkUpstreamServerNameConflict`,
  `checkServerNameConflict`, `AddOrUpdateForServerNames`, `DeleteForServerNames`, `WrapGetConfigForClient`,
  `SNIVerifyOptions`),
* `pkg/gateway/net/net.go` (`HostWithoutPort`) with Go's `net.SplitHostPort`,
* `plugin/admission/upstreamcluster/admission.go` (`Validate`: the name-conflict rule).

`strings.ToLower` is the parameter `lower` (Unicode aware in Go; the theorems only use that it is idempotent,
the driver instantiates it with ASCII lower-casing plus a table computed by Go for non-ASCII strings).

A `*ClusterInfo` is an index into `Mgr.heap` (allocation order); `sync.Map` is an association list in which the
first entry of a key wins (`Store` conses, `LoadAndDelete` removes every entry of the key); a cancelled
`ClusterInfo.ctx` is membership of the pointer in `Mgr.stopped`.
-/
namespace KG.Model.Names
open KG

/-! ## association lists (sync.Map) -/

def alookup (k : Str) : List (Str × Nat) → Option Nat
  | [] => none
  | (k', v) :: l => if k' = k then some v else alookup k l

def aerase (k : Str) (l : List (Str × Nat)) : List (Str × Nat) :=
  l.filter (fun e => decide (e.1 ≠ k))

/-! ## objects and state -/

/-- What C10 reads of one version of an UpstreamCluster object (besides `metadata.name`):
    `spec.secureServing.serverNames`, the serving key pair and the client CA as opaque ids (their derivation
    is C11), and whether `CreateClusterInfo` / `ClusterInfo.Sync` fails on it (secure-serving data or
    feature-gate annotation that does not parse: both fail before anything of the object is stored). -/
structure Spec where
  aliases : List Str
  cert : Option Nat
  ca : Option Nat
  bad : Bool
deriving DecidableEq, Repr

/-- The part of a `ClusterInfo` C10 depends on: `Cluster` (lower-cased at creation) and the stored
    `secureServingConfig` (`secureServing.ServerNames` raw, `certs`, `clientCA` = `verifyOptions.Roots`). -/
structure CI where
  cluster : Str
  aliases : List Str
  cert : Option Nat
  ca : Option Nat
deriving DecidableEq, Repr

structure Mgr where
  heap : List CI
  stopped : List Nat
  map : List (Str × Nat)
deriving Repr

def Mgr.init : Mgr := { heap := [], stopped := [], map := [] }

section
variable (lower : Str → Str)

/-- `ClusterInfo.LoadServerNames`: own name, then the lower-cased server names. -/
def loadServerNames (ci : CI) : List Str := ci.cluster :: ci.aliases.map lower

/-- the names an object claims: `checkUpstreamServerNameConflict`'s `newServerNames` -/
def objNames (clusterName : Str) (spec : Spec) : List Str := clusterName :: spec.aliases.map lower

/-- raw `sync.Map.Load` -/
def Mgr.look (m : Mgr) (k : Str) : Option Nat := alookup k m.map

/-- `manager.Get`: `strings.ToLower(name)`, `Load`. -/
def Mgr.get (m : Mgr) (name : Str) : Option (Nat × CI) :=
  match alookup (lower name) m.map with
  | none => none
  | some p =>
    match m.heap[p]? with
    | none => none
    | some ci => some (p, ci)

/-- `manager.AddWithKey` (cluster != nil) -/
def Mgr.addWithKey (m : Mgr) (key : Str) (p : Nat) : Mgr :=
  { m with map := (lower key, p) :: m.map }

/-- `manager.doDelete` -/
def Mgr.doDelete (m : Mgr) (name : Str) (stop : Bool) : Mgr :=
  match alookup (lower name) m.map with
  | none => m
  | some p =>
    { m with map := aerase (lower name) m.map,
             stopped := if stop then p :: m.stopped else m.stopped }

/-- `c, ok := m.Get(name); ok && c.Cluster == clusterName` -/
def Mgr.ownedBy (m : Mgr) (name c : Str) : Bool :=
  match m.get lower name with
  | some (_, ci) => decide (ci.cluster = c)
  | none => false

/-- `c, ok := m.Get(name); ok && c.Cluster != clusterName` -/
def Mgr.heldByOther (m : Mgr) (name c : Str) : Bool :=
  match m.get lower name with
  | some (_, ci) => decide (ci.cluster ≠ c)
  | none => false

/-- `checkServerNameConflict` (`true` = an error is returned). -/
def checkServerNameConflict (m : Mgr) (clusterName : Str) (old new : List Str) : Bool :=
  if old = new then false
  else
    new.any (fun n => m.heldByOther lower n clusterName) ||
    old.any (fun o => !(decide (o ∈ new)) && m.heldByOther lower o clusterName)

/-- `checkUpstreamServerNameConflict` -/
def checkUpstreamServerNameConflict (m : Mgr) (clusterName : Str) (spec : Spec) : Bool :=
  let new := objNames lower clusterName spec
  let old := match m.get lower clusterName with
    | some (_, info) => loadServerNames lower info
    | none => []
  checkServerNameConflict lower m clusterName old new

/-- The two deletion loops (`DeleteForServerNames`: `stop = true`, nothing skipped;
    `AddOrUpdateForServerNames`: `stop = false`, names of the new list skipped): every listed name that
    currently resolves to a `ClusterInfo` whose `Cluster` is `c` is deleted. -/
def delOwned (c : Str) (stop : Bool) (skip : Str → Bool) : List Str → Mgr → Mgr
  | [], m => m
  | sn :: rest, m =>
    let m' := if skip sn then m
      else if m.ownedBy lower sn c then m.doDelete lower sn stop else m
    delOwned c stop skip rest m'

/-- The addition loop of `AddOrUpdateForServerNames`. -/
def addNew (p : Nat) (skip : Str → Bool) : List Str → Mgr → Mgr
  | [], m => m
  | n :: rest, m =>
    let m' := if skip n then m else m.addWithKey lower n p
    addNew p skip rest m'

/-- `DeleteForServerNames` -/
def deleteForServerNames (m : Mgr) (clusterName : Str) : Mgr :=
  match m.get lower clusterName with
  | some (_, ci) => delOwned lower clusterName true (fun _ => false) (loadServerNames lower ci) m
  | none => m

/-- `AddOrUpdateForServerNames` (`none` = error). -/
def addOrUpdateForServerNames (m : Mgr) (old : List Str) (p : Nat) : Option Mgr :=
  match m.heap[p]? with
  | none => none
  | some ci =>
    let new := loadServerNames lower ci
    if old = new then some m
    else if checkServerNameConflict lower m ci.cluster old new then none
    else
      let m1 := delOwned lower ci.cluster false (fun o => decide (o ∈ new)) old m
      some (addNew lower p (fun n => decide (n ∈ old)) new m1)

inductive Outcome
  | deleted | refused | createFailed | created | createAddFailed | syncFailed | updated | updateAddFailed
deriving DecidableEq, Repr

/-- `Result.RequeueAfter > 0` -/
def Outcome.requeue : Outcome → Bool
  | .deleted | .created | .updated => false
  | _ => true

def Outcome.toString : Outcome → String
  | .deleted => "deleted" | .refused => "refused" | .createFailed => "createFailed" | .created => "created"
  | .createAddFailed => "createAddFailed" | .syncFailed => "syncFailed" | .updated => "updated"
  | .updateAddFailed => "updateAddFailed"

/-- what `ClusterInfo.Sync` stores for C10 -/
def CI.sync (ci : CI) (spec : Spec) : CI :=
  { ci with aliases := spec.aliases, cert := spec.cert, ca := spec.ca }

/-- `syncUpstreamCluster(obj)`: `name` is `obj.Name`, `latest` what `lister.Get(obj.Name)` answers
    (`none` = NotFound). -/
def syncUpstreamCluster (m : Mgr) (name : Str) (latest : Option Spec) : Mgr × Outcome :=
  let clusterName := lower name
  match latest with
  | none => (deleteForServerNames lower m clusterName, .deleted)
  | some spec =>
    if checkUpstreamServerNameConflict lower m clusterName spec then (m, .refused)
    else
      match m.get lower clusterName with
      | none =>
        -- bootstrap: CreateClusterInfo
        if spec.bad then (deleteForServerNames lower m clusterName, .createFailed)
        else
          let ci : CI := { cluster := clusterName, aliases := spec.aliases, cert := spec.cert, ca := spec.ca }
          let p := m.heap.length
          let m1 := { m with heap := m.heap ++ [ci] }
          match addOrUpdateForServerNames lower m1 [] p with
          | none =>
            (deleteForServerNames lower { m1 with stopped := p :: m1.stopped } clusterName, .createAddFailed)
          | some m2 => (m2, .created)
      | some (p, info) =>
        let old := loadServerNames lower info
        -- info.Sync(cluster): silently skipped when the names mismatch
        if info.cluster ≠ clusterName then
          match addOrUpdateForServerNames lower m old p with
          | none => (m, .updateAddFailed)
          | some m2 => (m2, .updated)
        else if spec.bad then (m, .syncFailed)
        else
          let m1 := { m with heap := m.heap.set p (info.sync spec) }
          match addOrUpdateForServerNames lower m1 old p with
          | none => (m1, .updateAddFailed)
          | some m2 => (m2, .updated)

/-! ### the same handler as the list of manager states after each of its WRITES

`syncTrace m name latest` lists the manager state after every mutating manager call (`AddWithKey`, `Delete`,
`DeleteWithStop`) the invocation makes, in order: what a concurrent `Get` (request routing, TLS handshake, client
certificate verification) can observe while the single worker goroutine is inside the handler. -/

def delOwnedT (c : Str) (stop : Bool) (skip : Str → Bool) : List Str → Mgr → List Mgr
  | [], _ => []
  | sn :: rest, m =>
    if skip sn then delOwnedT c stop skip rest m
    else if m.ownedBy lower sn c then
      (m.doDelete lower sn stop) :: delOwnedT c stop skip rest (m.doDelete lower sn stop)
    else delOwnedT c stop skip rest m

def addNewT (p : Nat) (skip : Str → Bool) : List Str → Mgr → List Mgr
  | [], _ => []
  | n :: rest, m =>
    if skip n then addNewT p skip rest m
    else (m.addWithKey lower n p) :: addNewT p skip rest (m.addWithKey lower n p)

def deleteForServerNamesT (m : Mgr) (clusterName : Str) : List Mgr :=
  match m.get lower clusterName with
  | some (_, ci) => delOwnedT lower clusterName true (fun _ => false) (loadServerNames lower ci) m
  | none => []

def addOrUpdateForServerNamesT (m : Mgr) (old : List Str) (p : Nat) : List Mgr :=
  match m.heap[p]? with
  | none => []
  | some ci =>
    let new := loadServerNames lower ci
    if old = new then []
    else if checkServerNameConflict lower m ci.cluster old new then []
    else
      delOwnedT lower ci.cluster false (fun o => decide (o ∈ new)) old m ++
      addNewT lower p (fun n => decide (n ∈ old)) new
        (delOwned lower ci.cluster false (fun o => decide (o ∈ new)) old m)

def syncTrace (m : Mgr) (name : Str) (latest : Option Spec) : List Mgr :=
  let clusterName := lower name
  match latest with
  | none => deleteForServerNamesT lower m clusterName
  | some spec =>
    if checkUpstreamServerNameConflict lower m clusterName spec then []
    else
      match m.get lower clusterName with
      | none =>
        if spec.bad then deleteForServerNamesT lower m clusterName
        else
          let ci : CI := { cluster := clusterName, aliases := spec.aliases, cert := spec.cert, ca := spec.ca }
          let p := m.heap.length
          let m1 := { m with heap := m.heap ++ [ci] }
          match addOrUpdateForServerNames lower m1 [] p with
          | none =>
            addOrUpdateForServerNamesT lower m1 [] p ++
              deleteForServerNamesT lower { m1 with stopped := p :: m1.stopped } clusterName
          | some _ => addOrUpdateForServerNamesT lower m1 [] p
      | some (p, info) =>
        let old := loadServerNames lower info
        if info.cluster ≠ clusterName then addOrUpdateForServerNamesT lower m old p
        else if spec.bad then []
        else addOrUpdateForServerNamesT lower { m with heap := m.heap.set p (info.sync spec) } old p

/-- a sequence of handler invocations -/
def runCalls (m : Mgr) : List (Str × Option Spec) → Mgr
  | [] => m
  | (n, l) :: rest => runCalls (syncUpstreamCluster lower m n l).1 rest

/-! ## host extraction -/

def colon : UInt8 := 58
def lbr : UInt8 := 91
def rbr : UInt8 := 93

/-- `bytealg.IndexByteString` -/
def indexOf (c : UInt8) : Str → Option Nat
  | [] => none
  | x :: xs => if x = c then some 0 else (indexOf c xs).map (· + 1)

/-- `bytealg.LastIndexByteString` -/
def lastIndexOf (c : UInt8) : Str → Option Nat
  | [] => none
  | x :: xs =>
    match lastIndexOf c xs with
    | some i => some (i + 1)
    | none => if x = c then some 0 else none

/-- `net.SplitHostPort`: the host, `none` when an error is returned. -/
def splitHostPort (hp : Str) : Option Str :=
  match lastIndexOf colon hp with
  | none => none                                   -- missing port
  | some i =>
    if hp.head? = some lbr then
      match indexOf rbr hp with
      | none => none                               -- missing ']'
      | some e =>
        if e + 1 = hp.length then none             -- missing port
        else if e + 1 = i then
          if (indexOf lbr (hp.drop 1)).isSome then none          -- unexpected '['
          else if (indexOf rbr (hp.drop (e + 1))).isSome then none -- unexpected ']'
          else some ((hp.take e).drop 1)
        else none                                  -- too many colons / missing port
    else
      let host := hp.take i
      if (indexOf colon host).isSome then none     -- too many colons
      else if (indexOf lbr hp).isSome then none
      else if (indexOf rbr hp).isSome then none
      else some host

/-- `gatewaynet.HostWithoutPort` -/
def hostWithoutPort (hostport : Str) : Str :=
  let s := lower hostport
  match splitHostPort s with
  | none => s
  | some h => h

/-- What the request path resolves (`NewExtraRequestInfo` + `WithUpstreamInfo` for a non-IP host):
    `clusterManager.Get(HostWithoutPort(req.Host))`. -/
def resolve (m : Mgr) (host : Str) : Option (Nat × CI) := m.get lower (hostWithoutPort lower host)

/-! ## TLS material -/

structure TLS where
  cert : Option Nat
  ca : Option Nat
  requestClientCert : Bool
deriving DecidableEq, Repr

/-- `LoadTLSConfig`: `(certs, clientCA)`, `none` when neither is set. -/
def loadTLSConfig (ci : CI) : Option (Option Nat × Option Nat) :=
  if ci.cert.isNone && ci.ca.isNone then none else some (ci.cert, ci.ca)

/-- `LoadVerifyOptions`: the roots of the verify options (set and cleared together with the client CA). -/
def loadVerifyOptions (ci : CI) : Option Nat := ci.ca

/-- `WrapGetConfigForClient(base)(hello)`: `serverName` is the SNI, `localAddr` the connection's local address. -/
def wrapGetConfigForClient (m : Mgr) (base : TLS) (serverName localAddr : Str) : TLS :=
  let hostname? := if serverName.isEmpty then splitHostPort localAddr else some serverName
  match hostname? with
  | none => base
  | some hostname =>
    match m.get lower hostname with
    | none => base
    | some (_, ci) =>
      match loadTLSConfig ci with
      | none => base
      | some (cert, ca) =>
        let c1 : TLS := match ca with
          | some a => { base with requestClientCert := true, ca := some a }
          | none => base
        match cert with
        | some x => { c1 with cert := some x }
        | none => c1

/-- `SNIVerifyOptions(host)` -/
def sniVerifyOptions (m : Mgr) (host : Str) : Option Nat :=
  match m.get lower (hostWithoutPort lower host) with
  | none => none
  | some (_, ci) => loadVerifyOptions ci

/-! ## client-certificate authentication as the proxy wires it

`proxy/options.AuthenticationOptions.ToAuthenticationConfig` + `ClientCertAuthenticationConfig.New` +
`AuthenricatorConfig.New` (as called from `CreateProxyConfig`: the controller is the SNI verify-options provider),
the forked `x509.Authenticator.AuthenticateRequest` (`NewSNIDynamic`), and the generic server's
`SecureServingInfo.tlsConfig` (base `ClientAuth = RequestClientCert` iff the control plane has a client CA,
`GetConfigForClient` wrapped by the controller). CAs are ids; a client certificate is the id of the CA that
signed it. -/

inductive AuthOutcome
  | user        -- authenticated as the certificate's common name
  | anonymous   -- no authenticator claimed the request: system:anonymous
  | rejected    -- the x509 authenticator returned an error: 401
deriving DecidableEq, Repr

def AuthOutcome.toString : AuthOutcome → String
  | .user => "user" | .anonymous => "anonymous" | .rejected => "rejected"

/-- `x509.Authenticator.AuthenticateRequest`: `none` = `(nil, false, nil)`, the request goes on to the next
    authenticator. `sniOpts` is what `sniVerifyOptionsFn(req.Host)` answers (`none` = no such function or
    `ok == false`), `cpOpts` what the control plane's `verifyOptionsFn` answers. -/
def x509Authenticate (sniOpts cpOpts certCA : Option Nat) : Option AuthOutcome :=
  match certCA with
  | none => none                         -- len(req.TLS.PeerCertificates) == 0
  | some x =>
    let opts := match sniOpts with
      | some r => some r
      | none => cpOpts
    match opts with
    | none => none                       -- intentionally no verify options
    | some r => if x = r then some .user else some .rejected

/-- The authenticator `ToAuthenticationConfig` / `AuthenricatorConfig.New` build (`Anonymous: true`):
    `cfg.ClientCert` is nil only when the control plane has no client CA AND no SNI provider is handed in;
    `sniInstalled` is `sniVerifyOptionsProvider != nil` (the shipped `CreateProxyConfig` passes the controller). -/
def proxyAuthenticate (m : Mgr) (cp : Option Nat) (sniInstalled : Bool) (host : Str) (certCA : Option Nat) :
    AuthOutcome :=
  let r := if cp.isNone && !sniInstalled then none
    else x509Authenticate (if sniInstalled then sniVerifyOptions lower m host else none) cp certCA
  match r with
  | some o => o
  | none => .anonymous

/-- A whole exchange through the shipped wiring: the handshake (SNI `sni`) only carries the client certificate
    when the selected `tls.Config` requests one; then the request (Host `host`) is authenticated. -/
def wiredExchange (m : Mgr) (base : TLS) (cp : Option Nat) (sniInstalled : Bool) (sni localAddr host : Str)
    (certCA : Option Nat) : TLS × AuthOutcome :=
  let cfg := wrapGetConfigForClient lower m base sni localAddr
  let presented := if cfg.requestClientCert then certCA else none
  (cfg, proxyAuthenticate lower m cp sniInstalled host presented)

/-! ## the admission plug-in's conflict rule and the lister -/

abbrev Lister := List (Str × Spec)

def Lister.get (l : Lister) (name : Str) : Option Spec :=
  match l with
  | [] => none
  | (n, s) :: rest => if n = name then some s else Lister.get rest name

def Lister.set (l : Lister) (name : Str) (s : Spec) : Lister :=
  (name, s) :: l.filter (fun e => decide (e.1 ≠ name))

def Lister.unset (l : Lister) (name : Str) : Lister :=
  l.filter (fun e => decide (e.1 ≠ name))

/-- the conflict loop of `upstreamclusterPlugin.Validate` (`true` = some error is appended) -/
def pluginConflict (lister : Lister) (name : Str) (spec : Spec) : Bool :=
  let clusterName := lower name
  lister.any fun u =>
    if lower u.1 = clusterName then false
    else (u.1 :: u.2.aliases).any fun s =>
      decide (lower clusterName = lower s) || spec.aliases.any fun sn => decide (lower sn = lower s)

/-- `Validate` as far as C10 is concerned: the object is accepted. `lower name = name` stands for
    `NameIsDNSSubdomain` (which implies it), `!bad` for the stateless validation of the secure-serving data. -/
def pluginAdmits (lister : Lister) (name : Str) (spec : Spec) : Bool :=
  decide (lower name = name) && !spec.bad && !pluginConflict lower lister name spec

structure World where
  lister : Lister
  mgr : Mgr

def World.init : World := { lister := [], mgr := Mgr.init }

inductive Step
  | set (name : Str) (spec : Spec)     -- the informer stores a created/updated object
  | unset (name : Str)                 -- the informer removes a deleted object
  | sync (name : Str)                  -- the queue hands an event for `name` to the handler
deriving Repr

def World.step (w : World) : Step → World × Option Outcome
  | .set n s => ({ w with lister := w.lister.set n s }, none)
  | .unset n => ({ w with lister := w.lister.unset n }, none)
  | .sync n =>
    let r := syncUpstreamCluster lower w.mgr n (w.lister.get n)
    ({ w with mgr := r.1 }, some r.2)

def World.run (w : World) : List Step → World
  | [] => w
  | s :: rest => World.run (w.step lower s).1 rest

end

/-! ## ASCII lower-casing (what `strings.ToLower` does on ASCII strings) -/

def lowerByte (b : UInt8) : UInt8 := if 65 ≤ b ∧ b ≤ 90 then b + 32 else b
def asciiLower (s : Str) : Str := s.map lowerByte

end KG.Model.Names
