import KG.Base.Json
import KG.Gen.C18
/-!
# Model of the limiter server's bookkeeping of gateway instances (property C18)

Mirrors, function by function,

* `pkg/ratelimiter/limiter/clientcache.go`        — `ClientCache` (`hb`)
* `pkg/ratelimiter/limiter/ratelimter.go`         — `Heartbeat`, `UpdateRateLimitConditionStatus`, `DoAcquire`,
  `UpstreamConditionHandler`, `updateUpstreamStateCondition`, `calculateUpstreamCondition`,
  `cleanupTimeoutClient`, `cleanupUnknownCondition`, `deleteCondition`, `deleteGlobalFlowControl`,
  `leaderCheck` / `startLeading` / `stopLeading` / `syncUpstreamClustersForShard`
* `pkg/ratelimiter/store/local/local.go`, `upstreamcondition.go` — the local `LimitStore`
* `pkg/ratelimiter/store/flowcontrol/maxinflight.go` — `SetState` (one critical section, negative `current` = remove)

The state is kept *flat*: the `sync.Map`s of every `localStore` of `limitStoreMap` are lists of records tagged with
the shard of the store they live in (`conds : (shard, condition)`, `fcs : (shard, upstream, flow control)`,
`clusters : (shard, upstream, currentFlowControlSpec)`); map order does not exist in Go either, observations are
sorted before they are compared. Time is `Nat` milliseconds supplied by the ops. The quota computed by
`calculateNextQuota` (property C07) is an input of the `report` op (`quota`).
-/
namespace KG.Model.Reclaim
open KG

abbrev Inst := Str
abbrev Ups := Str

/-- `ClientHeartBeatTimeout` in milliseconds, regenerated from the source. -/
def timeout : Nat := KG.Gen.C18.clientHeartBeatTimeoutMs

/-- Go `int32(x)` conversion / wrap-around of int32 arithmetic. -/
def toI32 (x : Int) : Int := (x + 2147483648) % 4294967296 - 2147483648

/-! ## API objects -/

inductive Kind | mif | tb | unknown
  deriving DecidableEq, Repr

/-- `RateLimitItemConfiguration` / `RateLimitItemStatus` reduced to name + `LimitItemDetail`. -/
structure Item where
  name : Str
  mif : Option Int
  tb : Option (Int × Int)
  deriving DecidableEq, Repr

/-- `flowcontrol.GetFlowControlTypeFromLimitItem`. -/
def Item.kind (it : Item) : Kind :=
  if it.mif.isSome then .mif else if it.tb.isSome then .tb else .unknown

/-- `RateLimitCondition`: name, `Spec.UpstreamCluster`, `Spec.Instance`, the instance label (`none`: no such label),
    `Spec.LimitItemConfigurations`; `status` is `Status.LimitItemStatuses` of the upstream state condition
    (the reported status of instance conditions only feeds `RequestLevel`, which is not modelled). -/
structure Cond where
  name : Str
  upstream : Ups
  inst : Inst
  label : Option Str
  items : List Item
  status : List Item
  deriving DecidableEq, Repr

/-- `FlowControlSchema` reduced to the two global members the limiter server reads. -/
structure Schema where
  name : Str
  gmif : Option Int
  gtb : Option (Int × Int)
  deriving DecidableEq, Repr

/-- `instanceState` of `globalMaxInflight`. -/
structure IState where
  count : Int
  reqId : Int
  deriving DecidableEq, Repr

/-- `GlobalFlowControl`: `globalMaxInflight` (`isMif`, `max`, `count`, `instanceStates`) or `globalTokenBucket`
    (`max` = qps, `burst`; it keeps nothing per instance). -/
structure FC where
  name : Str
  isMif : Bool
  max : Int
  burst : Int
  count : Int
  states : List (Inst × IState)
  deriving DecidableEq, Repr

structure State where
  /-- `ClientCache.clientHeartbeats` -/
  hb : List (Inst × Nat)
  /-- shards for which `leaderElector.IsLeader` answers true -/
  leaders : List Nat
  /-- keys of `limitStoreMap` -/
  shards : List Nat
  /-- `(store, cluster key, currentFlowControlSpec)`; a missing record is the zero spec -/
  clusters : List (Nat × Ups × List Schema)
  /-- every stored condition with the store it is in (the cluster key is always `Spec.UpstreamCluster`) -/
  conds : List (Nat × Cond)
  /-- every global flow control with its store and cluster key -/
  fcs : List (Nat × Ups × FC)
  /-- contents of the UpstreamCluster lister -/
  listed : List (Ups × List Schema)
  /-- keys of `upstreamLock` (created by the first upstream event handled for the upstream, never removed) -/
  locks : List Ups
  /-- API-backed store only: names of the conditions whose API `Delete` currently fails with an error other than
      NotFound (unavailable server, lost answer); the store then keeps its cached copy. Always `[]` with the local
      store. An environment fact, like `leaders` and `listed`. -/
  failing : List Str
  deriving DecidableEq, Repr

def init : State := ⟨[], [], [], [], [], [], [], [], []⟩

/-! ## Names -/

def dotState : Str := [46, 115, 116, 97, 116, 101]   -- ".state"

/-- `upstreamStateConditionName`. -/
def stateName (u : Ups) : Str := u ++ dotState

/-- `strings.ReplaceAll(instance, ":", "-")`. -/
def sanitize (i : Inst) : Str := i.map fun b => if b = 58 then 45 else b

/-- `util.GenerateRateLimitConditionName`. -/
def condName (u : Ups) (i : Inst) : Str := u ++ [46] ++ sanitize i

/-! ## `ClientCache` -/

def hbHas (s : State) (i : Inst) : Bool := s.hb.any (·.1 == i)

def heartbeat (s : State) (i : Inst) (t : Nat) : State :=
  { s with hb := s.hb.filter (·.1 != i) ++ [(i, t)] }

/-- `time.Now().After(lastHeartbeat.Add(ClientHeartBeatTimeout))`. -/
def timedOut (now : Nat) (p : Inst × Nat) : Bool := decide (now > p.2 + timeout)

/-! ## `globalMaxInflight` -/

def FC.getState (f : FC) (i : Inst) : Option IState := (f.states.find? (·.1 == i)).map (·.2)

def FC.put (f : FC) (i : Inst) (st : IState) (count : Int) : FC :=
  { f with states := f.states.filter (·.1 != i) ++ [(i, st)], count := count }

/-- `SetState(instance, _, current)` with `current < 0`: forget the instance and give its count back. -/
def FC.drop (f : FC) (i : Inst) : FC :=
  if !f.isMif then f else
  match f.getState i with
  | some st => { f with states := f.states.filter (·.1 != i), count := toI32 (f.count + toI32 (-st.count)) }
  | none => f

/-- `SetState`: result `(fc', accept, latest, RequestIDTooOld)`. -/
def setState (f : FC) (i : Inst) (rid cur : Int) : FC × Bool × Int × Bool :=
  if !f.isMif then (f, false, -1, false)
  else if cur < 0 then (f.drop i, false, -1, false)
  else
    let st := (f.getState i).getD ⟨0, 0⟩
    if rid > 0 ∧ rid ≤ st.reqId then (f.put i st f.count, false, cur, true)
    else
      let st1 : IState := if rid > 0 then { st with reqId := rid } else st
      let old := st1.count
      let delta := toI32 (cur - old)
      let c1 := toI32 (f.count + delta)
      let ov := toI32 (c1 - f.max)
      if ov > 0 ∧ delta > 0 then
        (f.put i { st1 with count := toI32 (cur + toI32 (-delta)) } (toI32 (c1 + toI32 (-delta))), false, old, false)
      else if ov > 0 ∨ (ov = 0 ∧ cur > 0) then
        (f.put i { st1 with count := cur } c1, false, cur, false)
      else
        (f.put i { st1 with count := cur } c1, true, cur, false)

/-- what a burst of CONCURRENT acquires of `i` leaves behind, given the per-instance state `st` it ends with
    (`SetState` is one critical section, so the burst is some sequence of `setState`s of `i`: only `i`'s entry and,
    by the same amount, the total change). -/
def FC.force (f : FC) (i : Inst) (st : IState) : FC :=
  if !f.isMif then f else
  f.put i st (toI32 (f.count - ((f.getState i).map (·.count)).getD 0 + st.count))

/-! ## the local store (one per shard, flat) -/

def getCond (s : State) (sh : Nat) (u : Ups) (n : Str) : Option Cond :=
  (s.conds.find? fun r => r.1 == sh && r.2.upstream == u && r.2.name == n).map (·.2)

/-- `Save`: replace the condition stored under the same (store, cluster, name). -/
def saveCond (conds : List (Nat × Cond)) (sh : Nat) (c : Cond) : List (Nat × Cond) :=
  conds.filter (fun r => !(r.1 == sh && r.2.upstream == c.upstream && r.2.name == c.name)) ++ [(sh, c)]

def listUpstream (conds : List (Nat × Cond)) (sh : Nat) (u : Ups) : List Cond :=
  (conds.filter fun r => r.1 == sh && r.2.upstream == u).map (·.2)

/-- the API refuses to delete some condition of the upstream in this store: `objectStore.DeleteUpstream` gives up and
    leaves its cache as it is. -/
def blocked (conds : List (Nat × Cond)) (failing : List Str) (sh : Nat) (u : Ups) : Bool :=
  conds.any fun r => r.1 == sh && r.2.upstream == u && failing.contains r.2.name

/-- `DeleteUpstream` on the store of shard `sh`. -/
def deleteUpstream (s : State) (sh : Nat) (u : Ups) : State :=
  if blocked s.conds s.failing sh u then s else
  { s with
    clusters := s.clusters.filter (fun r => !(r.1 == sh && r.2.1 == u)),
    conds := s.conds.filter (fun r => !(r.1 == sh && r.2.upstream == u)),
    fcs := s.fcs.filter (fun r => !(r.1 == sh && r.2.1 == u)) }

def getFlowControl (s : State) (sh : Nat) (u : Ups) (n : Str) : Option FC :=
  (s.fcs.find? fun r => r.1 == sh && r.2.1 == u && r.2.2.name == n).map (·.2.2)

/-- in-place update of the flow control stored under (store, cluster, name) (Go mutates the object the map points to). -/
def mapFC (fcs : List (Nat × Ups × FC)) (sh : Nat) (u : Ups) (n : Str) (g : FC → FC) : List (Nat × Ups × FC) :=
  fcs.map fun r => if r.1 == sh && r.2.1 == u && r.2.2.name == n then (r.1, r.2.1, g r.2.2) else r

def specOf (s : State) (sh : Nat) (u : Ups) : List Schema :=
  ((s.clusters.find? fun r => r.1 == sh && r.2.1 == u).map (·.2.2)).getD []

def Schema.isGlobal (sc : Schema) : Bool := sc.gmif.isSome || sc.gtb.isSome

/-- `NewGlobalFlowControl`. -/
def newFC (sc : Schema) : FC :=
  match sc.gmif, sc.gtb with
  | some m, _ => ⟨sc.name, true, m, 0, 0, []⟩
  | none, some (q, b) => ⟨sc.name, false, q, b, 0, []⟩
  | none, none => ⟨sc.name, false, 0, 0, 0, []⟩

/-- `ResizeGlobalFlowControl`. -/
def resizeFC (f : FC) (sc : Schema) : FC :=
  match sc.gmif, sc.gtb with
  | some m, _ => { f with max := m }
  | none, some (q, b) => if f.isMif then f else { f with max := q, burst := b }
  | none, none => f

/-- one iteration of the loop over the new schemas in `syncLocalFlowControls`. -/
def syncOne (sh : Nat) (u : Ups) (fcs : List (Nat × Ups × FC)) (sc : Schema) : List (Nat × Ups × FC) :=
  if !sc.isGlobal then fcs else
  match (fcs.find? fun r => r.1 == sh && r.2.1 == u && r.2.2.name == sc.name).map (·.2.2) with
  | none => fcs ++ [(sh, u, newFC sc)]
  | some f =>
    if f.isMif != sc.gmif.isSome then mapFC fcs sh u sc.name (fun _ => newFC sc)   -- type changed: fresh flow control
    else mapFC fcs sh u sc.name (fun f => resizeFC f sc)

/-- `SyncFlowControl` / `syncLocalFlowControls`. -/
def syncFlowControl (s : State) (sh : Nat) (u : Ups) (schemas : List Schema) : State :=
  let old := specOf s sh u
  if old = schemas then s else
  let fcs1 := schemas.foldl (syncOne sh u) s.fcs
  let newNames := (schemas.filter Schema.isGlobal).map (·.name)
  let deleted := (old.map (·.name)).filter fun n => !newNames.contains n
  { s with
    fcs := fcs1.filter (fun r => !(r.1 == sh && r.2.1 == u && deleted.contains r.2.2.name)),
    clusters := s.clusters.filter (fun r => !(r.1 == sh && r.2.1 == u)) ++ [(sh, u, schemas)] }

/-! ## `calculateUpstreamCondition` (the recorded allocated sums) -/

def addItem (acc : List Item) (it : Item) : List Item :=
  let cur := (acc.find? (·.name == it.name)).getD ⟨it.name, none, none⟩
  let new : Item :=
    match it.mif, it.tb with
    | some m, _ => { cur with mif := some (toI32 (cur.mif.getD 0 + m)) }
    | none, some (q, b) =>
        { cur with tb := some (toI32 ((cur.tb.getD (0, 0)).1 + q), toI32 ((cur.tb.getD (0, 0)).2 + b)) }
    | none, none => cur
  if acc.any (·.name == it.name) then acc.map (fun x => if x.name == it.name then new else x) else acc ++ [new]

/-- sums of the quotas of the given conditions, per flow-control name. -/
def calcSums (cs : List Cond) : List Item := cs.foldl (fun acc c => c.items.foldl addItem acc) []

/-- the conditions `calculateUpstreamCondition` adds up: those of the upstream except the state condition. -/
def summed (conds : List (Nat × Cond)) (sh : Nat) (u : Ups) : List Cond :=
  (listUpstream conds sh u).filter fun c => c.name != stateName u

/-! ## `UpstreamConditionHandler` -/

/-- `toFlowControlLimit`. -/
def toFlowControlLimit (sc : Schema) : Item :=
  match sc.gmif, sc.gtb with
  | some m, _ => ⟨sc.name, some m, none⟩
  | none, some qb => ⟨sc.name, none, some qb⟩
  | none, none => ⟨sc.name, none, none⟩

def lookupLast (l : List Item) (n : Str) : Option Item := (l.filter (·.name == n)).getLast?

/-- `updateUpstreamStateCondition`. -/
def updateUpstreamStateCondition (upc : Option Cond) (u : Ups) (schemas : List Schema) : Cond :=
  let c := upc.getD ⟨stateName u, u, [], none, [], []⟩
  let status := schemas.map fun sc =>
    let d := toFlowControlLimit sc
    let st := (lookupLast c.status sc.name).getD ⟨sc.name, none, none⟩
    let st := if d.tb.isSome && st.tb.isNone then { st with tb := some (0, 0) } else st
    if d.mif.isSome && st.mif.isNone then { st with mif := some 0 } else st
  { c with items := schemas.map toFlowControlLimit, status := status }

variable (shardOf : Ups → Nat)

def isLeader (s : State) (sh : Nat) : Bool := s.leaders.contains sh

/-- `UpstreamConditionHandler(cluster)` where `cluster` is the lister's object (or a deleted one). -/
def handle (s : State) (u : Ups) : State :=
  let sh := shardOf u
  if !isLeader s sh then s
  else if !s.shards.contains sh then s
  else
    match (s.listed.find? (·.1 == u)).map (·.2) with
    | none => deleteUpstream s sh u
    | some schemas =>
      let upc := updateUpstreamStateCondition (getCond s sh u (stateName u)) u schemas
      syncFlowControl { s with conds := saveCond s.conds sh upc,
                               locks := if s.locks.contains u then s.locks else s.locks ++ [u] } sh u schemas

/-! ## `UpdateRateLimitConditionStatus` -/

inductive Out
  | unit
  | err (e : String)
  | reported (label : Str)
  | acquired (rs : List (Str × Bool × Int × String))
  deriving DecidableEq, Repr

/-- the loop over `condition.Spec.LimitItemConfigurations`: `none` = type mismatch error, else the names kept. -/
def keptItems (total : List Item) : List (Str × Kind) → Option (List Str)
  | [] => some []
  | (n, k) :: rest =>
    match lookupLast total n with
    | none => keptItems total rest
    | some t =>
      if k ≠ .unknown ∧ k ≠ t.kind then none
      else (keptItems total rest).map (n :: ·)

def report (s : State) (u : Ups) (i : Inst) (ritems : List (Str × Kind)) (quota : List Item) : State × Out :=
  let sh := shardOf u
  if !isLeader s sh then (s, .err "notLeader")
  else if !s.shards.contains sh then (s, .err "noStore")
  else if !s.locks.contains u then (s, .err "noLock")
  else
    match getCond s sh u (stateName u) with
    | none => (s, .err "notFound")
    | some upc =>
      let name := condName u i
      let label := match getCond s sh u name with
        | some old => old.inst
        | none => []
      match keptItems upc.items ritems with
      | none => (s, .err "typeMismatch")
      | some kept =>
        if kept ≠ quota.map (·.name) then (s, .err "oracle")
        else
          let cond : Cond := ⟨name, u, i, some label, quota, []⟩
          let conds1 := saveCond s.conds sh cond
          let upc' := { upc with status := calcSums (summed conds1 sh u) }
          ({ s with conds := saveCond conds1 sh upc' }, .reported label)

/-! ## `DoAcquire` -/

def acquireOne (i : Inst) (rid : Int) (sh : Nat) (u : Ups) (s : State) (rq : Str × Int) :
    State × (Str × Bool × Int × String) :=
  match getFlowControl s sh u rq.1 with
  | none => (s, (rq.1, false, 0, "notFound"))
  | some f =>
    if rq.2 < 0 then (s, (rq.1, false, 0, "negative"))
    else if !f.isMif then (s, (rq.1, false, 0, "tokenBucket"))   -- wall-clock rate limiter: outcome not modelled
    else
      let (_, acc, latest, old) := setState f i rid rq.2
      let s' := { s with fcs := mapFC s.fcs sh u rq.1 (fun f => (setState f i rid rq.2).1) }
      if old then (s', (rq.1, false, 0, "tooOld"))
      else if acc then (s', (rq.1, true, rq.2, ""))
      else (s', (rq.1, false, latest, ""))

def acquireLoop (i : Inst) (rid : Int) (sh : Nat) (u : Ups) :
    State → List (Str × Int) → List (Str × Bool × Int × String) → State × List (Str × Bool × Int × String)
  | s, [], acc => (s, acc)
  | s, rq :: rest, acc =>
    let (s', r) := acquireOne i rid sh u s rq
    acquireLoop i rid sh u s' rest (acc ++ [r])

def acquire (s : State) (u : Ups) (i : Inst) (rid : Int) (reqs : List (Str × Int)) : State × Out :=
  let sh := shardOf u
  if !isLeader s sh then (s, .err "notLeader")
  else if !s.shards.contains sh then (s, .err "noStore")
  else
    let (s', rs) := acquireLoop i rid sh u s reqs []
    (s', .acquired rs)

/-- 2–8 first acquires of `i` for flow control `n` arriving in PARALLEL; `st` is the state of `i` the real flow
    control ended with (`none`: it has none). -/
def burst (s : State) (u : Ups) (i : Inst) (n : Str) (st : Option IState) : State :=
  let sh := shardOf u
  if !isLeader s sh then s
  else if !s.shards.contains sh then s
  else
    match st with
    | none => s
    | some st => { s with fcs := mapFC s.fcs sh u n (fun f => f.force i st) }

/-! ## the two clean-up passes -/

/-- `deleteCondition`'s guard (leader of the condition's shard, non-empty `Spec.Instance`) and the store's `Delete`
    going through (API-backed store: the API delete answers nil or NotFound). -/
def deletable (s : State) (c : Cond) : Bool :=
  isLeader s (shardOf c.upstream) && c.inst != [] && !s.failing.contains c.name

/-- the conditions the time-out pass picks for dead instance `d`:
    `List(SelectorFromValidatedSet{label: d})` filtered by `Spec.Instance == d`. -/
def selects (d : Inst) (c : Cond) : Bool := c.label == some d && c.inst == d

/-- `DeleteInstanceState(d)` for every `d` of the list, on one flow control. -/
def dropAll (ds : List Inst) (f : FC) : FC := ds.foldl FC.drop f

/-- `cleanupTimeoutClient` at wall-clock `now` (with the goroutines it starts run to completion). -/
def cleanupTimeout (s : State) (now : Nat) : State :=
  let dead := (s.hb.filter (timedOut now)).map (·.1)
  { s with
    hb := s.hb.filter (fun p => !timedOut now p),
    conds := s.conds.filter (fun r => !(dead.any (fun d => selects d r.2) && deletable shardOf s r.2)),
    fcs := s.fcs.map (fun r => (r.1, r.2.1, dropAll dead r.2.2)) }

/-- a condition whose `Spec.Instance` is not in the heartbeat table. -/
def unknown (s : State) (c : Cond) : Bool := !hbHas s c.inst

def isListed (s : State) (u : Ups) : Bool := s.listed.any (·.1 == u)

/-- `cleanupUnknownCondition`. -/
def cleanupUnknown (s : State) : State :=
  let clientsToDelete := (s.conds.filter fun r => unknown s r.2 && r.2.inst != []).map (·.2.inst)
  let upstreamsToDelete := (s.conds.filter fun r => unknown s r.2 && !isListed s r.2.upstream).map (·.2.upstream)
  let conds1 := s.conds.filter fun r => !(unknown s r.2 && deletable shardOf s r.2)
  let fcs1 := s.fcs.map fun r => (r.1, r.2.1, dropAll clientsToDelete r.2.2)
  let gone (sh : Nat) (u : Ups) : Bool := upstreamsToDelete.contains u && !blocked conds1 s.failing sh u
  { s with
    clusters := s.clusters.filter (fun r => !gone r.1 r.2.1),
    conds := conds1.filter (fun r => !gone r.1 r.2.upstream),
    fcs := fcs1.filter (fun r => !gone r.1 r.2.1) }

/-! ## leadership -/

def setLeader (s : State) (sh : Nat) (b : Bool) : State :=
  { s with leaders := if b then (if s.leaders.contains sh then s.leaders else s.leaders ++ [sh])
                      else s.leaders.filter (· != sh) }

/-- `stopLeading`: the store of the shard is dropped. -/
def dropStore (s : State) (sh : Nat) : State :=
  { s with
    shards := s.shards.filter (· != sh),
    clusters := s.clusters.filter (·.1 != sh),
    conds := s.conds.filter (·.1 != sh),
    fcs := s.fcs.filter (·.1 != sh) }

/-- `leaderCheck`: `startLeading` (fresh local store + `syncUpstreamClustersForShard`) for led shards without a
    store, `stopLeading` for stores of shards no longer led. -/
def leaderCheck (s : State) : State :=
  let toStart := s.leaders.filter fun sh => !s.shards.contains sh
  let s1 := { s with shards := s.shards ++ toStart }
  let s2 := (s.listed.filter fun p => toStart.contains (shardOf p.1)).foldl (fun st p => handle shardOf st p.1) s1
  (s.shards.filter fun sh => !s.leaders.contains sh).foldl dropStore s2

/-! ## the lister -/

def list (s : State) (u : Ups) (schemas : List Schema) : State :=
  { s with listed := s.listed.filter (·.1 != u) ++ [(u, schemas)] }

def unlist (s : State) (u : Ups) : State := { s with listed := s.listed.filter (·.1 != u) }

/-! ## histories -/

inductive Op
  | heartbeat (i : Inst) (t : Nat)
  | report (u : Ups) (i : Inst) (ritems : List (Str × Kind)) (quota : List Item)
  | acquire (u : Ups) (i : Inst) (rid : Int) (reqs : List (Str × Int))
  | cleanupTimeout (now : Nat)
  | cleanupUnknown
  | setLeader (sh : Nat) (b : Bool)
  | leaderCheck
  | list (u : Ups) (schemas : List Schema)
  | unlist (u : Ups)
  | handle (u : Ups)
  | burst (u : Ups) (i : Inst) (n : Str) (st : Option IState)
  | faults (names : List Str)
  | apiDelete (name : Str)
  | wireRejected
  deriving DecidableEq, Repr

def step (s : State) : Op → State × Out
  | .heartbeat i t => (heartbeat s i t, .unit)
  | .report u i ritems quota => report shardOf s u i ritems quota
  | .acquire u i rid reqs => acquire shardOf s u i rid reqs
  | .cleanupTimeout now => (cleanupTimeout shardOf s now, .unit)
  | .cleanupUnknown => (cleanupUnknown shardOf s, .unit)
  | .setLeader sh b => (setLeader s sh b, .unit)
  | .leaderCheck => (leaderCheck shardOf s, .unit)
  | .list u schemas => (list s u schemas, .unit)
  | .unlist u => (unlist s u, .unit)
  | .handle u => (handle shardOf s u, .unit)
  | .burst u i n st => (burst shardOf s u i n st, .unit)
  | .faults names => ({ s with failing := names }, .unit)
  | .apiDelete _ => (s, .unit)   -- out-of-band deletion in the API: the store's cache does not see it
  | .wireRejected => (s, .err "wire")   -- a request the HTTP endpoint (or the client) refused before it reached the limiter

def run (s : State) (ops : List Op) : State := ops.foldl (fun st op => (step shardOf st op).1) s

/-- the op is an action of gateway instance `i`. -/
def Op.isBy (i : Inst) : Op → Bool
  | .heartbeat j _ => j == i
  | .report _ j _ _ => j == i
  | .acquire _ j _ _ => j == i
  | .burst _ j _ _ => j == i
  | _ => false

/-! ## FNV-1a, `util.GetShardID` (used by the driver; the theorems hold for every `shardOf`) -/

def fnv32a (s : Str) : Nat :=
  s.foldl (fun h b => ((h ^^^ b.toNat) * 16777619) % 4294967296) 2166136261

def getShardID (count : Nat) (u : Ups) : Nat := fnv32a u % count

end KG.Model.Reclaim
