import KG.Base.Json
/-!
# Model of the control plane's REST strategies (C20)

Mirrors, function by function,
* `staging/src/github.com/kubewharf/apiserver-runtime/pkg/registry/strategy.go`
  (`HasObjectMetaSpecStatus`, `DefaultRESTStrategy.PrepareForCreate/PrepareForUpdate`, `specEqual`,
  `semanticEqual`, `DefaultStatusRESTStrategy.PrepareForUpdate`),
* `staging/src/github.com/kubewharf/apiserver-runtime/pkg/registry/rest.go` (`NewResourceREST`: which update
  strategy each endpoint gets, and when a status subresource is served at all),
* `k8s.io/apiserver/pkg/registry/rest` `BeforeCreate` / `BeforeUpdate` (the kubewharf fork in the module cache;
  trusted k8s code, included so that the statements are the API-level ones): generation reset to the stored
  one before the strategy runs; the two generation checks of `ValidateObjectMetaAccessor(Update)` afterwards.

An object is cut into the field groups the strategies distinguish: labels, annotations, generation, the rest of
the metadata, spec, status. `L A M S T` are abstract types of decoded Go values (`nil` and an empty map are
DIFFERENT values of `A`). The only comparison the code makes is `semanticEqual`
(= `apiequality.Semantic.DeepEqual`: an empty map/list/byte string equals a missing one), modelled by `Sem`:
two values are `semanticEqual` iff their `Sem` images are equal — the image is the value as the API renders
it. `generation` is an `int64` (`Int` with the explicit wrap `toI64`).
-/
namespace KG.Model.Strategy

structure Obj (L A M S T : Type) where
  labels : L
  annotations : A
  generation : Int
  otherMeta : M
  spec : S
  status : T
deriving DecidableEq, Repr

/-- `HasObjectMetaSpecStatus(obj)`: what reflection finds on the Go type. -/
structure Shape where
  hasMeta : Bool
  hasSpec : Bool
  hasStatus : Bool
deriving DecidableEq, Repr

def i64Lo : Int := -9223372036854775808
def i64Hi : Int := 9223372036854775807
/-- two's complement wrap of Go's `int64` arithmetic -/
def toI64 (x : Int) : Int := (x + 9223372036854775808) % 18446744073709551616 - 9223372036854775808
def isI64 (x : Int) : Prop := i64Lo ≤ x ∧ x ≤ i64Hi
instance (x : Int) : Decidable (isI64 x) := by unfold isI64; infer_instance

deriving instance DecidableEq for Except

/-- `semanticEqual(a, b)` ⇔ `sem a = sem b`: the rendering under which `apiequality.Semantic.DeepEqual`
    compares specs and annotation maps (empty = missing; pointers, scalars, list elements exact). -/
structure Sem (A S A' S' : Type) where
  annotations : A → A'
  spec : S → S'

section
variable {L A M S T A' S' : Type}

/-- `DefaultRESTStrategy.PrepareForCreate`; `zero` is `reflect.New(statusType.Type).Elem()`. -/
def prepareForCreate (subStatus : Bool) (sh : Shape) (zero : T) (obj : Obj L A M S T) : Obj L A M S T :=
  -- if s.subStatus && hasStatus { clear status }
  let obj := if subStatus && sh.hasStatus then { obj with status := zero } else obj
  -- if hasMeta { accessor.SetGeneration(1) }
  if sh.hasMeta then { obj with generation := 1 } else obj

/-- `DefaultRESTStrategy.PrepareForUpdate` (`specEqual` and the annotation test are both `semanticEqual`). -/
def prepareForUpdate [DecidableEq S'] [DecidableEq A'] (sem : Sem A S A' S') (subStatus : Bool) (sh : Shape)
    (obj old : Obj L A M S T) : Obj L A M S T :=
  -- if !hasStatus { return }
  if !sh.hasStatus then obj else
  -- if s.subStatus && hasStatus { obj.Status = old.Status }
  let obj := if subStatus && sh.hasStatus then { obj with status := old.status } else obj
  -- if hasMeta && hasSpec { if !specEqual(…) || !semanticEqual(annotations…) { SetGeneration(old.Generation + 1) } }
  if sh.hasMeta && sh.hasSpec then
    if sem.spec obj.spec ≠ sem.spec old.spec ∨ sem.annotations obj.annotations ≠ sem.annotations old.annotations then
      { obj with generation := toI64 (old.generation + 1) }
    else obj
  else obj

/-- `DefaultRESTStrategy.Canonicalize` (inherited by the status strategy): the Go body is EMPTY — pinned by the
    regenerated fact `KG.Gen.C20.hooks` — so it is the identity. It is the LAST step of `BeforeCreate` /
    `BeforeUpdate`, after the strategy's `PrepareFor…` and the validation: anything it changed would be stored
    without having been seen by the generation rule. -/
def canonicalize (obj : Obj L A M S T) : Obj L A M S T := obj

/-- `DefaultStatusRESTStrategy.PrepareForUpdate`. -/
def statusPrepareForUpdate (sh : Shape) (obj old : Obj L A M S T) : Obj L A M S T :=
  -- if !hasStatus { return }
  if !sh.hasStatus then obj else
  -- if hasSpec { obj.Spec = old.Spec }
  let obj := if sh.hasSpec then { obj with spec := old.spec } else obj
  -- if hasMeta { accessorNew.SetLabels(accessorOld.GetLabels()) }
  if sh.hasMeta then { obj with labels := old.labels } else obj

/-- How a kind is served: `RESTStorageOptions` as filled in by `pkg/gateway/controlplane/registry/proxy/rest/rest.go`. -/
structure Reg where
  shape : Shape
  /-- `subStatus` of the main strategy (`NewDefaultRESTStrategy(_, subStatus)`) -/
  subStatus : Bool
  /-- `RESTStorageOptions.SubStatus` -/
  optSubStatus : Bool
deriving DecidableEq, Repr

/-- `NewResourceREST`: `if o.SubStatus && hasStatus { SubresourcesREST["status"] = … }` -/
def Reg.served (r : Reg) : Bool := r.optSubStatus && r.shape.hasStatus

inductive Endpoint | main | status
deriving DecidableEq, Repr

/-- `store.UpdateStrategy` of the endpoint: the main store keeps `o.RESTStrategy`, the status store gets
    `DefaultStatusRESTStrategy{o.RESTStrategy}` whose own `PrepareForUpdate` shadows the embedded one. -/
def updatePrepare [DecidableEq S'] [DecidableEq A'] (sem : Sem A S A' S') (r : Reg) :
    Endpoint → Obj L A M S T → Obj L A M S T → Obj L A M S T
  | .main => prepareForUpdate sem r.subStatus r.shape
  | .status => statusPrepareForUpdate r.shape

/-- The parts of `BeforeCreate`/`BeforeUpdate` that touch only `otherMeta` (namespace, uid, timestamps, managed
    fields, cluster name …) and the `ObjectMeta` validation other than its two generation rules: abstract. -/
structure MetaRules (L A M S T : Type) where
  fixCreate : M → M
  fixUpdate : M → M → M
  validCreate : Obj L A M S T → Bool
  validUpdate : Obj L A M S T → Obj L A M S T → Bool
  /-- DELETE keeps the object (pending finalizers, or a graceful deletion already pending) -/
  deleteKeeps : M → Bool
  /-- the kept object was not terminating yet (`deletionTimestamp == nil`): `markAsDeleting` bumps -/
  deleteBumps : M → Bool
  markDeleting : M → M
  /-- `ShouldDeleteDuringUpdate` (new, stored): the update emptied the finalizers of a terminating object -/
  deletedByUpdate : M → M → Bool

inductive Reject
  | internal    -- no ObjectMeta accessor: `errors.NewInternalError`
  | invalid     -- `errors.NewInvalid` from the ObjectMeta validation
  | notServed   -- no such endpoint
deriving DecidableEq, Repr

/-- `rest.BeforeCreate(strategy, ctx, obj)`. Both endpoints' stores have `CreateStrategy = o.RESTStrategy`
    (`DefaultStatusRESTStrategy` only embeds it), so creation is always the main strategy's. -/
def beforeCreate (r : Reg) (mr : MetaRules L A M S T) (zero : T) (obj : Obj L A M S T) :
    Except Reject (Obj L A M S T) :=
  if !r.shape.hasMeta then .error .internal else
  let obj := prepareForCreate r.subStatus r.shape zero obj
  let obj := { obj with otherMeta := mr.fixCreate obj.otherMeta }
  -- ValidateObjectMetaAccessor: ValidateNonnegativeField(generation), then everything else
  if obj.generation < 0 then .error .invalid
  else if !mr.validCreate obj then .error .invalid
  -- strategy.Canonicalize(obj)
  else .ok (canonicalize obj)

/-- `rest.BeforeUpdate(strategy, ctx, obj, old)` for the endpoint's update strategy. -/
def beforeUpdate [DecidableEq S'] [DecidableEq A'] (sem : Sem A S A' S') (r : Reg) (ep : Endpoint)
    (mr : MetaRules L A M S T) (obj old : Obj L A M S T) : Except Reject (Obj L A M S T) :=
  if ep = .status ∧ !r.served then .error .notServed else
  if !r.shape.hasMeta then .error .internal else
  -- objectMeta.SetGeneration(oldMeta.GetGeneration())   "Ensure requests cannot update generation"
  let obj := { obj with generation := old.generation }
  -- strategy.PrepareForUpdate(ctx, obj, old)
  let obj := updatePrepare sem r ep obj old
  let obj := { obj with otherMeta := mr.fixUpdate obj.otherMeta old.otherMeta }
  -- validateCommonFields: generation non-negative; "must not be decremented"; everything else
  if obj.generation < 0 then .error .invalid
  else if obj.generation < old.generation then .error .invalid
  else if !mr.validUpdate obj old then .error .invalid
  -- strategy.Canonicalize(obj)
  else .ok (canonicalize obj)

/-! ### Histories: what a client can do to one object through the API -/

inductive Api (L A M S T : Type)
  | create (obj : Obj L A M S T)
  | update (ep : Endpoint) (obj : Obj L A M S T)
  | delete

/-- `Store.Delete` as far as the generation is concerned: an object without pending finalizers is removed; a
    kept one is marked as terminating, and k8s' `markAsDeleting` bumps the generation of an object that was not
    terminating yet (if it is > 0; plain `int64` addition). -/
def apiDelete (mr : MetaRules L A M S T) (cur : Obj L A M S T) : Option (Obj L A M S T) :=
  if mr.deleteKeeps cur.otherMeta then
    some { cur with
      generation := if mr.deleteBumps cur.otherMeta && decide (0 < cur.generation) then toI64 (cur.generation + 1) else cur.generation,
      otherMeta := mr.markDeleting cur.otherMeta }
  else none

/-- One request against the stored state (`none` = no such object). `Store.Update` of a missing object goes
    through `BeforeCreate` when `AllowCreateOnUpdate()` of the endpoint's update strategy is true (`acu`); a rejected request leaves the state alone; an accepted update that empties the
    finalizers of a terminating object removes it. -/
def apiStep [DecidableEq S'] [DecidableEq A'] (sem : Sem A S A' S') (r : Reg) (mr : MetaRules L A M S T) (zero : T)
    (acu : Endpoint → Bool) :
    Option (Obj L A M S T) → Api L A M S T → Option (Obj L A M S T)
  | none, .create o => (beforeCreate r mr zero o).toOption
  | some cur, .create _ => some cur                      -- AlreadyExists
  | none, .update ep o =>
      -- Store.Update of a missing object: NotFound unless the endpoint's update strategy says
      -- AllowCreateOnUpdate() (`acu ep`, regenerated: `KG.Gen.C20.main/statusAllowCreateOnUpdate`; the status
      -- strategy inherits the main strategy's answer unless it declares its own)
      if ep = .status ∧ !r.served then none
      else if !acu ep then none
      else (beforeCreate r mr zero o).toOption
  | some cur, .update ep o =>
      match beforeUpdate sem r ep mr o cur with
      | .ok o' => if mr.deletedByUpdate o'.otherMeta cur.otherMeta then none else some o'
      | .error _ => some cur
  | none, .delete => none
  | some cur, .delete => apiDelete mr cur

def apiRun [DecidableEq S'] [DecidableEq A'] (sem : Sem A S A' S') (r : Reg) (mr : MetaRules L A M S T) (zero : T)
    (acu : Endpoint → Bool) :
    Option (Obj L A M S T) → List (Api L A M S T) → Option (Obj L A M S T)
  | st, [] => st
  | st, a :: as => apiRun sem r mr zero acu (apiStep sem r mr zero acu st a) as

end
end KG.Model.Strategy
