import KG.Base.Json
/-!
# Model of endpoint bookkeeping, health checking and picking (C03, C14)

Mirror of `pkg/clusters/clusterinfo.go` (`syncEndpoints`, `addOrUpdateEndpoint`, `MatchAttributes`,
`endpointPickStrategy.Pop`, the `loadbalancer` cursors) and `pkg/clusters/endpoint.go` (`endpointStatus`,
`SetDisabled`, `UpdateStatus`, `TriggerHealthCheck`, `EnsureGatewayHealthCheck`, `startGatewayHealthCheck`)
in the production configuration (a rest config and a health-check function are present).

* an `*EndpointInfo` object is an `EP`; its pointer identity is `(name, gen)` where `gen` is the number of
  the `Sync` that created it (a re-added endpoint is a new object);
* `Endpoints` (a `sync.Map`) is an association list looked up by name (`load`), never by position;
* the two health-check goroutines of an endpoint are `probing` (worker alive, `cancelHealthCheck != nil`),
  `chan` (a token waits in the 1-buffered `healthCheckCh`) and `blocked` (ticker goroutines blocked on their
  first, unconditional send because the channel was full when they started).  One iteration of the worker
  goroutine is the op `probeFire`: it is a separate op, so picks can interleave freely with pending probes;
* Go map iteration order (`AllEndpoints()`) is an explicit argument `order` of `matchAttrs`;
* `loadbalancer` is an association list key ↦ cursor; the key is the ordered list of ready objects
  (`fmt.Sprintf("%v", readyEndpoints)` prints the pointers), the cursor is a `uint64` (`toU64`).
-/
namespace KG.Model.Endpoints
open KG

abbrev Name := Str

/-- `UpstreamClusterServer` -/
structure Server where
  endpoint : Name
  disabled : Bool
deriving DecidableEq, Repr

/-- `EndpointInfo` with its `endpointStatus` and health-check goroutine state -/
structure EP where
  name : Name
  gen : Nat
  disabled : Bool
  healthy : Bool
  unhealthyCount : Nat
  probing : Bool
  chan : Bool
  blocked : Nat
  probes : Nat
deriving DecidableEq, Repr

/-- `endpointStatus.IsReady` -/
def EP.isReady (e : EP) : Bool := !e.disabled && e.healthy

/-- pointer identity of an endpoint object -/
def EP.id (e : EP) : Name × Nat := (e.name, e.gen)

abbrev Key := List (Name × Nat)

/-- `EndpointInfoMap.Load` -/
def load (eps : List EP) (n : Name) : Option EP := eps.find? (fun e => e.name == n)

/-- apply `f` to the object stored under `n` (methods called on the pointer returned by `Load`) -/
def updateAt (eps : List EP) (n : Name) (f : EP → EP) : List EP :=
  eps.map fun e => if e.name == n then f e else e

/-- `EndpointInfo.SetDisabled` -/
def EP.setDisabled (e : EP) (d : Bool) : EP := { e with disabled := d }

/-- `endpointStatus.SetStatus` via `EndpointInfo.UpdateStatus` -/
def EP.updateStatus (e : EP) (healthy : Bool) : EP :=
  { e with healthy := healthy, unhealthyCount := if healthy then 0 else e.unhealthyCount + 1 }

/-- what an upstream answers to the probe `GET /healthz` (5 s timeout) of `controllers.GatewayHealthCheck` -/
inductive ProbeAnswer
  | status (code : Nat) (bodyIsOk : Bool)   -- an HTTP response
  | timeout                                  -- no answer within the timeout
  | transportError                           -- connection refused / reset / closed, TLS failure, redirect without target …
deriving DecidableEq, Repr

/-- client-go's rest client (`transformResponse`): a response is an error unless `200 ≤ code ≤ 206` -/
def restClientError (code : Nat) : Bool := code < 200 || 206 < code

/-- the decision of `controllers.GatewayHealthCheck`: it calls `UpdateStatus(true, …)` in exactly one place — no error from the
    rest client and `statusCode == http.StatusOK`; the body is not looked at; everything else is `UpdateStatus(false, …)`. -/
def gatewayHealthCheck : ProbeAnswer → Bool
  | .status code _ => !restClientError code && code == 200
  | .timeout => false
  | .transportError => false

/-- `EndpointInfo.TriggerHealthCheck`: non-blocking send on the 1-buffered channel -/
def EP.trigger (e : EP) : EP := if e.chan then e else { e with chan := true }

/-- `EnsureGatewayHealthCheck` (healthCheckFun != nil): cancel when disabled, `startGatewayHealthCheck` when enabled
    and not running; the new ticker goroutine sends one token at once (and blocks while the channel is full). -/
def EP.ensureHC (e : EP) : EP :=
  let e1 := if e.disabled && e.probing then { e with probing := false } else e
  if !e1.disabled && !e1.probing then
    if e1.chan then { e1 with probing := true, blocked := e1.blocked + 1 }
    else { e1 with probing := true, chan := true }
  else e1

/-- can the worker goroutine make a step? -/
def EP.canFire (e : EP) : Bool := e.probing && e.chan

/-- one iteration of the worker goroutine: receive a token (a blocked ticker refills the buffer), call the
    health-check function, which reports `healthy` through `UpdateStatus`. -/
def EP.fire (e : EP) (healthy : Bool) : EP :=
  ({ e with chan := decide (0 < e.blocked), blocked := e.blocked - 1, probes := e.probes + 1 }).updateStatus healthy

/-- the object `addOrUpdateEndpoint` creates: `initStatus{Disabled: disabled, Healthy: false}` -/
def newEP (n : Name) (gen : Nat) (disabled : Bool) : EP :=
  { name := n, gen := gen, disabled := disabled, healthy := false, unhealthyCount := 0,
    probing := false, chan := false, blocked := 0, probes := 0 }

/-- `ClusterInfo.addOrUpdateEndpoint` -/
def addOrUpdateEndpoint (gen : Nat) (eps : List EP) (n : Name) (disabled : Bool) : List EP :=
  match load eps n with
  | some _ => updateAt eps n fun e => (e.setDisabled disabled).ensureHC
  | none => eps ++ [(newEP n gen disabled).ensureHC]

/-- `goset.NewSet` + `Add` of a list of strings: the distinct elements -/
def dedup : List Name → List Name
  | [] => []
  | x :: xs => x :: (dedup xs).filter (fun y => y != x)

def serverNames (servers : List Server) : List Name := servers.map (·.endpoint)

/-- the `disabled` set of `syncEndpoints`: an endpoint listed several times is disabled if any entry says so -/
def disabledSet (servers : List Server) : List Name := (servers.filter (·.disabled)).map (·.endpoint)

/-- a request between `MatchAttributes` and `Pop`: the `upstreams` of its `endpointPickStrategy` (`none`: no policy matched) -/
abbrev Picker := Option (List Name)

structure State where
  eps : List EP
  epoch : Nat
  lb : List (Key × Nat)
  policies : List (List Name)
  pickers : List Picker
  pickerPolicy : List Nat := []   -- the policy each request in flight was matched by
  policyScopes : Bool := false    -- does `MatchAttributes` give every policy its own cursor scope?
deriving Repr

def init : State := { eps := [], epoch := 0, lb := [], policies := [], pickers := [] }

/-- the initial state of a cluster whose policies have cursor scopes of their own -/
def initScoped (policyScopes : Bool) : State := { init with policyScopes := policyScopes }

/-- `ClusterInfo.syncEndpoints` -/
def syncEndpoints (s : State) (servers : List Server) : State :=
  let current := s.eps.map (·.name)
  let wanted := dedup (serverNames servers)
  let deleted := current.filter fun n => !wanted.contains n
  let added := wanted.filter fun n => !current.contains n
  let lb := if added.isEmpty && deleted.isEmpty then s.lb else []
  let eps1 := s.eps.filter fun e => !deleted.contains e.name
  let disabled := disabledSet servers
  let eps2 := wanted.foldl (fun eps n => addOrUpdateEndpoint s.epoch eps n (disabled.contains n)) eps1
  { s with eps := eps2, lb := lb, epoch := s.epoch + 1 }

/-- `ClusterInfo.Sync` restricted to servers and dispatch policies (a policy is represented by its `UpstreamSubset`) -/
def sync (s : State) (servers : List Server) (policies : List (List Name)) : State :=
  { syncEndpoints s servers with policies := policies }

def toU64 (n : Nat) : Nat := n % 2 ^ 64

def lbGet (lb : List (Key × Nat)) (k : Key) : Nat := (lb.lookup k).getD 0

def lbSet : List (Key × Nat) → Key → Nat → List (Key × Nat)
  | [], k, v => [(k, v)]
  | (k', v') :: rest, k, v => if k' == k then (k, v) :: rest else (k', v') :: lbSet rest k v

/-- the loop of `Pop`: upstreams present in `Endpoints` and ready, in the order of `upstreams` -/
def readyList (eps : List EP) (us : List Name) : List EP :=
  us.filterMap fun n =>
    match load eps n with
    | some e => if e.isReady then some e else none
    | none => none

inductive PopOut
  | picked (name : Name) (gen : Nat)
  | noReady            -- `ErrNoReadyEndpoints` (the dispatcher answers 503)
  | panic              -- index out of range (never happens: `pop_never_panics`)
deriving DecidableEq, Repr

/-- `readyEndpoints[index % len]` -/
def indexResult (ready : List EP) (c : Nat) : PopOut :=
  match ready[c % ready.length]? with
  | some e => .picked e.name e.gen
  | none => .panic

/-- the entry a cursor scope puts in front of the key: `MatchAttributes` gives the picker of policy `i` the scope "policy/i:"
    (`[0]` is not an endpoint name) -/
def scopeTag (i : Nat) : Key := [(([0] : Name), i + 1)]

/-- `endpointPickStrategy.Pop` of a picker whose `cursorScope` is `tag` (`[]`: none) -/
def popScoped (tag : Key) (eps : List EP) (lb : List (Key × Nat)) (us : List Name) : PopOut × List (Key × Nat) :=
  if us.isEmpty then (.noReady, lb) else
  let ready := readyList eps us
  match ready with
  | [] => (.noReady, lb)
  | [e] => (.picked e.name e.gen, lb)
  | _ =>
    let key : Key := tag ++ ready.map EP.id
    let c := toU64 (lbGet lb key + 1)            -- LoadOrStore(key, &0); atomic.AddUint64(lb, 1)
    (indexResult ready c, lbSet lb key c)

/-- `endpointPickStrategy.Pop` without cursor scope -/
def pop (eps : List EP) (lb : List (Key × Nat)) (us : List Name) : PopOut × List (Key × Nat) := popScoped [] eps lb us

inductive Op
  | sync (servers : List Server) (policies : List (List Name))
  | updateStatus (n : Name) (healthy : Bool)
  | trigger (n : Name)
  | ensure (n : Name)
  | probeFire (n : Name) (healthy : Bool)
  | matchAttrs (policy : Nat) (order : List Name)
  | pop (picker : Nat)
deriving Repr

inductive Out
  | none
  | fired (name : Name) (gen : Nat)
  | notFired
  | matched (upstreams : List Name)
  | noRule                -- `ErrNoRouterRuleMatches`
  | badOrder              -- `order` is not an enumeration of the Endpoints map: not a behaviour of the code
  | popped (r : PopOut)
  | noPicker
deriving DecidableEq, Repr

/-- `ClusterInfo.MatchAttributes` after `MatchPolicies` chose policy number `policy` (out of range: no policy matches) -/
def matchAttrs (s : State) (policy : Nat) (order : List Name) : State × Out :=
  match s.policies[policy]? with
  | none => ({ s with pickers := s.pickers ++ [none], pickerPolicy := s.pickerPolicy ++ [policy] }, .noRule)
  | some subset =>
    if !subset.isEmpty then ({ s with pickers := s.pickers ++ [some subset], pickerPolicy := s.pickerPolicy ++ [policy] }, .matched subset)
    else if order.isPerm (s.eps.map (·.name)) then ({ s with pickers := s.pickers ++ [some order], pickerPolicy := s.pickerPolicy ++ [policy] }, .matched order)
    else ({ s with pickers := s.pickers ++ [none], pickerPolicy := s.pickerPolicy ++ [policy] }, .badOrder)

/-- the cursor scope of request `j` -/
def pickerTag (s : State) (j : Nat) : Key := if s.policyScopes then scopeTag ((s.pickerPolicy[j]?).getD 0) else []

def step (s : State) : Op → State × Out
  | .sync servers policies => (sync s servers policies, .none)
  | .updateStatus n h => ({ s with eps := updateAt s.eps n fun e => e.updateStatus h }, .none)
  | .trigger n => ({ s with eps := updateAt s.eps n EP.trigger }, .none)
  | .ensure n => ({ s with eps := updateAt s.eps n EP.ensureHC }, .none)
  | .probeFire n h =>
    match load s.eps n with
    | some e => if e.canFire then ({ s with eps := updateAt s.eps n fun e => e.fire h }, .fired e.name e.gen) else (s, .notFired)
    | none => (s, .notFired)
  | .matchAttrs policy order => matchAttrs s policy order
  | .pop j =>
    match s.pickers[j]? with
    | some (some us) =>
      let r := popScoped (pickerTag s j) s.eps s.lb us
      ({ s with lb := r.2 }, .popped r.1)
    | _ => (s, .noPicker)

/-- run an op list, collecting the outputs -/
def run : State → List Op → State × List Out
  | s, [] => (s, [])
  | s, op :: ops =>
    let r := step s op
    let rest := run r.1 ops
    (rest.1, r.2 :: rest.2)

/-- the state reached after an op list -/
def exec (s : State) (ops : List Op) : State := ops.foldl (fun s op => (step s op).1) s

/-- consecutive `Pop`s of the given upstream lists (C14) -/
def popMany (eps : List EP) : List (Key × Nat) → List (List Name) → List PopOut × List (Key × Nat)
  | lb, [] => ([], lb)
  | lb, us :: rest =>
    let r := pop eps lb us
    let t := popMany eps r.2 rest
    (r.1 :: t.1, t.2)

/-- a window of traffic on one cluster: requests' `Pop`s, and Syncs arriving in between (C14) -/
inductive Event
  | pick (us : List Name)
  | sync (servers : List Server) (policies : List (List Name))
deriving Repr

def runEvents : State → List Event → State × List PopOut
  | s, [] => (s, [])
  | s, .pick us :: rest =>
    let r := pop s.eps s.lb us
    let t := runEvents { s with lb := r.2 } rest
    (t.1, r.1 :: t.2)
  | s, .sync servers policies :: rest => runEvents (sync s servers policies) rest

def picksOf : List Event → List (List Name)
  | [] => []
  | .pick us :: rest => us :: picksOf rest
  | .sync _ _ :: rest => picksOf rest

/-- a request as the policy's traffic sees it (C14): before it is dispatched, the token authenticator (and the
    subject-access-review authorizer) may ask the cluster for a client — `Manager.ClientFor` → `ClusterInfo.PickOne()`, a `Pop`
    over `AllEndpoints()` in some map-iteration order; then the dispatcher `Pop`s the policy's upstream list -/
structure Req where
  authOrder : Option (List Name)   -- `none`: no PickOne for this request (client certificate, anonymous, …)
  us : List Name

/-- the endpoints the requests are FORWARDED to.  `own = true`: `PickOne` keeps its own cursors (`lbA`); `own = false`: it
    draws from the cursors of the dispatch policies (`lb`), as `endpointPickStrategy.Pop` does for every picker with the same key -/
def runReqs (own : Bool) (eps : List EP) : List (Key × Nat) → List (Key × Nat) → List Req → List PopOut
  | _, _, [] => []
  | lb, lbA, r :: rest =>
    match r.authOrder with
    | none =>
      let d := pop eps lb r.us
      d.1 :: runReqs own eps d.2 lbA rest
    | some order =>
      if own then
        let a := pop eps lbA order
        let d := pop eps lb r.us
        d.1 :: runReqs own eps d.2 a.2 rest
      else
        let a := pop eps lb order
        let d := pop eps a.2 r.us
        d.1 :: runReqs own eps d.2 lbA rest

/-- the picks of several dispatch policies, interleaved in any way: `(policy, upstream list)` per pick.  `own = true`: every
    policy has its own cursors (`lbs p`); `own = false`: all policies draw from the same ones (`lbs 0`), as they do when the
    cursor key is only the ordered ready list -/
def runPolicies (own : Bool) (eps : List EP) : (Nat → List (Key × Nat)) → List (Nat × List Name) → List (Nat × PopOut)
  | _, [] => []
  | lbs, (p, us) :: rest =>
    let sc := if own then p else 0
    let r := pop eps (lbs sc) us
    (p, r.1) :: runPolicies own eps (fun q => if q = sc then r.2 else lbs q) rest

/-! ## concurrent pickers (C14): one atomic action per step

`Pop` touches shared mutable state once: `atomic.AddUint64` on the cursor of its ordered ready list (`LoadOrStore` of a
zero counter before it does not change `lbGet`).  Reading the ready list and indexing it are thread-local.  A thread is
therefore `start` → (atomic add, remembering the value it was handed) `added c` → (index) `done r`; with fewer than two
ready endpoints it finishes in its first step without touching the cursors.  `log` is a ghost: the order of first steps. -/

inductive PC
  | start
  | added (c : Nat)
  | done (r : PopOut)
deriving DecidableEq, Repr

structure Sys where
  lb : List (Key × Nat)
  pcs : List PC
  log : List Nat
deriving Repr

/-- thread `t` performs its next action -/
def cstep (eps : List EP) (uss : List (List Name)) (sys : Sys) (t : Nat) : Sys :=
  match uss[t]?, sys.pcs[t]? with
  | some us, some .start =>
    let ready := readyList eps us
    if 2 ≤ ready.length then
      let key := ready.map EP.id
      let c := toU64 (lbGet sys.lb key + 1)
      { lb := lbSet sys.lb key c, pcs := sys.pcs.set t (.added c), log := sys.log ++ [t] }
    else
      { sys with pcs := sys.pcs.set t (.done (pop eps sys.lb us).1), log := sys.log ++ [t] }
  | some us, some (.added c) =>
    { sys with pcs := sys.pcs.set t (.done (indexResult (readyList eps us) c)) }
  | _, _ => sys

def cinit (lb : List (Key × Nat)) (n : Nat) : Sys := { lb := lb, pcs := List.replicate n .start, log := [] }

/-- a schedule: the sequence of thread ids that take a step -/
def crun (eps : List EP) (uss : List (List Name)) (sys : Sys) (sched : List Nat) : Sys :=
  sched.foldl (cstep eps uss) sys

def usAt (uss : List (List Name)) (t : Nat) : List Name := (uss[t]?).getD []


/-! ## the load-balancer map under a concurrent Sync (finding C03-lb-reset-race)

`Pop` calls `loadbalancer.LoadOrStore`; when the key is new (always, right after a reset) `sync.Map` takes its internal
mutex: `m.mu.Lock() … m.mu.Unlock()`.  `syncEndpoints` resets the cursors when the server set changed.  What the reset
does to that mutex is the parameter `inPlace`: `false` is the assignment `c.loadbalancer = sync.Map{}` (the whole struct,
mutex included, is overwritten with zeroes), `true` is emptying the map in place (`Range` + `Delete`), which never
touches a mutex somebody else holds.  Unlocking a mutex that is not locked is Go's unrecoverable
`fatal error: sync: unlock of unlocked mutex`. -/

inductive RaceAct
  | popLock (t : Nat)      -- picker `t`: `m.mu.Lock()` inside LoadOrStore
  | popUnlock (t : Nat)    -- picker `t`: `m.mu.Unlock()`
  | syncReset              -- `syncEndpoints`: the reset of `loadbalancer`
deriving DecidableEq, Repr

structure RaceSys where
  muLocked : Bool
  holder : Option Nat
  fatal : Bool
deriving DecidableEq, Repr

def RaceSys.init : RaceSys := { muLocked := false, holder := none, fatal := false }

def raceStep (inPlace : Bool) (s : RaceSys) : RaceAct → RaceSys
  | .popLock t =>
    if s.fatal || s.muLocked || s.holder.isSome then s   -- dead, or blocked on the mutex, or somebody is inside
    else { s with muLocked := true, holder := some t }
  | .popUnlock t =>
    if s.fatal || s.holder != some t then s
    else if s.muLocked then { s with muLocked := false, holder := none }
    else { s with fatal := true, holder := none }
  | .syncReset =>
    if inPlace then s else { s with muLocked := false }

def raceRun (inPlace : Bool) (acts : List RaceAct) : RaceSys := acts.foldl (raceStep inPlace) RaceSys.init

end KG.Model.Endpoints
