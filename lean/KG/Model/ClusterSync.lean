import KG.Base.Json
import KG.Gen.C11
import KG.Model.Match
/-!
# ClusterSync — model of `ClusterInfo.Sync` and of the upstream-cluster controller (property C11)

Mirrors, function by function,

* pkg/clusters/clusterinfo.go: `NewEmptyClusterInfo`, `Sync`, `syncFeatureGate`, `getFlowControlType`,
  `syncSecureServingConfigLocked`, `syncEndpoints`, `addOrUpdateEndpoint`, `LoadTLSConfig`, `LoadVerifyOptions`,
  `LoadServerNames`, `GetFlowSchema`, `MatchAttributes`;
* pkg/flowcontrols/limiter.go: `ResetLimiter`, `syncLocalFlowControls`, `GetOrDefault`/`Load` (without a limiter
  server, i.e. `clientSets == nil`: every lookup answers with the local limiter);
* pkg/flowcontrols/remote/flowcontrol_wrapper.go: `localWrapper.Sync` (unchanged / create / type change / resize);
* pkg/flowcontrols/flowcontrol/flowcontrol.go: `GuessFlowControlSchemaType`, `NewFlowControl`, `String`;
* pkg/gateway/controllers/upstream_controller.go: `syncUpstreamCluster`, `checkUpstreamServerNameConflict`,
  `checkServerNameConflict`, `AddOrUpdateForServerNames`, `DeleteForServerNames`; pkg/clusters/manager.go;
* pkg/syncqueue/queue.go: the requeue rule (a delivery answered with `RequeueAfter` stays pending and is
  delivered again later, as the same queue key).

External code is a parameter (`Env`): `strings.ToLower`, `featuregate.Set` on a copy of the defaults,
`cert.ParseCertsPEM`, `tls.X509KeyPair`, and whether a transport/clientset can be built for an endpoint with the
cluster's (fixed) client connection settings.  All are deterministic functions of their arguments.

A Go panic (nil dereference in `NewFlowControl`/`Resize`, `Enabled` of an unregistered gate) is `Outcome.crash`:
the queue worker re-panics (`HandleCrash`), the gateway process is gone and there is no state to talk about.
-/
namespace KG.Model.ClusterSync
open KG

/-! ## association lists (Go maps / sync.Map) -/

def alookup {β : Type} (k : Str) : List (Str × β) → Option β
  | [] => none
  | (k', v) :: r => if k' = k then some v else alookup k r

/-- `m[k] = v` / `Store` -/
def astore {β : Type} (k : Str) (v : β) : List (Str × β) → List (Str × β)
  | [] => [(k, v)]
  | (k', v') :: r => if k' = k then (k, v) :: r else (k', v') :: astore k v r

/-- `delete(m, k)` -/
def aerase {β : Type} (k : Str) : List (Str × β) → List (Str × β)
  | [] => []
  | (k', v') :: r => if k' = k then aerase k r else (k', v') :: aerase k r

def akeys {β : Type} (m : List (Str × β)) : List Str := m.map (·.1)

/-- list membership as a Bool, by structural recursion (kept opaque to `simp`'s `decide (a ∈ l)` rewriting) -/
def memb (a : Str) : List Str → Bool
  | [] => false
  | b :: r => if b = a then true else memb a r

/-- the elements of a list as a set: first occurrence kept -/
def dedup : List Str → List Str
  | [] => []
  | a :: r => if memb a r then dedup r else a :: dedup r

/-- `uint32(x)` of an `int32` -/
def toU32 (x : Int) : Nat := (x % 4294967296).toNat

/-! ## the object: the fields of `UpstreamCluster` that `Sync` reads (client connection settings excluded) -/

structure Server where
  endpoint : Str
  disabled : Option Bool        -- `*bool`
deriving DecidableEq, Repr

structure SecureServing where
  keyData : Str
  certData : Str
  clientCAData : Str
  serverNames : List Str
deriving DecidableEq, Repr

def SecureServing.empty : SecureServing := ⟨[], [], [], []⟩

structure TB where
  qps : Int
  burst : Int
deriving DecidableEq, Repr

/-- `FlowControlSchema`: every configuration member is a pointer in Go -/
structure Schema where
  name : Str
  exempt : Bool
  maxInflight : Option Int
  tokenBucket : Option TB
  globalMaxInflight : Option Int
  globalTokenBucket : Option TB
  strategy : Str
deriving DecidableEq, Repr

/-- the zero value `proxyv1alpha1.FlowControlSchema{}` -/
def Schema.zero : Schema := ⟨[], false, none, none, none, none, []⟩

structure DPolicy where
  rules : List Match.Rule
  strategy : Str
  upstreamSubset : List Str
  flowControlSchemaName : Str
  logMode : Str
deriving DecidableEq, Repr

structure Obj where
  name : Str
  annotations : Option (List (Str × Str))     -- nil map or map
  servers : List Server
  secureServing : SecureServing
  schemas : List Schema                        -- Spec.FlowControl.Schemas (nil ≡ empty)
  policies : List DPolicy
  logging : Str                                -- Spec.Logging.Mode
deriving Repr

/-! ## external code -/

/-- value of `Enabled` for every registered gate (name ↦ value) -/
abbrev Gates := List (Str × Bool)

structure Env where
  /-- `strings.ToLower` -/
  lower : Str → Str
  /-- `g := features.DefaultMutableFeatureGate.DeepCopy(); g.Set(v)`: `none` = error, else `Enabled` of every gate -/
  setGates : Str → Option Gates
  /-- the default gates (`Enabled` of every gate of `DefaultMutableFeatureGate`) -/
  defaultGates : Gates
  /-- `cert.ParseCertsPEM`: `none` = error, else an identifier of the resulting pool -/
  parseCA : Str → Option Str
  /-- `tls.X509KeyPair cert key` -/
  parsePair : Str → Str → Option Str
  /-- `rest.TransportFor` + `ResetTransport` succeed for this endpoint (client connection settings are fixed) -/
  addOK : Str → Bool

/-- what is fixed when the `ClusterInfo` is created -/
structure Conn where
  globalRateLimiter : Str     -- `--rate-limiter`
  skipSyncEndpoints : Bool    -- `config == nil && healthCheck == nil`
deriving DecidableEq, Repr

inductive Err
  | featureGate      -- `featuregate.Set` refused the annotation
  | clientCA         -- "unable to load client CA file"
  | keyPair          -- "invalid serving cert keypair"
  | endpoint (ep : Str)   -- transport / clientset for a new endpoint could not be built
deriving DecidableEq, Repr

/-! ## flow control -/

inductive FCType | exempt | maxInflight | tokenBucket
deriving DecidableEq, Repr

/-- what `String()` of a limiter shows: name, type, `size` (or `qps`, `burst`) -/
structure FCView where
  name : Str
  typ : FCType
  a : Nat
  b : Nat
deriving DecidableEq, Repr

/-! string constants of the sources, regenerated as byte lists (kernel-reducible) -/
def strLocal : Str := KG.Gen.C11.localFlowControlsB
def strRemote : Str := KG.Gen.C11.remoteFlowControlsB
def strSystemDefault : Str := KG.Gen.C11.defaultFlowControlNameB
def strGlobalRateLimiter : Str := KG.Gen.C11.globalRateLimiterGateB
def strAnnotationKey : Str := KG.Gen.C11.featureGateAnnotationKeyB

/-- `flowcontrol.DefaultFlowControl` -/
def defaultFlowControl : FCView := ⟨strSystemDefault, .exempt, 0, 0⟩

/-- `GuessFlowControlSchemaType` -/
def guessType (s : Schema) : FCType :=
  if s.exempt then .exempt
  else if s.maxInflight.isSome || s.globalMaxInflight.isSome then .maxInflight
  else if s.tokenBucket.isSome || s.globalTokenBucket.isSome then .tokenBucket
  else .exempt

/-- `NewFlowControl`; `none` = nil dereference (`schema.MaxRequestsInflight.Max` with only the global member set) -/
def newFlowControl (s : Schema) : Option FCView :=
  match guessType s with
  | .maxInflight =>
    match s.maxInflight with
    | some m => some ⟨s.name, .maxInflight, toU32 m, 0⟩
    | none => none
  | .tokenBucket =>
    match s.tokenBucket with
    | some t => some ⟨s.name, .tokenBucket, toU32 t.qps, toU32 t.burst⟩
    | none => none
  | .exempt => some ⟨s.name, .exempt, 0, 0⟩

/-- `localWrapper`: the stored schema and the limiter in force (`nil` until the first `Sync`) -/
structure Wrapper where
  localConfig : Schema
  fc : Option FCView
deriving DecidableEq, Repr

/-- `NewFlowControlCache` -/
def Wrapper.fresh : Wrapper := ⟨Schema.zero, none⟩

/-- `localWrapper.Sync`; `none` = panic -/
def localSync (w : Wrapper) (s : Schema) : Option Wrapper :=
  if s = w.localConfig then some w                       -- reflect.DeepEqual(schema, f.localConfig)
  else
    let newType := guessType s
    match w.fc with
    | none => (newFlowControl s).map fun v => ⟨s, some v⟩
    | some v =>
      if v.typ ≠ newType then (newFlowControl s).map fun v' => ⟨s, some v'⟩
      else
        match newType with
        | .maxInflight =>
          match s.maxInflight with
          | some m => some ⟨s, some { v with a := toU32 m }⟩               -- Resize(uint32(Max), 0)
          | none => none
        | .tokenBucket =>
          match s.tokenBucket with
          | some t => some ⟨s, some { v with a := toU32 t.qps, b := toU32 t.burst }⟩
          | none => none
        | .exempt => some ⟨s, some v⟩

/-- `lastSchema l n`: the last schema of the list whose name is `n` -/
def lastSchema : List Schema → Str → Option Schema
  | [], _ => none
  | s :: r, n =>
    match lastSchema r n with
    | some x => some x
    | none => if s.name = n then some s else none

/-! ## ClusterInfo -/

/-- `secureServingConfig` -/
structure SSCfg where
  secureServing : SecureServing
  clientCA : Option Str
  certs : Option Str               -- `[]tls.Certificate`: none or one
  verifyOptions : Option Str
deriving DecidableEq, Repr

structure CI where
  cluster : Str                    -- lower-cased name
  conn : Conn
  gates : Gates                    -- `featuregate`
  limiterMode : Str                -- `upstreamLimiter.rateLimiter`
  fcSpec : Option (List Schema)    -- `currentFlowControlSpec`
  fcs : List (Str × Wrapper)       -- `flowControls`
  ss : Option SSCfg                -- `currentSecureServingTLSConfig`
  eps : List (Str × Bool)          -- `Endpoints`: endpoint ↦ disabled
  policies : Option (List DPolicy) -- `currentDispatchPolicies`
  logging : Option Str             -- `currentLoggingConfig`
deriving Repr

/-- `NewEmptyClusterInfo` (with `NewUpstreamLimiter(ctx, name, "", clientSets)`: local) -/
def empty (env : Env) (conn : Conn) (name : Str) : CI :=
  { cluster := env.lower name, conn := conn, gates := env.defaultGates, limiterMode := strLocal,
    fcSpec := none, fcs := [], ss := none, eps := [], policies := none, logging := none }

/-- result of one `Sync`: applied; failed with an error, leaving the state reached so far; or panicked -/
inductive Outcome
  | ok (s : CI)
  | fail (e : Err) (s : CI)
  | crash

/-- `annotations[features.FeatureGateAnnotationKey]` (a nil map reads as "") -/
def gateAnnotation (a : Option (List (Str × Str))) : Str :=
  match a with
  | none => []
  | some m => (alookup strAnnotationKey m).getD []

/-- `features.IsDefault` -/
def isDefault (env : Env) (g : Gates) : Bool := g = env.defaultGates

/-- `syncFeatureGate` -/
def syncFeatureGate (env : Env) (c : CI) (annotations : Option (List (Str × Str))) : Except Err CI :=
  let v := gateAnnotation annotations
  if v.length = 0 then
    if !isDefault env c.gates then .ok { c with gates := env.defaultGates } else .ok c
  else
    match env.setGates v with
    | none => .error .featureGate
    | some g => .ok { c with gates := g }

/-- `getFlowControlType`; `none` = `Enabled` panics on an unregistered gate -/
def getFlowControlType (global : Str) (g : Gates) : Option Str :=
  if global = strRemote then
    match alookup strGlobalRateLimiter g with
    | none => none
    | some true => some strRemote
    | some false => some strLocal
  else some strLocal

/-- `ResetLimiter` -/
def resetLimiter (c : CI) (t : Str) : CI :=
  if t ≠ c.limiterMode then { c with limiterMode := t } else c

/-- the loop of `syncLocalFlowControls` over the new schemas -/
def fcLoop : List Schema → List (Str × Wrapper) → Option (List (Str × Wrapper))
  | [], m => some m
  | s :: r, m =>
    let w := (alookup s.name m).getD Wrapper.fresh
    match localSync w s with
    | none => none
    | some w' => fcLoop r (astore s.name w' m)

def schemaNames (l : List Schema) : List Str := l.map (·.name)

/-- delete every name of `old` that is not in `new` -/
def fcDelete (old new : List Str) (m : List (Str × Wrapper)) : List (Str × Wrapper) :=
  match old with
  | [] => m
  | n :: r => if memb n new then fcDelete r new m else fcDelete r new (aerase n m)

/-- `syncLocalFlowControls`; `none` = panic -/
def syncLocalFlowControls (c : CI) (new : List Schema) : Option CI :=
  let old := c.fcSpec.getD []
  if old = new then some c                               -- Semantic.DeepEqual(oldObj, flowControls)
  else
    match fcLoop new c.fcs with
    | none => none
    | some m => some { c with fcSpec := some new, fcs := fcDelete (schemaNames old) (schemaNames new) m }

/-- `loadSecureServingConfig` -/
def loadSS (c : CI) : SSCfg × Bool :=
  match c.ss with
  | none => (⟨SecureServing.empty, none, none, none⟩, false)
  | some cfg => (cfg, true)

/-- the client-CA block of `syncSecureServingConfigLocked`: the new (clientCA, verifyOptions) -/
def ssClientCA (env : Env) (old : SSCfg) (new : SecureServing) : Except Err (Option Str × Option Str) :=
  if old.secureServing.clientCAData ≠ new.clientCAData then          -- client ca data changed
    if new.clientCAData.length = 0 then .ok (none, none)              -- clean verifyOptions
    else
      match env.parseCA new.clientCAData with
      | none => .error Err.clientCA
      | some id => .ok (some id, some id)
  else .ok (old.clientCA, old.verifyOptions)

/-- the key/cert block of `syncSecureServingConfigLocked`: the new certificate list -/
def ssCerts (env : Env) (old : SSCfg) (new : SecureServing) : Except Err (Option Str) :=
  if old.secureServing.keyData ≠ new.keyData ∨ old.secureServing.certData ≠ new.certData then   -- key or cert changed
    if new.keyData.length = 0 ∨ new.certData.length = 0 then .ok none     -- either one missing: no certificate
    else
      match env.parsePair new.certData new.keyData with
      | none => .error Err.keyPair
      | some id => .ok (some id)
  else .ok old.certs

/-- `syncSecureServingConfigLocked`.  The first `Semantic.DeepEqual(oldCfg.secureServing, newSecureServing)`
    compares a `*SecureServing` with a `SecureServing`: the types differ, it is never true.  Nothing is stored
    unless both blocks succeed. -/
def syncSecureServing (env : Env) (c : CI) (new : SecureServing) : Except Err CI :=
  let old := (loadSS c).1
  match ssClientCA env old new with
  | .error e => .error e
  | .ok (ca, vo) =>
    match ssCerts env old new with
    | .error e => .error e
    | .ok certs => .ok { c with ss := some ⟨new, ca, certs, vo⟩ }

/-- is the endpoint listed with `disabled: true` by some server entry -/
def isDisabled (servers : List Server) (ep : Str) : Bool :=
  servers.any fun s => s.endpoint = ep ∧ s.disabled = some true

def wantedEndpoints (servers : List Server) : List Str := servers.map (·.endpoint)

/-- the order in which Go ranges over the `wantedEPs` set: any permutation; `ord` is the oracle -/
def rangeOrder (ord wanted : List Str) : List Str :=
  let w := dedup wanted
  (dedup ord).filter (fun e => memb e w) ++ w.filter (fun e => !memb e ord)

/-- `addOrUpdateEndpoint` -/
def addOrUpdateEndpoint (env : Env) (eps : List (Str × Bool)) (ep : Str) (disabled : Bool) :
    Except Err (List (Str × Bool)) :=
  match alookup ep eps with
  | some _ => .ok (astore ep disabled eps)        -- SetDisabled
  | none => if env.addOK ep then .ok (astore ep disabled eps) else .error (.endpoint ep)

/-- the `wantedEPs.Range` loop: stops at the first error, keeping what was done -/
def epLoop (env : Env) (servers : List Server) : List Str → List (Str × Bool) → List (Str × Bool) × Option Err
  | [], eps => (eps, none)
  | ep :: r, eps =>
    match addOrUpdateEndpoint env eps ep (isDisabled servers ep) with
    | .error e => (eps, some e)
    | .ok eps' => epLoop env servers r eps'

/-- `syncEndpoints` -/
def syncEndpoints (env : Env) (c : CI) (servers : List Server) (ord : List Str) : CI × Option Err :=
  if c.conn.skipSyncEndpoints then (c, none)
  else
    let wanted := wantedEndpoints servers
    -- deleted = current \ wanted: LoadAndDelete
    let eps1 := c.eps.filter fun e => memb e.1 wanted
    let (eps2, err) := epLoop env servers (rangeOrder ord wanted) eps1
    ({ c with eps := eps2 }, err)

/-- `ClusterInfo.Sync` -/
def sync (env : Env) (c : CI) (o : Obj) (ord : List Str) : Outcome :=
  if c.cluster ≠ env.lower o.name then .ok c
  else
    match syncFeatureGate env c o.annotations with
    | .error e => .fail e c
    | .ok c1 =>
      match getFlowControlType c1.conn.globalRateLimiter c1.gates with
      | none => .crash
      | some t =>
        let c2 := resetLimiter c1 t
        match syncLocalFlowControls c2 o.schemas with
        | none => .crash
        | some c3 =>
          match syncEndpoints env c3 o.servers ord with
          | (c4, some e) => .fail e c4
          | (c4, none) =>
            -- the last step that can fail: a failed `Sync` never changes `LoadServerNames`
            match syncSecureServing env c4 o.secureServing with
            | .error e => .fail e c4
            | .ok c5 => .ok { c5 with policies := some o.policies, logging := some o.logging }

/-- `CreateClusterInfo` after `buildClusterRESTConfig`: a fresh `ClusterInfo` given only this object -/
def fresh (env : Env) (conn : Conn) (o : Obj) (ord : List Str) : Outcome :=
  sync env (empty env conn o.name) o ord

/-- one delivery: the object and the map-iteration oracle of that call -/
structure Delivery where
  obj : Obj
  ord : List Str

/-- state after a delivery (`none` = the process panicked) -/
def stepHist (env : Env) (s : Option CI) (d : Delivery) : Option CI :=
  match s with
  | none => none
  | some c =>
    match sync env c d.obj d.ord with
    | .ok c' => some c'
    | .fail _ c' => some c'
    | .crash => none

def runHist (env : Env) (c : CI) (h : List Delivery) : Option CI := h.foldl (stepHist env) (some c)

/-! ## accessors (what the rest of the gateway reads) -/

/-- `LoadTLSConfig`: (ClientCAs, Certificates) -/
def loadTLSConfig (c : CI) : Option (Option Str × Option Str) :=
  match loadSS c with
  | (_, false) => none
  | (cfg, true) => if cfg.certs.isNone && cfg.clientCA.isNone then none else some (cfg.clientCA, cfg.certs)

/-- `LoadVerifyOptions` -/
def loadVerifyOptions (c : CI) : Option Str :=
  match loadSS c with
  | (_, false) => none
  | (cfg, true) => cfg.verifyOptions

/-- `LoadServerNames` -/
def loadServerNames (env : Env) (c : CI) : List Str :=
  c.cluster :: (loadSS c).1.secureServing.serverNames.map env.lower

/-- `GetFlowSchema name` = `flowcontrol.GetOrDefault` (no limiter server: the local limiter in force);
    `none` = a nil limiter (a wrapper that was never given a schema) -/
def getFlowSchema (c : CI) (name : Str) : Option FCView :=
  if name.length = 0 then some defaultFlowControl
  else
    match alookup name c.fcs with
    | none => some defaultFlowControl
    | some w => w.fc

/-- `flowcontrol.Load(name)`'s second result -/
def hasFlowSchema (c : CI) (name : Str) : Bool := (alookup name c.fcs).isSome

/-- `Endpoints.Load(ep)` then `IstDisabled()` -/
def loadEndpoint (c : CI) (ep : Str) : Option Bool := alookup ep c.eps

/-- `AllEndpoints` -/
def allEndpoints (c : CI) : List Str := akeys c.eps

def loadPolicies (c : CI) : List DPolicy := c.policies.getD []
def loadLogging (c : CI) : Str := c.logging.getD []

def strOn : Str := KG.Gen.C11.logOnB
def strOff : Str := KG.Gen.C11.logOffB

/-- `isLogEnabled` -/
def isLogEnabled (upstream policy : Str) : Bool :=
  if upstream = strOff ∨ policy = strOff then false
  else if upstream = strOn ∨ policy = strOn then true
  else false

/-- what an `EndpointPicker` returned by `MatchAttributes` exposes -/
structure Picker where
  index : Nat                 -- which policy matched
  flowControlName : Str
  flowControl : Option FCView
  upstreams : List Str
  enableLog : Bool
deriving Repr

/-- `MatchAttributes` (`none` = ErrNoRouterRuleMatches); the matcher is the C01 model -/
def matchAttributes (c : CI) (a : Match.Attrs) : Option Picker :=
  let ps := loadPolicies c
  match Match.matchPolicies a (ps.map (·.rules)) with
  | none => none
  | some i =>
    match ps[i]? with
    | none => none
    | some p =>
      some { index := i,
             flowControlName := if p.flowControlSchemaName.length = 0 then strSystemDefault else p.flowControlSchemaName,
             flowControl := getFlowSchema c p.flowControlSchemaName,
             upstreams := if p.upstreamSubset.length ≠ 0 then p.upstreamSubset else allEndpoints c,
             enableLog := isLogEnabled (loadLogging c) p.logMode }

/-! ## the controller: lister, manager, queue (pkg/gateway/controllers/upstream_controller.go) -/

/-- `UpstreamClusterController`: the informer cache, the `clusters.Manager` map (lower-cased key ↦ `*ClusterInfo`,
    several keys may share one pointer: pointers are indices into `heap`), and the work queue (each item is an
    event object, of which the handler only uses the name) -/
structure Ctl where
  lister : List (Str × Obj)
  mgr : List (Str × Nat)
  heap : List CI
  queue : List Str

def Ctl.init : Ctl := ⟨[], [], [], []⟩

/-- `manager.Get` -/
def Ctl.get (env : Env) (st : Ctl) (name : Str) : Option (Nat × CI) :=
  match alookup (env.lower name) st.mgr with
  | none => none
  | some id =>
    match st.heap[id]? with
    | none => none
    | some ci => some (id, ci)

/-- `AddWithKey` -/
def Ctl.addWithKey (env : Env) (st : Ctl) (key : Str) (id : Nat) : Ctl :=
  { st with mgr := astore (env.lower key) id st.mgr }

/-- `Delete` / `DeleteWithStop` (stopping cancels the cluster's context: not part of the state observed here) -/
def Ctl.delete (env : Env) (st : Ctl) (name : Str) : Ctl :=
  { st with mgr := aerase (env.lower name) st.mgr }

/-- is `Get(name)` a `ClusterInfo` of another cluster than `clusterName` -/
def Ctl.ownedByOther (env : Env) (st : Ctl) (clusterName name : Str) : Bool :=
  match st.get env name with
  | some (_, c) => c.cluster ≠ clusterName
  | none => false

/-- `checkServerNameConflict`: `true` = error -/
def checkServerNameConflict (env : Env) (st : Ctl) (clusterName : Str) (old new : List Str) : Bool :=
  if old = new then false                                           -- reflect.DeepEqual
  else if new.any (fun n => st.ownedByOther env clusterName n) then true
  else old.any (fun o => !memb o new && st.ownedByOther env clusterName o)

/-- `checkUpstreamServerNameConflict` -/
def checkUpstreamServerNameConflict (env : Env) (st : Ctl) (cluster : Obj) : Bool :=
  let clusterName := env.lower cluster.name
  let new := clusterName :: cluster.secureServing.serverNames.map env.lower
  let old := match st.get env clusterName with
    | some (_, info) => loadServerNames env info
    | none => []
  checkServerNameConflict env st clusterName old new

/-- `c, ok := m.Get(name); if ok && c.Cluster == clusterName { m.Delete(name) }` -/
def delOwned (env : Env) (clusterName : Str) (s : Ctl) (name : Str) : Ctl :=
  match s.get env name with
  | some (_, c) => if c.cluster = clusterName then s.delete env name else s
  | none => s

/-- `AddOrUpdateForServerNames`: `none` = error (conflict), nothing changed -/
def addOrUpdateForServerNames (env : Env) (st : Ctl) (old : List Str) (id : Nat) (info : CI) : Option Ctl :=
  let new := loadServerNames env info
  if old = new then some st
  else if checkServerNameConflict env st info.cluster old new then none
  else
    let st1 := old.foldl (fun s o => if memb o new then s else delOwned env info.cluster s o) st
    some (new.foldl (fun s n => if memb n old then s else s.addWithKey env n id) st1)

/-- `DeleteForServerNames` -/
def deleteForServerNames (env : Env) (st : Ctl) (clusterName : Str) : Ctl :=
  match st.get env clusterName with
  | none => st
  | some (_, info) => (loadServerNames env info).foldl (delOwned env clusterName) st

/-- answer of the sync handler: done; deliver the item again later (`RequeueAfter`); the process panicked -/
inductive HResult
  | done (st : Ctl)
  | requeue (st : Ctl)
  | crash

/-- `syncUpstreamCluster` for a queue item naming `name` -/
def syncUpstreamCluster (env : Env) (conn : Conn) (st : Ctl) (name : Str) (ord : List Str) : HResult :=
  let clusterName := env.lower name
  match alookup name st.lister with                   -- m.lister.Get(cluster.Name)
  | none => .done (deleteForServerNames env st clusterName)
  | some cluster =>                                   -- cluster = latest
    if checkUpstreamServerNameConflict env st cluster then .requeue st
    else
      match st.get env clusterName with
      | none =>
        -- bootstrap: CreateClusterInfo
        match fresh env conn cluster ord with
        | .crash => .crash
        | .fail _ _ => .requeue st
        | .ok info =>
          let id := st.heap.length
          let st1 := { st with heap := st.heap ++ [info] }
          match addOrUpdateForServerNames env st1 [] id info with
          | none => .requeue st
          | some st2 => .done st2
      | some (id, info) =>
        let oldServerNames := loadServerNames env info
        match sync env info cluster ord with
        | .crash => .crash
        | .fail _ info' => .requeue { st with heap := st.heap.set id info' }
        | .ok info' =>
          let st1 := { st with heap := st.heap.set id info' }
          match addOrUpdateForServerNames env st1 oldServerNames id info' with
          | none => .requeue st1
          | some st2 => .done st2

/-- what happens to the gateway: the API server stores / deletes an object (the informer updates the lister,
    then the event handler enqueues the event object), or the queue worker takes pending item `i` (any order:
    delayed requeues come back whenever) -/
inductive COp
  | write (o : Obj)
  | delete (name : Str)
  | deliver (i : Nat) (ord : List Str)

def removeAt (l : List Str) (i : Nat) : List Str := l.take i ++ l.drop (i + 1)

/-- one step; `none` = the process is gone -/
def Ctl.step (env : Env) (conn : Conn) (st : Ctl) : COp → Option Ctl
  | .write o => some { st with lister := astore o.name o st.lister, queue := st.queue ++ [o.name] }
  | .delete name => some { st with lister := aerase name st.lister, queue := st.queue ++ [name] }
  | .deliver i ord =>
    match st.queue[i]? with
    | none => some st
    | some name =>
      match syncUpstreamCluster env conn st name ord with
      | .crash => none
      | .requeue st' => some st'                                   -- same item stays pending
      | .done st' => some { st' with queue := removeAt st'.queue i }

def Ctl.run (env : Env) (conn : Conn) : Option Ctl → List COp → Option Ctl
  | none, _ => none
  | some st, [] => some st
  | some st, op :: r => Ctl.run env conn (st.step env conn op) r

end KG.Model.ClusterSync
